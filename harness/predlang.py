"""
The shared predicate / pattern / record language (mirrors
lean/BoboVerif/Drivers/Decider.lean): builds REAL bobocep objects from the
same text the Lean driver parses.

predicates: any | eq:k | ne:k | lt:k | gt:k | kind:<s|c|a> | sizelt:n | gtmax | grplt:<g>:<n> | raiseif:k:<pred> | simple:<pred>
pattern spec (dict): {'name', 'singleton', 'pre': [pred], 'halt': [pred], 'blocks': [(group, 'slno', [pred])]}
record  = id|phen|pat|idx|hist   hist = g=e.e;g=e   event = id:ts:kind:data   (`~` = empty group name)
"""
from bobocep.cep.engine.decider.runserial import BoboRunSerial
from bobocep.cep.event import BoboEventSimple, BoboEventComplex, BoboEventAction, BoboHistory
from bobocep.cep.phenom.pattern.pattern import BoboPattern, BoboPatternBlock
from bobocep.cep.phenom.pattern.predicate import BoboPredicateCall, BoboPredicateCallType
from bobocep.cep.phenom.phenom import BoboPhenomenon


class PredRaise(Exception):
    pass


RAISES = [PredRaise, StopIteration, AttributeError, IndexError, TypeError, ValueError]


def _library_errors():
    """every exception class the library itself defines (BoboPredicateError is the one it OFFERS to user predicates; a
    user may as well re-raise any other it met): harvested from the package, so a new class is covered without anybody
    remembering to list it"""
    import importlib
    import pkgutil
    import bobocep
    out = {}
    for m in pkgutil.walk_packages(bobocep.__path__, 'bobocep.'):
        try:
            mod = importlib.import_module(m.name)
        except Exception:   # noqa
            continue
        for v in vars(mod).values():
            if isinstance(v, type) and issubclass(v, Exception) and (v.__module__ or '').startswith('bobocep'):
                out[v.__module__ + '.' + v.__qualname__] = v
    return [out[k] for k in sorted(out)]


try:
    LIB_RAISES = _library_errors()
except Exception:   # noqa
    LIB_RAISES = []


class Unprintable(Exception):
    """an exception that cannot be turned into text (its message is built from an event whose data has no JSON form, say):
    whoever catches a predicate's exception has no business formatting it"""

    def __str__(self):
        raise TypeError('this exception has no text')

    __repr__ = __str__


RAISES.append(Unprintable)


def raise_class(n):
    """the n-th exception class a harness predicate raises: builtin classes and the library's own, alternating"""
    if n % 2 and LIB_RAISES:
        return LIB_RAISES[(n // 2) % len(LIB_RAISES)]
    return RAISES[(n // 2) % len(RAISES)]


class Num:
    """an integer-like user value with NO JSON form (a reading object, a Decimal-like, a numpy scalar …): compares,
    hashes and prints like the int it stands for.  Events carrying it behave exactly like events carrying the int for
    every predicate of this language; anything that needs the JSON text of an event (a log line built from `str(event)`, a
    serialiser called where none is needed) fails on it."""
    __slots__ = ('v',)

    def __init__(self, v):
        self.v = int(v)

    def _o(self, o):
        return o.v if isinstance(o, Num) else o

    def __eq__(self, o):
        return self.v == self._o(o)

    def __ne__(self, o):
        return self.v != self._o(o)

    def __lt__(self, o):
        return self.v < self._o(o)

    def __le__(self, o):
        return self.v <= self._o(o)

    def __gt__(self, o):
        return self.v > self._o(o)

    def __ge__(self, o):
        return self.v >= self._o(o)

    def __hash__(self):
        return hash(self.v)

    def __int__(self):
        return self.v

    def __index__(self):
        return self.v

    def __str__(self):
        return str(self.v)

    __repr__ = __str__

    def __format__(self, spec):
        return format(self.v, spec)


OPAQUE = {'on': False}
FEEDBACK = {'names': None}


def val(x):
    """the number an event carries.  A source may send it as the FIRST member of a record (`box`): the reading first, then
    whatever else it reports -- members of such a record keep the order they were sent in"""
    if type(x) is dict and x:
        return x[next(iter(x))]
    return x


def box(d, k=0):
    """the datum as a record whose first member is the reading (member names are NOT in alphabetical order)"""
    return {'v': d, 'unit': 'C', 'a': k, 'nested': {'z': 1, 'b': [d]}}


def kind_of(e):
    if isinstance(e, BoboEventComplex):
        return 'c'
    if isinstance(e, BoboEventAction):
        return 'a'
    return 's'


def mk_pred_fn(toks):
    op = toks[0]
    if op == 'any' and len(toks) == 1:
        return lambda e, h: True
    if op in ('eq', 'ne', 'lt', 'gt') and len(toks) == 2:
        k = int(toks[1])
        return {'eq': lambda e, h: val(e.data) == k, 'ne': lambda e, h: val(e.data) != k,
                'lt': lambda e, h: val(e.data) < k, 'gt': lambda e, h: val(e.data) > k}[op]
    if op == 'kind' and len(toks) == 2:
        k = toks[1]
        return lambda e, h: kind_of(e) == k
    if op == 'sizelt' and len(toks) == 2:
        n = int(toks[1])
        return lambda e, h: h.size() < n
    if op == 'gtmax' and len(toks) == 1:
        return lambda e, h: all(val(e.data) > val(x.data) for x in h.all_events())
    if op == 'grplt' and len(toks) == 3:
        g = '' if toks[1] == '~' else toks[1]
        n = int(toks[2])
        return lambda e, h: len(h.group(g)) < n
    if op == 'simple' and len(toks) >= 2:
        inner_s = mk_pred_fn(toks[1:])
        return lambda e, h: inner_s(e, h) if kind_of(e) == 's' else False
    if op == 'raiseif' and len(toks) >= 3:
        k = int(toks[1])
        inner = mk_pred_fn(toks[2:])

        def f(e, h):
            if val(e.data) == k:
                # the class varies with k and the event's time: some exception classes have a meaning of their own to the interpreter
                # (StopIteration ends an iterator, AttributeError / IndexError are swallowed by getattr-with-default and
                # by the sequence-iteration protocol) and a rewrite of the calling code may let one of them be taken
                # for something else than "the predicate raised"
                raise raise_class(k + (e.timestamp if isinstance(e.timestamp, int) else 0))(k)
            return inner(e, h)
        return f
    raise ValueError('bad predicate ' + ':'.join(toks))


_SHARED = {'on': False, 'cache': {}}


_JUNK = BoboEventSimple('junk', -1, -777)


def _poking(fn):
    """a user's predicate that WORKS ON ITS COPY of the history before it decides (adds the candidate to the dictionary
    `history.events` gave it, empties a group's list): `events` hands out a copy, so nothing of that may reach the run"""
    def f(e, h):
        view = h.events
        for g in list(view):
            view[g].append(e)
            view[g].insert(0, _JUNK)
        view['poked'] = [e, _JUNK]
        view2 = h.events
        if 'poked' in view2 or any(_JUNK in v for v in view2.values()):
            raise AssertionError('history.events handed out the same dictionary twice')
        return fn(e, h)
    return f


def mk_pred(s):
    # inside one configuration the same predicate text is ONE predicate object, as in user code that defines a predicate
    # once and uses it in several blocks / patterns / phenomena (whatever a predicate object remembers is then shared)
    if _SHARED['on']:
        if s not in _SHARED['cache']:
            _SHARED['cache'][s] = _wrap_pred(s)
        return _SHARED['cache'][s]
    return _wrap_pred(s)


def _wrap_pred(s):
    # where the stream carries numbers that are not `int` objects (OPAQUE), every third predicate is the library's TYPED
    # predicate for int: on a plain int it runs as it is, on a `Num` it runs on the event cast to int — the same verdict,
    # and an exception the user's function raises (TypeError and ValueError included: those are also what a failed cast
    # raises) is the user's exception on either path
    fn = _poking(mk_pred_fn(s.split(':')))
    if OPAQUE['on'] and sum(map(ord, s)) % 3 == 0:
        return BoboPredicateCallType(fn, int)
    return BoboPredicateCall(fn)


def grp(s):
    return '' if s == '~' else s


def ungrp(s):
    return '~' if s == '' else s


def mk_pattern(spec):
    # one pattern text = ONE pattern object inside a configuration (a pattern defined once and given to several phenomena)
    if _SHARED['on']:
        import json as _json
        key = ('pattern', _json.dumps(spec, sort_keys=True, default=str))
        if key not in _SHARED['cache']:
            _SHARED['cache'][key] = _mk_pattern(spec)
        return _SHARED['cache'][key]
    return _mk_pattern(spec)


def _mk_pattern(spec):
    blocks = []
    made = {}       # a block written once and used at several positions (`[first] + [reading] * 3`) is ONE object
    for (g, fl, preds) in spec['blocks']:
        key = (g, fl, tuple(preds))
        if key not in made:
            made[key] = BoboPatternBlock(
                predicates=[mk_pred(p) for p in preds], group=grp(g),
                strict=fl[0] == '1', loop=fl[1] == '1', negated=fl[2] == '1', optional=fl[3] == '1')
        blocks.append(made[key])
    pre = [mk_pred(p) for p in spec.get('pre', [])]
    halt = [mk_pred(p) for p in spec.get('halt', [])]
    pat = BoboPattern(name=spec['name'], blocks=blocks, preconditions=pre, haltconditions=halt,
                      singleton=bool(spec.get('singleton', False)))
    # the caller goes on using ITS lists (to build the next, longer pattern): the pattern is what it was built from
    blocks.append(BoboPatternBlock(predicates=[BoboPredicateCall(lambda e, h: True)], group='late', strict=False, loop=True,
                                   negated=False, optional=False))
    blocks.insert(0, blocks[-1])
    pre.append(BoboPredicateCall(lambda e, h: False))
    halt.append(BoboPredicateCall(lambda e, h: True))
    return pat


def mk_phenomena(phens, action=None, datagen=None):
    """phens: [(name, [pattern spec])]"""
    _SHARED['on'], _SHARED['cache'] = True, {}
    try:
        return [BoboPhenomenon(name=n, patterns=[mk_pattern(p) for p in pats],
                               action=(action(n) if action else None), datagen=datagen) for (n, pats) in phens]
    finally:
        _SHARED['on'], _SHARED['cache'] = False, {}


def config_lines(phens, cache):
    """the driver lines that build the same configuration in the Lean model."""
    out = ['reset', f'cache {cache}']
    for (n, pats) in phens:
        out.append(f'phen {n}')
        for p in pats:
            out.append(f"pat {p['name']} {1 if p.get('singleton') else 0}")
            for q in p.get('pre', []):
                out.append(f'pre {q}')
            for q in p.get('halt', []):
                out.append(f'halt {q}')
            for (g, fl, preds) in p['blocks']:
                out.append(f"blk {g} {fl} {','.join(preds)}")
    return out


# ---- events / records -----------------------------------------------------

WEIRD_TS = -777000      # `ev` lines with a timestamp at or below this stand for an event stamped by ITS SOURCE with something that
#                         is not a number of seconds (an ISO text, None): kept as given, it cannot be ordered against the others


def weird_ts(ts):
    if isinstance(ts, int) and ts <= WEIRD_TS:
        k = WEIRD_TS - ts
        return None if k % 3 == 2 else 'T2026-10-01-%04d' % k
    return ts


def mk_event(eid, ts, kind, data):
    ts = weird_ts(ts)
    if OPAQUE['on'] and sum(map(ord, str(eid))) % 2 == 0:
        data = Num(data)           # every other event carries its number as a value without JSON form
    if kind == 's':
        return BoboEventSimple(eid, ts, data)
    # complex / action events fed (back) into the stream carry the names of a phenomenon and a pattern: those of somebody
    # else, or -- every other one -- those of a pattern of THIS configuration (FEEDBACK['names'], set by the driver)
    ph, pa = ('xphen', 'xpat') if (FEEDBACK['names'] is None or sum(map(ord, str(eid))) % 2) else FEEDBACK['names']
    if kind == 'c':
        return BoboEventComplex(eid, ts, data, ph, pa, BoboHistory({}))
    if kind == 'a':
        return BoboEventAction(eid, ts, data, ph, pa, 'xact', True)
    raise ValueError(kind)


def show_event(e):
    return f'{e.event_id}:{e.timestamp}:{kind_of(e)}:{val(e.data)}'


def show_hist(h):
    ev = h.events
    return ';'.join(ungrp(g) + '=' + '.'.join(show_event(e) for e in es) for g, es in ev.items())


def show_rec(r):
    return f'{r.run_id}|{r.phenomenon_name}|{r.pattern_name}|{r.block_index}|{show_hist(r.history)}'


def show_recs(rs):
    return '[' + ' '.join(show_rec(r) for r in rs) + ']'


def parse_hist(s):
    d = {}
    if s:
        for g in s.split(';'):
            name, evs = g.split('=')
            d[grp(name)] = [mk_event(x.split(':')[0], int(x.split(':')[1]), x.split(':')[2], int(x.split(':')[3]))
                            for x in evs.split('.')]
    h = BoboHistory(d)
    # the caller goes on using ITS dictionary and lists (a history is a snapshot of what it was given)
    for g in list(d):
        d[g].append(_JUNK)
    d['later'] = [_JUNK]
    return h


def parse_rec(s, through_wire=True):
    rid, ph, pa, idx, h = s.split('|')
    r = BoboRunSerial(rid, ph, pa, int(idx), parse_hist(h))
    if through_wire:
        # records must cross a real serialise/parse boundary, as on a network
        r = BoboRunSerial.from_json_str(r.to_json_str())
    return r
