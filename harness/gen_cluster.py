"""seeded generators of cluster scenarios (schedules / fault sequences)."""
from harness import gen_patterns as gp

P = gp.pattern

# patterns whose predicates look at simple events only (complex/action feedback does not start runs)
def S(p):
    return 'simple:' + p


CONFLICT = [('ph', [P('p', ['0000', '0100', '0000', '0000'], [[S('eq:0')], [S('eq:1')], [S('eq:2')], [S('eq:3')]], halt=[S('eq:9')])])]
TWO = [('ph', [P('p', ['0000', '0000', '0000'], [[S('eq:0')], [S('eq:1')], [S('eq:2')]], halt=[S('eq:9')]),
               P('q', ['0000', '0001', '1000'], [[S('eq:1')], [S('eq:2')], [S('eq:3')]])])]
LOOPY = [('ph', [P('p', ['0000', '0100', '0100', '0000'], [[S('eq:0')], [S('eq:1')], [S('eq:2')], [S('eq:3')]], pre=[S('ne:8')])])]
# a one-block pattern completes on the event that starts it: the run is never stored, only remembered and announced
ONEBLOCK = [('ph', [P('o', ['0000'], [[S('eq:4')]]),
                    P('p', ['0000', '0000', '0000'], [[S('eq:0')], [S('eq:1')], [S('eq:2')]], halt=[S('eq:9')])])]
FAMILIES = [CONFLICT, TWO, LOOPY, ONEBLOCK]
DATA = [0, 0, 1, 1, 2, 2, 3, 3, 9, 4]


def schedule(rng, names, n_ops, faults=False, ticks=False):
    ops = []
    links = [(a, b) for a in names for b in names if a != b]
    for _ in range(n_ops):
        r = rng.random()
        if r < 0.30:
            ops.append(f'in {rng.choice(names)} {rng.choice(DATA)}')
        elif r < 0.55:
            ops.append(f'pass {rng.choice(names)}')
        elif r < 0.85:
            a, b = rng.choice(links)
            ops.append(f'del {a} {b}')
        elif r < 0.92 or not (faults or ticks):
            a, b = rng.choice(links)
            ops.append(f'dup {a} {b}')
        elif faults and r < 0.97:
            a, b = rng.choice(links)
            ops.append(f"{rng.choice(['down', 'down', 'up'])} {a} {b}")
        else:
            ops.append(f'tick {rng.choice([1, 5, 10, 31, 61])}')
    return ops


def scenario(rng, n_inst=None, n_ops=None, faults=False, ticks=False, cache=1000, phens=None):
    names = ['A', 'B', 'C'][:n_inst or rng.choice((2, 2, 3))]
    sc = {'names': names, 'phens': phens or rng.choice(FAMILIES), 'cache': cache,
          'ops': schedule(rng, names, n_ops or rng.randint(8, 40), faults, ticks) + ['heal']}
    if rng.random() < 0.2:
        sc['bomb'] = [n for n in names if rng.random() < 0.6]     # a failing sink behind some deciders (cluster.Bomb)
    return sc


def conflict_family():
    """2 instances, one run known to both, then a racing pair of inputs and every order of the remaining actions."""
    import itertools
    base = ['in A 0', 'pass A', 'pass A', 'del A B', 'del A B', 'pass B', 'del B A']
    races = [('in A 1', 'in B 9'), ('in A 9', 'in B 1'), ('in A 1', 'in B 1'), ('in A 1', 'in B 2'), ('in A 9', 'in B 9')]
    tail_atoms = ['pass A', 'pass B', 'del A B', 'del B A']
    for (x, y) in races:
        for order in itertools.permutations(tail_atoms):
            for first in ((x, y), (y, x)):
                yield {'names': ['A', 'B'], 'phens': CONFLICT, 'cache': 1000,
                       'ops': base + list(first) + list(order) + ['in A 2', 'in B 3'] + list(reversed(order)) + ['heal']}


# a full transfer after LESS silence than a ping (the constructor takes any pair)
EAGER_RESYNC = {'period_ping': 12, 'period_resync': 6, 'attempt_stash': 1, 'attempt_ping': 1, 'attempt_resync': 2}
SMALL_PERIODS = {'period_ping': 4, 'period_resync': 8, 'attempt_stash': 1, 'attempt_ping': 1, 'attempt_resync': 2}


def merged_backlog_family():
    """a SYNC that merges a backlog with newer changes: the same run named as updated and as completed / halted."""
    warm = ['in A 0', 'pass A', 'pass A', 'del A B', 'del A B', 'pass B', 'del B A', 'del B A']
    for fin in (['in A 2', 'in A 3'], ['in A 9'], ['in A 1', 'in A 9']):
        for fail in ('down', 'dup'):
            ops = list(warm)
            ops += [f'{fail} A B', 'in A 1', 'pass A']        # the update is not acknowledged -> backlog
            if fail == 'dup':
                ops += ['del A B']
            for x in fin:
                ops += [x]
            ops += ['up A B', 'tick 6', 'pass A', 'del A B', 'del A B', 'in B 2', 'in B 3', 'heal']
            yield {'names': ['A', 'B'], 'phens': CONFLICT, 'cache': 1000, 'ops': ops}
            ops3 = [o for o in ops if o != 'heal'] + ['pass A', 'del A C', 'del A C', 'heal']
            yield {'names': ['A', 'B', 'C'], 'phens': CONFLICT, 'cache': 1000, 'ops': ops3}


def instant_completion_family():
    """a run that completes on its first event (one-block pattern) is announced, remembered by the peer, and later comes
    back to its originator inside a full snapshot (the peer was out of contact for the resync period): nobody reports it twice."""
    first = ['pass A', 'pass B', 'del A B', 'del B A', 'pass A', 'pass B', 'del A B', 'del B A']
    for names in (['A', 'B'], ['A', 'B', 'C']):
        for extra in ([], ['in A 0'], ['in B 4']):
            for wait in (9, 31):
                ops = list(first) + ['in A 4', 'pass A', 'del A B'] + extra + ['sync', f'tick {wait}', 'pass B', 'del B A', 'del B A',
                                                                           'pass A', 'del A B', 'del A B', 'heal']
                yield {'names': names, 'phens': ONEBLOCK, 'cache': 1000, 'periods': dict(SMALL_PERIODS), 'ops': ops}


def finish_only_backlog_family():
    """the only thing a failed SYNC carried is the completion (or the halt) of a run: it sits alone in the peer's backlog,
    the link comes back and nothing else changes locally -- the backlog must still be sent on its own."""
    warm = ['sync', 'in A 0', 'sync', 'in A 1', 'sync', 'in A 2', 'sync']      # replicated everywhere, nothing queued or pending
    for fin in (['in A 3'], ['in A 9']):     # completes / halts the replicated run of the 4-block pattern: nothing else changes
        for fail in ('down', 'dup'):
            for periods in (None, dict(SMALL_PERIODS)):
                ops = list(warm) + [f'{fail} A B'] + fin + ['pass A'] + (['del A B'] if fail == 'dup' else [])
                ops += ['up A B', 'heal']
                sc = {'names': ['A', 'B'], 'phens': CONFLICT, 'cache': 1000, 'ops': ops}
                if periods:
                    sc['periods'] = periods
                yield sc
                yield {**sc, 'names': ['A', 'B', 'C'], 'ops': [o for o in ops if o != 'heal'] + ['pass A', 'del A C', 'heal']}


def remote_then_local_family():
    """a completion learned from a peer is still waiting in the producer's queue (the engine thread has not run since the
    distributed thread handed it to the decider) when a LOCAL change is announced by the same decider: the complex event
    of the remote completion is produced, but its action is not executed here."""
    warm = ['sync', 'in A 0', 'sync', 'in A 1', 'sync']
    for names in (['A', 'B'], ['A', 'B', 'C']):
        for local in (['in B 0'], ['in B 0', 'in B 1'], ['in B 4']):
            ops = list(warm) + ['in A 2', 'pass A', 'delq A B'] + local + ['sync', 'heal']
            yield {'names': names, 'phens': ONEBLOCK, 'cache': 1000, 'ops': ops}
            ops2 = list(warm) + ['in A 2', 'pass A', 'in B 0', 'delq A B', 'in B 1', 'sync', 'heal']
            yield {'names': names, 'phens': ONEBLOCK, 'cache': 1000, 'ops': ops2}


def newer_first_family():
    """one message names the same run twice, the NEWER state first: an unacknowledged SYNC (the change went to the
    backlog) followed by further progress of the same run -- the next SYNC carries the new change and then the older
    backlog entry, and the receiver is behind both."""
    for names in (['A', 'B'], ['A', 'B', 'C']):
        victim = names[-1]
        others = names[1:-1]
        for first, then in ((['in A 1'], ['in A 1']), (['in A 1'], ['in A 2']), (['in A 1', 'in A 1'], ['in A 1']), (['in A 1'], ['in A 1', 'in A 2'])):
            for fail in ('down', 'dup'):
                ops = ['in A 0', 'sync']
                for st in first:
                    ops += [f'{fail} A {victim}', st, 'pass A'] + ([f'del A {victim}'] if fail == 'dup' else [])
                    ops += [f'del A {o}' for o in others]
                ops += [f'up A {victim}']
                for st in then[:-1]:
                    ops += [st]
                ops += [then[-1], 'pass A'] + [f'del A {o}' for o in others] + [f'del A {victim}', 'heal']
                yield {'names': names, 'phens': CONFLICT, 'cache': 1000, 'ops': ops}


def fault_scenario(rng, small=None):
    small = rng.random() < 0.5 if small is None else small
    sc = scenario(rng, faults=True, ticks=True)
    if small:
        sc['periods'] = dict(EAGER_RESYNC) if rng.random() < 0.25 else dict(SMALL_PERIODS)
    return sc


def loop_race_family():
    """one instance repeats a looping block (history grows, index stays) while another leaves the loop (index grows, history
    shorter): the two positions are ordered by (index, history size), whatever the delivery order."""
    import itertools
    for names in (['A', 'B'], ['A', 'B', 'C']):
        for loops in (1, 2, 3):
            for leave in (['in B 2'], ['in B 2', 'in B 3'], ['in B 9']):
                base = ['in A 0', 'sync'] + ['in A 1'] * loops + leave
                moves = ['pass A', 'pass B', 'del A B', 'del B A'] + (['del A C', 'del B C'] if 'C' in names else [])
                for k, order in enumerate(itertools.permutations(moves)):
                    if k % (5 if 'C' in names else 2):
                        continue
                    yield {'names': names, 'phens': CONFLICT, 'cache': 1000,
                           'ops': base + list(order) + list(order) + ['heal']}


SING = [('ph', [P('s', ['0000', '0000', '0000'], [[S('eq:0')], [S('eq:1')], [S('eq:2')]], singleton=True)])]
SING2 = [('ph', [P('s', ['0000', '0100', '0000'], [[S('eq:0')], [S('eq:1')], [S('eq:2')]], singleton=True, halt=[S('eq:9')]),
                 P('n', ['0000', '0000'], [[S('eq:1')], [S('eq:3')]])])]


def singleton_merged_family():
    """singleton pattern, runs with different ids on two instances, and a SYNC that merges a backlog (a completion or halt of
    the sender's own run) with newer progress of the receiver's run, which the sender had adopted in the meantime."""
    for fin in (['in B 1', 'in B 2'], ['in B 9']):
        for fail in ('down', 'dup'):
            for phens in (SING, SING2):
                ops = ['pass A', 'pass B', 'del A B', 'del B A', 'pass A', 'pass B', 'del A B', 'del B A']   # first contact
                ops += [f'{fail} B A', 'in B 0', 'pass B'] + (['del B A'] if fail == 'dup' else [])
                ops += fin + ['pass B', 'pass B']                       # B's own run finishes; its sends to A fail: backlog
                ops += ['up B A', 'in A 0', 'pass A', 'del A B', 'in B 1', 'tick 6', 'pass B', 'del B A', 'del B A']
                ops += ['in A 1', 'in A 2', 'in A 0', 'heal']
                yield {'names': ['A', 'B'], 'phens': phens, 'cache': 1000, 'ops': ops}


def repeated_failure_family():
    """two or three consecutive failed SYNCs towards ONE peer carrying successive states of the same run (the link heals
    before the resync period and the run does not finish afterwards): the backlog must deliver the newest state."""
    for names in (['A', 'B'], ['A', 'B', 'C']):
        victim = names[-1]
        for steps in (['in A 1', 'in A 1'], ['in A 1', 'in A 2'], ['in A 1', 'in A 1', 'in A 2'], ['in A 2', 'in A 0']):
            for fail in ('down', 'dup'):
                ops = ['in A 0', 'sync']
                for st in steps:
                    ops += ([f'{fail} A {victim}'] if (fail == 'dup' or st is steps[0]) else []) + [st, 'pass A']
                    if fail == 'dup':
                        ops += [f'del A {victim}']
                    for other in names[1:-1]:
                        ops += [f'del A {other}']
                ops += [f'up A {victim}', 'tick 6', 'pass A', f'del A {victim}', f'del A {victim}', 'heal']
                yield {'names': names, 'phens': CONFLICT, 'cache': 1000, 'ops': ops}


def double_outage_family():
    """3 instances: BOTH outgoing links of one instance fail in the same pass (each peer gets its own backlog), both outages
    shorter than the resync period; the links come back one after the other, in either order: the second peer's backlog
    must still be there after the first one's was delivered (what is kept per peer must not be shared between peers)."""
    warm = ['sync', 'in A 0', 'sync', 'in A 1', 'sync']
    for work in (['in A 2'], ['in A 2', 'in A 3'], ['in A 9'], ['in A 1', 'in A 2'], ['in A 0']):
        for first, second in (('B', 'C'), ('C', 'B')):
            for between in ([], ['in A 0'], ['tick 6']):
                ops = list(warm) + ['down A B', 'down A C']
                for w in work:
                    ops += [w, 'pass A']
                ops += [f'up A {first}', 'pass A', f'del A {first}', f'del A {first}'] + between
                if between and between[0].startswith('in'):
                    ops += ['pass A', f'del A {first}']
                ops += [f'up A {second}', 'pass A', f'del A {second}', f'del A {second}', 'pass A', f'del A {second}', 'heal']
                for periods in (None, dict(SMALL_PERIODS)):
                    sc = {'names': ['A', 'B', 'C'], 'phens': CONFLICT, 'cache': 1000, 'ops': ops}
                    if periods:
                        sc['periods'] = periods
                    yield sc


def readdress_family():
    """a peer is away for longer than the resync period while the others change runs, and comes back under ANOTHER
    address; what it is owed (the full snapshot) does not depend on where its first message comes from, nor on whether
    that message arrives before or after the next attempt towards it."""
    for names in (['A', 'B'], ['A', 'B', 'C']):
        others = [n for n in names if n not in ('A', 'B')]
        for work in (['in A 1'], ['in A 1', 'in A 0'], ['in A 0', 'in A 1', 'in A 2']):
            for away in (61, 75, 200):
                for first in ('peer', 'attempt'):
                    ops = ['in A 0', 'sync', 'down A B', 'down B A'] + [f'down {o} B' for o in others] + [f'down B {o}' for o in others]
                    for w in work:
                        ops += [w, 'pass A'] + [f'del A {o}' for o in others]
                    ops += [f'tick {away}', 'pass A'] + [f'del A {o}' for o in others] + ['tick 3']
                    ops += ['readdr B', 'up A B', 'up B A'] + [f'up {o} B' for o in others] + [f'up B {o}' for o in others]
                    if first == 'peer':
                        ops += ['pass B', 'del B A'] + [f'del B {o}' for o in others]
                    ops += ['tick 1', 'pass A', 'del A B', 'del A B', 'tick 6', 'pass A', 'del A B', 'pass B', 'del B A', 'heal']
                    yield {'names': names, 'phens': CONFLICT, 'cache': 1000, 'ops': ops}


def resync_retry_family():
    """3 instances, all of them running their loops all the time (`sync` every few seconds: everybody stays in PING contact
    with everybody, except that A cannot reach B).  A's RESYNC to B, unreachable for the resync period, FAILS; before the
    retry is due a local change is made and goes out to the peer in contact (the outgoing queue is empty again); the link
    heals and the retried RESYNC is delivered.  What it carries is the state at THAT moment -- nobody else will repair it:
    B and C see no reason to resync."""
    warm = ['in A 0', 'sync']
    for away in (6, 7, 9):                      # x 10 s
        for work in (['in A 1'], ['in A 1', 'in A 2'], ['in A 0'], ['in A 9'], ['in A 1', 'in A 2', 'in A 3']):
            for gap in (2, 4):
                ops = list(warm) + ['down A B'] + ['tick 10', 'sync'] * away
                for w in work:
                    ops += [w, f'tick {gap}', 'sync']
                ops += ['up A B', 'tick 11', 'sync', 'tick 10', 'sync', 'tick 10', 'sync', 'heal']
                yield {'names': ['A', 'B', 'C'], 'phens': CONFLICT, 'cache': 1000, 'ops': ops}
                yield {'names': ['A', 'C', 'B'], 'phens': CONFLICT, 'cache': 1000, 'ops': ops}


def _dist_constants():
    """integer literals of the distributed component's source between 64 and 3000 (a cap on a batch, a slice bound …)"""
    import ast
    from harness import core
    out = set()
    for f in ('bobocep/dist/tcp.py', 'bobocep/dist/devman.py'):
        try:
            tree = ast.parse((core.REPO / f).read_text())
        except Exception:   # noqa
            continue
        for n in ast.walk(tree):
            if isinstance(n, ast.Constant) and type(n.value) is int and 64 <= n.value <= 3000:
                out.add(n.value)
    return sorted(out)


def big_backlog_family():
    """a backlog of MANY changes: 40 patterns started by the same datum, a link down for half a minute (shorter than the
    resync period) while well over a thousand run changes pile up for that peer (more than any batch bound the source
    mentions, see `_dist_constants`), then the link heals and the backlog goes out."""
    npat = 40
    need = max([1100] + [int(c * 1.1) + 40 for c in _dist_constants()])
    events = min(60, (need + npat - 1) // npat)
    phens = [('ph', [P(f'p{i}', ['0000', '0000', '0000'], [[S('eq:0')], [S('eq:1')], [S('eq:2')]]) for i in range(npat)])]
    for names in (['A', 'B', 'C'],):
        ops = ['sync', 'down A B']
        for k in range(events):
            ops += ['in A 0', 'pass A', 'del A C']
            if k % 2:
                ops.append('tick 1')
        ops += ['up A B', 'tick 3', 'sync', 'tick 6', 'sync', 'heal']
        yield {'names': names, 'phens': phens, 'cache': 1000, 'ops': ops}


def long_run_family():
    """more than an hour of simulated time on three instances that all keep running their loops: several hundred local
    changes at the three instances, a link that goes down and comes back every few minutes (short outages: backlog; long
    ones: resync), pings in the quiet stretches."""
    for variant in (0, 1):
        ops = []
        for i in range(420):
            who = 'ABC'[(i * 5 + i // 7) % 3]
            ops += [f'in {who} {(i * 3 + i // 4) % 4 if i % 17 else 9}', f'tick {(3, 7, 11, 2)[(i + variant) % 4]}']
            if i % 60 == 20 + variant:
                ops.append('down A B')
            if i % 60 == (24 if (i // 60) % 2 else 34) + variant:
                ops.append('up A B')
            if i % 90 == 45:
                ops.append('down C A')
            if i % 90 == 50:
                ops.append('up C A')
            ops.append('sync')
            if i % 100 == 99:
                ops += ['tick 35', 'sync', 'tick 31', 'sync']
        ops.append('heal')
        yield {'names': ['A', 'B', 'C'], 'phens': CONFLICT if variant == 0 else LOOPY, 'cache': 1000, 'ops': ops}


def change_during_resync_family():
    """the engine thread publishes a local change WHILE the outgoing thread is sending a RESYNC snapshot (taken before the
    change): the change is not in that snapshot, so it still has to go out afterwards -- at start-up (everybody is in the
    resync period) and after a long silence."""
    for names in (['A', 'B'], ['A', 'B', 'C']):
        for first in (['in A 0'], []):
            for during in ('in_A_0', 'in_A_0;in_A_1', 'in_A_1'):
                if not first and during == 'in_A_1':
                    continue
                for silence in (0, 61):
                    ops = list(first)
                    if silence:
                        ops += ['sync', f'tick {silence}']
                    ops += [f'passi A send:B {during}'] + [f'del A {o}' for o in names[1:]] * 2 + ['tick 1', 'sync', 'tick 6', 'sync', 'heal']
                    yield {'names': names, 'phens': CONFLICT, 'cache': 1000, 'ops': ops}


def change_during_backlog_retry_family():
    """a pass of the outgoing loop that starts with NOTHING new -- it only retries the backlogs of two peers whose links had
    failed -- and the engine thread publishes a local change while the send to one of them is in progress: whichever peer's
    turn comes next, the change reaches BOTH (with that pass, or the next), nobody stays behind for good.  Default and short
    periods; the change advances, completes or halts the run."""
    names = ['A', 'B', 'C']
    for periods, wait in ((None, 6), (dict(SMALL_PERIODS), 2)):
        for during in ('in_A_1', 'in_A_1;in_A_2', 'in_A_9', 'in_A_1;in_A_2;in_A_3'):
            for at in ('send:B', 'send:C'):
                for down in (('B', 'C'), ('B',), ('C',)):
                    ops = ['sync', 'in A 0', 'sync']
                    ops += [f'down A {d}' for d in down] + ['in A 1' if during == 'in_A_9' else 'in A 4', 'pass A']
                    ops += [f'del A {o}' for o in names[1:] if o not in down]
                    ops += [f'up A {d}' for d in down] + [f'tick {wait}']
                    ops += [f'passi A {at} {during}'] + ['del A B', 'del A C'] * 2
                    # healthy links for two minutes: pings keep everybody in contact, no resync comes to the rescue
                    for _ in range(8):
                        ops += ['tick 3', 'pass A', 'del A B', 'del A C', 'pass B', 'del B A', 'del B C', 'pass C', 'del C A', 'del C B']
                    ops += ['heal']
                    sc = {'names': names, 'phens': CONFLICT, 'cache': 1000, 'ops': ops}
                    if periods:
                        sc['periods'] = periods
                    yield sc


def stale_snapshot_in_pass_family():
    """FOUR instances: in one outgoing pass of A the first peer (B) is due a full transfer and cannot be reached, the second
    (C) is in contact and has a backlog, the last (D) is due a full transfer and can be reached -- and the engine publishes a
    change while the send to B is in progress.  C's SYNC takes the change off the queue; what D is handed is the state A
    holds WHEN D IS SERVED (a snapshot taken earlier in the pass lacks the change, and nothing would ever bring it to D:
    D is in contact from then on).  Short periods; the change advances, completes or halts the run."""
    names = ['A', 'B', 'C', 'D']
    for during in ('in_A_2', 'in_A_9', 'in_A_2;in_A_3', 'in_A_0'):
        for b_link in ('down', 'dup'):
            ops = ['sync', 'in A 0', 'sync', 'down A B', 'down A D']
            for _ in range(3):                                   # C stays in contact, B and D fall silent (9 s > resync period 8)
                ops += ['tick 3', 'pass A', 'del A C']
            ops += ['down A C', 'in A 1', 'pass A', 'up A C', 'up A D']      # a backlog for C (and failed full transfers to B, D)
            if b_link == 'dup':
                ops += ['up A B', 'dup A B']
            ops += ['tick 2', f'passi A send:B {during}', 'del A B', 'del A C', 'del A D', 'del A C', 'del A D']
            for _ in range(6):                                   # healthy links, pings only: nobody is owed a full transfer any more
                ops += ['tick 2', 'pass A', 'del A B', 'del A C', 'del A D', 'pass C', 'del C A', 'pass D', 'del D A']
            ops += ['same A C', 'same A D', 'heal']
            yield {'names': names, 'phens': CONFLICT, 'cache': 1000, 'periods': dict(SMALL_PERIODS), 'ops': ops}


def racing_engine_family():
    """the same run is finished (or advanced) on a peer and, at the same moment, locally: the peer's notification is being
    applied by the distributed thread while the engine thread processes the datum that does the same to the local copy
    (`inq` + `deli`): the run is reported once, stays finished, no second complex event, replicas agree."""
    for names in (['A', 'B'], ['A', 'B', 'C']):
        for phens, pre, last in ((CONFLICT, [0, 1, 2], 3), (CONFLICT, [0, 1, 2], 9), (CONFLICT, [0, 1], 2), (TWO, [0, 1], 2),
                                 (TWO, [1, 2], 3), (ONEBLOCK, [0, 1], 2), (LOOPY, [0, 1, 1, 2], 3)):
            for cache in (1000,):        # the finished-run memory is what makes a second report impossible
                ops = ['sync']
                for d in pre:
                    ops += [f'in A {d}', 'sync']
                # B does the last step and announces it; A has the same datum waiting in its receiver
                ops += [f'in B {last}', 'pass B', f'inq A {last}', 'deli B A', 'sync', 'heal']
                yield {'names': names, 'phens': phens, 'cache': cache, 'ops': ops}
                ops2 = ['sync']
                for d in pre:
                    ops2 += [f'in A {d}', 'sync']
                ops2 += [f'in B {last}', f'in B {pre[0]}', 'pass B', 'pass B', f'inq A {last}', f'inq A {pre[0]}', 'deli B A', 'deli B A', 'sync', 'heal']
                yield {'names': names, 'phens': phens, 'cache': cache, 'ops': ops2}
