import argparse
import importlib
import os
import sys
import traceback

from harness import core


def main() -> int:
    ap = argparse.ArgumentParser()
    ap.add_argument('prop')
    ap.add_argument('--tier', default=os.environ.get('VERIF_TIER', 'quick'), choices=['quick', 'thorough'])
    ap.add_argument('--replay', default=None)
    a = ap.parse_args()
    prop = a.prop.upper()
    try:
        mod = importlib.import_module('harness.props.' + prop.lower())
        return core.check_main(mod.SPEC, a.tier, a.replay)
    except SystemExit:
        raise
    except Exception:
        traceback.print_exc()
        print(f"INFRASTRUCTURE-FAILURE property={prop}", file=sys.stderr)
        return 2


if __name__ == '__main__':
    sys.exit(main())
