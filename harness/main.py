import argparse
import importlib
import os
import sys
import traceback

from harness import core


def main() -> int:
    ap = argparse.ArgumentParser()
    ap.add_argument('prop')
    ap.add_argument('--tier', default=os.environ.get('VERIF_TIER', 'quick'), choices=['quick', 'thorough'])
    ap.add_argument('--replay', default=None)
    a = ap.parse_args()
    prop = a.prop.upper()
    # watchdog: a check never hangs (a changed tree may leave a harness double unused and real sockets / threads waiting)
    import threading
    limit = float(os.environ.get('VERIF_TIMEOUT_S', 2700 if a.tier == 'quick' else 14400))

    def expired():
        print(f"INFRASTRUCTURE-FAILURE property={prop} (no result after {int(limit)} s)", file=sys.stderr)
        sys.stderr.flush()
        os._exit(2)
    wd = threading.Timer(limit, expired)
    wd.daemon = True
    wd.start()
    try:
        # non-public names of bobocep that were merely renamed get their recorded names back as forwarding aliases, before
        # any harness module imports or patches them (translate/renames.py)
        from translate import renames
        aliased = renames.install_aliases(core.REPO)
        if aliased:
            print('NOTE renamed non-public names addressed through aliases: ' + ', '.join(f'{w}.{o}->{n}' for w, o, n in aliased[:12]))
        mod = importlib.import_module('harness.props.' + prop.lower())
        return core.check_main(mod.SPEC, a.tier, a.replay)
    except SystemExit:
        raise
    except Exception:
        traceback.print_exc()
        print(f"INFRASTRUCTURE-FAILURE property={prop}", file=sys.stderr)
        return 2


if __name__ == '__main__':
    sys.exit(main())
