"""
A BoboHistory (and the events in it) is handed out live — `run.history()`, `BoboRunSerial.history`, a complex event's
`history` — so several threads read ONE object: the engine thread evaluating history-dependent predicates, the
distributed thread serialising it for a peer, a subscriber logging it.  Every accessor must give, under every
interleaving with another accessor, what it gives alone.  Explored with harness/interleave.py: every field access of
the history is a scheduling point (the object has no lock).
"""
from harness import interleave as il
from bobocep.cep.event import BoboHistory, BoboEventSimple, BoboEventComplex, BoboEventAction


def mk_history():
    inner = BoboHistory({'k': [BoboEventSimple('i1', 3, {'a': [1, 2.5, None]}), BoboEventSimple('i2', 4, 'x "q" \\ ü')]})
    return BoboHistory({
        'first': [BoboEventSimple('e1', 10, 1), BoboEventSimple('e2', 12, 'two')],
        '': [BoboEventComplex('c1', 5, None, 'ph', 'pa', inner)],
        'third ü': [BoboEventAction('a1', 20, {'k': True}, 'ph', 'pa', 'act', False), BoboEventSimple('e3', 8, 0)],
    })


ACCESSORS = {
    'first': lambda h: h.first().event_id,
    'last': lambda h: h.last().event_id,
    'size': lambda h: h.size(),
    'all_events': lambda h: tuple(e.event_id for e in h.all_events()),
    'group': lambda h: tuple(e.event_id for e in h.group('third ü')) + tuple(h.group('nope')),
    'events': lambda h: tuple((g, tuple(e.event_id for e in es)) for g, es in h.events.items()),
    'to_json_str': lambda h: h.to_json_str(),
    'str': lambda h: str(h),
}


def run(res, only=None):
    from harness.core import Violation

    class Sys:
        pass

    def build():
        s = Sys()
        s.h = mk_history()
        s.out = {}
        return s
    names = sorted(ACCESSORS)
    pairs = [(a, b) for a in names for b in names]
    for a, b in pairs:
        if only is not None and (only.get('x'), only.get('y')) != (a, b):
            continue

        def opx(s, a=a):
            s.out['x'] = ACCESSORS[a](s.h)

        def opy(s, b=b):
            s.out['y'] = ACCESSORS[b](s.h)
        v, st = il.explore(build, opx, opy, lambda s: (s.out.get('x'), s.out.get('y')), fields_of=lambda s: [s.h],
                           two_preemptions=False, max_runs=120)
        res.add_case({'history_race': [a, b]}, nontrivial=True)
        res.count('history_race_interleavings', st['runs'])
        if v is not None:
            res.violations.append(Violation(
                'history-accessor-not-atomic',
                f"one BoboHistory read by two threads: `{a}()` with `{b}()` started at the first thread's field access #{v['k']}: results "
                f"{str(v['got'])[:300]}; each alone gives {str(v['allowed'][0])[:300]}", {'history_race': True, 'x': a, 'y': b, 'k': v['k']}))
            return
