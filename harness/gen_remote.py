"""
Adaptive generator of single-decider histories mixing local events with
arbitrary remote updates (ahead / equal / behind / unknown pattern / foreign
id / finished / duplicated / merged), derived from the state the REAL decider
is in while the history is being generated.
"""
from harness.drive_decider import RealDecider
from harness import predlang as pl
from harness.decider_suite import Case


def _parse_table(line):
    """records of the T[...] part of an impl output line."""
    t = line[line.rindex('T[') + 2:-1]
    return [r.rstrip('!') for r in t.split()] if t else []


def _bump(rec, rng, nblocks, eid):
    """a record ahead of `rec`: same index with a longer history, or a higher index."""
    rid, ph, pa, idx, h = rec.split('|')
    idx = int(idx)
    groups = h.split(';')
    extra = f'{eid}:{900 + rng.randint(0, 9)}:s:{rng.randint(0, 4)}'
    if rng.random() < 0.5 or idx + 1 >= nblocks:
        groups[-1] = groups[-1] + '.' + extra
    else:
        idx = rng.randint(idx + 1, max(idx + 1, nblocks - 1))
        groups.append(f'z{eid}=' + extra)
    return '|'.join([rid, ph, pa, str(idx), ';'.join(groups)])


def _crossed(rec, rng, eid):
    """a record BEHIND `rec` in block index but with a LONGER history (a peer that kept repeating a looping block)."""
    rid, ph, pa, idx, h = rec.split('|')
    idx = int(idx)
    if idx <= 1:
        return None
    groups = h.split(';')
    extra = '.'.join(f'{eid}{k}:{900 + k}:s:{rng.randint(0, 4)}' for k in range(len(h.split('.')) + 2))
    return '|'.join([rid, ph, pa, str(rng.randint(1, idx - 1)), groups[0] + ';zc' + eid + '=' + extra])


def _behind(rec):
    rid, ph, pa, idx, h = rec.split('|')
    g0 = h.split(';')[0]
    first = g0.split('=')[0] + '=' + g0.split('=')[1].split('.')[0]
    return '|'.join([rid, ph, pa, '1', first])


def gen_history(rng, phens, cache, n_ops, data_hi=4, p_remote=0.4):
    rd = RealDecider(phens, cache)
    pats = {(ph, p['name']): p for ph, ps in phens for p in ps}
    ops, last_out = [], 'T[]'
    finished = []       # records seen finished (for stale replays)
    named_finished = []  # records this decider was TOLD are finished (remote completed/halted lists, foreign ids included)
    seen = []           # every record ever seen
    fid = 0
    t = 0
    for _ in range(n_ops):
        table = _parse_table(last_out)
        if rng.random() > p_remote:
            op = f'ev e{t} {t} s {rng.randint(0, data_hi)}'
            t += 1
        else:
            lists = {'C': [], 'H': [], 'U': []}
            for _k in range(rng.choice((1, 1, 2, 3))):
                kind = rng.choice(['ahead', 'ahead', 'equal', 'behind', 'crossed', 'crossed', 'unknown', 'foreign', 'finish', 'stale', 'new'])
                base = rng.choice(table) if table else None
                if kind in ('ahead', 'equal', 'behind', 'crossed', 'finish') and base is None:
                    kind = 'new'
                if kind == 'ahead':
                    key = tuple(base.split('|')[1:3])
                    lists['U'].append(_bump(base, rng, len(pats[key]['blocks']) if key in pats else 3, f'x{fid}'))
                    fid += 1
                elif kind == 'equal':
                    lists['U'].append(base)
                elif kind == 'behind':
                    lists['U'].append(_behind(base))
                elif kind == 'crossed':
                    x = _crossed(base, rng, f'y{fid}')
                    fid += 1
                    lists['U'].append(x if x else _behind(base))
                elif kind == 'finish':
                    lists[rng.choice('CH')].append(base)
                    if rng.random() < 0.3:       # merged message: also named as updated
                        lists['U'].append(base)
                elif kind == 'stale' and named_finished and rng.random() < 0.5:
                    # an overtaken update for a run the instance was already told is finished (under whatever id)
                    r0 = rng.choice(named_finished).split('|')
                    r0[3] = '1'
                    lists['U'].append('|'.join(r0[:4] + [r0[4].split(';')[0].split('.')[0]]))
                elif kind == 'stale' and (finished or seen):
                    # a finished run named again (C/H), or an old position of some run named as updated
                    # (well-formed: a record in the updated list is always inside the block list)
                    if seen and rng.random() < 0.6:
                        lists['U'].append(rng.choice(seen))
                    elif finished:
                        lists[rng.choice('CH')].append(rng.choice(finished))
                elif kind == 'unknown':
                    lists[rng.choice('CHU')].append(f'u{fid}|nophen|nopat|1|g=q{fid}:1:s:1')
                    fid += 1
                elif kind == 'foreign' or kind == 'new' or kind == 'stale':
                    (ph, pa) = rng.choice(list(pats))
                    nb = len(pats[(ph, pa)]['blocks'])
                    idx = rng.randint(1, max(1, nb - 1))
                    lists[rng.choice('UUUCH')].append(f'f{fid}|{ph}|{pa}|{idx}|g=q{fid}:1:s:{rng.randint(0, data_hi)}')
                    fid += 1
            if rng.random() < 0.1 and lists['U']:
                lists['U'].append(lists['U'][0])     # duplicate inside one message
            op = 'rem ' + ' '.join(k + ' ' + ' '.join(v) for k, v in lists.items() if v)
            if op.strip() == 'rem':
                op = f'ev e{t} {t} s {rng.randint(0, data_hi)}'
                t += 1
        out = rd.do(op)
        ops.append(op)
        if op.startswith('rem '):
            cur_l = None
            for x in op.split()[1:]:
                if x in ('C', 'H', 'U'):
                    cur_l = x
                elif cur_l in ('C', 'H') and x.split('|')[1:3] != ['nophen', 'nopat']:
                    named_finished.append(x)
        if out == 'X':
            break
        last_out = out
        for part in ('C[', 'H['):
            i = out.index(part) + 2
            j = out.index(']', i)
            finished += out[i:j].split()
        seen += _parse_table(out)
        seen = seen[-50:]
    # a third of the histories: a further subscriber that fails on notifications of finished runs (drive_decider.Bomb)
    return Case(phens, cache, ops, 'remote-mix+bomb' if rng.random() < 0.34 else 'remote-mix')
