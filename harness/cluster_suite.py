"""
Scenario runner + oracles for the cluster-level properties (C03..C07).

A scenario is {'names', 'phens', 'cache', 'periods', 'ops'}; ops are strings:
  in <i> <d>      datum d enters instance i (engine runs to quiescence)
  pass <i>        one iteration of i's outgoing loop (real `_tcp_outgoing` body)
  inq <i> <d>               datum queued in i's receiver, engine not run yet
  deli <src> <dst>          deliver while dst's engine thread races the distributed thread for the decider's lock
  passi <i> <point> <src>   the same, with i's incoming thread handling the next message from <src> at the boundary
                  <point> of the outgoing thread (lock = after the decision phase, send:<peer> = during that send)
  del <i> <j>     deliver the oldest in-flight message on link i->j (order per pair preserved)
  dup <i> <j>     the next send on link i->j is delivered but reported to the sender as failed (=> re-delivery)
  down <i> <j> / up <i> <j>   link fault / repair
  tick <s>        the shared clock advances s seconds
  crash <i> / restart <i>     instance lost / replaced by a fresh one
  sync            outgoing passes + deliveries until nothing is queued, stashed or in flight
  heal            all links up, then `sync` with clock advances (backlog / resync retries need time)
"""
from typing import Callable, Dict, List, Optional, Tuple

from harness.core import Result, Violation, Ctx, run_model
from harness.cluster import Cluster, hist_key, TYPE_NAMES
from harness import predlang as pl

# status lattice of docs/distributed.rst "Recovery Scenarios": complete > halt > update(position) > unknown
BOT, HALTED, COMPLETED = (0, 0, 0), (2, 0, 0), (3, 0, 0)


def active(idx, size):
    return (1, idx, size)


def locks_owned(inst):
    objs = [getattr(inst, k, None) for k in ('decider', 'tcp', 'receiver', 'producer', 'forwarder', 'handler', 'engine')]
    objs = [o for o in objs if o is not None]
    try:
        objs += list(inst.decider.all_runs())
    except Exception:   # noqa
        pass
    try:
        objs += list(getattr(inst.tcp, '_devices', {}).values()) if inst.tcp is not None else []
    except Exception:   # noqa
        pass
    out = []
    for o in objs:
        try:
            items = list(vars(o).items())
        except TypeError:
            continue
        for k, v in items:
            owned = getattr(v, '_is_owned', None)
            if owned is not None and hasattr(v, 'acquire'):
                try:
                    if owned():
                        out.append(f'{type(o).__name__}.{k}')
                except Exception:   # noqa
                    pass
    return out


class Obs:
    """per-instance observation state used by the oracles (independent of the Lean model)."""

    def __init__(self):
        self.finished: Dict[str, Tuple] = {}       # run id -> HALTED / COMPLETED as first reported here
        self.completed_count: Dict[str, int] = {}  # run id -> number of 'completed' notifications here
        self.n_notifs = 0


def rec_id(r):
    return r.run_id


class Runner:
    def __init__(self, sc, hooks: Optional[Dict[str, Callable]] = None):
        self.sc = sc
        self.c = Cluster(sc['names'], sc['phens'], cache=sc.get('cache', 1000), periods=sc.get('periods'),
                         with_action=sc.get('with_action', True), quiet=sc.get('quiet', ()), bomb=sc.get('bomb', ()))
        self.obs: Dict[str, Obs] = {n: Obs() for n in sc['names']}
        self.violations: List[Tuple[str, str, int]] = []   # (sig, what, step)
        self.step = -1
        self.last_ok: Dict[Tuple[str, str], int] = {}     # (src,dst) -> clock of last successful send
        self.wire_seen: Dict[str, int] = {n: 0 for n in sc['names']}
        self.hooks = hooks or {}

    # ---- oracles evaluated after every operation (C05) ----
    def after_step(self):
        for n, inst in self.c.insts.items():
            if not inst.alive:
                continue
            # lock balance: between two steps of the schedule nothing runs, so the driving thread owns no lock of the
            # instance (a lock released on the normal path only would stay with it -- and stop every other thread)
            held = locks_owned(inst)
            if held:
                self.fail('lock-left-held', f"between two steps the driving thread still owns {held} of instance {n}")
                return
            o = self.obs[n]
            for (comp, halt, upd, local) in inst.drec.notifs[o.n_notifs:]:
                for r in comp:
                    o.completed_count[r.run_id] = o.completed_count.get(r.run_id, 0) + 1
                    if o.completed_count[r.run_id] > 1:
                        self.fail('completed-twice', f"instance {n} reported run {r.run_id} completed twice (second complex event)")
                    o.finished[r.run_id] = COMPLETED
                for r in halt:
                    if o.finished.get(r.run_id) is None:
                        o.finished[r.run_id] = HALTED
            o.n_notifs = len(inst.drec.notifs)
            # completions / halts the instance was TOLD about by a peer count as seen, under the peer's id as well
            # (for a singleton pattern the notification carries the local run's id instead)
            for (op, _out) in inst.trace[getattr(o, 'n_trace', 0):]:
                if op.startswith('rem '):
                    cur_l = None
                    for x in op.split()[1:]:
                        if x in ('C', 'H', 'U'):
                            cur_l = x
                        elif cur_l == 'C':
                            o.finished[x.split('|')[0]] = COMPLETED
                        elif cur_l == 'H':
                            o.finished.setdefault(x.split('|')[0], HALTED)
            o.n_trace = len(inst.trace)
            live_ids = {r.run_id for r in inst.decider.all_runs()}
            back = live_ids & set(o.finished)
            if back and self.sc.get('cache', 1000) >= 1000:
                rid = sorted(back)[0]
                self.fail('finished-run-resurrected', f"run {rid} finished on instance {n} and is active there again")
            # at most one execution per completed run on an instance, none for a completion learned from a peer
            seen = set()
            for e in inst.exec_log:
                if e in seen:
                    self.fail('action-executed-twice', f"instance {n} executed the action twice for {e[1]} {hist_key(e[2])}")
                seen.add(e)
            remote_complete = {(ce[0], ce[1], ce[2]) for ce in inst.cerec.events if not ce[3]}
            if remote_complete & set(inst.exec_log):
                self.fail('remote-completion-executed-action', f"instance {n} executed the action for a completion learned from a peer")
            # the same, judged from what the DECIDER announced (the producer's local flag may itself be wrong): per
            # (pattern, history) no more executions than completions announced with local=True
            from collections import Counter
            loc = Counter()
            for (comp, _h, _u, local) in inst.drec.notifs:
                if local:
                    for r in comp:
                        f = pl.show_rec(r).split('|')
                        loc[(f[2], hist_key(f[4]))] += 1
            ex = Counter((e[1], hist_key(e[2])) for e in inst.exec_log)
            over = ex - loc
            if over:
                k0 = sorted(over)[0]
                self.fail('remote-completion-executed-action',
                          f"instance {n} executed the action {ex[k0]} time(s) for pattern {k0[0]} / history {k0[1]} but completed "
                          f"{loc[k0]} such run(s) itself (the others were learned from a peer)")
        # a notification kept by a subscriber is a snapshot (C12)
        for n, inst in self.c.insts.items():
            ch = inst.drec.changed()
            if ch is not None:
                self.fail('published-snapshot-changed',
                          f"the {ch[1]} list of notification #{ch[0]} handed to a decider subscriber of {n} held {ch[2]} run record(s) "
                          f"when it was handed over and holds {ch[3]} now")
                inst.drec.kept = []
        # resync-before-incremental (C06): a successful send after an outage >= period_resync must be a RESYNC
        pr = (self.sc.get('periods') or {}).get('period_resync', 60)
        for n, inst in self.c.insts.items():
            for (t, dst, typ, flags, err) in inst.wire_log[self.wire_seen.get(n, 0):]:
                if err == 0:
                    last = self.last_ok.get((inst.tag, dst))
                    if last is not None and t - last >= pr and typ != 'RESYNC':
                        self.fail('incremental-after-outage', f"{n} sent {typ} to {dst} {t - last}s after the last contact (resync period {pr}s)")
                    self.last_ok[(inst.tag, dst)] = t
            self.wire_seen[n] = len(inst.wire_log)

    def fail(self, sig, what):
        self.violations.append((sig, what, self.step))

    # ---- convergence oracle (C04 / C06 / C07), evaluated at quiescence ----
    def check_converged(self, tag='not-converged'):
        live = self.c.live()
        if not live:
            return
        ref = live[0].positions()
        for i in live[1:]:
            p = i.positions()
            if p != ref:
                diff = sorted(set(p.items()) ^ set(ref.items()))[:3]
                self.fail(tag, f"at quiescence {live[0].name} and {i.name} hold different runs/positions: {diff}")
                return
        # a run completed anywhere is reported completed on every live instance (exactly once: see after_step)
        everywhere = set()
        for i in live:
            everywhere |= {r for r, st in self.obs[i.name].finished.items() if st == COMPLETED}
        for i in live:
            if self.c.gens[i.name] > 0:
                continue            # a restarted instance legitimately misses what finished before its restart beyond the memory
            missing = everywhere - {r for r, st in self.obs[i.name].finished.items() if st == COMPLETED}
            if missing:
                self.fail('completion-not-reported-everywhere', f"run {sorted(missing)[0]} completed somewhere but {i.name} never reported it")
                return

    # ---- recovery oracle (C07), evaluated at quiescence ----
    def check_restarted(self, tag='not-converged'):
        """every instance that was restarted holds, for each run key on which the other live instances agree, exactly what
        they hold.  (Where the others disagree among themselves the cause is what the lost process had told only some
        of them before it died -- its outgoing queue and backlogs die with it -- and no recovery protocol can decide
        that for the restarted instance; agreement among instances that never crashed is C04/C06.)"""
        live = self.c.live()
        if not any(self.c.gens[i.name] > 0 for i in live):
            return self.check_converged(tag)
        pos = {i.name: i.positions() for i in live}
        for x in live:
            if self.c.gens[x.name] == 0:
                continue
            others = [pos[i.name] for i in live if i is not x]
            if not others:
                continue
            keys = set(pos[x.name])
            for o in others:
                keys |= set(o)
            for k in sorted(keys):
                vals = {o.get(k) for o in others}
                if len(vals) == 1 and pos[x.name].get(k) != next(iter(vals)):
                    self.fail(tag, f"at quiescence the restarted instance {x.name} holds run {k} at {pos[x.name].get(k)} "
                                   f"but every other live instance holds it at {next(iter(vals))}")
                    return

    def do(self, op: str):
        w = op.split()
        c = self.c
        k = w[0]
        if k == 'in':
            if c.insts[w[1]].alive:
                c.input(w[1], int(w[2]))
        elif k == 'pass':
            if c.insts[w[1]].alive:
                c.pass_(w[1])
        elif k == 'passi':
            # passi <i> <point> <src>: i's outgoing pass with the incoming handler of i delivering the next message
            # from <src> at the given atomic-step boundary (point = lock | send:<peer>)
            # <src> may also be a list of whole operations `op_arg_arg;op_arg` run at that boundary (e.g. the peer
            # crashes, restarts and announces itself while the send is in progress)
            if c.insts[w[1]].alive:
                if ';' in w[3] or '_' in w[3]:
                    inner = [o.replace('_', ' ') for o in w[3].split(';')]
                    c.insts[w[1]].outgoing_pass({w[2]: (lambda: [self.do(o) for o in inner])})
                else:
                    c.insts[w[1]].outgoing_pass({w[2]: (lambda: c.deliver(w[3], w[1]))})
        elif k == 'del':
            c.deliver(w[1], w[2])
        elif k == 'delq':
            # the distributed main thread hands the message to the decider, but the engine thread has not run yet: the
            # completions wait in the producer's queue until the next engine cycle (e.g. the next input)
            c.deliver(w[1], w[2], settle=False)
        elif k == 'inq':
            # data handed to the receiver by a feeder thread; the engine thread has not run yet
            if c.insts[w[1]].alive:
                c.insts[w[1]].receiver.add_data(int(w[2]))
        elif k == 'deli':
            # deliver with the engine thread racing the distributed thread for the decider's lock (see Inst.receive_racing_engine)
            c.deliver(w[1], w[2], racing=True)
        elif k == 'dup':
            c.net.fail_after_delivery.add((w[1], w[2]))
        elif k == 'down':
            c.net.down.add((w[1], w[2]))
        elif k == 'up':
            c.net.down.discard((w[1], w[2]))
        elif k == 'tick':
            c.clock.t += int(w[1])
        elif k == 'readdr':
            # the instance's connections come from another address from now on (DHCP lease, roaming, NAT rebinding)
            if not hasattr(c, 'src_addr'):
                c.src_addr = {}
            c.src_addr[w[1]] = '10.%d.%d.7' % (len(c.src_addr) + 9, c.clock.t % 250)
        elif k == 'crash':
            c.crash(w[1])
        elif k == 'restart':
            c.restart(w[1])
            self.obs[w[1]] = Obs()
            self.wire_seen[w[1]] = 0
        elif k == 'same':
            # same <i> <j>: at this point of the schedule the two instances hold the same runs at the same positions
            a, b = self.c.insts[w[1]], self.c.insts[w[2]]
            if a.alive and b.alive and a.positions() != b.positions():
                diff = sorted(set(a.positions().items()) ^ set(b.positions().items()))[:3]
                self.fail('not-converged', f"after minutes of healthy links and nothing left to send, {w[1]} and {w[2]} hold different "
                                           f"runs/positions: {diff}")
        elif k == 'sync':
            self.sync()
        elif k == 'heal':
            self.heal()
        else:
            raise ValueError(op)

    def sync(self):
        """every live instance runs its outgoing loop and everything in flight is delivered, in a fixed fair order,
        with the per-step oracles evaluated after each elementary action."""
        c = self.c
        for _ in range(40):
            busy = False
            for i in c.live():
                if i.tcp is None:
                    continue
                if i.queue_len() or any(i.stash_len(p) for p in c.names if p != i.name and c.insts[p].alive):
                    busy = True
                n = 0
                while True:
                    i.outgoing_pass()
                    self.after_step()
                    n += 1
                    if not i.queue_len() or n > 50:
                        break
            for (s, d), q in list(c.net.links.items()):
                while q:
                    busy = True
                    c.deliver(s, d)
                    self.after_step()
            if not busy:
                return True
        return False

    def heal(self):
        c = self.c
        c.net.down.clear()
        c.net.down |= getattr(c, 'dead_links', set())      # a lost process stays unreachable
        c.net.fail_after_delivery.clear()
        for _ in range(30):
            if self.sync() and c.quiescent():
                # give pending pings / resyncs a chance: advance the clock past the retry intervals once more
                c.clock.t += 11
                if self.sync() and c.quiescent():
                    return True
            c.clock.t += 11
        self.fail('no-quiescence', 'the cluster did not become quiescent after healing all links')
        return False

    def run(self) -> 'Runner':
        for k, op in enumerate(self.sc['ops']):
            self.step = k
            self.do(op)
            self.after_step()
        self.step = len(self.sc['ops'])
        return self


def model_check_traces(ctx: Ctx, runners: List[Runner], res: Result):
    """per-component tie: every decider call made in these scenarios is replayed on the Lean decider model."""
    if not ctx.model_available():
        res.disagreements.append({'correspondence': 'decider', 'error': 'model driver did not build'})
        return
    lines, outs, index = [], [], []
    for k, r in enumerate(runners):
        for inst in list(r.c.insts.values()) + r.c.dead:
            l, o = inst.model_lines()
            index.append((k, inst.tag, len(lines), len(l)))
            lines += l
            outs += o
    if not lines:
        return
    model = run_model('decider', lines)
    for (k, tag, off, n) in index:
        for j in range(n):
            if model[off + j] != outs[off + j]:
                if len(res.disagreements) < 5:
                    res.disagreements.append({'scenario': runners[k].sc, 'instance': tag, 'op': lines[off + j],
                                              'model': model[off + j], 'impl': outs[off + j]})
                break
    res.traces_validated += len(index)
    res.count('decider_calls_replayed_on_model', sum(1 for l in lines if l.startswith(('ev ', 'rem '))))


# ---------------------------------------------------------------------------
# the documented conflict table as an oracle over a decider trace (C04)
# ---------------------------------------------------------------------------

def _parse_recs(txt):
    return [x for x in txt.split()] if txt else []


def _lists(line, start=0):
    out = {}
    for tag in 'CHU':
        i = line.index(tag + '[', start) + 2
        j = line.index(']', i)
        out[tag] = _parse_recs(line[i:j])
        start = j
    i = line.index('T[', start) + 2
    out['T'] = [r.rstrip('!') for r in _parse_recs(line[i:line.rindex(']')])]
    return out


def _pos(rec):
    f = rec.split('|')
    size = sum(len(g.split('=')[1].split('.')) for g in f[4].split(';')) if f[4] else 0
    return (f[0], (1, int(f[3]), size))


def conflict_table_check(inst, singleton_keys, known_keys) -> Optional[str]:
    """
    Replays one instance's recorded decider calls and checks every remote update against the documented
    conflict table: status after = max(status before, statuses carried by the message) in the order
    unknown < progress(position) < halted < completed; a run is reported completed/halted exactly when it
    crosses that level; progress never moves backwards.  Returns a description of the first mismatch.
    """
    finished: Dict[str, Tuple] = {}
    table: Dict[str, Tuple] = {}
    for (op, out) in inst.trace:
        if out == 'X':
            return f"exception escaped the decider on {op[:80]}"
        ls = _lists(out)
        new_table = dict(_pos(r) for r in ls['T'])
        if op.startswith('ev '):
            # LocalIsJoin (the hypothesis of `cluster_convergence_partial`), observed on the real decider: local
            # processing announces exactly what it changes — every run whose status differs afterwards is in the
            # notification with exactly its new status, what is announced is what holds afterwards, and runs
            # that are not mentioned are untouched.
            said: Dict[str, Tuple] = {}
            for r in ls['U']:
                rid, st = _pos(r)
                said[rid] = max(said.get(rid, BOT), st)
            for r in ls['H']:
                said[r.split('|')[0]] = max(said.get(r.split('|')[0], BOT), HALTED)
            for r in ls['C']:
                said[r.split('|')[0]] = COMPLETED
            for rid in set(table) | set(new_table) | set(said):
                before = finished.get(rid) or table.get(rid) or BOT
                after_fin = COMPLETED if said.get(rid) == COMPLETED else (HALTED if said.get(rid) == HALTED and before < HALTED else None)
                after = finished.get(rid) if (finished.get(rid) and not after_fin) else (after_fin or new_table.get(rid) or BOT)
                expect = max(before, said.get(rid, BOT))
                if rid in new_table and (after_fin or finished.get(rid)):
                    if after_fin:
                        return f"{op}: run {rid} announced finished by local processing but still active"
                    continue        # zombie of an earlier defect: reported by the resurrected-run oracle
                if after != expect:
                    return (f"{op}: local-is-join fails for run {rid}: status before {before}, notification says "
                            f"{said.get(rid, BOT)}, status after {after}")
            for r in ls['C']:
                finished[r.split('|')[0]] = COMPLETED
            for r in ls['H']:
                finished.setdefault(r.split('|')[0], HALTED)
        else:
            msg: Dict[str, Tuple] = {}
            cur = None
            for x in op.split()[1:]:
                if x in 'CHU' and len(x) == 1:
                    cur = x
                    continue
                f = x.split('|')
                key = (f[1], f[2])
                if key in singleton_keys:
                    continue
                rid = f[0]
                if cur == 'U':
                    if key not in known_keys:
                        continue
                    st = _pos(x)[1]
                else:
                    st = COMPLETED if cur == 'C' else HALTED
                msg[rid] = max(msg.get(rid, BOT), st)
            for rid, m in msg.items():
                before = finished.get(rid) or table.get(rid) or BOT
                expect = max(before, m)
                in_c = sum(1 for r in ls['C'] if r.split('|')[0] == rid)
                in_h = sum(1 for r in ls['H'] if r.split('|')[0] == rid)
                if expect == COMPLETED:
                    want_c = 1 if before < COMPLETED else 0
                    if in_c != want_c and not (in_c > want_c and op.count(rid + '|') > 1):
                        return f"{op[:90]}: run {rid} was {before}, message says completed; reported completed {in_c}x (expected {want_c})"
                    if rid in new_table:
                        return f"{op[:90]}: run {rid} is completed but active afterwards"
                    finished[rid] = COMPLETED
                elif expect == HALTED:
                    if in_c:
                        return f"{op[:90]}: run {rid} reported completed without a completion"
                    if before < HALTED and in_h < 1:
                        return f"{op[:90]}: run {rid} should have been halted (halt beats progress)"
                    if before >= HALTED and in_h:
                        return f"{op[:90]}: run {rid} was already finished and is announced halted again"
                    if rid in new_table:
                        return f"{op[:90]}: run {rid} is halted but active afterwards"
                    finished[rid] = HALTED
                else:
                    got = new_table.get(rid)
                    if got is None or got[:3] != expect[:3]:
                        return f"{op[:90]}: run {rid} was at {before}, message carries {m}; now {got} (expected {expect}: progress never moves back)"
        table = new_table
    return None
