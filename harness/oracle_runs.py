"""
Reference semantics of pattern detection, transcribed from docs/phenomena.rst
and the C01 statement (NOT from run.py): the executable form of the
declarative specification `Bobo.Run.specStep` / `Bobo.Decider` of
lean/BoboVerif/Props/C01.lean.  It is the property oracle for C01/C12/C13/C14:
a third implementation, used to decide whether a model/implementation
disagreement is a semantic violation.

A pattern spec is the dict of harness/predlang.py; events are tuples
(id, ts, kind, data); a history is an ordered list of (group, [event]).
Predicates are evaluated with the same text language; 'raise' = PredRaise.
"""
from typing import List, Optional, Tuple

Event = Tuple[str, int, str, int]


class Raised(Exception):
    pass


def hist_all(h):
    return [e for _, es in h for e in es]


def eval_pred(toks, e: Event, h) -> bool:
    op = toks[0]
    d = e[3]
    if op == 'any':
        return True
    if op == 'eq':
        return d == int(toks[1])
    if op == 'ne':
        return d != int(toks[1])
    if op == 'lt':
        return d < int(toks[1])
    if op == 'gt':
        return d > int(toks[1])
    if op == 'kind':
        return e[2] == toks[1]
    if op == 'sizelt':
        return len(hist_all(h)) < int(toks[1])
    if op == 'gtmax':
        return all(d > x[3] for x in hist_all(h))
    if op == 'grplt':
        g = '' if toks[1] == '~' else toks[1]
        return sum(len(es) for k, es in h if k == g) < int(toks[2])
    if op == 'simple':
        return eval_pred(toks[1:], e, h) if e[2] == 's' else False
    if op == 'raiseif':
        if d == int(toks[1]):
            raise Raised()
        return eval_pred(toks[2:], e, h)
    raise ValueError(toks)


def ev(p: str, e, h) -> bool:
    return eval_pred(p.split(':'), e, h)


def accepts(block, e, h) -> bool:
    """a block accepts an event when any of its predicates holds (first raise before a hit propagates)."""
    for p in block[2]:
        if ev(p, e, h):
            return True
    return False


def add_to_group(h, g, e):
    g = '' if g == '~' else g
    out = [(k, list(es)) for k, es in h]
    for k, es in out:
        if k == g:
            es.append(e)
            return out
    out.append((g, [e]))
    return out


class RefRun:
    def __init__(self, rid, phen, pat, idx, hist, halted=False):
        self.rid, self.phen, self.pat, self.idx, self.hist, self.halted = rid, phen, pat, idx, hist, halted

    def complete(self):
        return self.idx >= len(self.pat['blocks'])

    def offer(self, e: Event) -> bool:
        """
        Offer one event; returns True iff the run changed.  Raises `Raised`
        (leaving the run untouched) when a predicate that had to be consulted raised.
        """
        if self.halted:
            return False
        pat = self.pat
        # conditions are consulted before the block, on the history as it was
        pres = [ev(p, e, self.hist) for p in pat.get('pre', [])]
        if pres and not all(pres):
            self.halted = True
            return True
        halts = [ev(p, e, self.hist) for p in pat.get('halt', [])]
        if halts and any(halts):
            self.halted = True
            return True
        blocks = pat['blocks']
        # find the deciding block: optional blocks and relaxed looping blocks that do
        # not accept the event are passed over
        j = self.idx
        while True:
            if j >= len(blocks):
                raise IndexError('walk left the block list')
            g, fl, _ = blocks[j]
            strict, loop, neg, opt = (c == '1' for c in fl)
            hit = accepts(blocks[j], e, self.hist)
            if (not hit) and (opt or (loop and not strict)):
                j += 1
                continue
            break
        if loop:
            if hit:     # looping block repeats: the event is recorded, the position stays
                self.hist = add_to_group(self.hist, g, e)
                return True
            self.halted = True          # strict looping block missed
            return True
        if neg:
            if hit:                      # the forbidden event happened
                if strict:
                    self.halted = True
                    return True
                return False             # relaxed: keep waiting
            self._advance(j, g, e)       # first non-matching event advances
            return True
        if hit:
            self._advance(j, g, e)
            return True
        if strict:
            self.halted = True
            return True
        return False

    def _advance(self, j, g, e):
        self.hist = add_to_group(self.hist, g, e)
        self.idx = j + 1
        if self.complete():
            self.halted = True

    def rec(self):
        return (self.rid, self.phen, self.pat['name'], self.idx, self.hist)


def show_event(e):
    return f'{e[0]}:{e[1]}:{e[2]}:{e[3]}'


def show_hist(h):
    return ';'.join(('~' if g == '' else g) + '=' + '.'.join(show_event(e) for e in es) for g, es in h)


def show_rec(r):
    return f'{r[0]}|{r[1]}|{r[2]}|{r[3]}|{show_hist(r[4])}'


class RefDecider:
    """single-engine reference: existing runs first (in table order), then pattern starts."""

    def __init__(self, phens):
        self.phens = phens
        # table: phen -> pattern name -> [RefRun], insertion ordered
        self.table: List[Tuple[str, List[Tuple[str, List[RefRun]]]]] = []
        self.next_id = 0

    def _bucket(self, ph, pa, create):
        for k, pats in self.table:
            if k == ph:
                for k2, rs in pats:
                    if k2 == pa:
                        return rs
                if create:
                    pats.append((pa, []))
                    return pats[-1][1]
                return None
        if create:
            self.table.append((ph, [(pa, [])]))
            return self.table[-1][1][0][1]
        return None

    def all_runs(self):
        return [r for _, pats in self.table for _, rs in pats for r in rs]

    def event(self, e: Event):
        completed, halted, updated = [], [], []
        # (i) every run that existed before the event is offered it exactly once
        for _, pats in self.table:
            for _, rs in pats:
                for r in list(rs):
                    try:
                        changed = r.offer(e)
                    except (Raised, IndexError):
                        continue                     # the run is left exactly as it was
                    if changed:
                        if r.halted:
                            rs.remove(r)
                            (completed if r.complete() else halted).append(r.rec())
                        else:
                            updated.append(r.rec())
        # (ii) pattern starts; the new run is not offered the event
        new_completed = []
        for ph, pats in self.phens:
            for pat in pats:
                b0 = pat['blocks'][0]
                hit = False
                for p in b0[2]:
                    try:
                        if ev(p, e, []):
                            hit = True
                            break
                    except Raised:
                        pass
                if not hit:
                    continue
                rid = f'r{self.next_id}'
                self.next_id += 1
                run = RefRun(rid, ph, pat, 1, [('' if b0[0] == '~' else b0[0], [e])])
                if run.complete():
                    new_completed.append(run.rec())
                    continue
                bucket = self._bucket(ph, pat['name'], False)
                if pat.get('singleton') and bucket:
                    continue
                self._bucket(ph, pat['name'], True).append(run)
                updated.append(run.rec())
        completed += new_completed
        return completed, halted, updated

    def line(self, e: Event) -> str:
        c, h, u = self.event(e)
        ch = 1 if (c or h or u) else 0
        fmt = lambda rs: '[' + ' '.join(show_rec(r) for r in rs) + ']'
        tab = 'T[' + ' '.join(show_rec(r.rec()) + ('!' if r.halted else '') for r in self.all_runs()) + ']'
        return f'{ch} C{fmt(c)} H{fmt(h)} U{fmt(u)} | {tab}'
