import BoboVerif.Props.C04
/-!
C06 — Link failures lose nothing: backlog or full resync restores consistency.

Network level (Lemmas/Net.lean, per run key).  A failed send leaves the message
in the sender's backlog (it stays "in flight"); a send that fails after delivery
is a delivery WITHOUT removal; an outage is simply the absence of deliveries.
So every sequence of send failures, timeouts and outages is a schedule of `Net`
steps, and `net_inv_every_step` (C04) applies to all of them.  What C06 adds:

* `resync_supersedes`: a RESYNC drops the whole backlog towards a peer and
  sends a snapshot instead — the invariant "everything i announced is known to
  j or on its way to j" survives that, because an instance knows at least what
  it announced (J4) and the snapshot carries everything it knows;
* `failed_resync_pending`: if that RESYNC fails the pair is marked
  resync-pending, and only a successful snapshot clears the mark
  (`pending_cleared_only_by_snapshot`), i.e. the next message can only be a
  snapshot — the code side of this is C15's `resync_only`: once the resync period
  has elapsed mode selection returns RESYNC or nothing, never SYNC or PING;
* `heal_converges`: whenever, after healing, nothing is in flight or pending,
  all instances agree — nothing stale, missing or resurrected.

The accounting of ONE outgoing pass (`outIter_accounts`: the queue item consumed
is, per peer, on the wire, appended to the backlog, or the peer is in the resync
period) is proved on the outgoing-loop model in Props/C15.lean / Lemmas/Tcp.lean.
-/
namespace Bobo.Net
open Bobo.Lattice

/-- dropping the backlog is safe when a snapshot replaces it. -/
theorem resync_supersedes {n : Nat} (s : St n) (h : Inv s) (i j : Fin n) (hij : i ≠ j) :
    (step s (.resync i j true)).pending i j = false ∧
    (step s (.resync i j true)).own i ≤
      join ((step s (.resync i j true)).know j) (joinAll ((step s (.resync i j true)).flight i j)) := by
  have hinv := inv_step s h (.resync i j true)
  have hp : (step s (.resync i j true)).pending i j = false := by simp [step, upd2]
  refine ⟨hp, ?_⟩
  rcases hinv.j1 i j hij with hpend | hle
  · rw [hp] at hpend; exact absurd hpend (by decide)
  · exact hle

/-- a failed RESYNC leaves the pair resync-pending (the backlog is gone, only a snapshot can follow). -/
theorem failed_resync_pending {n : Nat} (s : St n) (i j : Fin n) :
    (step s (.resync i j false)).pending i j = true ∧ (step s (.resync i j false)).flight i j = [] := by
  simp [step, upd2]

/-- only a successful snapshot clears the mark. -/
theorem pending_cleared_only_by_snapshot {n : Nat} (s : St n) (st : Step n) (i j : Fin n)
    (hp : s.pending i j = true) (hc : (step s st).pending i j = false) : st = .resync i j true := by
  cases st with
  | say a d => simp [step] at hc; rw [hp] at hc; exact absurd hc (by decide)
  | deliver a b k r =>
    simp only [step] at hc
    split at hc <;> (rw [hp] at hc; exact absurd hc (by decide))
  | snapshot a b => simp [step] at hc; rw [hp] at hc; exact absurd hc (by decide)
  | resync a b ok =>
    cases ok
    · simp only [step, Bool.false_eq_true, if_false, upd2] at hc
      split at hc
      · simp at hc
      · rw [hp] at hc; exact absurd hc (by decide)
    · simp only [step, if_true, upd2] at hc
      split at hc
      · rename_i e; obtain ⟨e1, e2⟩ := e; subst e1 e2; rfl
      · rw [hp] at hc; exact absurd hc (by decide)

/-- after any fault sequence: once healed and quiescent, every instance holds the join of everything
announced — no run is left stale or missing. -/
theorem heal_converges {n : Nat} (steps : List (Step n)) (hq : Quiescent (run (init n) steps)) (j : Fin n) :
    (run (init n) steps).know j = allOwn (run (init n) steps) :=
  quiescent_know_eq _ (net_inv_every_step steps) hq j

/-- … and no status is ever lost on the way (nothing is resurrected: knowledge only grows). -/
theorem know_monotone {n : Nat} (s : St n) (st : Step n) (j : Fin n) : s.know j ≤ (step s st).know j := by
  cases st with
  | say i d =>
    simp only [step, upd]; split
    · rename_i e; subst e; exact le_join_left _ _
    · exact le_refl _
  | deliver a b k r =>
    simp only [step]
    split
    · exact le_refl _
    · simp only [upd]; split
      · rename_i e; subst e; exact le_join_left _ _
      · exact le_refl _
  | snapshot a b => exact le_refl _
  | resync a b ok => cases ok <;> exact le_refl _

/-! non-vacuity: an outage — the backlog is dropped, the first resync fails, the second succeeds -/
example : (run (init 2) [.say 0 (active 1 1), .say 0 halted, .resync 0 1 false, .resync 0 1 true,
    .deliver 0 1 0 true]).know 1 = halted := by decide

end Bobo.Net
