import BoboVerif.Props.C04
import BoboVerif.Model.Tcp
import BoboVerif.Lemmas.Tcp
import BoboVerif.Props.C15
import BoboVerif.Lemmas.TcpAccount
import BoboVerif.Lemmas.TcpRun
import BoboVerif.Lemmas.TcpLattice
import BoboVerif.Lemmas.ClusterFaults
import BoboVerif.Lemmas.TcpCluster
/-!
C06 — Link failures lose nothing: backlog or full resync restores consistency.

Network level (Lemmas/Net.lean, per run key).  A failed send leaves the message
in the sender's backlog (it stays "in flight"); a send that fails after delivery
is a delivery WITHOUT removal; an outage is simply the absence of deliveries.
So every sequence of send failures, timeouts and outages is a schedule of `Net`
steps, and `net_inv_every_step` (C04) applies to all of them.  What C06 adds:

* `resync_supersedes`: a RESYNC drops the whole backlog towards a peer and
  sends a snapshot instead — the invariant "everything i announced is known to
  j or on its way to j" survives that, because an instance knows at least what
  it announced (J4) and the snapshot carries everything it knows;
* `failed_resync_pending`: if that RESYNC fails the pair is marked
  resync-pending, and only a successful snapshot clears the mark
  (`pending_cleared_only_by_snapshot`), i.e. the next message can only be a
  snapshot — the code side of this is C15's `resync_only`: once the resync period
  has elapsed mode selection returns RESYNC or nothing, never SYNC or PING;
* `heal_converges`: whenever, after healing, nothing is in flight or pending,
  all instances agree — nothing stale, missing or resurrected.

The accounting of ONE outgoing pass (`outIter_accounts`: the queue item consumed
is, per peer, on the wire, appended to the backlog, or the peer is in the resync
period) is proved on the outgoing-loop model in Props/C15.lean / Lemmas/Tcp.lean.
-/
namespace Bobo.Net
open Bobo.Lattice

/-- dropping the backlog is safe when a snapshot replaces it. -/
theorem resync_supersedes {n : Nat} (s : St n) (h : Inv s) (i j : Fin n) (hij : i ≠ j) :
    (step s (.resync i j true)).pending i j = false ∧
    (step s (.resync i j true)).own i ≤
      join ((step s (.resync i j true)).know j) (joinAll ((step s (.resync i j true)).flight i j)) := by
  have hinv := inv_step s h (.resync i j true)
  have hp : (step s (.resync i j true)).pending i j = false := by simp [step, upd2]
  refine ⟨hp, ?_⟩
  rcases hinv.j1 i j hij with hpend | hle
  · rw [hp] at hpend; exact absurd hpend (by decide)
  · exact hle

/-- a failed RESYNC leaves the pair resync-pending (the backlog is gone, only a snapshot can follow). -/
theorem failed_resync_pending {n : Nat} (s : St n) (i j : Fin n) :
    (step s (.resync i j false)).pending i j = true ∧ (step s (.resync i j false)).flight i j = [] := by
  simp [step, upd2]

/-- only a successful snapshot clears the mark. -/
theorem pending_cleared_only_by_snapshot {n : Nat} (s : St n) (st : Step n) (i j : Fin n)
    (hp : s.pending i j = true) (hc : (step s st).pending i j = false) : st = .resync i j true := by
  cases st with
  | say a d => simp [step] at hc; rw [hp] at hc; exact absurd hc (by decide)
  | deliver a b k r =>
    simp only [step] at hc
    split at hc <;> (rw [hp] at hc; exact absurd hc (by decide))
  | snapshot a b => simp [step] at hc; rw [hp] at hc; exact absurd hc (by decide)
  | resync a b ok =>
    cases ok
    · simp only [step, Bool.false_eq_true, if_false, upd2] at hc
      split at hc
      · simp at hc
      · rw [hp] at hc; exact absurd hc (by decide)
    · simp only [step, if_true, upd2] at hc
      split at hc
      · rename_i e; obtain ⟨e1, e2⟩ := e; subst e1 e2; rfl
      · rw [hp] at hc; exact absurd hc (by decide)

/-- after any fault sequence: once healed and quiescent, every instance holds the join of everything
announced — no run is left stale or missing. -/
theorem heal_converges {n : Nat} (steps : List (Step n)) (hq : Quiescent (run (init n) steps)) (j : Fin n) :
    (run (init n) steps).know j = allOwn (run (init n) steps) :=
  quiescent_know_eq _ (net_inv_every_step steps) hq j

/-- … and no status is ever lost on the way (nothing is resurrected: knowledge only grows). -/
theorem know_monotone {n : Nat} (s : St n) (st : Step n) (j : Fin n) : s.know j ≤ (step s st).know j := by
  cases st with
  | say i d =>
    simp only [step, upd]; split
    · rename_i e; subst e; exact le_join_left _ _
    · exact le_refl _
  | deliver a b k r =>
    simp only [step]
    split
    · exact le_refl _
    · simp only [upd]; split
      · rename_i e; subst e; exact le_join_left _ _
      · exact le_refl _
  | snapshot a b => exact le_refl _
  | resync a b ok => cases ok <;> exact le_refl _

/-! non-vacuity: an outage — the backlog is dropped, the first resync fails, the second succeeds -/
example : (run (init 2) [.say 0 (active 1 1), .say 0 halted, .resync 0 1 false, .resync 0 1 true,
    .deliver 0 1 0 true]).know 1 = halted := by decide

end Bobo.Net


/-! ---------------------------------------------------------------------------------------------
## Transport side of C06: the accounting of ONE pass of the outgoing loop (`Bobo.Tcp.outIter`)

Model/Tcp.lean; helper lemmas in Lemmas/Tcp.lean and Lemmas/TcpAccount.lean.  Sequential pass
(other threads act between passes); all devices, every outcome vector, all clocks and periods,
any queue contents.  `e` is the dict entry of device `j` before the pass; "the wire to `j`" is
`(outIter …).2.find? (·.peer == j)` (every device gets at most one message per pass).

When is the queue popped?  `cache_sync` is resolved at the first SYNC branch of the send phase:
the head is popped iff at least one SYNC is handed to the wire (`outIter_queue_exact`), and with
a non-empty queue that is iff some other device is not in the resync period (`pop_iff`).
--------------------------------------------------------------------------------------------- -/
namespace Bobo.Tcp
variable {Rec : Type}

/-- the device is in the resync period at the decision of this pass. -/
def InResync (cfg : Periods) (now : Int) (p : Peer Rec) : Prop := now - p.lastComms ≥ cfg.periodResync

/-- the three backlog lists. -/
def stashOf (p : Peer Rec) : List Rec × List Rec × List Rec := (p.stashC, p.stashH, p.stashU)

/-- what the pass does for a device other than self, in terms of the tree's decision for it. -/
theorem pass_for_device (s : TState Rec) (now : Int) (snap : Msg Rec) (outcome : Nat → Nat × Int)
    (j : Nat) (e : String × Peer Rec) (he : s.peers[j]? = some e) (hself : e.1 ≠ s.self) :
    (outIter s now snap outcome).2.find? (fun w => w.peer == j) =
      (decideOne s.cfg now s.queue.isEmpty e.2).map (fun t => wireOf snap s.queue j (t, e.2.resets) e) ∧
    (outIter s now snap outcome).1.peers[j]? =
      some (match decideOne s.cfg now s.queue.isEmpty e.2 with
            | none => e
            | some t => entryAfter snap s.queue outcome j (t, e.2.resets) e) := by
  have hw := outIter_wire s now snap outcome j
  have hp := outIter_peer s now snap outcome j
  rw [he] at hw hp
  simp only [Option.bind_some, Option.map_some] at hw hp
  have hd : decideEntry s.cfg s.self now s.queue.isEmpty e
      = (decideOne s.cfg now s.queue.isEmpty e.2).map (fun t => (t, e.2.resets)) := by
    simp [decideEntry, hself]
  rw [hd] at hw hp
  refine ⟨?_, ?_⟩
  · rw [hw]; cases decideOne s.cfg now s.queue.isEmpty e.2 <;> rfl
  · rw [hp]; cases decideOne s.cfg now s.queue.isEmpty e.2 <;> rfl

/-- **`outIter_accounts`**: the queue is non-empty, `q` is its head.  For EVERY device `j` other than
self exactly one of three cases holds (the guards are mutually exclusive) — there is no fourth:
(a) not in the resync period, send reported successful: a SYNC carrying `q ++ (j's backlog)` was on
    the wire to `j`, and `j`'s backlog is empty afterwards;
(b) not in the resync period, send reported failed (timeout or error, including "failed after
    delivery"): the same SYNC was attempted, and `q`'s three lists were appended to `j`'s backlog
    (old backlog kept, in order), `last_comms` unchanged;
(c) `j` is in the resync period: nothing, or a RESYNC carrying the snapshot, was sent to `j` (backlog
    dropped in that case; on failure `last_comms` unchanged, so `j` stays in the resync period —
    `resync_pending_persists`, `outage_then_resync_seq`).
In particular a device in the PING period takes the SYNC branch when the queue is non-empty. -/
theorem outIter_accounts (s : TState Rec) (now : Int) (snap : Msg Rec) (outcome : Nat → Nat × Int)
    (q : Msg Rec) (rest : List (Msg Rec)) (hq : s.queue = q :: rest)
    (j : Nat) (e : String × Peer Rec) (he : s.peers[j]? = some e) (hself : e.1 ≠ s.self) :
    let r := outIter s now snap outcome
    let w := r.2.find? (fun w => w.peer == j)
    let syncWire : Wire Rec := ⟨j, .sync, flagsOf e.2, ⟨q.c ++ e.2.stashC, q.h ++ e.2.stashH, q.u ++ e.2.stashU⟩⟩
    (¬ InResync s.cfg now e.2 ∧ (outcome j).1 = 0 ∧ w = some syncWire ∧
      ∃ p', r.1.peers[j]? = some (e.1, p') ∧ stashOf p' = ([], [], []) ∧ p'.lastComms = max 0 (outcome j).2) ∨
    (¬ InResync s.cfg now e.2 ∧ (outcome j).1 ≠ 0 ∧ w = some syncWire ∧
      ∃ p', r.1.peers[j]? = some (e.1, p') ∧
        stashOf p' = (e.2.stashC ++ q.c, e.2.stashH ++ q.h, e.2.stashU ++ q.u) ∧ p'.lastComms = e.2.lastComms) ∨
    (InResync s.cfg now e.2 ∧
      ((w = none ∧ r.1.peers[j]? = some e) ∨
       (w = some ⟨j, .resync, flagsOf e.2, snap⟩ ∧
         ∃ p', r.1.peers[j]? = some (e.1, p') ∧ stashOf p' = ([], [], []) ∧
           ((outcome j).1 ≠ 0 → p'.lastComms = e.2.lastComms)))) := by
  intro r w syncWire
  obtain ⟨hw, hp⟩ := pass_for_device s now snap outcome j e he hself
  have hqe : s.queue.isEmpty = false := by rw [hq]; rfl
  have hcache : cacheOf s.queue = q := by rw [hq]; rfl
  by_cases hres : InResync s.cfg now e.2
  · right; right
    refine ⟨hres, ?_⟩
    have hd : decideOne s.cfg now s.queue.isEmpty e.2
        = if now - e.2.lastAttempt ≥ s.cfg.attemptResync then some .resync else none := by
      unfold decideOne; exact resync_only _ _ _ _ _ hres
    by_cases ha : now - e.2.lastAttempt ≥ s.cfg.attemptResync
    · right
      rw [hd, if_pos ha] at hw hp
      refine ⟨by simpa [wireOf, payload] using hw, _, hp, ?_, ?_⟩
      · by_cases herr : (outcome j).1 = 0
        · have := (book_success .resync e.2.resets snap (cacheOf s.queue) (outcome j).2 e.2).2.2.2.2.2.2 (by decide)
          simp only [stashOf]; rw [herr]; simp [this]
        · have := (book_failure .resync e.2.resets snap (cacheOf s.queue) _ herr (outcome j).2 e.2).2.2.2.2.2.1 rfl
          simp only [stashOf]; simp [this]
      · intro herr
        exact (book_failure .resync e.2.resets snap (cacheOf s.queue) _ herr (outcome j).2 e.2).1
    · left
      rw [hd, if_neg ha] at hw hp
      exact ⟨hw, hp⟩
  · have hd : decideOne s.cfg now s.queue.isEmpty e.2 = some .sync := by
      unfold decideOne
      rw [sync_when_work]
      refine ⟨by unfold InResync at hres; omega, Or.inl hqe⟩
    rw [hd] at hw hp
    have hwire : w = some syncWire := by
      simpa [wireOf, payload, prep, hcache] using hw
    by_cases herr : (outcome j).1 = 0
    · left
      refine ⟨hres, herr, hwire, _, hp, ?_, ?_⟩
      · have := (book_success .sync e.2.resets snap (cacheOf s.queue) (outcome j).2 e.2).2.2.2.2.2.2 (by decide)
        simp only [stashOf]; rw [herr]; simp [this]
      · have := (book_success .sync e.2.resets snap (cacheOf s.queue) (outcome j).2 e.2).1
        rw [herr]; simpa using this
    · right; left
      refine ⟨hres, herr, hwire, _, hp, ?_, ?_⟩
      · have := (book_failure .sync e.2.resets snap (cacheOf s.queue) _ herr (outcome j).2 e.2).2.2.2.2.1 rfl
        rw [hcache] at this
        simpa [stashOf, hcache, entryAfter] using this
      · exact (book_failure .sync e.2.resets snap (cacheOf s.queue) _ herr (outcome j).2 e.2).1

/-- **when the pop happens**: with a non-empty queue `q :: rest`, the pass leaves `rest` iff some device
other than self is not in the resync period (it then takes the SYNC branch, which resolves `cache_sync`);
otherwise the queue is untouched (the item waits; devices in the resync period get the snapshot instead). -/
theorem pop_iff (s : TState Rec) (now : Int) (snap : Msg Rec) (outcome : Nat → Nat × Int)
    (q : Msg Rec) (rest : List (Msg Rec)) (hq : s.queue = q :: rest) :
    ((outIter s now snap outcome).1.queue = rest ↔
      ∃ (j : Nat) (e : String × Peer Rec), s.peers[j]? = some e ∧ e.1 ≠ s.self ∧ ¬ InResync s.cfg now e.2) ∧
    ((outIter s now snap outcome).1.queue = rest ∨ (outIter s now snap outcome).1.queue = q :: rest) := by
  have hex := outIter_queue_exact s now snap outcome
  rw [hq] at hex
  simp only [List.tail_cons] at hex
  have hne : (q :: rest) ≠ rest := by
    intro h; have := congrArg List.length h; simp at this
  refine ⟨⟨?_, ?_⟩, ?_⟩
  · intro hrest
    rcases hex with ⟨_, hqq⟩ | ⟨⟨w, hw, hwt⟩, _⟩
    · rw [hrest] at hqq; exact absurd hqq.symm hne
    · obtain ⟨e, ts, hpe, hde, hweq⟩ := outIter_wire_of_mem s now snap outcome w hw
      refine ⟨w.peer, e, hpe, ?_, ?_⟩
      · intro hs; simp [decideEntry, hs] at hde
      · have hts : ts.1 = .sync := by rw [hweq] at hwt; exact hwt
        unfold decideEntry at hde
        split at hde
        · cases hde
        · cases hdo : decideOne s.cfg now s.queue.isEmpty e.2 with
          | none => rw [hdo] at hde; cases hde
          | some t =>
            rw [hdo] at hde
            simp only [Option.map_some, Option.some.injEq] at hde
            rw [← hde] at hts
            simp only at hts
            subst hts
            unfold decideOne at hdo
            rw [sync_when_work] at hdo
            unfold InResync; omega
  · rintro ⟨j, e, he, hself, hres⟩
    rcases outIter_accounts s now snap outcome q rest hq j e he hself with h | h | h
    · rcases hex with ⟨hno, _⟩ | ⟨_, hqq⟩
      · exact absurd rfl (hno _ (mem_of_find_wire h.2.2.1))
      · exact hqq
    · rcases hex with ⟨hno, _⟩ | ⟨_, hqq⟩
      · exact absurd rfl (hno _ (mem_of_find_wire h.2.2.1))
      · exact hqq
    · exact absurd h.1 hres
  · rcases hex with ⟨_, hqq⟩ | ⟨_, hqq⟩
    · exact Or.inr hqq
    · exact Or.inl hqq

/-- **`stash_only_grows_by_failed_sync_and_is_cleared_only_on_success_or_resync`**: the backlog of `j`
after the pass is unchanged (nothing sent, or a PING), or empty (delivered SYNC, or any RESYNC attempt),
or the old backlog followed by the pass's queue item (failed SYNC) — nothing else. -/
theorem stash_only_grows_by_failed_sync_and_is_cleared_only_on_success_or_resync
    (s : TState Rec) (now : Int) (snap : Msg Rec) (outcome : Nat → Nat × Int)
    (j : Nat) (e : String × Peer Rec) (he : s.peers[j]? = some e) (hself : e.1 ≠ s.self) :
    let r := outIter s now snap outcome
    let w := r.2.find? (fun w => w.peer == j)
    ∃ p', r.1.peers[j]? = some (e.1, p') ∧
      (((w = none ∨ ∃ x, w = some x ∧ x.typ = .ping) ∧ stashOf p' = stashOf e.2) ∨
       ((∃ x, w = some x ∧ ((x.typ = .sync ∧ (outcome j).1 = 0) ∨ x.typ = .resync)) ∧ stashOf p' = ([], [], [])) ∨
       ((∃ x, w = some x ∧ x.typ = .sync ∧ (outcome j).1 ≠ 0) ∧
         stashOf p' = (e.2.stashC ++ (cacheOf s.queue).c, e.2.stashH ++ (cacheOf s.queue).h,
                       e.2.stashU ++ (cacheOf s.queue).u))) := by
  intro r w
  obtain ⟨hw, hp⟩ := pass_for_device s now snap outcome j e he hself
  cases hd : decideOne s.cfg now s.queue.isEmpty e.2 with
  | none =>
    rw [hd] at hw hp
    exact ⟨e.2, hp, Or.inl ⟨Or.inl hw, rfl⟩⟩
  | some t =>
    rw [hd] at hw hp
    refine ⟨_, hp, ?_⟩
    simp only [Option.map_some] at hw
    by_cases herr : (outcome j).1 = 0
    · have hs := book_success t e.2.resets snap (cacheOf s.queue) (outcome j).2 e.2
      cases t with
      | ping =>
        left; refine ⟨Or.inr ⟨_, hw, rfl⟩, ?_⟩
        have := hs.2.2.2.2.2.1 rfl
        simp only [stashOf]; rw [herr]; simp [this]
      | sync =>
        right; left; refine ⟨⟨_, hw, Or.inl ⟨rfl, herr⟩⟩, ?_⟩
        have := hs.2.2.2.2.2.2 (by decide)
        simp only [stashOf]; rw [herr]; simp [this]
      | resync =>
        right; left; refine ⟨⟨_, hw, Or.inr rfl⟩, ?_⟩
        have := hs.2.2.2.2.2.2 (by decide)
        simp only [stashOf]; rw [herr]; simp [this]
    · have hf := book_failure t e.2.resets snap (cacheOf s.queue) _ herr (outcome j).2 e.2
      cases t with
      | ping =>
        left; refine ⟨Or.inr ⟨_, hw, rfl⟩, ?_⟩
        have := hf.2.2.2.2.2.2 rfl
        simp only [stashOf]; simp [this]
      | sync =>
        right; right; refine ⟨⟨_, hw, rfl, herr⟩, ?_⟩
        have := hf.2.2.2.2.1 rfl
        simp only [stashOf]; simp [this]
      | resync =>
        right; left; refine ⟨⟨_, hw, Or.inr rfl⟩, ?_⟩
        have := hf.2.2.2.2.2.1 rfl
        simp only [stashOf]; simp [this]

/-- **`queue_popped_at_most_once`**: however many devices take the SYNC branch. -/
theorem queue_popped_at_most_once (s : TState Rec) (now : Int) (snap : Msg Rec) (outcome : Nat → Nat × Int) :
    (outIter s now snap outcome).1.queue = s.queue ∨ (outIter s now snap outcome).1.queue = s.queue.tail :=
  outIter_queue s now snap outcome

/-- **`nothing_popped_without_sync`**: if no device took the SYNC branch the queue is unchanged; and
if one did, the head is gone (and every SYNC of this pass carried it: `outIter_accounts`). -/
theorem nothing_popped_without_sync (s : TState Rec) (now : Int) (snap : Msg Rec) (outcome : Nat → Nat × Int) :
    ((∀ w ∈ (outIter s now snap outcome).2, w.typ ≠ .sync) → (outIter s now snap outcome).1.queue = s.queue) ∧
    ((∃ w ∈ (outIter s now snap outcome).2, w.typ = .sync) → (outIter s now snap outcome).1.queue = s.queue.tail) := by
  rcases outIter_queue_exact s now snap outcome with ⟨hno, hq⟩ | ⟨⟨w, hw, hwt⟩, hq⟩
  · exact ⟨fun _ => hq, fun ⟨w, hw, hwt⟩ => absurd hwt (hno w hw)⟩
  · exact ⟨fun hno => absurd hwt (hno w hw), fun _ => hq⟩

/-- **`resync_drops_backlog_sends_snapshot`**: a RESYNC attempt to `j` clears `j`'s backlog BEFORE the
send (`prep`), the payload is exactly the snapshot given to the pass, the backlog is empty after the
pass whatever the outcome, and on failure `last_comms` is unchanged. -/
theorem resync_drops_backlog_sends_snapshot (s : TState Rec) (now : Int) (snap : Msg Rec) (outcome : Nat → Nat × Int)
    (j : Nat) (e : String × Peer Rec) (he : s.peers[j]? = some e) (hself : e.1 ≠ s.self) (x : Wire Rec)
    (hx : (outIter s now snap outcome).2.find? (fun w => w.peer == j) = some x) (ht : x.typ = .resync) :
    x.payload = snap ∧ stashOf (prep .resync e.2) = ([], [], []) ∧
    ∃ p', (outIter s now snap outcome).1.peers[j]? = some (e.1, p') ∧ stashOf p' = ([], [], []) ∧
      ((outcome j).1 ≠ 0 → p'.lastComms = e.2.lastComms) ∧
      ((outcome j).1 = 0 → p'.lastComms = max 0 (outcome j).2) := by
  obtain ⟨hw, hp⟩ := pass_for_device s now snap outcome j e he hself
  rw [hx] at hw
  cases hd : decideOne s.cfg now s.queue.isEmpty e.2 with
  | none => rw [hd] at hw; cases hw
  | some t =>
    rw [hd] at hw hp
    simp only [Option.map_some, Option.some.injEq] at hw
    have : t = .resync := by rw [hw] at ht; exact ht
    subst this
    refine ⟨by rw [hw]; rfl, rfl, _, hp, ?_, ?_, ?_⟩
    · by_cases herr : (outcome j).1 = 0
      · have := (book_success .resync e.2.resets snap (cacheOf s.queue) (outcome j).2 e.2).2.2.2.2.2.2 (by decide)
        simp only [stashOf]; rw [herr]; simp [this]
      · have := (book_failure .resync e.2.resets snap (cacheOf s.queue) _ herr (outcome j).2 e.2).2.2.2.2.2.1 rfl
        simp only [stashOf]; simp [this]
    · intro herr
      exact (book_failure .resync e.2.resets snap (cacheOf s.queue) _ herr (outcome j).2 e.2).1
    · intro herr
      have := (book_success .resync e.2.resets snap (cacheOf s.queue) (outcome j).2 e.2).1
      rw [herr]; simpa using this

/-- **`resync_pending_persists`** (the `pending` mark of Lemmas/Net.lean on the code side): a device in
the resync period whose RESYNC failed, or that was sent nothing, is still in the resync period at
every later clock. -/
theorem resync_pending_persists (s : TState Rec) (now : Int) (snap : Msg Rec) (outcome : Nat → Nat × Int)
    (j : Nat) (e : String × Peer Rec) (he : s.peers[j]? = some e) (hself : e.1 ≠ s.self)
    (hres : InResync s.cfg now e.2) (hfail : (outcome j).1 ≠ 0) :
    ∃ p', (outIter s now snap outcome).1.peers[j]? = some (e.1, p') ∧
      ∀ now', now' ≥ now → InResync s.cfg now' p' := by
  obtain ⟨_, hp⟩ := pass_for_device s now snap outcome j e he hself
  unfold InResync at hres ⊢
  cases hd : decideOne s.cfg now s.queue.isEmpty e.2 with
  | none =>
    rw [hd] at hp
    exact ⟨e.2, hp, fun now' hn => by omega⟩
  | some t =>
    rw [hd] at hp
    refine ⟨_, hp, ?_⟩
    intro now' hn
    rw [(book_failure t e.2.resets snap (cacheOf s.queue) _ hfail (outcome j).2 e.2).1]; omega

/-- **`first_contact_after_outage_is_resync`**: if `j` is in the resync period at the decision, the
message sent to `j` in this pass, if any, is a RESYNC — never SYNC or PING, whatever the queue and
the backlog hold. -/
theorem first_contact_after_outage_is_resync (s : TState Rec) (now : Int) (snap : Msg Rec) (outcome : Nat → Nat × Int)
    (j : Nat) (e : String × Peer Rec) (he : s.peers[j]? = some e) (hself : e.1 ≠ s.self)
    (hres : InResync s.cfg now e.2) (x : Wire Rec)
    (hx : (outIter s now snap outcome).2.find? (fun w => w.peer == j) = some x) :
    x.typ = .resync ∧ x.payload = snap := by
  obtain ⟨hw, _⟩ := pass_for_device s now snap outcome j e he hself
  rw [hx] at hw
  have hd : decideOne s.cfg now s.queue.isEmpty e.2
      = if now - e.2.lastAttempt ≥ s.cfg.attemptResync then some .resync else none := by
    unfold decideOne; exact resync_only _ _ _ _ _ hres
  rw [hd] at hw
  split at hw
  · simp only [Option.map_some, Option.some.injEq] at hw
    rw [hw]; exact ⟨rfl, rfl⟩
  · cases hw

/-- … and for every later pass until one succeeds: in any sequence of passes, queue insertions and
incoming messages after an outage (`last_comms j ≤ L`, every pass clock `≥ L + period_resync`),
every message to `j` is a RESYNC up to and including the first one delivered. -/
theorem outage_then_resync_seq (s : TState Rec) (steps : List (Step Rec)) (j : Nat) (L : Int) (hL : 0 ≤ L)
    (hcl : ClocksPast s.cfg L steps) (h0 : ∀ e, s.peers[j]? = some e → e.2.lastComms ≤ L) :
    ResyncFirst true (jlog j (run s steps)) :=
  outage_aux j L hL steps s true hcl (fun _ => h0)

/-! ### non-vacuity: one pass, three peers — one delivered, one failed, one in the resync period -/

/-- "a" with peers b (in contact, backlog s1), c (in the ping period, no backlog), d (60 s of silence, backlog s9);
default periods; two queued changes. -/
def c06State : TState Nat :=
  ⟨"a", Periods.default, [⟨[1], [], [2]⟩, ⟨[3], [], []⟩],
   [("a", Peer.init false), ("b", ⟨995, 995, 0, false, [11], [], []⟩), ("c", ⟨960, 960, 0, false, [], [], []⟩),
    ("d", ⟨940, 900, 0, false, [], [99], []⟩)]⟩

/-- b: delivered; c: times out; d: RESYNC fails. -/
def c06Outcome : Nat → Nat × Int
  | 1 => (0, 1001)
  | 2 => (1, 1003)
  | _ => (2, 1004)

example :
    let r := outIter c06State 1000 ⟨[7], [8], []⟩ c06Outcome
    r.2 = [⟨1, .sync, 0, ⟨[1, 11], [], [2]⟩⟩, ⟨2, .sync, 0, ⟨[1], [], [2]⟩⟩, ⟨3, .resync, 0, ⟨[7], [8], []⟩⟩] ∧
    r.1.queue = [⟨[3], [], []⟩] ∧
    r.1.peers = [("a", Peer.init false), ("b", ⟨1001, 1001, 0, false, [], [], []⟩),
      ("c", ⟨960, 1003, 0, false, [1], [], [2]⟩), ("d", ⟨940, 1004, 0, false, [], [], []⟩)] := by decide

example : ¬ InResync c06State.cfg 1000 (⟨995, 995, 0, false, [11], [], []⟩ : Peer Nat) ∧
    ¬ InResync c06State.cfg 1000 (⟨960, 960, 0, false, [], [], []⟩ : Peer Nat) ∧
    InResync c06State.cfg 1000 (⟨940, 900, 0, false, [], [99], []⟩ : Peer Nat) := by
  unfold InResync; decide

/-- all devices in the resync period: the queue item waits. -/
example : (outIter { c06State with peers := [("a", Peer.init false), ("d", ⟨940, 900, 0, false, [], [99], []⟩)] }
    1000 ⟨[7], [8], []⟩ c06Outcome).1.queue = c06State.queue := by decide

/-! ### F17 (concurrency observation, NOT a statement about the sequential pass)

`on_decider_update` takes `_lock_local`, the decision phase takes `_lock_in_out`: a local change can be
queued after the decision phase has released its lock and before the send phase resolves `cache_sync`.
If the decision saw an empty queue, only devices with a due backlog were selected; the first of them
pops the new item and sends it — to the selected devices only.  The others neither receive it nor get
it appended to their backlog, and the queue is empty afterwards.  Witness on the model (`decidePhase`,
`push`, `sendPhase` composed by hand): b has a due backlog, c is in contact with nothing to send. -/
theorem f17_push_between_phases_witness :
    let s : TState Nat := ⟨"a", Periods.default, [],
      [("a", Peer.init false), ("b", ⟨1000, 990, 0, false, [5], [], []⟩), ("c", ⟨1000, 1000, 0, false, [], [], []⟩)]⟩
    let outlist := decidePhase s.cfg s.self 1001 s.queue.isEmpty s.peers      -- decision phase: queue empty
    let s' := push s ⟨[6], [], []⟩                                             -- on_decider_update in between
    let st := sendPhase Msg.empty (fun _ => (0, 1001)) ⟨s'.peers, s'.queue, none, []⟩ outlist
    outlist = [(1, .sync, 0)] ∧
    st.wires = [⟨1, .sync, 0, ⟨[6, 5], [], []⟩⟩] ∧                             -- item 6 goes to b only
    st.queue = [] ∧                                                             -- and is gone from the queue
    st.peers[2]? = some ("c", ⟨1000, 1000, 0, false, [], [], []⟩) := by        -- c: not sent, not stashed
  decide

/-! ---------------------------------------------------------------------------------------------
## Whole-run accounting: the one-pass accounting lifted to EVERY run (all step sequences)

Definitions and the per-step lemmas are in Lemmas/TcpRun.lean.  `j` is any device index whose entry is
not the instance itself.  The ghost `missingAfter j s0 missing0 steps` ("what `j` still misses") is a
fold over the step list that never looks at the backlog or the queue:

  * `push m`                : `missing := missing ++ recs m`            (`recs m = m.c ++ m.h ++ m.u`)
  * `pass now snap outcome` : `w` = the wire to `j` of this pass;
        RESYNC and `(outcome j).1 = 0` : `missing := []`                (superseded by the snapshot)
        SYNC   and `(outcome j).1 = 0` : `missing := missing.filter (· ∉ recs w.payload)`
        otherwise (nothing sent, PING, any reported failure) : unchanged
  * `incoming _ _`          : unchanged.

Hypotheses of the run theorems — each one is needed (counter-runs at the end of the section):

  * `hself`  : the entry at index `j` is not the instance's own (the loop skips its own entry: it is never
               sent anything and nothing is appended to its backlog);
  * `hlc`    : `0 ≤ last_comms` of `j` in the initial state.  True of every device manager the code can
               build (constructor: 0; the setter, `contacted` and `clear_last` only write values `≥ 0`) and
               preserved by every step.  It is what makes a received RESET (`last_comms := 0`) keep `j` in the
               resync period: from `L - last_comms ≥ period_resync` and `last_comms ≥ 0` follows
               `L - 0 ≥ period_resync`.  It replaces "`now ≥ period_resync` after a received reset"; no
               assumption on the sign of `period_resync` and none on epoch clocks is needed;
  * `hmono`  : `MonoClocks L0 steps` — the DECISION clocks of the passes never go backwards, and the first is
               `≥ L0` (`L0`: a clock reading before the run; irrelevant when the initial invariant holds by its
               second disjunct).  Nothing at all is assumed about the clocks read after the sends
               (`(outcome i).2`): the sequential model records a successful send with the counter seen at the
               decision of the same pass, so `contacted` always writes, and the invariant does not depend on
               the value written;
  * `h0`     : the invariant holds initially — trivially so for `missing0 = []` (`accounting_fresh_run`,
               whatever the queue and the backlog hold) and for `missing0 = backlog ++ everything queued`
               (`accounting_pending_run`).

`L` is any clock reading at or after the decision clock of the last pass (`lastNow L0 steps ≤ L`): the
last decision clock itself (strongest statement), or the last clock read after a send of a monotone clock.
--------------------------------------------------------------------------------------------- -/

/-- **`accounting_every_run`**: after EVERY run (any interleaving of passes with any outcome vectors,
queue insertions and incoming messages, RESETs included) whose decision clocks do not go backwards, for
every device `j` other than self: `last_comms ≥ 0` still, and
either `j` is in the resync period at every clock `≥ L` (so the only message it can be sent is a RESYNC
carrying the full snapshot, `first_contact_after_outage_is_resync`),
or every record `j` still misses is in `j`'s backlog or in a message still queued.
There is no third case: nothing pushed is ever silently dropped for `j`. -/
theorem accounting_every_run [DecidableEq Rec] (j : Nat) (s0 : TState Rec) (e0 : String × Peer Rec)
    (missing0 : List Rec) (L0 : Int)
    (he0 : s0.peers[j]? = some e0) (hself : e0.1 ≠ s0.self) (hlc : 0 ≤ e0.2.lastComms)
    (h0 : (∀ now', now' ≥ L0 → InResync s0.cfg now' e0.2) ∨
          (∀ x ∈ missing0, x ∈ e0.2.stashC ++ e0.2.stashH ++ e0.2.stashU ∨ ∃ m ∈ s0.queue, x ∈ recs m))
    (steps : List (Step Rec)) (hmono : MonoClocks L0 steps) (L : Int) (hL : lastNow L0 steps ≤ L) :
    ∃ p, (runState s0 steps).peers[j]? = some (e0.1, p) ∧ 0 ≤ p.lastComms ∧
      ((∀ now', now' ≥ L → InResync (runState s0 steps).cfg now' p) ∨
       (∀ x ∈ missingAfter j s0 missing0 steps,
          x ∈ p.stashC ++ p.stashH ++ p.stashU ∨ ∃ m ∈ (runState s0 steps).queue, x ∈ recs m)) := by
  have hinit : Acct j e0.1 s0 missing0 L0 := ⟨e0.2, he0, hself, hlc, h0⟩
  obtain ⟨p, hp, _, hlc', hd⟩ := acct_mono hL (acct_run j e0.1 steps s0 missing0 L0 hmono hinit)
  exact ⟨p, hp, hlc', hd⟩

/-- the run starts with nothing counted as missing (`missing0 = []`): no assumption on the initial queue
or backlog, and none relating the initial `last_comms` to the clock. -/
theorem accounting_fresh_run [DecidableEq Rec] (j : Nat) (s0 : TState Rec) (e0 : String × Peer Rec) (L0 : Int)
    (he0 : s0.peers[j]? = some e0) (hself : e0.1 ≠ s0.self) (hlc : 0 ≤ e0.2.lastComms)
    (steps : List (Step Rec)) (hmono : MonoClocks L0 steps) (L : Int) (hL : lastNow L0 steps ≤ L) :
    ∃ p, (runState s0 steps).peers[j]? = some (e0.1, p) ∧ 0 ≤ p.lastComms ∧
      ((∀ now', now' ≥ L → InResync (runState s0 steps).cfg now' p) ∨
       (∀ x ∈ missingAfter j s0 [] steps,
          x ∈ p.stashC ++ p.stashH ++ p.stashU ∨ ∃ m ∈ (runState s0 steps).queue, x ∈ recs m)) :=
  accounting_every_run j s0 e0 [] L0 he0 hself hlc (Or.inr (by intro x hx; cases hx)) steps hmono L hL

/-- the run starts from any state, counting as missing everything that is in `j`'s backlog or queued. -/
theorem accounting_pending_run [DecidableEq Rec] (j : Nat) (s0 : TState Rec) (e0 : String × Peer Rec) (L0 : Int)
    (he0 : s0.peers[j]? = some e0) (hself : e0.1 ≠ s0.self) (hlc : 0 ≤ e0.2.lastComms)
    (steps : List (Step Rec)) (hmono : MonoClocks L0 steps) (L : Int) (hL : lastNow L0 steps ≤ L) :
    ∃ p, (runState s0 steps).peers[j]? = some (e0.1, p) ∧ 0 ≤ p.lastComms ∧
      ((∀ now', now' ≥ L → InResync (runState s0 steps).cfg now' p) ∨
       (∀ x ∈ missingAfter j s0 (e0.2.stashC ++ e0.2.stashH ++ e0.2.stashU ++ s0.queue.flatMap recs) steps,
          x ∈ p.stashC ++ p.stashH ++ p.stashU ∨ ∃ m ∈ (runState s0 steps).queue, x ∈ recs m)) := by
  refine accounting_every_run j s0 e0 _ L0 he0 hself hlc (Or.inr ?_) steps hmono L hL
  intro x hx
  rcases List.mem_append.mp hx with h | h
  · exact Or.inl h
  · exact Or.inr (List.mem_flatMap.mp h)

/-- **`nothing_missing_when_idle`**: after any such run, if `j` is not in the resync period at the clock
`L`, its backlog is empty and the queue is empty, then `j` misses nothing: every change ever pushed (and
everything counted as missing initially) was handed to the wire for `j` inside a SYNC whose send was
reported successful, or was superseded by a RESYNC snapshot whose send was reported successful. -/
theorem nothing_missing_when_idle [DecidableEq Rec] (j : Nat) (s0 : TState Rec) (e0 : String × Peer Rec)
    (missing0 : List Rec) (L0 : Int)
    (he0 : s0.peers[j]? = some e0) (hself : e0.1 ≠ s0.self) (hlc : 0 ≤ e0.2.lastComms)
    (h0 : (∀ now', now' ≥ L0 → InResync s0.cfg now' e0.2) ∨
          (∀ x ∈ missing0, x ∈ e0.2.stashC ++ e0.2.stashH ++ e0.2.stashU ∨ ∃ m ∈ s0.queue, x ∈ recs m))
    (steps : List (Step Rec)) (hmono : MonoClocks L0 steps) (L : Int) (hL : lastNow L0 steps ≤ L)
    (e : String × Peer Rec) (he : (runState s0 steps).peers[j]? = some e)
    (hidle : ¬ InResync (runState s0 steps).cfg L e.2) (hstash : stashOf e.2 = ([], [], []))
    (hqueue : (runState s0 steps).queue = []) :
    missingAfter j s0 missing0 steps = [] := by
  obtain ⟨p, hp, _, hd⟩ := accounting_every_run j s0 e0 missing0 L0 he0 hself hlc h0 steps hmono L hL
  rw [he] at hp
  cases hp
  simp only [stashOf, Prod.mk.injEq] at hstash
  obtain ⟨h1, h2, h3⟩ := hstash
  simp only at h1 h2 h3 hidle
  rcases hd with hA | hB
  · exact absurd (hA L (Int.le_refl L)) hidle
  · apply List.eq_nil_iff_forall_not_mem.mpr
    intro x hx
    rcases hB x hx with h | ⟨m, hm, _⟩
    · rw [h1, h2, h3] at h; cases h
    · rw [hqueue] at hm; cases hm

/-! ### non-vacuity -/

/-- "a" with peers b (in contact) and c (in contact); default periods; nothing queued. -/
def runState0 : TState Nat :=
  ⟨"a", Periods.default, [],
   [("a", Peer.init false), ("b", ⟨995, 995, 0, false, [], [], []⟩), ("c", ⟨995, 995, 0, false, [], [], []⟩)]⟩

/-- a push, a SYNC that fails towards b (backlog) and reaches c, another push, a SYNC that reaches both and
carries both changes to b. -/
def runBacklog : List (Step Nat) :=
  [ .push ⟨[1], [], []⟩,
    .pass 1000 Msg.empty (fun i => if i = 1 then (1, 1001) else (0, 1001)),
    .push ⟨[], [2], []⟩,
    .pass 1002 Msg.empty (fun _ => (0, 1003)) ]

example :
    MonoClocks 999 runBacklog ∧ lastNow 999 runBacklog = 1002 ∧
    -- the ghost for b after each prefix of the run
    missingAfter 1 runState0 [] (runBacklog.take 1) = [1] ∧
    missingAfter 1 runState0 [] (runBacklog.take 2) = [1] ∧
    (runState runState0 (runBacklog.take 2)).peers[1]? = some ("b", ⟨995, 1001, 0, false, [1], [], []⟩) ∧
    missingAfter 1 runState0 [] (runBacklog.take 3) = [1, 2] ∧
    missingAfter 1 runState0 [] runBacklog = [] ∧
    -- the last pass: one SYNC to b with the queue item and the backlog, one to c with the queue item
    (step (runState runState0 (runBacklog.take 3)) (.pass 1002 Msg.empty (fun _ => (0, 1003)))).1.peers[1]?
      = some ("b", ⟨1003, 1003, 0, false, [], [], []⟩) ∧
    (outIter (runState runState0 (runBacklog.take 3)) 1002 Msg.empty (fun _ => (0, 1003))).2
      = [⟨1, .sync, 0, ⟨[1], [2], []⟩⟩, ⟨2, .sync, 0, ⟨[], [2], []⟩⟩] ∧
    -- c never missed anything after a pass
    missingAfter 2 runState0 [] (runBacklog.take 2) = [] ∧ missingAfter 2 runState0 [] runBacklog = [] ∧
    (runState runState0 runBacklog).queue = [] := by decide

/-- the hypotheses of `nothing_missing_when_idle` hold of this run (and its conclusion is the `[]` above). -/
example : ¬ InResync (runState runState0 runBacklog).cfg 1002 (⟨1003, 1003, 0, false, [], [], []⟩ : Peer Nat) := by
  unfold InResync; decide

/-- an outage: b has been silent for 95 s.  The change is pushed, the pass sends a RESYNC to b that fails
and a SYNC to c that pops the queue — the change is now neither queued nor in b's backlog, b is in the
resync period (first disjunct of the invariant).  Ten seconds later the RESYNC is delivered: b misses
nothing, and is out of the resync period. -/
def runOutage : List (Step Nat) :=
  [ .push ⟨[1], [], [2]⟩,
    .pass 1000 ⟨[1], [], [2]⟩ (fun i => if i = 1 then (2, 1001) else (0, 1001)),
    .pass 1011 ⟨[1], [], [2]⟩ (fun _ => (0, 1012)) ]

def runState1 : TState Nat :=
  ⟨"a", Periods.default, [],
   [("a", Peer.init false), ("b", ⟨905, 905, 0, false, [], [7], []⟩), ("c", ⟨995, 995, 0, false, [], [], []⟩)]⟩

example :
    MonoClocks 999 runOutage ∧ lastNow 999 runOutage = 1011 ∧
    missingAfter 1 runState1 [] (runOutage.take 2) = [1, 2] ∧
    (outIter (push runState1 ⟨[1], [], [2]⟩) 1000 ⟨[1], [], [2]⟩ (fun i => if i = 1 then (2, 1001) else (0, 1001))).2
      = [⟨1, .resync, 0, ⟨[1], [], [2]⟩⟩, ⟨2, .sync, 0, ⟨[1], [], [2]⟩⟩] ∧
    (runState runState1 (runOutage.take 2)).queue = [] ∧
    (runState runState1 (runOutage.take 2)).peers[1]? = some ("b", ⟨905, 1001, 0, false, [], [], []⟩) ∧
    missingAfter 1 runState1 [] runOutage = [] ∧
    (runState runState1 runOutage).peers[1]? = some ("b", ⟨1012, 1012, 0, false, [], [], []⟩) ∧
    (runState runState1 runOutage).queue = [] := by decide

example : InResync runState1.cfg 1000 (⟨905, 1001, 0, false, [], [], []⟩ : Peer Nat) ∧
    ¬ InResync runState1.cfg 1011 (⟨1012, 1012, 0, false, [], [], []⟩ : Peer Nat) := by
  unfold InResync; decide

/-! ### the hypotheses are needed: counter-runs -/

/-- **decision clocks going backwards** (`hmono` dropped).  b has been silent for 100 s: at clock 1000 it is
in the resync period (no RESYNC due yet), c takes the SYNC and pops the queue.  The next pass reads clock 950:
b is NOT in the resync period at 950, its backlog is empty, the queue is empty — and b misses the change.
(Only the conclusion of `nothing_missing_when_idle` fails; `¬ MonoClocks`.) -/
example :
    let s0 : TState Nat := ⟨"a", Periods.default, [],
      [("a", Peer.init false), ("b", ⟨900, 995, 0, false, [], [], []⟩), ("c", ⟨995, 995, 0, false, [], [], []⟩)]⟩
    let steps : List (Step Nat) := [.push ⟨[1], [], []⟩, .pass 1000 Msg.empty (fun _ => (0, 1000)),
      .pass 950 Msg.empty (fun _ => (0, 950))]
    ¬ MonoClocks 999 steps ∧ lastNow 999 steps = 950 ∧
    missingAfter 1 s0 [] steps = [1] ∧
    (runState s0 steps).peers[1]? = some ("b", ⟨900, 995, 0, false, [], [], []⟩) ∧
    (runState s0 steps).queue = [] ∧ 950 - (900 : Int) < Periods.default.periodResync := by decide

/-- **negative `last_comms`** (`hlc` dropped; only possible with a hand-made device entry and negative
clocks).  At clock -30 b (`last_comms = -100`) is in the resync period, c pops the queue; then a RESET
from b sets its `last_comms` to 0 and at clock -30 b is no longer in the resync period: nothing queued,
no backlog, and b misses the change. -/
example :
    let s0 : TState Nat := ⟨"a", Periods.default, [],
      [("a", Peer.init false), ("b", ⟨-100, -31, 0, false, [], [], []⟩), ("c", ⟨-35, -35, 0, false, [], [], []⟩)]⟩
    let steps : List (Step Nat) := [.push ⟨[1], [], []⟩, .pass (-30) Msg.empty (fun _ => (0, -30)), .incoming 1 1]
    MonoClocks (-30) steps ∧ lastNow (-30) steps = -30 ∧
    missingAfter 1 s0 [] steps = [1] ∧
    (runState s0 steps).peers[1]? = some ("b", ⟨0, 0, 1, false, [], [], []⟩) ∧
    (runState s0 steps).queue = [] ∧ (-30 : Int) - 0 < Periods.default.periodResync := by decide

/-- **the instance's own entry** (`hself` dropped): index 0 is "a" itself; it is skipped by the loop, c
pops the queue, and "a" would "miss" the change forever. -/
example :
    let steps : List (Step Nat) := [.push ⟨[1], [], []⟩, .pass 1000 Msg.empty (fun _ => (0, 1000))]
    missingAfter 0 runState0 [] steps = [1] ∧ (runState runState0 steps).queue = [] ∧
    (runState runState0 steps).peers[0]? = some ("a", Peer.init false) := by decide

/-! ---------------------------------------------------------------------------------------------
## End to end for one sender / receiver pair: once the link is idle the receiver knows everything

Lemmas/TcpLattice.lean: the outgoing-loop model with `Rec := Status` (Lemmas/Lattice.lean), for one run
key, the sender's transport state `t`, one receiver `j`.  `meaning m` = the join of the statuses `m`
carries; `Pair` adds to `t` the ghost `own` (join of everything the sender announced), the sender's
knowledge `knowS`, the receiver's knowledge `knowJ`, `wire` (payloads whose send to `j` was reported
successful and that `j` has not applied yet) and the accounting ghost `missing` (`missStep`).  Steps
(`pstep`):

  * `say m`         : `own ⊔= meaning m`, `knowS ⊔= meaning m`, `push m` (any message, not only one record);
  * `learn d`       : `knowS ⊔= d` (knowledge from other peers);
  * `pass now outcome` : `outIter` with the snapshot `⟨[],[],[knowS]⟩`; the payload handed to the network for
                      `j` is appended to `wire` iff `(outcome j).1 = 0`;
  * `deliver k` / `redeliver k` : `j` applies the `k`-th message of `wire` (any order), removing it / leaving it
                      there (duplicate delivery);
  * `incoming i flags` : the sender's listener (`incoming`, RESETs from any device included);
  * `restartJ keep` : `j` loses its state, `knowJ := bot`, what is on the wire survives (`keep`) or is lost,
                      and the sender handles `j`'s RESET (`incoming j FLAG_RESET`).

Invariant `PInv` (`pinv_step`, `pinv_run`): `own ≤ knowS`, `Acct` (whole-run accounting), and
`j` is in the resync period at every clock `≥ L`, or `own ≤ knowJ ⊔ ⨆ wire ⊔ ⨆ missing`.

Hypotheses, beyond those of `accounting_every_run` (`hself`, `hlc`, monotone decision clocks `PMono`):

  * `hepoch : period_resync ≤ L0` — the clock is an epoch clock (seconds since 1970), every reading is at
    least `period_resync`.  NEEDED because of `restartJ`: the receiver's RESET sets `last_comms := 0`, and it
    is the test `now - 0 ≥ period_resync` that makes the next message to `j` a RESYNC.  With a clock below
    `period_resync` the sender goes on with SYNCs after the restart and what `j` had is never sent again:
    counter-run at the end of the section.  (Without `restartJ` it could be replaced by `hlc`, as in
    `accounting_every_run`: a RESET alone never takes `j` OUT of the resync period.)
  * the send outcome is taken at face value: `wire` receives a payload iff the send was REPORTED successful.
    A send that fails after the peer received the message only makes `j` know more (a `redeliver`).
--------------------------------------------------------------------------------------------- -/
section Pair
open Bobo.Lattice

/-- **`idle_pair_knows_everything`**: the pair starts with nothing announced (`own = bot`, nothing counted
as missing; any queue, backlog, wire, `knowS`, `knowJ`).  After EVERY run — local changes, knowledge learnt
from others, passes with any send outcomes (failures, timeouts, outages of any length), RESYNCs, deliveries
in any order, duplicate deliveries, RESETs, restarts of the receiver that lose its state — whose decision
clocks do not go backwards: if at the end `j` is not in the resync period at the clock `L`, its backlog is
empty, the queue is empty and nothing is left on the wire, then the receiver knows everything the sender
ever announced: `own ≤ knowJ`. -/
theorem idle_pair_knows_everything (j : Nat) (P0 : Pair) (e0 : String × Peer Status) (L0 : Int)
    (he0 : P0.t.peers[j]? = some e0) (hself : e0.1 ≠ P0.t.self) (hlc : 0 ≤ e0.2.lastComms)
    (hown : P0.own = bot) (hmiss : P0.missing = []) (hepoch : P0.t.cfg.periodResync ≤ L0)
    (steps : List PStep) (hmono : PMono L0 steps) (L : Int) (hL : pLastNow L0 steps ≤ L)
    (e : String × Peer Status) (he : (prun j P0 steps).t.peers[j]? = some e)
    (hidle : ¬ InResync (prun j P0 steps).t.cfg L e.2) (hstash : stashOf e.2 = ([], [], []))
    (hqueue : (prun j P0 steps).t.queue = []) (hwire : (prun j P0 steps).wire = []) :
    (prun j P0 steps).own ≤ (prun j P0 steps).knowJ := by
  have hinv := pinv_mono hL (pinv_run j e0.1 steps P0 L0 hmono (pinv_init j P0 e0 L0 he0 hself hlc hown hmiss hepoch))
  simp only [stashOf, Prod.mk.injEq] at hstash
  exact (pinv_idle j e0.1 _ L hinv e he hidle hstash.1 hstash.2.1 hstash.2.2 hqueue hwire).2

/-- the invariant itself after every such run: `own ≤ knowS`, the accounting disjunction, and
"in the resync period from `L` on, or everything announced is known to `j`, on the wire, or missing". -/
theorem pair_invariant_every_run (j : Nat) (P0 : Pair) (e0 : String × Peer Status) (L0 : Int)
    (he0 : P0.t.peers[j]? = some e0) (hself : e0.1 ≠ P0.t.self) (hlc : 0 ≤ e0.2.lastComms)
    (hown : P0.own = bot) (hmiss : P0.missing = []) (hepoch : P0.t.cfg.periodResync ≤ L0)
    (steps : List PStep) (hmono : PMono L0 steps) (L : Int) (hL : pLastNow L0 steps ≤ L) :
    (prun j P0 steps).own ≤ (prun j P0 steps).knowS ∧
    ∃ p, (prun j P0 steps).t.peers[j]? = some (e0.1, p) ∧
      ((∀ now', now' ≥ L → InResync (prun j P0 steps).t.cfg now' p) ∨
       ((∀ x ∈ (prun j P0 steps).missing,
           x ∈ p.stashC ++ p.stashH ++ p.stashU ∨ ∃ m ∈ (prun j P0 steps).t.queue, x ∈ recs m) ∧
        (prun j P0 steps).own ≤
          join (join (prun j P0 steps).knowJ (joinAll ((prun j P0 steps).wire.map meaning)))
            (joinAll (prun j P0 steps).missing))) := by
  have hinv := pinv_mono hL (pinv_run j e0.1 steps P0 L0 hmono (pinv_init j P0 e0 L0 he0 hself hlc hown hmiss hepoch))
  obtain ⟨_, hS, ⟨p, hp, _, _, hd⟩, hflow⟩ := hinv
  refine ⟨hS, p, hp, ?_⟩
  rcases hflow with ⟨e', he', hA⟩ | hf
  · rw [hp] at he'; cases he'
    exact Or.inl hA
  · rcases hd with hA | hB
    · exact Or.inl hA
    · exact Or.inr ⟨hB, hf⟩

/-! ### non-vacuity: a failed SYNC, an outage, a failed and a delivered RESYNC, a restart of the receiver -/

/-- "a" with peers b (index 1, the receiver) and c, both in contact; default periods. -/
def pair0 : Pair :=
  { t := ⟨"a", Periods.default, [],
      [("a", Peer.init false), ("b", ⟨995, 995, 0, false, [], [], []⟩), ("c", ⟨995, 995, 0, false, [], [], []⟩)]⟩,
    own := bot, knowS := bot, knowJ := bot, wire := [], missing := [] }

def failB (clock : Int) : Nat → Nat × Int := fun i => if i = 1 then (1, clock) else (0, clock)

def pairRun : List PStep :=
  [ .say ⟨[], [], [active 1 1]⟩,
    .pass 1000 (failB 1001),          -- SYNC to b fails: `active 1 1` goes to b's backlog; c pops the queue
    .say ⟨[], [halted], []⟩,
    .pass 1100 (failB 1101),          -- outage: b (and c) in the resync period; RESYNC to b fails, backlog dropped
    .pass 1111 (fun _ => (0, 1112)),  -- RESYNC to b delivered (snapshot = halted); c's SYNC pops the queue
    .deliver 0,
    .learn completed,
    .restartJ false,                  -- b loses everything and sends a RESET
    .pass 1200 (fun _ => (0, 1201)),  -- RESYNC again (snapshot = completed)
    .redeliver 0,
    .deliver 0 ]

example :
    PMono 999 pairRun ∧ pLastNow 999 pairRun = 1200 ∧ pair0.t.cfg.periodResync ≤ 999 ∧
    -- after the failed SYNC: in b's backlog, counted as missing
    (prun 1 pair0 (pairRun.take 2)).t.peers[1]? = some ("b", ⟨995, 1001, 0, false, [], [], [active 1 1]⟩) ∧
    (prun 1 pair0 (pairRun.take 2)).missing = [active 1 1] ∧ (prun 1 pair0 (pairRun.take 2)).t.queue = [] ∧
    -- after the failed RESYNC: backlog dropped, the second change still queued, b knows nothing
    (prun 1 pair0 (pairRun.take 4)).t.peers[1]? = some ("b", ⟨995, 1101, 0, false, [], [], []⟩) ∧
    (prun 1 pair0 (pairRun.take 4)).missing = [active 1 1, halted] ∧
    (prun 1 pair0 (pairRun.take 4)).t.queue = [⟨[], [halted], []⟩] ∧
    (prun 1 pair0 (pairRun.take 4)).knowJ = bot ∧ (prun 1 pair0 (pairRun.take 4)).wire = [] ∧
    -- after the delivered RESYNC
    (prun 1 pair0 (pairRun.take 5)).wire = [⟨[], [], [halted]⟩] ∧ (prun 1 pair0 (pairRun.take 5)).missing = [] ∧
    (prun 1 pair0 (pairRun.take 5)).t.queue = [] ∧
    (prun 1 pair0 (pairRun.take 6)).knowJ = halted ∧
    -- the restart
    (prun 1 pair0 (pairRun.take 8)).knowJ = bot ∧
    (prun 1 pair0 (pairRun.take 8)).t.peers[1]? = some ("b", ⟨0, 0, 1, false, [], [], []⟩) ∧
    (prun 1 pair0 (pairRun.take 9)).wire = [⟨[], [], [completed]⟩] ∧
    -- the end: idle, `own = halted`, and b knows it (and more)
    (prun 1 pair0 pairRun).t.peers[1]? = some ("b", ⟨1201, 1201, 1, false, [], [], []⟩) ∧
    (prun 1 pair0 pairRun).t.queue = [] ∧ (prun 1 pair0 pairRun).wire = [] ∧ (prun 1 pair0 pairRun).missing = [] ∧
    (prun 1 pair0 pairRun).own = halted ∧ (prun 1 pair0 pairRun).knowJ = completed := by decide

/-- the hypotheses of `idle_pair_knows_everything` about the final state hold of this run. -/
example : ¬ InResync (prun 1 pair0 pairRun).t.cfg 1200 (⟨1201, 1201, 1, false, [], [], []⟩ : Peer Status) ∧
    stashOf (⟨1201, 1201, 1, false, [], [], []⟩ : Peer Status) = ([], [], []) := by
  unfold InResync; decide

/-- … and so does its conclusion, here through the theorem. -/
example : (prun 1 pair0 pairRun).own ≤ (prun 1 pair0 pairRun).knowJ :=
  idle_pair_knows_everything 1 pair0 ("b", ⟨995, 995, 0, false, [], [], []⟩) 999 (by decide) (by decide) (by decide)
    rfl rfl (by decide) pairRun (by decide) 1200 (by decide) ("b", ⟨1201, 1201, 1, false, [], [], []⟩) (by decide)
    (by unfold InResync; decide) rfl (by decide) (by decide)

/-! ### `hepoch` is needed: a restart of the receiver under a clock below `period_resync` -/

/-- clocks 10 and 20 (`period_resync = 60`).  The change is delivered to b; b restarts and sends its RESET:
`last_comms = 0`, but `20 - 0 < 60`, so b is NOT in the resync period — the link is idle (queue, backlog and
wire empty, the next pass sends nothing) and b does not know the change.  `hepoch` fails (`60 ≤ 0` is false);
all the other hypotheses of `idle_pair_knows_everything` hold. -/
example :
    let P0 : Pair := { pair0 with t := { pair0.t with peers :=
      [("a", Peer.init false), ("b", Peer.init false), ("c", Peer.init false)] } }
    let steps : List PStep := [.say ⟨[], [], [halted]⟩, .pass 10 (fun _ => (0, 10)), .deliver 0, .restartJ true,
      .pass 20 (fun _ => (0, 20))]
    PMono 0 steps ∧ pLastNow 0 steps = 20 ∧ ¬ (P0.t.cfg.periodResync ≤ 0) ∧
    (prun 1 P0 steps).t.peers[1]? = some ("b", ⟨0, 0, 1, false, [], [], []⟩) ∧
    (20 : Int) - 0 < P0.t.cfg.periodResync ∧
    (prun 1 P0 steps).t.queue = [] ∧ (prun 1 P0 steps).wire = [] ∧ (prun 1 P0 steps).missing = [] ∧
    (prun 1 P0 steps).own = halted ∧ (prun 1 P0 steps).knowJ = bot ∧
    ¬ ((prun 1 P0 steps).own ≤ (prun 1 P0 steps).knowJ) := by decide

end Pair

end Bobo.Tcp

/-! ---------------------------------------------------------------------------------------------
## C06 on clusters of decider states: link faults, snapshots and RESYNCs (Lemmas/ClusterFaults.lean)
--------------------------------------------------------------------------------------------- -/
namespace Bobo.ClusterD
open Bobo.Run Bobo.Decider Bobo.Lattice
variable {ε : Type}

/-- **link failures lose nothing, on clusters of decider states.**  For every sequence of inputs at any
instances, deliveries of any pending message in any order (with or without removal), extra snapshots, and RESYNCs
that drop everything in flight on a link and replace it by the sender's `snapshot()` — or fail, leaving the link
"resync pending" — : once nothing is in flight and no RESYNC is pending, all instances hold the same status for
every run key of a known pattern (same active runs at the same positions, same finished runs).  The snapshot
message means exactly what its sender knows (`msgSt_snapshot`, from the well-formedness of the run table), so the
cluster refines the network model step by step (`fsim_step`) and the network invariant does the rest. -/
theorem cluster_heal_converges {n : Nat} (c : Cfg ε) (hc : c.caching = true) (hns : NoSing c)
    (steps : List (FStep n ε)) (fs : FState n ε)
    (hrun : frun c (finit n ε) steps = some fs)
    (hquiet : ∀ i j, i ≠ j → fs.cs.flight i j = [] ∧ fs.pend i j = false)
    (ph pa id : String) (hk : (c.getPattern ph pa).isSome = true) (i j : Fin n) :
    abs (fs.cs.node i) ph pa id = abs (fs.cs.node j) ph pa id := by
  obtain ⟨ns, hR, hI⟩ := fsim_run c hc hns ph pa id hk steps (finit n ε) fs (Bobo.Net.init n)
    (fsim_init ph pa id) Bobo.Net.inv_init hrun
  have hq : Bobo.Net.Quiescent ns := by
    intro a b hab
    refine ⟨?_, ?_⟩
    · rw [hR.flight a b, (hquiet a b hab).1]; rfl
    · rw [hR.pending a b]; exact (hquiet a b hab).2
  rw [← hR.know i, ← hR.know j, Bobo.Net.quiescent_know_eq ns hI hq i, Bobo.Net.quiescent_know_eq ns hI hq j]

/-- the snapshot of an instance says about every key exactly what the instance knows (re-export). -/
theorem snapshot_means_knowledge (c : Cfg ε) (hc : c.caching = true) (s : DState ε) (h : TableWF s.table)
    (ph pa id : String) : msgSt ph pa id (snapMsg c s) = abs s ph pa id := msgSt_snapshot c hc s h ph pa id

end Bobo.ClusterD


/-! ---------------------------------------------------------------------------------------------
## C06, whole cluster at the status-lattice level: every link idle ⇒ every instance knows the join of everything
## announced anywhere (Lemmas/TcpCluster.lean)

The pair model above has ONE sender and ONE receiver.  Here: `n` instances (`Fin n`), every instance runs the
outgoing loop of Model/Tcp.lean against every other; device dict index `j` of every transport state is
instance `j`.  `Cluster n` = per instance `t` (`TState Status`), `know`, the ghost `own`; per ordered pair
`wire i j` and the ghost `heard i j` (join of what `j` applied from `wire i j`).  Steps (`cstep`, executable):

  * `say i m`              : as `PStep.say` for all pairs of `i` (`own i ⊔= meaning m`, `know i ⊔= meaning m`, `push`);
  * `pass i now outcome`   : ONE `outIter` on `t i` with the snapshot `⟨[],[],[know i]⟩`; for EVERY `j` the payload
                             handed to the network for device `j` goes onto `wire i j` iff `(outcome j).1 = 0`
                             (`wireAfter`, as in the pair model);
  * `deliver i j k` / `redeliver i j k` : `j` applies the `k`-th message on `wire i j` (`know j` and `heard i j`
                             grow), removing it / leaving it there;
  * `incoming i frm flags` : `i`'s listener (`incoming`), any device index, any flags (RESET included).

**Projection** (`cluster_run_is_pair_run`): for every ordered pair `i ≠ j` the cluster run IS the run
`projSteps i j C0 steps` of the pair model (`i`'s `say` / `pass` / `incoming` map to themselves, `deliver i j k` to
`deliver k`, a delivery `x → i` to `learn (meaning m)`, everything else to nothing), with `knowJ := heard i j`
(the pair theorems only need a lower bound on what `j` knows; `heard i j ≤ know j` is part of `CInv`), and the
per-instance monotone clocks `CMono` project to `PMono` with the same last clock.  So `PInv` holds of every
projection (`cluster_pinv`) and `idle_pair_knows_everything` lifts (`idle_cluster_own_le_know`).
**Nothing is invented** (`cluster_nothing_invented`, invariant `CInv`): every `know`, every record on a wire, in a
queue, in a backlog is `≤ allOwn` (the join of all `own`, a fold over `List.finRange n`) — for the pass this is
`outIter_good`: a payload is made of the snapshot, the queue head and the backlog only.

Not modelled here: restarts of an instance.  The pair model has the restart of the RECEIVER only (`restartJ`); a
restarted instance is also a SENDER that has lost `own ≤ knowS`, its queue and its backlogs, for which there is no
pair-level theorem, and with sender restarts the equality below is false (an announcement sent to one peer only
before the announcer restarts is never forwarded by that peer).  Hypotheses are those of
`idle_pair_knows_everything`, per instance (`CInit`: everything empty / `bot`, a device entry with
`last_comms ≥ 0` and a foreign urn for every other instance, epoch clocks; `CMono`: decision clocks per instance
never go backwards).
--------------------------------------------------------------------------------------------- -/
namespace Bobo.Tcp
section ClusterIdle
open Bobo.Lattice

/-- the link `i → j` is idle at `i`'s clock `L`: `j` not in `i`'s resync period, `i`'s backlog for `j` empty, `i`'s
queue empty, nothing on `wire i j` (the four conditions of `idle_pair_knows_everything`). -/
def LinkIdle {n : Nat} (C : Cluster n) (L : Int) (i j : Fin n) : Prop :=
  ∃ e, (C.t i).peers[j.val]? = some e ∧ ¬ InResync (C.t i).cfg L e.2 ∧ stashOf e.2 = ([], [], []) ∧
    (C.t i).queue = [] ∧ C.wire i j = []

instance {n : Nat} (C : Cluster n) (L : Int) (i j : Fin n) : Decidable (LinkIdle C L i j) :=
  match h : (C.t i).peers[j.val]? with
  | none => isFalse (fun ⟨_, he, _⟩ => by rw [h] at he; cases he)
  | some e =>
    have : Decidable (¬ InResync (C.t i).cfg L e.2) :=
      inferInstanceAs (Decidable (¬ (L - e.2.lastComms ≥ (C.t i).cfg.periodResync)))
    decidable_of_iff
      (¬ InResync (C.t i).cfg L e.2 ∧ stashOf e.2 = ([], [], []) ∧ (C.t i).queue = [] ∧ C.wire i j = [])
      ⟨fun hh => ⟨e, h, hh⟩, fun ⟨e', he', hh⟩ => by rw [h] at he'; cases he'; exact hh⟩

/-- **projection**: for every ordered pair `i ≠ j`, the cluster run is the run `projSteps i j C0 steps` of the
pair model, from the projection of the initial state to the projection of the final state (fields `t`, `own`,
`knowS := know i`, `knowJ := heard i j`, `wire := wire i j`; the ghost `missing` is the pair run's own), and the
decision clocks of the pair run are monotone with the same last clock. -/
theorem cluster_run_is_pair_run {n : Nat} (C0 : Cluster n) (L0 : Fin n → Int) (steps : List (CStep n))
    (hmono : CMono L0 steps) (i j : Fin n) (hij : i ≠ j) :
    PMono (L0 i) (projSteps i j C0 steps) ∧ pLastNow (L0 i) (projSteps i j C0 steps) = cLastNow L0 steps i ∧
    ∃ ms, prun j.val (proj C0 i j []) (projSteps i j C0 steps) = proj (crun C0 steps) i j ms :=
  ⟨(proj_clocks i j steps C0 L0 hmono).1, (proj_clocks i j steps C0 L0 hmono).2,
    cluster_projects i j hij steps C0 []⟩

/-- **nothing is invented**, and what was heard or announced is known: after every cluster run. -/
theorem cluster_nothing_invented {n : Nat} (C0 : Cluster n) (L0 : Fin n → Int) (hinit : CInit C0 L0)
    (steps : List (CStep n)) :
    (∀ i, (crun C0 steps).own i ≤ (crun C0 steps).know i) ∧
    (∀ i j, (crun C0 steps).heard i j ≤ (crun C0 steps).know j) ∧
    (∀ i, (crun C0 steps).know i ≤ allOwn (crun C0 steps)) ∧
    (∀ i j, ∀ m ∈ (crun C0 steps).wire i j, meaning m ≤ allOwn (crun C0 steps)) ∧
    (∀ i, ∀ m ∈ ((crun C0 steps).t i).queue, meaning m ≤ allOwn (crun C0 steps)) ∧
    (∀ i, ∀ e ∈ ((crun C0 steps).t i).peers, ∀ x ∈ e.2.stashC ++ e.2.stashH ++ e.2.stashU,
      x ≤ allOwn (crun C0 steps)) := by
  have h := cinv_run steps C0 (cinv_init C0 L0 hinit)
  exact ⟨h.ownK, h.heardK, h.knowA, fun i j m hm => meaning_le (h.wireA i j m hm),
    fun i m hm => meaning_le (h.queueA i m hm), h.stashA⟩

/-- **lower bound (the convergence content)**: after every cluster run with per-instance monotone decision
clocks, if the link `i → j` is idle then `j` knows everything `i` ever announced (for `i = j`: always). -/
theorem idle_cluster_own_le_know {n : Nat} (C0 : Cluster n) (L0 : Fin n → Int) (hinit : CInit C0 L0)
    (steps : List (CStep n)) (hmono : CMono L0 steps) (i j : Fin n)
    (L : Int) (hL : cLastNow L0 steps i ≤ L) (hidle : i ≠ j → LinkIdle (crun C0 steps) L i j) :
    (crun C0 steps).own i ≤ (crun C0 steps).know j := by
  have hinv := cinv_run steps C0 (cinv_init C0 L0 hinit)
  by_cases hij : i = j
  · subst hij; exact hinv.ownK i
  · obtain ⟨e, he, hres, hstash, hq, hw⟩ := hidle hij
    simp only [stashOf, Prod.mk.injEq] at hstash
    exact le_trans
      (idle_link_heard C0 L0 hinit steps hmono i j hij L hL e he hres hstash.1 hstash.2.1 hstash.2.2 hq hw)
      (hinv.heardK i j)

/-- **`idle_cluster_converged`**: the cluster starts with nothing announced, known, on a wire, queued or in a
backlog (`CInit`).  After EVERY cluster run — announcements at any instances, passes of any instance with any
send outcomes (failures, timeouts, outages of any length), RESYNCs, deliveries on any wire in any order, duplicate
deliveries, listener steps with any flags — whose decision clocks do not go backwards per instance: if at the end
every link is idle (for every `i ≠ j`: `j` not in `i`'s resync period at `i`'s clock, `i`'s backlog for `j` empty,
`i`'s queue empty, `wire i j` empty), then every instance knows exactly the join of everything announced
anywhere. -/
theorem idle_cluster_converged {n : Nat} (C0 : Cluster n) (L0 : Fin n → Int) (hinit : CInit C0 L0)
    (steps : List (CStep n)) (hmono : CMono L0 steps)
    (L : Fin n → Int) (hL : ∀ i, cLastNow L0 steps i ≤ L i)
    (hidle : ∀ i j, i ≠ j → LinkIdle (crun C0 steps) (L i) i j) :
    ∀ j, (crun C0 steps).know j = allOwn (crun C0 steps) := by
  intro j
  have hinv := cinv_run steps C0 (cinv_init C0 L0 hinit)
  apply le_antisymm (hinv.knowA j)
  apply allOwn_le
  intro i
  exact idle_cluster_own_le_know C0 L0 hinit steps hmono i j (L i) (hL i) (hidle i j)

/-- … so all instances hold the same status. -/
theorem idle_cluster_agrees {n : Nat} (C0 : Cluster n) (L0 : Fin n → Int) (hinit : CInit C0 L0)
    (steps : List (CStep n)) (hmono : CMono L0 steps)
    (L : Fin n → Int) (hL : ∀ i, cLastNow L0 steps i ≤ L i)
    (hidle : ∀ i j, i ≠ j → LinkIdle (crun C0 steps) (L i) i j) (a b : Fin n) :
    (crun C0 steps).know a = (crun C0 steps).know b := by
  rw [idle_cluster_converged C0 L0 hinit steps hmono L hL hidle a,
    idle_cluster_converged C0 L0 hinit steps hmono L hL hidle b]

/-! ### non-vacuity: three instances, two announcements, a failed SYNC, a later SYNC, a RESYNC -/

/-- "a", "b", "c" (instances 0, 1, 2), everybody in contact with everybody; default periods. -/
def cl0 : Cluster 3 :=
  { t := fun i => ⟨["a", "b", "c"].getD i.val "", Periods.default, [],
      [("a", ⟨995, 995, 0, false, [], [], []⟩), ("b", ⟨995, 995, 0, false, [], [], []⟩),
       ("c", ⟨995, 995, 0, false, [], [], []⟩)]⟩,
    own := fun _ => bot, know := fun _ => bot, heard := fun _ _ => bot, wire := fun _ _ => [] }

def clRun : List (CStep 3) :=
  [ .say 0 ⟨[], [], [active 1 1]⟩,          -- a announces
    .pass 0 1000 (failB 1001),               -- a: SYNC to b fails (backlog), SYNC to c on the wire
    .say 2 ⟨[], [halted], []⟩,               -- c announces
    .pass 2 1000 (fun _ => (0, 1001)),       -- c: SYNC to a and to b
    .deliver 0 2 0,
    .deliver 2 0 0,
    .redeliver 2 1 0,
    .deliver 2 1 0,
    .incoming 1 0 0,
    .pass 0 1006 (fun _ => (0, 1007)),       -- a: the backlog goes to b in a later SYNC
    .deliver 0 1 0,
    .pass 1 1100 (fun _ => (0, 1101)),       -- b: a and c are in b's resync period: RESYNC (snapshot = halted)
    .deliver 1 0 0,
    .deliver 1 2 0 ]

/-- the clocks at which the links are looked at: each instance's last decision clock. -/
def clL : Fin 3 → Int := fun i => [1006, 1100, 1000].getD i.val 0

theorem cl0_init : CInit cl0 (fun _ => 999) where
  own0 := fun _ => rfl
  know0 := fun _ => rfl
  heard0 := fun _ _ => rfl
  wire0 := fun _ _ => rfl
  queue0 := fun _ => rfl
  stash0 := by decide
  peer0 := by
    intro i j hij
    have h : ∀ i j : Fin 3, i ≠ j →
        (cl0.t i).peers[j.val]? = some (["a", "b", "c"].getD j.val "", ⟨995, 995, 0, false, [], [], []⟩) ∧
        ["a", "b", "c"].getD j.val "" ≠ (cl0.t i).self := by decide
    exact ⟨_, (h i j hij).1, (h i j hij).2, by show (0 : Int) ≤ 995; decide⟩
  epoch := by decide

example :
    CMono (fun _ => 999) clRun ∧ (∀ i, cLastNow (fun _ => 999) clRun i ≤ clL i) ∧
    -- after a's first pass: the change is in b's backlog, nothing on the wire to b, on the wire to c
    ((crun cl0 (clRun.take 2)).t 0).peers[1]? = some ("b", ⟨995, 1001, 0, false, [], [], [active 1 1]⟩) ∧
    (crun cl0 (clRun.take 2)).wire 0 1 = [] ∧ (crun cl0 (clRun.take 2)).wire 0 2 = [⟨[], [], [active 1 1]⟩] ∧
    -- after c's pass
    (crun cl0 (clRun.take 4)).wire 2 0 = [⟨[], [halted], []⟩] ∧ (crun cl0 (clRun.take 4)).wire 2 1 = [⟨[], [halted], []⟩] ∧
    -- b knows c's change but not a's
    (crun cl0 (clRun.take 9)).know 1 = halted ∧ (crun cl0 (clRun.take 9)).heard 0 1 = bot ∧
    -- a's later SYNC carries the backlog
    (crun cl0 (clRun.take 10)).wire 0 1 = [⟨[], [], [active 1 1]⟩] ∧
    (crun cl0 (clRun.take 11)).heard 0 1 = active 1 1 ∧
    -- b's RESYNCs carry its snapshot
    (crun cl0 (clRun.take 12)).wire 1 0 = [⟨[], [], [halted]⟩] ∧ (crun cl0 (clRun.take 12)).wire 1 2 = [⟨[], [], [halted]⟩] ∧
    -- the end: every link idle, what was announced, and what everybody knows
    (∀ i j, i ≠ j → LinkIdle (crun cl0 clRun) (clL i) i j) ∧
    (crun cl0 clRun).own 0 = active 1 1 ∧ (crun cl0 clRun).own 1 = bot ∧ (crun cl0 clRun).own 2 = halted ∧
    allOwn (crun cl0 clRun) = halted ∧ halted ≠ bot ∧
    (crun cl0 clRun).know 0 = halted ∧ (crun cl0 clRun).know 1 = halted ∧ (crun cl0 clRun).know 2 = halted := by
  decide

/-- … and the same through the theorem. -/
example : ∀ j, (crun cl0 clRun).know j = allOwn (crun cl0 clRun) :=
  idle_cluster_converged cl0 (fun _ => 999) cl0_init clRun (by decide) clL (by decide) (by decide)

/-- the pair `(a, b)` of this run, as the pair model sees it. -/
example : projSteps 0 1 cl0 clRun =
    [ .say ⟨[], [], [active 1 1]⟩, .pass 1000 (failB 1001), .learn halted, .pass 1006 (fun _ => (0, 1007)),
      .deliver 0, .learn halted ].map id ∧
    projSteps 1 0 cl0 clRun =
    [ .learn halted, .learn halted, .incoming 0 0, .learn (active 1 1), .pass 1100 (fun _ => (0, 1101)), .deliver 0 ].map id := by
  refine ⟨?_, ?_⟩ <;> rfl

end ClusterIdle
end Bobo.Tcp
