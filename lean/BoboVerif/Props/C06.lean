import BoboVerif.Model.Decider
/-! C06 — placeholder header; theorems follow. -/
namespace Bobo.Decider
end Bobo.Decider
