import BoboVerif.Model.Tcp
import BoboVerif.Gen.Modes
import BoboVerif.Lemmas.Tcp
/-!
C15 — SYNC, PING and RESYNC are chosen and retried as documented.

Property theorems only.  The model (`selectMode`, `book`, `sendPeer`, `outIter`,
`run`) is in Model/Tcp.lean; the per-pass, per-device characterisation of
`outIter` (`outIter_peer`, `outIter_wire`, `step_j`) in Lemmas/Tcp.lean; the
generated `Bobo.Gen.Modes.*` is re-translated from /repo on every run.

All periods are arbitrary integers, all clock readings arbitrary integers
(no monotonicity is assumed anywhere), any number of devices.
-/
namespace Bobo.Tcp
variable {Rec : Type}

/-! ## 1. The decision table: `selectMode cfg c a qEmpty stash`,
`c = now - last_comms`, `a = now - last_attempt`. -/

/-- once the resync period has elapsed the only possible message is RESYNC, and it is sent iff a
RESYNC attempt is due.  (Never SYNC, never PING — whatever the queue and the backlog hold.) -/
theorem resync_only (cfg : Periods) (c a : Int) (q : Bool) (st : Nat) (h : c ≥ cfg.periodResync) :
    selectMode cfg c a q st = if a ≥ cfg.attemptResync then some .resync else none := by
  simp [selectMode, h]

example : selectMode Periods.default 60 10 false 3 = some .resync ∧
    selectMode Periods.default 60 9 false 3 = none := by decide

/-- RESYNC is chosen *only* once the resync period has elapsed. -/
theorem resync_iff (cfg : Periods) (c a : Int) (q : Bool) (st : Nat) :
    selectMode cfg c a q st = some .resync ↔ (c ≥ cfg.periodResync ∧ a ≥ cfg.attemptResync) := by
  unfold selectMode; repeat' split
  all_goals simp_all
  all_goals (intros; omega)

/-- PING exactly in the ping period, with nothing to send, when a PING attempt is due. -/
theorem ping_only_when_idle (cfg : Periods) (c a : Int) (q : Bool) (st : Nat) :
    selectMode cfg c a q st = some .ping ↔
      (cfg.periodPing ≤ c ∧ c < cfg.periodResync ∧ q = true ∧ st = 0 ∧ a ≥ cfg.attemptPing) := by
  unfold selectMode; repeat' split
  all_goals simp_all
  all_goals omega

example : selectMode Periods.default 30 5 true 0 = some .ping := by decide

/-- SYNC exactly before the resync period when there is work: a queued change (at once), or a
backlog whose retry is due. -/
theorem sync_when_work (cfg : Periods) (c a : Int) (q : Bool) (st : Nat) :
    selectMode cfg c a q st = some .sync ↔
      (c < cfg.periodResync ∧ (q = false ∨ (st > 0 ∧ a ≥ cfg.attemptStash))) := by
  unfold selectMode; repeat' split
  all_goals simp_all
  all_goals omega

example : selectMode Periods.default 45 0 false 0 = some .sync ∧
    selectMode Periods.default 45 5 true 2 = some .sync := by decide

/-- an undelivered backlog on its own is not retried before its interval. -/
theorem backlog_alone_paced (cfg : Periods) (c a : Int) (st : Nat)
    (hc : c < cfg.periodResync) (hst : st > 0) (ha : a < cfg.attemptStash) :
    selectMode cfg c a true st = none := by
  unfold selectMode; repeat' split
  all_goals simp_all
  all_goals omega

example : selectMode Periods.default 45 4 true 2 = none := by decide

/-- in contact, nothing queued, nothing stashed: silence. -/
theorem idle_in_contact_silent (cfg : Periods) (c a : Int) (hpr : cfg.periodPing ≤ cfg.periodResync)
    (hc : c < cfg.periodPing) : selectMode cfg c a true 0 = none := by
  unfold selectMode; repeat' split
  all_goals simp_all
  all_goals omega

example : selectMode Periods.default 29 1000 true 0 = none := by decide

/-- the eight documented cells partition the input space (their conditions are pairwise exclusive
by construction) and fix the result in each. -/
theorem table_complete (cfg : Periods) (c a : Int) (q : Bool) (st : Nat) :
    let r := selectMode cfg c a q st
    (c ≥ cfg.periodResync ∧ a ≥ cfg.attemptResync ∧ r = some .resync) ∨
    (c ≥ cfg.periodResync ∧ a < cfg.attemptResync ∧ r = none) ∨
    (c < cfg.periodResync ∧ q = false ∧ r = some .sync) ∨
    (c < cfg.periodResync ∧ q = true ∧ st > 0 ∧ a ≥ cfg.attemptStash ∧ r = some .sync) ∨
    (c < cfg.periodResync ∧ q = true ∧ st > 0 ∧ a < cfg.attemptStash ∧ r = none) ∨
    (c < cfg.periodResync ∧ q = true ∧ st = 0 ∧ c ≥ cfg.periodPing ∧ a ≥ cfg.attemptPing ∧ r = some .ping) ∨
    (c < cfg.periodResync ∧ q = true ∧ st = 0 ∧ c ≥ cfg.periodPing ∧ a < cfg.attemptPing ∧ r = none) ∨
    (c < cfg.periodResync ∧ q = true ∧ st = 0 ∧ c < cfg.periodPing ∧ r = none) := by
  intro r
  have hr : r = selectMode cfg c a q st := rfl
  unfold selectMode at hr
  cases q <;> repeat' split at hr
  all_goals simp_all
  all_goals omega

/-! ## 2. What one send does to the device (`sendPeer` = flags, pre-send mutation, payload,
post-send bookkeeping `book`). -/

/-- the RESET flag is on the wire exactly when the device's `flag_reset` is set. -/
theorem flags_sent (p : Peer Rec) : flagsOf p = if p.flagReset then FLAG_RESET else 0 := by
  unfold flagsOf; split <;> simp

/-- success: `last_attempt` becomes the (clamped) clock read after the send, and so does `last_comms`
unless the device asked for a reset since the decision (reset counter ≠ the one seen at the
decision; then `last_comms` is left alone); the stash is cleared on SYNC and RESYNC and untouched on
PING; the flag is cleared iff it was on the wire. -/
theorem book_success (t : MsgType) (seen : Nat) (snap cache : Msg Rec) (clock : Int) (p : Peer Rec) :
    let r := (sendPeer t seen snap cache 0 clock p).1
    r.lastComms = (if p.resets = seen then max 0 clock else p.lastComms) ∧ r.lastAttempt = max 0 clock ∧
    r.flagReset = (if flagsOf p &&& FLAG_RESET = FLAG_RESET then false else p.flagReset) ∧
    r.flagReset = false ∧ r.resets = p.resets ∧
    (t = .ping → r.stashC = p.stashC ∧ r.stashH = p.stashH ∧ r.stashU = p.stashU) ∧
    (t ≠ .ping → r.stashC = [] ∧ r.stashH = [] ∧ r.stashU = []) := by
  cases t <;> cases hf : p.flagReset <;> by_cases hs : p.resets = seen <;>
    simp [sendPeer, book, bookContact, prep, flagsOf, clearFlagIfSent, FLAG_RESET, hf, hs, Peer.contacted,
      Peer.setLastAttempt, Peer.setFlagReset, Peer.clearStash]

example : (sendPeer .sync 2 (Msg.empty : Msg Nat) ⟨[7], [], []⟩ 0 100 ⟨3, 4, 2, true, [1], [2], []⟩).1
    = ⟨100, 100, 2, false, [], [], []⟩ := by decide

/-- a reset was counted since the decision: the successful send is not recorded as contact. -/
example : (sendPeer .sync 1 (Msg.empty : Msg Nat) ⟨[7], [], []⟩ 0 100 ⟨0, 0, 2, true, [1], [2], []⟩).1
    = ⟨0, 100, 2, false, [], [], []⟩ := by decide

/-- in a pass during which no reset is handled (`seen` is the device's current counter) the
bookkeeping is the unconditional one that stood before the fix of F5. -/
theorem book_eq_old (t : MsgType) (flags err : Nat) (now : Int) (cache : Msg Rec) (p : Peer Rec) :
    book t flags err now p.resets cache (prep t p) = bookOld t flags err now cache (prep t p) := by
  cases t <;> simp [book, bookOld, bookContact, bookContactOld, prep, Peer.contacted, Peer.setLastComms, Peer.clearStash]

/-- failure (timeout or error alike): `last_comms` and the flag are unchanged, `last_attempt` is the
(clamped) clock read after the send; on SYNC the *queue item* (not the already-stashed part) is
appended to the stash; on RESYNC the stash stays dropped; on PING it is untouched. -/
theorem book_failure (t : MsgType) (seen : Nat) (snap cache : Msg Rec) (err : Nat) (herr : err ≠ 0) (clock : Int)
    (p : Peer Rec) :
    let r := (sendPeer t seen snap cache err clock p).1
    r.lastComms = p.lastComms ∧ r.lastAttempt = max 0 clock ∧ r.flagReset = p.flagReset ∧ r.resets = p.resets ∧
    (t = .sync → r.stashC = p.stashC ++ cache.c ∧ r.stashH = p.stashH ++ cache.h ∧ r.stashU = p.stashU ++ cache.u) ∧
    (t = .resync → r.stashC = [] ∧ r.stashH = [] ∧ r.stashU = []) ∧
    (t = .ping → r.stashC = p.stashC ∧ r.stashH = p.stashH ∧ r.stashU = p.stashU) := by
  cases t <;>
    simp [sendPeer, book, bookContact, prep, herr, Peer.setLastAttempt, Peer.appendStash, Peer.clearStash]

example : (sendPeer .sync 0 (Msg.empty : Msg Nat) ⟨[7], [], [8]⟩ 2 (-5) ⟨3, 4, 0, true, [1], [2], []⟩).1
    = ⟨3, 0, 0, true, [1, 7], [2], [8]⟩ := by decide

/-- the flag after a send: still set iff it was set and the send failed. -/
theorem flag_after_send (t : MsgType) (seen : Nat) (snap cache : Msg Rec) (err : Nat) (clock : Int) (p : Peer Rec) :
    (sendPeer t seen snap cache err clock p).1.flagReset = (p.flagReset && (err != 0)) := by
  by_cases herr : err = 0
  · subst herr; rw [(book_success t seen snap cache clock p).2.2.2.1]; simp
  · rw [(book_failure t seen snap cache err herr clock p).2.2.1]; simp [herr]

/-- what SYNC carries: the pass's queue item followed by the device's backlog; RESYNC carries the
snapshot; PING carries nothing. -/
theorem payload_spec (snap cache : Msg Rec) (p : Peer Rec) :
    payload .sync snap cache (prep .sync p) = ⟨cache.c ++ p.stashC, cache.h ++ p.stashH, cache.u ++ p.stashU⟩ ∧
    payload .resync snap cache (prep .resync p) = snap ∧
    payload .ping snap cache (prep .ping p) = Msg.empty := ⟨rfl, rfl, rfl⟩

/-! ## 3. Sequences of passes with arbitrary clocks, per device `j`
(`jlog j (run s steps)`: the messages sent to `j` and the RESETs received from `j`, in order). -/

/-- a relation holds between every two consecutive elements. -/
def Adj {α : Type} (R : α → α → Prop) : List α → Prop
  | a :: b :: l => R a b ∧ Adj R (b :: l)
  | _ => True

/-- the retry interval that applies to a message: PING / RESYNC always; SYNC only when the queue
was empty at the decision (a backlog retried on its own). -/
def interval (cfg : Periods) (a : Att) : Option Int :=
  match a.typ with
  | .ping => some cfg.attemptPing
  | .resync => some cfg.attemptResync
  | .sync => if a.qEmpty then some cfg.attemptStash else none

/-- `b` directly follows `a` (no RESET from the device in between): `b` was decided at least its
interval after the (clamped) clock read after `a`. -/
def Paced (cfg : Periods) : JEv → JEv → Prop
  | .att a, .att b => ∀ i, interval cfg b = some i → b.now - max 0 a.clock ≥ i
  | _, _ => True

theorem selectMode_interval (cfg : Periods) (c a : Int) (q : Bool) (st : Nat) (t : MsgType)
    (h : selectMode cfg c a q st = some t) (i : Int)
    (hi : interval cfg ⟨0, q, t, 0, 0, 0⟩ = some i) : a ≥ i := by
  unfold selectMode at h
  cases t <;> cases q <;> simp [interval] at hi <;> subst hi <;> repeat' split at h
  all_goals simp_all

theorem lastAttempt_after_send (t : MsgType) (seen : Nat) (snap cache : Msg Rec) (err : Nat) (clock : Int) (p : Peer Rec) :
    (sendPeer t seen snap cache err clock p).1.lastAttempt = max 0 clock := by
  by_cases herr : err = 0
  · subst herr; exact (book_success t seen snap cache clock p).2.1
  · exact (book_failure t seen snap cache err herr clock p).2.1

theorem paced_aux (j : Nat) (steps : List (Step Rec)) :
    ∀ (s : TState Rec) (prev : Option JEv),
      (∀ a, prev = some (.att a) → ∃ e, s.peers[j]? = some e ∧ e.2.lastAttempt = max 0 a.clock) →
      Adj (Paced s.cfg) (prev.toList ++ jlog j (run s steps)) := by
  induction steps with
  | nil => intro s prev _; cases prev <;> simp [run, jlog, Adj]
  | cons x xs ih =>
    intro s prev hinv
    simp only [run, jlog]
    have hcfg := step_cfg s x
    rcases step_j s x j with ⟨hev, hp⟩ | ⟨hev, hp⟩ | ⟨now, snap, outcome, e, t, rfl, he, hd, hev, hp⟩
    · rw [hev, List.nil_append, ← hcfg]
      exact ih _ prev (by intro a ha; rw [hp]; exact hinv a ha)
    · rw [hev]
      have := ih (step s x).1 (some .reset) (by intro a ha; cases ha)
      rw [hcfg] at this
      cases prev with
      | none => simpa using this
      | some p =>
        simp only [Option.toList_some, List.cons_append, List.nil_append] at this ⊢
        exact ⟨by cases p <;> trivial, this⟩
    · rw [hev]
      have := ih (step s (.pass now snap outcome)).1
        (some (.att ⟨now, s.queue.isEmpty, t, flagsOf e.2, (outcome j).1, (outcome j).2⟩))
        (by
          intro a ha
          cases ha
          refine ⟨_, hp, ?_⟩
          simp [entryAfter, lastAttempt_after_send])
      rw [hcfg] at this
      cases prev with
      | none => simpa using this
      | some p =>
        simp only [Option.toList_some, List.cons_append, List.nil_append] at this ⊢
        refine ⟨?_, this⟩
        cases p with
        | reset => trivial
        | att a =>
          obtain ⟨e', he', hla⟩ := hinv a rfl
          rw [he] at he'; cases he'
          intro i hi
          have := selectMode_interval s.cfg _ _ _ _ t hd i (by simpa [interval] using hi)
          simp only
          rw [← hla]; exact this

/-- **retry pacing**: in every sequence of passes, queue insertions and incoming messages, with
arbitrary clock readings, any message to a device that directly follows another message to it
(no RESET received from it in between) was decided at least `attempt_ping` (PING),
`attempt_resync` (RESYNC), `attempt_stash` (SYNC chosen with an empty queue: the backlog on its
own) seconds after the clock reading that followed the previous message — because every attempt,
successful or not, sets `last_attempt` to that reading. -/
theorem no_faster_than_interval (s : TState Rec) (steps : List (Step Rec)) (j : Nat) :
    Adj (Paced s.cfg) (jlog j (run s steps)) := by
  simpa using paced_aux j steps s none (by intro a h; cases h)

/-- with a clock that does not run backwards between a decision and the reading after its send
(and is non-negative), "decided `i` seconds after the previous reading" gives "decisions `i` seconds apart". -/
theorem paced_decisions_apart (cfg : Periods) (a b : Att) (h : Paced cfg (.att a) (.att b))
    (hmono : a.now ≤ a.clock) (hpos : 0 ≤ a.clock) (i : Int) (hi : interval cfg b = some i) :
    b.now - a.now ≥ i := by
  have := h i hi
  omega

/-- the RESET flag, per device: every message carries it while it is set; it stays set exactly
until a send succeeds; afterwards no message carries it. -/
def FlagOK : Bool → List JEv → Prop
  | _, [] => True
  | f, .reset :: l => FlagOK f l
  | f, .att a :: l => a.flags = (if f then FLAG_RESET else 0) ∧ FlagOK (f && (a.err != 0)) l

theorem flag_aux (j : Nat) (steps : List (Step Rec)) :
    ∀ (s : TState Rec) (f : Bool), (∀ e, s.peers[j]? = some e → e.2.flagReset = f) →
      FlagOK f (jlog j (run s steps)) := by
  induction steps with
  | nil => intro s f _; simp [run, jlog, FlagOK]
  | cons x xs ih =>
    intro s f hinv
    simp only [run, jlog]
    rcases step_j s x j with ⟨hev, hp⟩ | ⟨hev, hp⟩ | ⟨now, snap, outcome, e, t, rfl, he, hd, hev, hp⟩
    · rw [hev, List.nil_append]
      exact ih _ f (by intro e he; rw [hp] at he; exact hinv e he)
    · rw [hev]
      simp only [List.singleton_append, FlagOK]
      apply ih _ f
      intro e he
      rw [hp] at he
      cases h0 : s.peers[j]? with
      | none => rw [h0] at he; cases he
      | some e0 => rw [h0] at he; cases he; exact hinv e0 h0
    · rw [hev]
      simp only [List.singleton_append, FlagOK]
      have hf := hinv e he
      refine ⟨by rw [flags_sent, hf], ?_⟩
      apply ih
      intro e' he'
      rw [hp] at he'; cases he'
      simp [entryAfter, flag_after_send, hf]

/-- **the restart flag accompanies every message to a peer until one is delivered** (and none
after), in every sequence of steps. -/
theorem flag_until_delivered (s : TState Rec) (steps : List (Step Rec)) (j : Nat) (e : String × Peer Rec)
    (h : s.peers[j]? = some e) : FlagOK e.2.flagReset (jlog j (run s steps)) :=
  flag_aux j steps s e.2.flagReset (by intro e' he'; rw [h] at he'; cases he'; rfl)

/-- after a RESET received from the device, every message to it is a RESYNC up to and including
the first one that is delivered (`pending` = a RESET has been received and no message delivered since). -/
def ResyncFirst : Bool → List JEv → Prop
  | _, [] => True
  | _, .reset :: l => ResyncFirst true l
  | true, .att a :: l => a.typ = .resync ∧ ResyncFirst (a.err != 0) l
  | false, .att _ :: l => ResyncFirst false l

/-- every pass reads a clock that is at least `period_resync` (true of any real clock: seconds since 1970). -/
def ClocksLate (cfg : Periods) (steps : List (Step Rec)) : Prop :=
  ∀ now snap outcome, Step.pass now snap outcome ∈ steps → now ≥ cfg.periodResync

theorem resync_aux (j : Nat) (steps : List (Step Rec)) :
    ∀ (s : TState Rec) (pending : Bool), ClocksLate s.cfg steps →
      (pending = true → ∀ e, s.peers[j]? = some e → e.2.lastComms = 0) →
      ResyncFirst pending (jlog j (run s steps)) := by
  induction steps with
  | nil => intro s f _ _; cases f <;> simp [run, jlog, ResyncFirst]
  | cons x xs ih =>
    intro s pend hcl hinv
    simp only [run, jlog]
    have hcfg := step_cfg s x
    have hcl' : ClocksLate (step s x).1.cfg xs := by
      rw [hcfg]; intro now snap oc hm; exact hcl now snap oc (List.mem_cons_of_mem _ hm)
    rcases step_j s x j with ⟨hev, hp⟩ | ⟨hev, hp⟩ | ⟨now, snap, outcome, e, t, rfl, he, hd, hev, hp⟩
    · rw [hev, List.nil_append]
      exact ih _ pend hcl' (by intro hpd e he; rw [hp] at he; exact hinv hpd e he)
    · rw [hev]
      have : ResyncFirst true (jlog j (run (step s x).1 xs)) := by
        apply ih _ true hcl'
        intro _ e he
        rw [hp] at he
        cases h0 : s.peers[j]? with
        | none => rw [h0] at he; cases he
        | some e0 => rw [h0] at he; cases he; rfl
      cases pend <;> simpa [ResyncFirst] using this
    · rw [hev]
      cases pend with
      | false =>
        simp only [List.singleton_append, ResyncFirst]
        exact ih _ false hcl' (by intro h; cases h)
      | true =>
        simp only [List.singleton_append, ResyncFirst]
        have hlc := hinv rfl e he
        have hnow := hcl now snap outcome (List.mem_cons_self ..)
        have ht : t = .resync := by
          unfold decideOne at hd
          rw [resync_only _ _ _ _ _ (by rw [hlc]; omega)] at hd
          split at hd
          · cases hd; rfl
          · cases hd
        refine ⟨ht, ?_⟩
        apply ih _ _ hcl'
        intro herr e' he'
        rw [hp] at he'; cases he'
        have herr' : (outcome j).1 ≠ 0 := by simpa using herr
        simp only [entryAfter]
        rw [(book_failure t _ snap _ _ herr' _ e.2).1]; exact hlc

/-- **a peer that receives the flag sends a RESYNC next** (sequential model: the listener's
`clear_last` happens between passes): in every sequence of steps whose passes read clocks
`≥ period_resync`, after each RESET received from device `j` no SYNC or PING is even attempted
towards `j` until a RESYNC has been delivered to it. -/
theorem reset_then_resync_seq (s : TState Rec) (steps : List (Step Rec)) (j : Nat)
    (hcl : ClocksLate s.cfg steps) : ResyncFirst false (jlog j (run s steps)) :=
  resync_aux j steps s false hcl (by intro h; cases h)

/-- and the very next pass does send it, as soon as the clock is also `≥ attempt_resync`. -/
theorem reset_next_pass_resync (cfg : Periods) (p : Peer Rec) (flags : Nat)
    (hf : flags &&& FLAG_RESET = FLAG_RESET) (now : Int) (qE : Bool)
    (h1 : now ≥ cfg.periodResync) (h2 : now ≥ cfg.attemptResync) :
    decideOne cfg now qE (onIncomingFlags flags p) = some .resync := by
  unfold decideOne
  rw [resync_only]
  · simp [onIncomingFlags, hf, Peer.clearLast, h2]
  · simp [onIncomingFlags, hf, Peer.clearLast, h1]

/-- a fresh device manager (constructor) is in the same position: first message is a RESYNC with
the flag, if the instance was created with `flag_reset=True`. -/
theorem fresh_first_is_resync (cfg : Periods) (now : Int) (qE : Bool)
    (h1 : now ≥ cfg.periodResync) (h2 : now ≥ cfg.attemptResync) :
    decideOne cfg now qE (Peer.init true : Peer Rec) = some .resync ∧
    flagsOf (Peer.init true : Peer Rec) = FLAG_RESET := by
  refine ⟨?_, rfl⟩
  unfold decideOne
  rw [resync_only]
  · simp [Peer.init, h2]
  · simp [Peer.init, h1]

/-! ### non-vacuity: one concrete run exercising all three sequence theorems -/

/-- instance "a" with peers "b","c", default periods; `b` starts with the flag set. -/
def exState : TState Nat :=
  ⟨"a", Periods.default, [], [("a", Peer.init true), ("b", Peer.init true), ("c", Peer.init false)]⟩

def exSteps : List (Step Nat) :=
  [ .pass 1000 ⟨[], [], [9]⟩ (fun _ => (1, 1001)),      -- RESYNC to b fails (flag stays)
    .pass 1005 ⟨[], [], [9]⟩ (fun _ => (0, 1005)),      -- too early (attempt_resync = 10)
    .pass 1011 ⟨[], [], [9]⟩ (fun _ => (0, 1012)),      -- RESYNC delivered, flag cleared
    .push ⟨[1], [], []⟩,
    .pass 1013 ⟨[], [], []⟩ (fun _ => (2, 1013)),       -- SYNC fails: item stashed
    .pass 1015 ⟨[], [], []⟩ (fun _ => (0, 1015)),       -- backlog alone: too early (attempt_stash = 5)
    .pass 1018 ⟨[], [], []⟩ (fun _ => (0, 1018)),       -- backlog retried
    .incoming 1 1,                                       -- RESET received from b
    .pass 1019 ⟨[], [], [9]⟩ (fun _ => (0, 1020)),      -- RESYNC again
    .pass 1050 ⟨[], [], []⟩ (fun _ => (0, 1050)) ]      -- PING (30 s of silence)

example : jlog 1 (run exState exSteps) =
    [ .att ⟨1000, true, .resync, 1, 1, 1001⟩, .att ⟨1011, true, .resync, 1, 0, 1012⟩,
      .att ⟨1013, false, .sync, 0, 2, 1013⟩, .att ⟨1018, true, .sync, 0, 0, 1018⟩, .reset,
      .att ⟨1019, true, .resync, 0, 0, 1020⟩, .att ⟨1050, true, .ping, 0, 0, 1050⟩ ] := by decide

example : ClocksLate exState.cfg exSteps := by
  intro now snap oc h
  simp [exSteps] at h
  rcases h with h | h | h | h | h | h | h | h <;> (obtain ⟨rfl, -, -⟩ := h; decide)

/-! ## 4. Tie G: the fragments translated from /repo equal the model. -/

theorem gen_consts_eq :
    Bobo.Gen.Modes.TYPE_SYNC = MsgType.sync.code ∧ Bobo.Gen.Modes.TYPE_PING = MsgType.ping.code ∧
    Bobo.Gen.Modes.TYPE_RESYNC = MsgType.resync.code ∧ Bobo.Gen.Modes.FLAG_RESET = FLAG_RESET ∧
    Bobo.Gen.Modes.defaultPeriods = Periods.default := by decide

theorem gen_selectMode_eq : Bobo.Gen.Modes.selectMode = selectMode := by
  funext cfg c a q st
  unfold Bobo.Gen.Modes.selectMode selectMode
  cases q <;> simp

theorem gen_devman_eq :
    @Bobo.Gen.Modes.initPeer Rec = @Peer.init Rec ∧
    @Bobo.Gen.Modes.setLastComms Rec = @Peer.setLastComms Rec ∧
    @Bobo.Gen.Modes.setLastAttempt Rec = @Peer.setLastAttempt Rec ∧
    @Bobo.Gen.Modes.setFlagReset Rec = @Peer.setFlagReset Rec ∧
    @Bobo.Gen.Modes.clearLast Rec = @Peer.clearLast Rec ∧
    @Bobo.Gen.Modes.contacted Rec = @Peer.contacted Rec ∧
    @Bobo.Gen.Modes.clearStash Rec = @Peer.clearStash Rec ∧
    @Bobo.Gen.Modes.appendStash Rec = @Peer.appendStash Rec ∧
    @Bobo.Gen.Modes.sizeStash Rec = @Peer.sizeStash Rec :=
  ⟨rfl, rfl, rfl, rfl, rfl, by funext p now seen; unfold Bobo.Gen.Modes.contacted Peer.contacted; split <;> simp_all,
    rfl, rfl, rfl⟩

theorem gen_flagsOf_eq : @Bobo.Gen.Modes.flagsOf Rec = @flagsOf Rec := by
  funext p
  unfold Bobo.Gen.Modes.flagsOf flagsOf
  have := gen_consts_eq.2.2.2.1
  cases p.flagReset <;> simp [this]

theorem gen_prep_eq : @Bobo.Gen.Modes.prep Rec = @prep Rec := by
  funext t p; cases t <;> rfl

theorem gen_payload_eq : @Bobo.Gen.Modes.payload Rec = @payload Rec := by
  funext t snap cache p; cases t <;> rfl

theorem gen_book_eq : @Bobo.Gen.Modes.book Rec = @book Rec := by
  funext t flags err now seen cache p
  have hF : Bobo.Gen.Modes.FLAG_RESET = FLAG_RESET := gen_consts_eq.2.2.2.1
  obtain ⟨-, -, h2, h3, -, h4, h5, h6, -⟩ := @gen_devman_eq Rec
  unfold Bobo.Gen.Modes.book book bookContact clearFlagIfSent
  rw [h2, h3, h4, h5, h6, hF]
  cases t <;> by_cases he : err = 0 <;> by_cases hf : flags &&& FLAG_RESET = FLAG_RESET <;> simp [he, hf]

theorem gen_onIncomingFlags_eq : @Bobo.Gen.Modes.onIncomingFlags Rec = @onIncomingFlags Rec := by
  funext flags p
  have hF : Bobo.Gen.Modes.FLAG_RESET = FLAG_RESET := gen_consts_eq.2.2.2.1
  unfold Bobo.Gen.Modes.onIncomingFlags onIncomingFlags
  rw [hF, (@gen_devman_eq Rec).2.2.2.2.1]
  by_cases hf : flags &&& FLAG_RESET = FLAG_RESET <;> simp [hf]

end Bobo.Tcp
