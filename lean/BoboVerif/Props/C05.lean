import BoboVerif.Props.C04
import BoboVerif.Model.Engine
import BoboVerif.Lemmas.GenDecider
import BoboVerif.Lemmas.IdInv
import BoboVerif.Lemmas.MixedRun
/-!
C05 — A finished run stays finished: at most one complex event per run and instance.

With finished-run memory enabled and not evicting (as the property states):
the status of every run key never decreases under a remote update
(`status_monotone_remote`, from `remote_is_join`) — in particular a run that
is remembered as halted or completed is never created or advanced again by any
later, stale, merged or repeated message (`finished_never_recreated`); a run is
reported completed by a remote update only if it was not remembered completed
before, and is remembered afterwards (`completed_reported_once`); a completion
learned from a peer is delivered with `local = false` and the forwarder with
the default `local_only` enqueues nothing for it (`remote_completion_no_action`).
The merged message called out by the property (one message naming a run as
completed and as updated) is the instance `merged_message`.
-/
namespace Bobo.Decider
open Bobo.Run Bobo.Lattice
variable {ε : Type}

/-- along every remote update the status of a key never decreases. -/
theorem status_monotone_remote (c : Cfg ε) (hc : c.caching = true) (hns : NoSing c) (s s' : DState ε)
    (n : Notif ε) (comp halt upd : List (Rec ε))
    (hevC : s.cacheC.length + comp.length ≤ c.maxCache)
    (hevH : s.cacheH.length + halt.length ≤ c.maxCache)
    (hstep : remoteStep c s comp halt upd = some (s', n))
    (ph pa id : String) (hk : (c.getPattern ph pa).isSome = true) :
    abs s ph pa id ≤ abs s' ph pa id :=
  progress_never_backwards c hc hns s s' n comp halt upd hevC hevH hstep ph pa id hk

/-- once halted or completed, always at least that. -/
theorem finished_stays_finished (c : Cfg ε) (hc : c.caching = true) (hns : NoSing c) (s s' : DState ε)
    (n : Notif ε) (comp halt upd : List (Rec ε))
    (hevC : s.cacheC.length + comp.length ≤ c.maxCache)
    (hevH : s.cacheH.length + halt.length ≤ c.maxCache)
    (hstep : remoteStep c s comp halt upd = some (s', n))
    (ph pa id : String) (hk : (c.getPattern ph pa).isSome = true)
    (hfin : halted ≤ abs s ph pa id) : halted ≤ abs s' ph pa id :=
  le_trans hfin (status_monotone_remote c hc hns s s' n comp halt upd hevC hevH hstep ph pa id hk)

/-- the special case called out by the property: ONE message naming the run as completed and as
updated (what the backlog merge produces) completes it — the update is dropped. -/
theorem merged_message (c : Cfg ε) (hc : c.caching = true) (hns : NoSing c) (s s' : DState ε)
    (n : Notif ε) (r u : Rec ε) (hid : u.id = r.id)
    (hevC : s.cacheC.length + 1 ≤ c.maxCache) (hevH : s.cacheH.length + 0 ≤ c.maxCache)
    (hstep : remoteStep c s [r] [] [u] = some (s', n))
    (ph pa : String) (hk : (c.getPattern ph pa).isSome = true) :
    abs s' ph pa r.id = completed :=
  completion_wins c hc hns s s' n [r] [] [u] (by simpa using hevC) (by simpa using hevH) hstep ph pa r.id hk
    (by simp)

/-- a run remembered as finished is never created or advanced by a remote update: whatever the
message says, its table entry is afterwards absent or exactly what it was. -/
theorem finished_never_recreated (c : Cfg ε) (hc : c.caching = true) (hns : NoSing c) (s s' : DState ε)
    (n : Notif ε) (comp halt upd : List (Rec ε))
    (hevC : s.cacheC.length + comp.length ≤ c.maxCache)
    (hevH : s.cacheH.length + halt.length ≤ c.maxCache)
    (hstep : remoteStep c s comp halt upd = some (s', n))
    (ph pa id : String) (hk : (c.getPattern ph pa).isSome = true)
    (hfin : inCache s.cacheC id = true ∨ inCache s.cacheH id = true) :
    stOf (s'.table.runAt ph pa id) ≤ stOf (s.table.runAt ph pa id) := by
  -- replay the phases of the step (as in `remote_is_join_aux`)
  unfold remoteStep remoteStepG at hstep
  simp only [checkAgainstCache, hc, if_true] at hstep
  generalize hcomp1 : comp.filter (fun r => !inCache s.cacheC r.id) = comp1 at hstep
  generalize hhalt1 : halt.filter (fun r => !inCache s.cacheC r.id && !inCache s.cacheH r.id) = halt1 at hstep
  generalize hupd1 : upd.filter (fun r => !inCache s.cacheC r.id && !inCache s.cacheH r.id) = upd1 at hstep
  have hl1 : comp1.length ≤ comp.length := by rw [← hcomp1]; exact List.length_filter_le _ _
  have hl2 : halt1.length ≤ halt.length := by rw [← hhalt1]; exact List.length_filter_le _ _
  rw [maybeCache_noevict c hc s comp1 halt1 (by omega) (by omega)] at hstep
  generalize hs1 : ({ s with cacheC := s.cacheC ++ comp1, cacheH := s.cacheH ++ halt1 } : DState ε) = s1 at hstep
  have hR2 := fold_removeOne_runAt c hns true comp1 s1 [] ph pa id
  obtain ⟨hC2, hH2, _⟩ := fold_removeOne c hns true comp1 s1 []
  generalize hf2 : comp1.foldl (removeOne c true) (s1, []) = st2 at hstep hR2 hC2 hH2
  obtain ⟨s2, compOut⟩ := st2
  simp only at hstep hR2 hC2 hH2
  have hR3 := fold_removeOne_runAt c hns false halt1 s2 [] ph pa id
  obtain ⟨hC3, hH3, _⟩ := fold_removeOne c hns false halt1 s2 []
  generalize hf3 : halt1.foldl (removeOne c false) (s2, []) = st3 at hstep hR3 hC3 hH3
  obtain ⟨s3, haltOut⟩ := st3
  simp only at hstep hR3 hC3 hH3
  generalize hupd2 : upd1.filter (fun r => !inCache s3.cacheC r.id && !inCache s3.cacheH r.id) = upd2 at hstep
  obtain ⟨s4, updOut, hfold, _, _, hT4⟩ := fold_updateOne c hns upd2 s3 []
  simp only [hfold, Option.some.injEq, Prod.mk.injEq] at hstep
  obtain ⟨hs4, _⟩ := hstep
  subst hs4
  rw [hT4 ph pa id hk]
  -- no record for this id survives the filters
  have hnone : upd2.filter (keyMatch ph pa id) = [] := by
    rw [List.filter_eq_nil_iff]
    intro r hr hkm
    have hid : r.id = id := ((keyMatch_iff ph pa id r).mp hkm).2.2.symm
    rw [← hupd2, ← hupd1] at hr
    have := (List.mem_filter.mp (List.mem_filter.mp hr).1).2
    rw [hid] at this
    rcases hfin with h | h <;> simp [h] at this
  rw [hnone]
  simp only [List.map_nil, joinAll, List.foldl_nil, join_bot_right]
  have hs1t : s1.table = s.table := by rw [← hs1]
  rcases hR3 with h3 | h3
  · rw [h3]; exact bot_le _
  · rw [h3]
    rcases hR2 with h2 | h2
    · rw [h2]; exact bot_le _
    · rw [h2, hs1t]; exact le_refl _

/-- **at most one complex event per run and instance**: a remote update reports a run completed only
if it was not remembered completed before; afterwards it is remembered, so no later message — stale,
merged or repeated — can report it again. -/
theorem completed_reported_once (c : Cfg ε) (hc : c.caching = true) (hns : NoSing c) (s s' : DState ε)
    (n : Notif ε) (comp halt upd : List (Rec ε))
    (hevC : s.cacheC.length + comp.length ≤ c.maxCache)
    (hevH : s.cacheH.length + halt.length ≤ c.maxCache)
    (hstep : remoteStep c s comp halt upd = some (s', n)) :
    ∀ r ∈ n.completed, inCache s.cacheC r.id = false ∧ inCache s'.cacheC r.id = true := by
  unfold remoteStep remoteStepG at hstep
  simp only [checkAgainstCache, hc, if_true] at hstep
  generalize hcomp1 : comp.filter (fun r => !inCache s.cacheC r.id) = comp1 at hstep
  generalize hhalt1 : halt.filter (fun r => !inCache s.cacheC r.id && !inCache s.cacheH r.id) = halt1 at hstep
  generalize hupd1 : upd.filter (fun r => !inCache s.cacheC r.id && !inCache s.cacheH r.id) = upd1 at hstep
  have hl1 : comp1.length ≤ comp.length := by rw [← hcomp1]; exact List.length_filter_le _ _
  have hl2 : halt1.length ≤ halt.length := by rw [← hhalt1]; exact List.length_filter_le _ _
  rw [maybeCache_noevict c hc s comp1 halt1 (by omega) (by omega)] at hstep
  generalize hs1 : ({ s with cacheC := s.cacheC ++ comp1, cacheH := s.cacheH ++ halt1 } : DState ε) = s1 at hstep
  have hO2 := fold_removeOne_out c hns true comp1 s1 []
  obtain ⟨hC2, _, _⟩ := fold_removeOne c hns true comp1 s1 []
  generalize hf2 : comp1.foldl (removeOne c true) (s1, []) = st2 at hstep hO2 hC2
  obtain ⟨s2, compOut⟩ := st2
  simp only at hstep hO2 hC2
  obtain ⟨hC3, _, _⟩ := fold_removeOne c hns false halt1 s2 []
  generalize hf3 : halt1.foldl (removeOne c false) (s2, []) = st3 at hstep hC3
  obtain ⟨s3, haltOut⟩ := st3
  simp only at hstep hC3
  generalize hupd2 : upd1.filter (fun r => !inCache s3.cacheC r.id && !inCache s3.cacheH r.id) = upd2 at hstep
  obtain ⟨s4, updOut, hfold, hC4, _, _⟩ := fold_updateOne c hns upd2 s3 []
  simp only [hfold, Option.some.injEq, Prod.mk.injEq] at hstep
  obtain ⟨hs4, hn⟩ := hstep
  subst hs4 hn
  intro r hr
  simp only [List.nil_append] at hO2
  have hr := mem_of_mem_dedupById _ _ hr
  rw [hO2] at hr
  have hr1 : r ∈ comp1 := (List.mem_filter.mp hr).1
  have hr0 := hr1
  rw [← hcomp1] at hr0
  refine ⟨by simpa using (List.mem_filter.mp hr0).2, ?_⟩
  rw [hC4, hC3, hC2, ← hs1]
  simp only [inCache_append, Bool.or_eq_true]
  right
  exact List.any_eq_true.mpr ⟨r, hr1, by simp⟩

/-- what a remote update reports is never marked local … -/
theorem remote_notification_not_local (c : Cfg ε) (hc : c.caching = true) (hns : NoSing c) (s s' : DState ε)
    (n : Notif ε) (comp halt upd : List (Rec ε))
    (hevC : s.cacheC.length + comp.length ≤ c.maxCache)
    (hevH : s.cacheH.length + halt.length ≤ c.maxCache)
    (hstep : remoteStep c s comp halt upd = some (s', n)) : n.loc = false := by
  obtain ⟨s2, n2, h1, h2, _⟩ := remote_is_join_aux c hc hns s comp halt upd hevC hevH
  rw [hstep] at h1
  simp only [Option.some.injEq, Prod.mk.injEq] at h1
  rw [h1.2]; exact h2

/-- … and inside ONE notification no run is reported completed (or halted) twice, whatever the message
repeats and whichever remote runs the local run of a singleton pattern stood in for (fix F18). -/
theorem reported_once_per_notification (f : Rec ε → Run ε → Bool) (b : Bool) (c : Cfg ε) (s s' : DState ε)
    (n : Notif ε) (comp halt upd : List (Rec ε))
    (hstep : remoteStepG f b c s comp halt upd = some (s', n)) :
    (n.completed.map (·.id)).Nodup ∧ (n.halted.map (·.id)).Nodup := by
  unfold remoteStepG at hstep
  simp only at hstep
  split at hstep
  · simp at hstep
  · simp only [Option.some.injEq, Prod.mk.injEq] at hstep
    obtain ⟨_, hn⟩ := hstep
    subst hn
    exact ⟨dedupById_nodup _, dedupById_nodup _⟩

end Bobo.Decider

namespace Bobo.Engine
variable {σ : Type}

/-- … and the forwarder in its default configuration (`local_only = True`) enqueues nothing for a
complex event that is not local: a completion learned from a peer produces the complex event but
executes no action here.  (With `local_only = False` it does — `remote_completion_action_if_not_local_only`.) -/
theorem remote_completion_no_action (P : Params σ) (e : Event) (s : St σ) (h : P.localOnly = true) :
    deliverProd P e false s .forwarder = s := by
  simp [deliverProd, h]

theorem remote_completion_action_if_not_local_only (P : Params σ) (e : Event) (s : St σ) (h : P.localOnly = false) :
    (deliverProd P e false s .forwarder).fq = s.fq ++ [e] := by
  simp [deliverProd, h]

end Bobo.Engine

/-! G-tie (C05): the fragments of decider.py regenerated on this run are the ones the model is built from. -/
namespace Bobo.Decider
/-- the forward-only test, the memory filters and the step order of `on_distributed_update` / `update()` as they
stand in the source now (Gen/DeciderFrag.lean) equal the model's. -/
theorem decider_source_fragments_c05 {ε : Type} (rr : Rec ε) (l : Bobo.Run.Run ε) (c : Cfg ε) (hc : c.caching = true)
    (s : DState ε) (comp halt upd : List (Rec ε)) :
    Bobo.Gen.DeciderFrag.ahead rr.idx rr.hist.size l.idx l.hist.size = ahead rr l ∧
    checkAgainstCache c s comp halt upd =
      (comp.filter (fun r => Bobo.Gen.DeciderFrag.keepCompleted (inCache s.cacheC r.id) (inCache s.cacheH r.id)),
       halt.filter (fun r => Bobo.Gen.DeciderFrag.keepHalted (inCache s.cacheC r.id) (inCache s.cacheH r.id)),
       upd.filter (fun r => Bobo.Gen.DeciderFrag.keepUpdated (inCache s.cacheC r.id) (inCache s.cacheH r.id))) ∧
    Bobo.Gen.DeciderFrag.remoteOrder = remoteOrderModel ∧ Bobo.Gen.DeciderFrag.localOrder = localOrderModel ∧
    Bobo.Gen.DeciderFrag.processEventLists = "r_halt_com+p_halt_com,r_halt_incom,r_upd+p_upd" :=
  ⟨gen_ahead_eq rr l, gen_filters_eq c hc s comp halt upd, gen_remoteOrder_eq, gen_localOrder_eq, gen_processEventLists_eq⟩
end Bobo.Decider

/-! G-tie (C05): the local path of decider.py (`_check_against_runs`, `_check_against_patterns`) as it stands now. -/
namespace Bobo.Decider
/-- per run: `process` alone inside the `try`, then the classification table generated from the source; for a
freshly started run: the decision table generated from the source; and the shapes of the two loops. -/
theorem decider_local_fragments_c05 {ε : Type} (e : ε) (ph : String) (acc : RunsAcc ε) (r : LRun ε)
    (haltedNew completeNew singleton noRuns : Bool) :
    (checkRun e ph acc r =
      match (Bobo.Run.process r.pat r.run e).1 with
      | .ok changed =>
        applyCls ph acc { r with run := (Bobo.Run.process r.pat r.run e).2 }
          (Bobo.Gen.DeciderFrag.classify changed (Bobo.Run.process r.pat r.run e).2.halted
            ((Bobo.Run.process r.pat r.run e).2.isComplete r.pat.blocks.length))
      | _ => { acc with keep := acc.keep ++ [{ r with run := (Bobo.Run.process r.pat r.run e).2 }] }) ∧
    Bobo.Gen.DeciderFrag.startDecision haltedNew completeNew singleton noRuns =
      (if haltedNew && completeNew then .completeAtOnce else if !singleton || noRuns then .store else .skip) ∧
    Bobo.Gen.DeciderFrag.runsShape =
      ["per-run:try-process-only;classify", "remove-finished-after-all-runs", "return:completed,halted,updated"] ∧
    Bobo.Gen.DeciderFrag.patternsShape =
      ["first-block:any-predicate,raise-counts-as-no,empty-history", "new-run:index-1,history-{group0:[event]},fresh-id",
       "return:completed,updated"] :=
  ⟨gen_checkRun_eq e ph acc r, gen_startDecision_eq _ _ _ _, gen_runsShape_eq, gen_patternsShape_eq⟩
end Bobo.Decider

/-! ### over a whole local execution: every finished run is announced exactly once -/
namespace Bobo.Decider
open Bobo.Run Bobo.Lattice
variable {ε : Type}

/-- one instance processing a stream of events (its own `update()` only), with room in the finished-run memory at
every step; `nts` collects the notifications in order. -/
inductive LocalRun (c : Cfg ε) (f : Nat → String) : DState ε → List (Notif ε) → Prop
  | init : LocalRun c f {} []
  | step {a a' : DState ε} {nts : List (Notif ε)} {e : ε} {nt : Notif ε} {ch : Bool} (h : LocalRun c f a nts)
      (hA : localStep (withIds c f) a e = some (a', nt, ch))
      (hevC : a.cacheC.length + nt.completed.length ≤ c.maxCache)
      (hevH : a.cacheH.length + nt.halted.length ≤ c.maxCache) : LocalRun c f a' (nts ++ [nt])

/-- the identifiers announced as finished so far. -/
def finishedIds (nts : List (Notif ε)) : List String := nts.flatMap (fun nt => (nt.completed ++ nt.halted).map (·.id))

structure LocalRunInv (c : Cfg ε) (f : Nat → String) (a : DState ε) (nts : List (Notif ε)) : Prop where
  wf : TableWF a.table
  live : ∀ ph pa id r, a.table.runAt ph pa id = some r → r.run.halted = false
  ids : IdInv c (fun id => ∃ k, k < a.nextId ∧ id = f k) a
  remembered : ∀ id ∈ finishedIds nts, inCache a.cacheC id = true ∨ inCache a.cacheH id = true
  once : (finishedIds nts).Nodup

/-- **a finished run is announced exactly once over a whole execution** (and never again: its identifier stays in
the finished-run memory, which `update()` never evicts here, and no stored or fresh identifier is in the memory).
For every stream, every pattern set whose names resolve uniquely, a repetition-free identifier generator, memory
enabled with room: the list of all identifiers ever announced as completed or halted has no duplicates. -/
theorem finished_announced_once (c : Cfg ε) (hc : c.caching = true) (hcw : CfgWF c) (f : Nat → String)
    (inj : ∀ i j, f i = f j → i = j) (a : DState ε) (nts : List (Notif ε)) (h : LocalRun c f a nts) :
    LocalRunInv c f a nts := by
  induction h with
  | init =>
    have hnone : ∀ ph pa id (r : LRun ε), ({} : DState ε).table.runAt ph pa id = some r → False := by
      intro ph pa id r hr; simp [Table.runAt, Table.runsFrom, lookup] at hr
    exact ⟨wf_empty, fun ph pa id r hr => (hnone ph pa id r hr).elim,
      ⟨fun ph pa id r hr => (hnone ph pa id r hr).elim, fun ph pa id r hr => (hnone ph pa id r hr).elim,
       fun id hm => by simp [inCache] at hm, fun ph pa _ _ id r _ hr _ => (hnone ph pa id r hr).elim,
       fun ph pa id r hr => (hnone ph pa id r hr).elim⟩,
      fun id hid => by simp [finishedIds] at hid, by simp [finishedIds]⟩
  | @step a a' nts e nt ch _ hA hevC hevH ih =>
    have hfr : ∀ k, a.nextId ≤ k → ¬ (∃ k', k' < a.nextId ∧ f k = f k') := by
      rintro k hk ⟨k', hk', e'⟩
      have := inj k k' e'; omega
    obtain ⟨hnext, hmem, _, _, hids', hnd⟩ := local_ids c hc hcw f inj (fun id => ∃ k, k < a.nextId ∧ id = f k) a a' e nt ch
      ih.wf ih.live ih.ids hfr hA hevC hevH
    have hc' : (withIds c f).caching = true := hc
    have hwf' : TableWF a'.table := (local_is_join (withIds c f) hc' a a' e nt ch ih.wf hA hevC hevH).1
    have hlive' : ∀ ph pa id r, a'.table.runAt ph pa id = some r → r.run.halted = false :=
      fun ph pa id r hr => local_live (withIds c f) a a' e nt ch ih.wf hA ph pa id (fun r0 => ih.live ph pa id r0) r hr
    -- the memories after the step
    have hmemAfter : a'.cacheC = a.cacheC ++ nt.completed ∧ a'.cacheH = a.cacheH ++ nt.halted := by
      unfold localStep at hA
      generalize checkAgainstRuns e a.table = car at hA
      obtain ⟨t1, rhc, rhi, rupd⟩ := car
      simp only at hA
      cases hcp : checkAgainstPatterns (withIds c f) e t1 a.nextId with
      | none => simp [hcp] at hA
      | some acc =>
        simp only [hcp, Option.some.injEq, Prod.mk.injEq] at hA
        obtain ⟨hs', hnt, _⟩ := hA
        subst hnt
        have e1 : a.cacheC.length + (rhc ++ acc.hc).length ≤ (withIds c f).maxCache := hevC
        have e2 : a.cacheH.length + rhi.length ≤ (withIds c f).maxCache := hevH
        rw [maybeCache_noevict (withIds c f) hc' { table := acc.table, cacheC := a.cacheC, cacheH := a.cacheH, nextId := acc.nextId } _ _ e1 e2] at hs'
        subst hs'
        exact ⟨rfl, rfl⟩
    refine ⟨hwf', hlive', hids'.mono ?_, ?_, ?_⟩
    · rintro id (⟨k, hk, e1⟩ | ⟨k, _, hk2, e1⟩)
      · exact ⟨k, by omega, e1⟩
      · exact ⟨k, hk2, e1⟩
    · intro id hid
      simp only [finishedIds, List.flatMap_append, List.flatMap_cons, List.flatMap_nil, List.append_nil, List.mem_append] at hid
      rw [hmemAfter.1, hmemAfter.2, inCache_append, inCache_append]
      rcases hid with hold | hnew
      · rcases ih.remembered id hold with h1 | h1
        · left; simp [h1]
        · right; simp [h1]
      · obtain ⟨x, hx, hxe⟩ := List.mem_map.mp hnew
        rcases List.mem_append.mp hx with h1 | h1
        · left
          have : nt.completed.any (fun r => r.id == id) = true := List.any_eq_true.mpr ⟨x, h1, by simp [hxe]⟩
          simp [this]
        · right
          have : nt.halted.any (fun r => r.id == id) = true := List.any_eq_true.mpr ⟨x, h1, by simp [hxe]⟩
          simp [this]
    · simp only [finishedIds, List.flatMap_append, List.flatMap_cons, List.flatMap_nil, List.append_nil]
      rw [List.nodup_append]
      refine ⟨ih.once, hnd, ?_⟩
      intro i hi j hj hij
      -- an identifier announced earlier is remembered; nothing announced now is remembered
      obtain ⟨x, hx, hxe⟩ := List.mem_map.mp hj
      have hnot := hmem x (List.mem_append.mpr (.inl hx))
      rcases ih.remembered i hi with h1 | h1
      · rw [hij, ← hxe, hnot.1] at h1; exact absurd h1 (by decide)
      · rw [hij, ← hxe, hnot.2] at h1; exact absurd h1 (by decide)

/-- in particular: the identifiers ever announced as finished are pairwise different. -/
theorem finished_ids_nodup (c : Cfg ε) (hc : c.caching = true) (hcw : CfgWF c) (f : Nat → String)
    (inj : ∀ i j, f i = f j → i = j) (a : DState ε) (nts : List (Notif ε)) (h : LocalRun c f a nts) :
    (finishedIds nts).Nodup := (finished_announced_once c hc hcw f inj a nts h).once

end Bobo.Decider

/-! ### over a whole MIXED execution: local `update()` steps and ARBITRARY remote messages interleaved

`MixedRun c g s nts`: ONE decider, started empty, whose own identifiers come from `g`, takes steps that are either its
own `update()` on an event (notification recorded with `true`) or `on_distributed_update` on an arbitrary message
(recorded with `false`); `s` is the state reached, `nts` the notifications in order.  Hypotheses carried by the steps
(`MixedStep`, Lemmas/MixedRun.lean): the memory has room at every step; a remote message does not name an identifier
the local generator has yet to issue (`hfresh`) and respects the keys of the runs it names (`hkey : KeyOK`).
Hypotheses of the theorems: memory on, no singleton patterns (`NoSing`), `CfgWF`, `g` never repeats.

Results: a finished run stays finished (`mixed_finished_stays_finished`), is never reported updated again
(`mixed_no_update_after_finish`), is reported COMPLETED at most once and HALTED at most once, and never again after
it was reported completed (`mixed_finished_once_partial`).  The full "reported finished at most once" is FALSE on the
model (counter-runs below: halted first, completed later by a peer) and holds exactly under `NoHaltThenComplete`
(`mixed_finished_once`). -/
namespace Bobo.Decider
open Bobo.Run Bobo.Lattice
variable {ε : Type}

/-- mixed executions from the empty decider (no side condition on the messages beyond freshness and keys). -/
def MixedRun (c : Cfg ε) (g : Nat → String) : DState ε → List (Notif ε × Bool) → Prop := MixedFrom anyMsg c g {}

/-- mixed executions in which no message names as completed a run the receiver remembers as halted (or that the same
message names as halted). -/
def MixedRunStrict (c : Cfg ε) (g : Nat → String) : DState ε → List (Notif ε × Bool) → Prop :=
  MixedFrom NoHaltThenComplete c g {}

/-- the later states of an execution that has reached `s0`: `MixedLater c g s0 s ext` — `s` is reached from `s0`,
`ext` are the notifications in between. -/
def MixedLater (c : Cfg ε) (g : Nat → String) : DState ε → DState ε → List (Notif ε × Bool) → Prop := MixedFrom anyMsg c g

theorem MixedRun.init (c : Cfg ε) (g : Nat → String) : MixedRun c g {} [] := .refl

theorem MixedRun.loc {c : Cfg ε} {g : Nat → String} {s s' : DState ε} {nts : List (Notif ε × Bool)} {e : ε}
    {nt : Notif ε} {ch : Bool} (h : MixedRun c g s nts)
    (hstep : localStep (withIds c g) s e = some (s', nt, ch))
    (hevC : s.cacheC.length + nt.completed.length ≤ c.maxCache)
    (hevH : s.cacheH.length + nt.halted.length ≤ c.maxCache) : MixedRun c g s' (nts ++ [(nt, true)]) :=
  .step h (.loc hstep hevC hevH)

theorem MixedRun.rem {c : Cfg ε} {g : Nat → String} {s s' : DState ε} {nts : List (Notif ε × Bool)}
    {comp halt upd : List (Rec ε)} {nt : Notif ε} (h : MixedRun c g s nts)
    (hstep : remoteStep (withIds c g) s comp halt upd = some (s', nt))
    (hevC : s.cacheC.length + comp.length ≤ c.maxCache)
    (hevH : s.cacheH.length + halt.length ≤ c.maxCache)
    (hfresh : ∀ k, s.nextId ≤ k → g k ∉ msgIds comp halt upd)
    (hkey : KeyOK s comp halt upd) : MixedRun c g s' (nts ++ [(nt, false)]) :=
  .step h (.rem hstep hevC hevH hfresh hkey trivial)

theorem MixedRunStrict.toMixedRun {c : Cfg ε} {g : Nat → String} {s : DState ε} {nts : List (Notif ε × Bool)}
    (h : MixedRunStrict c g s nts) : MixedRun c g s nts := MixedFrom.weaken (fun _ _ _ _ _ => trivial) h

/-- the invariant of mixed executions (Lemmas/MixedRun.lean) holds in every reachable state. -/
theorem mixed_run_inv (c : Cfg ε) (hc : c.caching = true) (hns : NoSing c) (hcw : CfgWF c) (g : Nat → String)
    (inj : ∀ i j, g i = g j → i = j) (s : DState ε) (nts : List (Notif ε × Bool)) (h : MixedRun c g s nts) :
    MixedInv c g s nts := by
  simpa using mixedInv_from anyMsg c hc hns hcw g inj {} s [] nts (mixedInv_init c g) h

/- FALSE as stated (counter-runs `mixed_counter_*` below):

theorem mixed_finished_once (c : Cfg ε) (hc : c.caching = true) (hns : NoSing c) (hcw : CfgWF c) (g : Nat → String)
    (inj : ∀ i j, g i = g j → i = j) (s : DState ε) (nts : List (Notif ε × Bool)) (h : MixedRun c g s nts) :
    (mxFinished nts).Nodup        -- i.e. ∀ x, (mxFinished nts).count x ≤ 1

`on_distributed_update` filters the message's `completed` list against the memory of COMPLETED runs only, so a run
this instance has reported halted (by itself or from a peer) is reported completed when a later message names it as
completed; and one message naming a run both as completed and as halted is reported in both lists. -/

/-- **reported completed at most once, reported halted at most once, and never reported finished again after it was
reported completed** — over every mixed execution, for every identifier, whoever finished the run.  Consequently an
identifier is reported finished at most twice, and twice only as "halted, then (later or in the same remote
notification) completed". -/
theorem mixed_finished_once_partial (c : Cfg ε) (hc : c.caching = true) (hns : NoSing c) (hcw : CfgWF c)
    (g : Nat → String) (inj : ∀ i j, g i = g j → i = j) (s : DState ε) (nts : List (Notif ε × Bool))
    (h : MixedRun c g s nts) :
    (mxCompleted nts).Nodup ∧ (mxHalted nts).Nodup ∧
    (∀ pre post, nts = pre ++ post → ∀ x ∈ mxCompleted pre, x ∉ mxFinished post) ∧
    (∀ x, (mxFinished nts).count x ≤ 2) := by
  have hinv := mixed_run_inv c hc hns hcw g inj s nts h
  refine ⟨hinv.onceC, hinv.onceH, ?_, ?_⟩
  · intro pre post e x hx hfin
    obtain ⟨m, hm1, hm2⟩ := MixedFrom.split h pre post e
    have hinvm := mixed_run_inv c hc hns hcw g inj m pre hm1
    obtain ⟨_, a2, a3, _⟩ := (mixed_after anyMsg c hc hns hcw g inj m s pre post hinvm hm2 x).1 (hinvm.remC x hx)
    rcases (mem_mxFinished post x).mp hfin with h1 | h1
    · exact a2 h1
    · exact a3 h1
  · intro x
    rw [count_mxFinished]
    have h1 := List.nodup_iff_count.mp hinv.onceC x
    have h2 := List.nodup_iff_count.mp hinv.onceH x
    omega

/-- **the full statement, under `NoHaltThenComplete`**: over every mixed execution in which no message names as
completed a run the receiver remembers as halted (or that the same message names as halted), every identifier is
reported finished — completed or halted, locally or remotely — AT MOST ONCE in the instance's life; in particular the
`completed ++ halted` identifiers of every single notification are duplicate-free. -/
theorem mixed_finished_once (c : Cfg ε) (hc : c.caching = true) (hns : NoSing c) (hcw : CfgWF c)
    (g : Nat → String) (inj : ∀ i j, g i = g j → i = j) (s : DState ε) (nts : List (Notif ε × Bool))
    (h : MixedRunStrict c g s nts) :
    (mxFinished nts).Nodup ∧ (∀ x, (mxFinished nts).count x ≤ 1) ∧
    ∀ y ∈ nts, ((y.1.completed ++ y.1.halted).map (·.id)).Nodup := by
  have hnd := mixed_strict_nodup c hc hns hcw g inj s nts h
  refine ⟨hnd, List.nodup_iff_count.mp hnd, ?_⟩
  intro y hy
  obtain ⟨pre, post, e⟩ := List.append_of_mem hy
  rw [e, mxFinished_append, List.nodup_append] at hnd
  have := hnd.2.1
  simp only [mxFinished, List.flatMap_cons, List.nodup_append] at this
  exact this.1

/-- **a finished run stays finished**: once a notification (local or remote) has reported `x` completed or halted,
in every later state of the execution no key of the table holds a run with identifier `x`, and `x` is in the
finished-run memory. -/
theorem mixed_finished_stays_finished (c : Cfg ε) (hc : c.caching = true) (hns : NoSing c) (hcw : CfgWF c)
    (g : Nat → String) (inj : ∀ i j, g i = g j → i = j) (s0 : DState ε) (nts0 : List (Notif ε × Bool))
    (h0 : MixedRun c g s0 nts0) (x : String) (hx : x ∈ mxFinished nts0)
    (s : DState ε) (ext : List (Notif ε × Bool)) (hl : MixedLater c g s0 s ext) :
    (∀ ph pa, s.table.runAt ph pa x = none) ∧ x ∈ (s.cacheC ++ s.cacheH).map (·.id) := by
  have hinv := mixedInv_from anyMsg c hc hns hcw g inj s0 s nts0 ext (mixed_run_inv c hc hns hcw g inj s0 nts0 h0) hl
  have hx' : x ∈ mxFinished (nts0 ++ ext) := by rw [mxFinished_append]; exact List.mem_append.mpr (.inl hx)
  have hrem : inCache s.cacheC x = true ∨ inCache s.cacheH x = true := by
    rcases (mem_mxFinished _ x).mp hx' with h1 | h1
    · exact .inl (hinv.remC x h1)
    · exact .inr (hinv.remH x h1)
  constructor
  · intro ph pa
    cases hr : s.table.runAt ph pa x with
    | none => rfl
    | some r =>
      obtain ⟨f1, f2⟩ := hinv.ids.fresh ph pa x r hr
      rcases hrem with h1 | h1
      · rw [f1] at h1; exact absurd h1 (by decide)
      · rw [f2] at h1; exact absurd h1 (by decide)
  · rw [List.map_append, List.mem_append]
    rcases hrem with h1 | h1
    · obtain ⟨r, hr, e⟩ := (inCache_true_iff _ _).mp h1
      exact .inl (List.mem_map.mpr ⟨r, hr, e⟩)
    · obtain ⟨r, hr, e⟩ := (inCache_true_iff _ _).mp h1
      exact .inr (List.mem_map.mpr ⟨r, hr, e⟩)

/-- **no update after the finish**: once `x` has been reported finished, no later notification's `updated` list
contains a record with identifier `x` — and the notification that reports it finished does not report it updated. -/
theorem mixed_no_update_after_finish (c : Cfg ε) (hc : c.caching = true) (hns : NoSing c) (hcw : CfgWF c)
    (g : Nat → String) (inj : ∀ i j, g i = g j → i = j) (s0 : DState ε) (nts0 : List (Notif ε × Bool))
    (h0 : MixedRun c g s0 nts0) (x : String) (hx : x ∈ mxFinished nts0)
    (s : DState ε) (ext : List (Notif ε × Bool)) (hl : MixedLater c g s0 s ext) :
    x ∉ mxUpdated ext ∧
    ∀ y ∈ nts0, x ∈ (y.1.completed ++ y.1.halted).map (·.id) → x ∉ y.1.updated.map (·.id) := by
  have hinv0 := mixed_run_inv c hc hns hcw g inj s0 nts0 h0
  have haft := mixed_after anyMsg c hc hns hcw g inj s0 s nts0 ext hinv0 hl x
  constructor
  · rcases (mem_mxFinished _ x).mp hx with h1 | h1
    · exact (haft.1 (hinv0.remC x h1)).2.2.2
    · exact (haft.2 (hinv0.remH x h1)).2.2
  · intro y hy hfin hupd
    obtain ⟨f, hf, e1⟩ := List.mem_map.mp hfin
    obtain ⟨u, hu, e2⟩ := List.mem_map.mp hupd
    exact hinv0.sep y hy u hu f hf (by rw [e1, e2])

/-- the same in one list: whatever is reported finished in a prefix of the notifications is not reported updated in
the rest. -/
theorem mixed_no_update_after_finish_list (c : Cfg ε) (hc : c.caching = true) (hns : NoSing c) (hcw : CfgWF c)
    (g : Nat → String) (inj : ∀ i j, g i = g j → i = j) (s : DState ε) (nts : List (Notif ε × Bool))
    (h : MixedRun c g s nts) (pre post : List (Notif ε × Bool)) (e : nts = pre ++ post) :
    ∀ x ∈ mxFinished pre, x ∉ mxUpdated post := by
  intro x hx
  obtain ⟨m, hm1, hm2⟩ := MixedFrom.split h pre post e
  exact (mixed_no_update_after_finish c hc hns hcw g inj m pre hm1 x hx s post hm2).1

end Bobo.Decider

/-! ### non-vacuity and counter-runs (checked by `decide` on the executable runner `mixedExec`) -/
namespace Bobo.Decider
open Bobo.Run

section mixed_example
def mxBlk (k : Nat) (grp : String) : Block Nat :=
  { preds := [fun e _ => some (e == k)], group := grp, strict := false, loop := false, negated := false, optional := false }
/-- two blocks (event 0, then event 1); event 7 halts a run. -/
def mxP : Pattern Nat :=
  { name := "p", singleton := false, pre := [], halt := [fun e _ => some (e == 7)], blocks := [mxBlk 0 "a", mxBlk 1 "b"] }
/-- two blocks (event 5, then event 1). -/
def mxQ : Pattern Nat :=
  { name := "q", singleton := false, pre := [], halt := [], blocks := [mxBlk 5 "a", mxBlk 1 "b"] }
def mxCfg : Cfg Nat :=
  { phenomena := [{ name := "ph", patterns := [mxP, mxQ] }], maxCache := 10, idOf := fun _ => "" }
/-- the local generator: "a", "aa", "aaa", … -/
def mxG (k : Nat) : String := String.ofList (List.replicate (k + 1) 'a')
/-- "`id` is none of `mxG n`, `mxG (n+1)`, …" -/
def mxFr (n : Nat) (id : String) : Bool := !(id.toList.all (· == 'a') && decide (n + 1 ≤ id.length))

theorem mxG_inj : ∀ i j, mxG i = mxG j → i = j := by
  intro i j h
  have := congrArg String.toList h
  simp only [mxG, String.toList_ofList] at this
  have := congrArg List.length this
  simpa using this

theorem mxFr_sound : ∀ n id, mxFr n id = true → ∀ k, n ≤ k → mxG k ≠ id := by
  intro n id h k hk e
  subst e
  simp [mxFr, mxG, String.toList_ofList, String.length_ofList] at h
  omega

theorem mxNoSing : NoSing mxCfg := by
  intro ph pa p hg
  unfold Cfg.getPattern at hg
  cases hf : mxCfg.phenomena.find? (·.name == ph) with
  | none => simp [hf] at hg
  | some P =>
    simp only [hf] at hg
    have hP := List.mem_of_find?_eq_some hf
    have hp := List.mem_of_find?_eq_some hg
    simp only [mxCfg, List.mem_singleton] at hP
    subst hP
    simp only [List.mem_cons, List.not_mem_nil, or_false] at hp
    rcases hp with e | e <;> subst e <;> rfl

theorem mxCfgWF : CfgWF mxCfg := by
  intro P hP p hp
  simp only [mxCfg, List.mem_singleton] at hP
  subst hP
  simp only [List.mem_cons, List.not_mem_nil, or_false] at hp
  rcases hp with e | e <;> subst e <;> rfl

/-- what a notification says, by identifier: (completed, halted, updated, local?). -/
def mxView (x : Notif Nat × Bool) : List String × List String × List String × Bool :=
  (x.1.completed.map (·.id), x.1.halted.map (·.id), x.1.updated.map (·.id), x.2)

def mxRec (id pa : String) (idx : Nat) : Rec Nat := { id := id, phen := "ph", pat := pa, idx := idx, hist := [("a", [0])] }

/-- local start and local completion of run "a"; then a merged, stale message naming "a" as completed AND updated;
then a peer's run "b" arrives as an update and is finished by a later message. -/
def mxSteps : List (MStep Nat) :=
  [.loc 0, .loc 1, .rem [mxRec "a" "p" 2] [] [mxRec "a" "p" 1], .rem [] [] [mxRec "b" "p" 1], .rem [mxRec "b" "p" 2] [] []]

theorem mxSound (strict : Bool) (R : MsgCond Nat) (hR : ∀ s a b u, (!strict || noHCb s a b) = true → R s a b u)
    (steps : List (MStep Nat)) (s : DState Nat) (nts : List (Notif Nat × Bool))
    (h : mixedExec mxCfg mxG mxFr strict true {} [] steps = some (s, nts)) : MixedFrom R mxCfg mxG {} s nts := by
  obtain ⟨ext, e1, hrun⟩ := mixedExec_sound R mxCfg (by decide) mxNoSing mxCfgWF mxG mxG_inj mxFr mxFr_sound strict hR
    steps {} s [] nts (mixedInv_init _ _) h
  rw [List.nil_append] at e1
  rw [e1]; exact hrun

/-- **non-vacuity**: run "a" is started and completed locally; a merged, stale message then names "a" as completed AND
as updated — nothing is reported and nothing is stored; a peer's run "b" arrives as an update and is finished by a
later message.  All hypotheses hold (the run is even a `MixedRunStrict`), the notifications are as the theorems say:
"a" and "b" are reported finished once each, stay finished, and are not reported updated afterwards. -/
example : ∃ s nts, MixedRunStrict mxCfg mxG s nts ∧ MixedRun mxCfg mxG s nts ∧
    nts.map mxView =
      [([], [], ["a"], true), (["a"], [], [], true), ([], [], [], false), ([], [], ["b"], false), (["b"], [], [], false)] ∧
    mxFinished nts = ["a", "b"] ∧ (mxFinished nts).Nodup ∧
    (∀ x ∈ ["a", "b"], (∀ ph pa, s.table.runAt ph pa x = none) ∧ x ∈ (s.cacheC ++ s.cacheH).map (·.id)) ∧
    (∀ pre post, nts = pre ++ post → ∀ x ∈ mxFinished pre, x ∉ mxUpdated post) := by
  have hsome : (mixedExec mxCfg mxG mxFr true true {} [] mxSteps).isSome = true := by decide
  obtain ⟨⟨s, nts⟩, hex⟩ := Option.isSome_iff_exists.mp hsome
  have hview : (mixedExec mxCfg mxG mxFr true true {} [] mxSteps).map (fun r => r.2.map mxView) =
      some [([], [], ["a"], true), (["a"], [], [], true), ([], [], [], false), ([], [], ["b"], false),
        (["b"], [], [], false)] := by decide
  have hfin : (mixedExec mxCfg mxG mxFr true true {} [] mxSteps).map (fun r => mxFinished r.2) = some ["a", "b"] := by
    decide
  rw [hex] at hview hfin
  simp only [Option.map_some, Option.some.injEq] at hview hfin
  have hS : MixedRunStrict mxCfg mxG s nts :=
    mxSound true NoHaltThenComplete (fun s a b u h => noHC_of_noHCb s a b u (by simpa using h)) mxSteps s nts hex
  have hM : MixedRun mxCfg mxG s nts := hS.toMixedRun
  refine ⟨s, nts, hS, hM, hview, hfin, (mixed_finished_once mxCfg (by decide) mxNoSing mxCfgWF mxG mxG_inj s nts hS).1, ?_, ?_⟩
  · intro x hx
    exact mixed_finished_stays_finished mxCfg (by decide) mxNoSing mxCfgWF mxG mxG_inj s nts hM x (by rw [hfin]; exact hx)
      s [] .refl
  · exact mixed_no_update_after_finish_list mxCfg (by decide) mxNoSing mxCfgWF mxG mxG_inj s nts hM

/-- **counter-run 1 to the full `mixed_finished_once`** (a legitimate `MixedRun`: room, freshness and keys hold):
run "a" is started locally (event 0) and HALTED locally (event 7, the pattern's halt condition) — reported halted;
then a peer's message names "a" as COMPLETED: it passes the filter (which looks at the memory of completed runs only)
and "a" is reported completed — a second "finished" report for the same run.  `NoHaltThenComplete` is exactly what
fails: the same steps are rejected by the strict runner. -/
theorem mixed_counter_halt_then_complete : ∃ s nts, MixedRun mxCfg mxG s nts ∧
    nts.map mxView = [([], [], ["a"], true), ([], ["a"], [], true), (["a"], [], [], false)] ∧
    mxFinished nts = ["a", "a"] ∧ ¬ (mxFinished nts).Nodup ∧
    mixedExec mxCfg mxG mxFr true true {} [] [.loc 0, .loc 7, .rem [mxRec "a" "p" 2] [] []] = none := by
  have hsome : (mixedExec mxCfg mxG mxFr false true {} [] [.loc 0, .loc 7, .rem [mxRec "a" "p" 2] [] []]).isSome = true := by
    decide
  obtain ⟨⟨s, nts⟩, hex⟩ := Option.isSome_iff_exists.mp hsome
  have h1 : (mixedExec mxCfg mxG mxFr false true {} [] [.loc 0, .loc 7, .rem [mxRec "a" "p" 2] [] []]).map
      (fun r => r.2.map mxView) = some [([], [], ["a"], true), ([], ["a"], [], true), (["a"], [], [], false)] := by
    decide
  have h2 : (mixedExec mxCfg mxG mxFr false true {} [] [.loc 0, .loc 7, .rem [mxRec "a" "p" 2] [] []]).map
      (fun r => mxFinished r.2) = some ["a", "a"] := by decide
  rw [hex] at h1 h2
  simp only [Option.map_some, Option.some.injEq] at h1 h2
  refine ⟨s, nts, mxSound false anyMsg (fun _ _ _ _ _ => trivial) _ s nts hex, h1, h2, ?_, by decide⟩
  rw [h2]; decide

/-- **counter-run 2**: ONE message naming run "b" both as completed and as halted is reported in both lists of one
notification; and a message naming "b" as halted followed by a message naming it as completed gives two reports. -/
theorem mixed_counter_remote_halt_complete :
    (∃ s nts, MixedRun mxCfg mxG s nts ∧ nts.map mxView = [(["b"], ["b"], [], false)]) ∧
    (∃ s nts, MixedRun mxCfg mxG s nts ∧ nts.map mxView = [([], ["b"], [], false), (["b"], [], [], false)]) := by
  constructor
  · have hsome : (mixedExec mxCfg mxG mxFr false true {} [] [.rem [mxRec "b" "p" 2] [mxRec "b" "p" 1] []]).isSome = true := by
      decide
    obtain ⟨⟨s, nts⟩, hex⟩ := Option.isSome_iff_exists.mp hsome
    have hview : (mixedExec mxCfg mxG mxFr false true {} [] [.rem [mxRec "b" "p" 2] [mxRec "b" "p" 1] []]).map
        (fun r => r.2.map mxView) = some [(["b"], ["b"], [], false)] := by decide
    rw [hex] at hview
    simp only [Option.map_some, Option.some.injEq] at hview
    exact ⟨s, nts, mxSound false anyMsg (fun _ _ _ _ _ => trivial) _ s nts hex, hview⟩
  · have hsome : (mixedExec mxCfg mxG mxFr false true {} []
        [.rem [] [mxRec "b" "p" 1] [], .rem [mxRec "b" "p" 2] [] []]).isSome = true := by decide
    obtain ⟨⟨s, nts⟩, hex⟩ := Option.isSome_iff_exists.mp hsome
    have hview : (mixedExec mxCfg mxG mxFr false true {} []
        [.rem [] [mxRec "b" "p" 1] [], .rem [mxRec "b" "p" 2] [] []]).map
        (fun r => r.2.map mxView) = some [([], ["b"], [], false), (["b"], [], [], false)] := by decide
    rw [hex] at hview
    simp only [Option.map_some, Option.some.injEq] at hview
    exact ⟨s, nts, mxSound false anyMsg (fun _ _ _ _ _ => trivial) _ s nts hex, hview⟩

/-- **why `KeyOK` is assumed**: a message naming identifier "b" under TWO keys (patterns "p" and "q") stores two runs
with the same identifier; the local event 1 completes both — one local notification reports "b" completed twice.
(Unchecked runner; the checked one rejects the message.) -/
example :
    (mixedExec mxCfg mxG mxFr false false {} [] [.rem [] [] [mxRec "b" "p" 1, mxRec "b" "q" 1], .loc 1]).map
      (fun r => r.2.map mxView) = some [([], [], ["b", "b"], false), (["b", "b"], [], [], true)] ∧
    mixedExec mxCfg mxG mxFr false true {} [] [.rem [] [] [mxRec "b" "p" 1, mxRec "b" "q" 1], .loc 1] = none := by
  decide

/-- **why freshness of the local identifiers is assumed**: a message naming as completed the identifier "a" the
local generator has yet to issue is reported; the local run that later gets "a" is reported completed again. -/
example :
    (mixedExec mxCfg mxG mxFr false false {} [] [.rem [mxRec "a" "p" 2] [] [], .loc 0, .loc 1]).map
      (fun r => r.2.map mxView) = some [(["a"], [], [], false), ([], [], ["a"], true), (["a"], [], [], true)] ∧
    mixedExec mxCfg mxG mxFr false true {} [] [.rem [mxRec "a" "p" 2] [] [], .loc 0, .loc 1] = none := by
  decide

end mixed_example
end Bobo.Decider
