import BoboVerif.Model.Decider
/-! C05 — placeholder header; theorems follow. -/
namespace Bobo.Decider
end Bobo.Decider
