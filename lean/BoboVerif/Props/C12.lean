import BoboVerif.Model.Run
import BoboVerif.Model.Decider
import BoboVerif.Lemmas.Run
import BoboVerif.Lemmas.Table
import BoboVerif.Props.C01
import BoboVerif.Props.C14
import BoboVerif.Lemmas.GenDecider
/-!
C12 — Run lifecycle is monotone and terminal; published snapshots never change.

The "frozen snapshot" clause is about aliasing between Python objects; the
pure model has no aliasing, so that clause is *monitored* by the harness
(harness/props/c12.py re-serialises every published record after every later
step) and is not a theorem here.  Everything else is proved below.
-/
namespace Bobo.Run
set_option linter.unusedSimpArgs false
variable {ε : Type}

/-- a run's position never decreases. -/
theorem idx_monotone (p : Pattern ε) (r : Run ε) (e : ε) : r.idx ≤ (process p r e).2.idx := by
  unfold process
  by_cases hh : r.halted = true
  · simp [hh]
  · simp only [hh, if_false]
    cases hg : gate p e r.hist with
    | none => simp
    | some b =>
      cases b
      · simp [halt]
      · exact walk_idx_ge _ _ _ _ _ (Nat.le_refl _)

/-- local processing changes the history only by appending the event just offered
(to the group of the accepting block). -/
theorem history_append_only (p : Pattern ε) (r : Run ε) (e : ε) :
    (process p r e).2.hist = r.hist ∨ ∃ g, (process p r e).2.hist = addEvent r.hist g e :=
  process_hist p r e

/-- appending never loses an event: every change of the history adds the offered event. -/
theorem history_grows (h : Hist ε) (g : String) (e : ε) : Hist.size h + 1 ≤ Hist.size (addEvent h g e) :=
  addEvent_size_ge h g e

/-- a finished run ignores every further event and stays finished. -/
theorem finished_absorbing (p : Pattern ε) (r : Run ε) (e : ε) (h : r.halted = true) :
    process p r e = (.ok false, r) := halted_ignores p r e h

/-- "no change" really means no change. -/
theorem ok_false_unchanged (p : Pattern ε) (r : Run ε) (e : ε)
    (h : (process p r e).1 = .ok false) : (process p r e).2 = r := by
  unfold process at *
  by_cases hh : r.halted = true
  · simp [hh]
  · simp only [hh, if_false] at h ⊢
    cases hg : gate p e r.hist with
    | none => simp
    | some b =>
      cases b
      · simp [hg] at h
      · simp only [hg] at h ⊢
        have hr := walk_res p.blocks.length e (p.blocks.drop r.idx) r.idx r
        generalize walk p.blocks.length e (p.blocks.drop r.idx) r.idx r = w at hr h
        cases hr <;> simp_all

/-- once halted, always halted (local processing never clears the flag). -/
theorem halted_stays (p : Pattern ε) (r : Run ε) (e : ε) (h : r.halted = true) :
    (process p r e).2.halted = true := by
  rw [finished_absorbing p r e h]; exact h

/-! ### the same for whole event streams (every length, every content) -/

/-- a run offered the events of a stream one after the other (what the decider does to a run it keeps). -/
def feed (p : Pattern ε) (r : Run ε) (es : List ε) : Run ε := es.foldl (fun r e => (process p r e).2) r

/-- one step never shrinks the history. -/
theorem hist_size_monotone (p : Pattern ε) (r : Run ε) (e : ε) :
    Hist.size r.hist ≤ Hist.size (process p r e).2.hist := by
  rcases history_append_only p r e with h | ⟨g, h⟩
  · rw [h]; exact Nat.le_refl _
  · rw [h]; have := history_grows r.hist g e; omega

/-- **lifecycle is monotone over every stream**: position and history size never decrease. -/
theorem feed_monotone (p : Pattern ε) (es : List ε) : ∀ r : Run ε,
    r.idx ≤ (feed p r es).idx ∧ Hist.size r.hist ≤ Hist.size (feed p r es).hist := by
  induction es with
  | nil => intro r; exact ⟨Nat.le_refl _, Nat.le_refl _⟩
  | cons e es ih =>
    intro r
    have h1 := idx_monotone p r e
    have h2 := hist_size_monotone p r e
    have h3 := ih (process p r e).2
    simp only [feed, List.foldl_cons] at h3 ⊢
    exact ⟨Nat.le_trans h1 h3.1, Nat.le_trans h2 h3.2⟩

/-- … also between any two moments of one stream (a longer prefix is never behind a shorter one). -/
theorem feed_prefix_monotone (p : Pattern ε) (r : Run ε) (es₁ es₂ : List ε) :
    (feed p r es₁).idx ≤ (feed p r (es₁ ++ es₂)).idx ∧
    Hist.size (feed p r es₁).hist ≤ Hist.size (feed p r (es₁ ++ es₂)).hist := by
  have : feed p r (es₁ ++ es₂) = feed p (feed p r es₁) es₂ := by simp [feed, List.foldl_append]
  rw [this]; exact feed_monotone p es₂ _

/-- **finished is terminal over every stream**: a halted run is the same run after any events whatever. -/
theorem feed_halted_terminal (p : Pattern ε) (es : List ε) : ∀ r : Run ε, r.halted = true → feed p r es = r := by
  induction es with
  | nil => intro r _; rfl
  | cons e es ih =>
    intro r h
    have h1 : (process p r e).2 = r := by rw [finished_absorbing p r e h]
    simp only [feed, List.foldl_cons, h1]
    exact ih r h

/-- once halted at some moment of a stream, halted (and unchanged) at every later moment. -/
theorem feed_halted_forever (p : Pattern ε) (r : Run ε) (es₁ es₂ : List ε) (h : (feed p r es₁).halted = true) :
    feed p r (es₁ ++ es₂) = feed p r es₁ := by
  have : feed p r (es₁ ++ es₂) = feed p (feed p r es₁) es₂ := by simp [feed, List.foldl_append]
  rw [this]; exact feed_halted_terminal p es₂ _ h

/-- non-vacuity: on the pattern of Props/C01 (`exPat`: a, optional b, loop c, strict d; halt on 9) a run advances over
`[2, 2]` (history 1 → 3, position 1), completes on `3` (halted, position 4) and is then deaf to `[2, 9, 0]`. -/
example : let r := newRun "r0" exPat "a" 0
    (feed exPat r [2, 2]).idx = 1 ∧ Hist.size (feed exPat r [2, 2]).hist = 3 ∧
    (feed exPat r [2, 2, 3]).halted = true ∧ (feed exPat r [2, 2, 3]).idx = 4 ∧
    (feed exPat r ([2, 2, 3] ++ [2, 9, 0])).hist = (feed exPat r [2, 2, 3]).hist := by decide

end Bobo.Run

namespace Bobo.Decider
open Bobo.Run
set_option linter.unusedSimpArgs false
variable {ε : Type}

/-- "ahead" is a strict order on positions (index, history size): an equal or earlier record is not ahead. -/
theorem ahead_iff (rr : Rec ε) (l : Run ε) :
    ahead rr l = true ↔ (l.idx < rr.idx ∨ (l.idx = rr.idx ∧ l.hist.size < rr.hist.size)) := by
  unfold ahead
  simp only [Bool.or_eq_true, Bool.and_eq_true, decide_eq_true_eq, beq_iff_eq]
  constructor
  · rintro (h | ⟨h1, h2⟩)
    · exact .inl h
    · exact .inr ⟨h1.symm, h2⟩
  · rintro (h | ⟨h1, h2⟩)
    · exact .inl h
    · exact .inr ⟨h1.symm, h2⟩

theorem not_ahead_of_equal (rr : Rec ε) (l : Run ε) (h1 : rr.idx = l.idx) (h2 : rr.hist.size = l.hist.size) :
    ahead rr l = false := by
  have := ahead_iff rr l
  cases h : ahead rr l
  · rfl
  · have := this.mp h; omega

/-- **a remote update is applied only if it is ahead of the local copy** (non-singleton pattern, the
run exists locally): behind or equal ⇒ the state is unchanged; ahead ⇒ exactly that run takes the
record's position and history, nothing else changes. -/
theorem remote_only_ahead (c : Cfg ε) (s : DState ε) (out : List (Rec ε)) (rr : Rec ε)
    (p : Pattern ε) (rl : LRun ε)
    (hp : c.getPattern rr.phen rr.pat = some p) (hs : p.singleton = false)
    (hl : s.table.runAt rr.phen rr.pat rr.id = some rl) :
    updateOne c ahead (s, out) rr =
      some ((if ahead rr rl.run
             then { s with table := s.table.setBlock rr.phen rr.pat rl.run.id rr.idx rr.hist }
             else s), out ++ [rr]) := by
  unfold updateOne
  simp only [hp, hs, Bool.false_eq_true, if_false, hl, Bool.false_and]
  by_cases ha : ahead rr rl.run = true <;> simp [ha]

/-- a record for a pattern this instance does not know changes nothing (updated / completed / halted). -/
theorem unknown_pattern_ignored_update (c : Cfg ε) (f : Rec ε → Run ε → Bool) (st : DState ε × List (Rec ε))
    (rr : Rec ε) (hp : c.getPattern rr.phen rr.pat = none) : updateOne c f st rr = some st := by
  unfold updateOne; simp [hp]

theorem unknown_pattern_ignored_finish (c : Cfg ε) (b : Bool) (st : DState ε × List (Rec ε))
    (rr : Rec ε) (hp : c.getPattern rr.phen rr.pat = none) : removeOne c b st rr = st := by
  unfold removeOne; simp [hp]

/-! ### finished runs leave the active set; ids stay unique (per bucket) -/

theorem contrib_keep_sub (e : ε) (ph : String) (r : LRun ε) :
    (contrib e ph r).keep = [] ∨
    ((contrib e ph r).keep = [{ r with run := (process r.pat r.run e).2 }] ∧
      ((process r.pat r.run e).2.halted = false ∨ (process r.pat r.run e).2 = r.run)) := by
  unfold contrib checkRun
  cases hp : process r.pat r.run e with
  | mk out run' =>
    cases out with
    | ok b =>
      cases b
      · right
        have := ok_false_unchanged r.pat r.run e (by rw [hp])
        rw [hp] at this
        simp at this
        simp [this]
      · by_cases hh : run'.halted = true
        · left; simp only [hh, if_true]; split <;> simp
        · right; simp [hh]
    | raised =>
      right
      have := raise_leaves_run r.pat r.run e (by rw [hp])
      rw [hp] at this; simp at this; simp [this]
    | indexError =>
      right
      have := index_error_leaves_run r.pat r.run e (by rw [hp])
      rw [hp] at this; simp at this; simp [this]

theorem procBucket_keep (e : ε) (ph : String) (rs : List (LRun ε)) :
    (procBucket e ph rs).keep = rs.flatMap (fun r => (contrib e ph r).keep) := by
  unfold procBucket
  rw [runs_processed_independently]
  have : ∀ (acc : RunsAcc ε), (rs.foldl (fun a r => a.append (contrib e ph r)) acc).keep
      = acc.keep ++ rs.flatMap (fun r => (contrib e ph r).keep) := by
    induction rs with
    | nil => intro acc; simp
    | cons r rest ih =>
      intro acc
      rw [List.foldl_cons, ih]
      simp [RunsAcc.append, List.append_assoc]
  simpa using this {}

/-- **finished runs leave the table**: if every run of a bucket was live before the event, every run
kept after it is live (a run that halted or completed is not kept). -/
theorem kept_runs_live (e : ε) (ph : String) (rs : List (LRun ε))
    (h : ∀ r ∈ rs, r.run.halted = false) : ∀ r ∈ (procBucket e ph rs).keep, r.run.halted = false := by
  intro r hr
  rw [procBucket_keep] at hr
  simp only [List.mem_flatMap] at hr
  obtain ⟨r0, hr0, hmem⟩ := hr
  rcases contrib_keep_sub e ph r0 with hk | ⟨hk, hlive⟩
  · simp [hk] at hmem
  · simp only [hk, List.mem_singleton] at hmem
    subst hmem
    rcases hlive with hl | hl
    · exact hl
    · simp only [hl]; exact h r0 hr0

/-- the ids kept are a sublist of the ids before: no id is invented or duplicated by processing. -/
theorem kept_ids_sublist (e : ε) (ph : String) (rs : List (LRun ε)) :
    ((procBucket e ph rs).keep.map (·.run.id)).Sublist (rs.map (·.run.id)) := by
  rw [procBucket_keep]
  induction rs with
  | nil => simp
  | cons r rest ih =>
    simp only [List.flatMap_cons, List.map_append, List.map_cons]
    rcases contrib_keep_sub e ph r with hk | ⟨hk, _⟩
    · simp only [hk, List.map_nil, List.nil_append]
      exact List.Sublist.cons _ ih
    · simp only [hk, List.map_cons, List.map_nil, List.singleton_append]
      have hid : (process r.pat r.run e).2.id = r.run.id := by
        have hw : ∀ (q : Pattern ε) (x : Run ε) (ev : ε), (process q x ev).2.id = x.id := by
          intro q x ev
          unfold process
          by_cases hh : x.halted = true
          · simp [hh]
          · simp only [hh, if_false]
            cases hg : gate q ev x.hist with
            | none => simp
            | some b =>
              cases b
              · simp [halt]
              · have hr := walk_res q.blocks.length ev (q.blocks.drop x.idx) x.idx x
                generalize walk q.blocks.length ev (q.blocks.drop x.idx) x.idx x = w at hr
                cases hr <;> simp [halt]
        exact hw _ _ _
      simp only [hid]
      exact List.Sublist.cons₂ _ ih

/-- **no two active runs of a pattern share an identifier**: uniqueness of ids in a bucket is
preserved by processing an event … -/
theorem ids_unique_local (e : ε) (ph : String) (rs : List (LRun ε))
    (h : (rs.map (·.run.id)).Nodup) : ((procBucket e ph rs).keep.map (·.run.id)).Nodup :=
  (kept_ids_sublist e ph rs).nodup h

/-- … and by adding a run: `_add_run` refuses an id that is already present. -/
theorem add_refuses_duplicate (t : Table ε) (ph pa : String) (r : LRun ε)
    (h : (t.runAt ph pa r.run.id).isSome = true) : t.add ph pa r = none := by
  simp [Table.add, h]

theorem add_keeps_unique (t t' : Table ε) (ph pa : String) (r : LRun ε)
    (hadd : t.add ph pa r = some t')
    (h : ((t.runsFrom ph pa).map (·.run.id)).Nodup) : ((t'.runsFrom ph pa).map (·.run.id)).Nodup := by
  unfold Table.add at hadd
  by_cases hs : (t.runAt ph pa r.run.id).isSome = true
  · simp [hs] at hadd
  · simp only [hs, Bool.false_eq_true, if_false, Option.some.injEq] at hadd
    subst hadd
    rw [runsFrom_modify t ph pa ph pa true _ (.inl rfl)]
    simp only [and_self, if_true, List.map_append, List.map_cons, List.map_nil]
    rw [List.nodup_append]
    refine ⟨h, by simp, ?_⟩
    intro a ha b hb
    simp only [List.mem_singleton] at hb
    subst hb
    intro hab
    subst hab
    apply hs
    simp only [runAt_def, List.find?_isSome]
    simp only [List.mem_map] at ha
    obtain ⟨x, hx, hxe⟩ := ha
    exact ⟨x, hx, by simp [hxe]⟩

/-! non-vacuity -/
example : ahead ({ id := "r", phen := "p", pat := "q", idx := 1, hist := [("a", [1, 2])] } : Rec Nat)
    ({ id := "r", idx := 1, hist := [("a", [1])], halted := false } : Run Nat) = true := by decide
example : ahead ({ id := "r", phen := "p", pat := "q", idx := 1, hist := [("a", [1])] } : Rec Nat)
    ({ id := "r", idx := 1, hist := [("a", [1])], halted := false } : Run Nat) = false := by decide

end Bobo.Decider

/-! G-tie (C12): the fragments of decider.py regenerated on this run are the ones the model is built from. -/
namespace Bobo.Decider
/-- the forward-only test, the memory filters and the step order of `on_distributed_update` / `update()` as they
stand in the source now (Gen/DeciderFrag.lean) equal the model's. -/
theorem decider_source_fragments_c12 {ε : Type} (rr : Rec ε) (l : Bobo.Run.Run ε) (c : Cfg ε) (hc : c.caching = true)
    (s : DState ε) (comp halt upd : List (Rec ε)) :
    Bobo.Gen.DeciderFrag.ahead rr.idx rr.hist.size l.idx l.hist.size = ahead rr l ∧
    checkAgainstCache c s comp halt upd =
      (comp.filter (fun r => Bobo.Gen.DeciderFrag.keepCompleted (inCache s.cacheC r.id) (inCache s.cacheH r.id)),
       halt.filter (fun r => Bobo.Gen.DeciderFrag.keepHalted (inCache s.cacheC r.id) (inCache s.cacheH r.id)),
       upd.filter (fun r => Bobo.Gen.DeciderFrag.keepUpdated (inCache s.cacheC r.id) (inCache s.cacheH r.id))) ∧
    Bobo.Gen.DeciderFrag.remoteOrder = remoteOrderModel ∧ Bobo.Gen.DeciderFrag.localOrder = localOrderModel ∧
    Bobo.Gen.DeciderFrag.processEventLists = "r_halt_com+p_halt_com,r_halt_incom,r_upd+p_upd" :=
  ⟨gen_ahead_eq rr l, gen_filters_eq c hc s comp halt upd, gen_remoteOrder_eq, gen_localOrder_eq, gen_processEventLists_eq⟩
end Bobo.Decider

/-! G-tie (C12): the local path of decider.py (`_check_against_runs`, `_check_against_patterns`) as it stands now. -/
namespace Bobo.Decider
/-- per run: `process` alone inside the `try`, then the classification table generated from the source; for a
freshly started run: the decision table generated from the source; and the shapes of the two loops. -/
theorem decider_local_fragments_c12 {ε : Type} (e : ε) (ph : String) (acc : RunsAcc ε) (r : LRun ε)
    (haltedNew completeNew singleton noRuns : Bool) :
    (checkRun e ph acc r =
      match (Bobo.Run.process r.pat r.run e).1 with
      | .ok changed =>
        applyCls ph acc { r with run := (Bobo.Run.process r.pat r.run e).2 }
          (Bobo.Gen.DeciderFrag.classify changed (Bobo.Run.process r.pat r.run e).2.halted
            ((Bobo.Run.process r.pat r.run e).2.isComplete r.pat.blocks.length))
      | _ => { acc with keep := acc.keep ++ [{ r with run := (Bobo.Run.process r.pat r.run e).2 }] }) ∧
    Bobo.Gen.DeciderFrag.startDecision haltedNew completeNew singleton noRuns =
      (if haltedNew && completeNew then .completeAtOnce else if !singleton || noRuns then .store else .skip) ∧
    Bobo.Gen.DeciderFrag.runsShape =
      ["per-run:try-process-only;classify", "remove-finished-after-all-runs", "return:completed,halted,updated"] ∧
    Bobo.Gen.DeciderFrag.patternsShape =
      ["first-block:any-predicate,raise-counts-as-no,empty-history", "new-run:index-1,history-{group0:[event]},fresh-id",
       "return:completed,updated"] :=
  ⟨gen_checkRun_eq e ph acc r, gen_startDecision_eq _ _ _ _, gen_runsShape_eq, gen_patternsShape_eq⟩
end Bobo.Decider
