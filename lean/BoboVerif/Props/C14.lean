import BoboVerif.Model.Run
import BoboVerif.Model.Decider
import BoboVerif.Lemmas.Run
import BoboVerif.Lemmas.GenRun
import BoboVerif.Lemmas.GenDecider
/-!
C14 — A failing predicate cannot corrupt or stop detection.

`process` is state passing: it returns the run as it is *after* the call also
when the call raised, so "the affected run is left exactly as it was" is a
theorem about the model (every write is dominated by all evaluations on its
path), not a consequence of the encoding.
-/
namespace Bobo.Run
variable {ε : Type}

/-- the walk leaves the run untouched when a predicate raises (at any depth of
optional / loop fall-through). -/
theorem walk_raise_leaves_run (n : Nat) (e : ε) (bs : List (Block ε)) (i : Nat) (r : Run ε)
    (h : (walk n e bs i r).1 = .raised) : (walk n e bs i r).2 = r := by
  have hr := walk_res n e bs i r
  generalize walk n e bs i r = w at hr h
  cases hr <;> simp_all

/-- **C14 (run level)**: if any precondition, haltcondition or block predicate raises while the
run processes an event, the run is bit-for-bit what it was before — for every position of the
raising evaluation. -/
theorem raise_leaves_run (p : Pattern ε) (r : Run ε) (e : ε)
    (h : (process p r e).1 = .raised) : (process p r e).2 = r := by
  unfold process at *
  by_cases hh : r.halted = true
  · simp [hh]
  · simp only [hh, if_false] at h ⊢
    cases hg : gate p e r.hist with
    | none => simp
    | some b =>
      cases b
      · simp [hg] at h
      · simp only [hg] at h ⊢
        exact walk_raise_leaves_run _ _ _ _ _ h

/-- the same holds for the (unreachable, see C19) index error, which the decider also swallows. -/
theorem index_error_leaves_run (p : Pattern ε) (r : Run ε) (e : ε)
    (h : (process p r e).1 = .indexError) : (process p r e).2 = r := by
  unfold process at *
  by_cases hh : r.halted = true
  · simp [hh]
  · simp only [hh, if_false] at h ⊢
    cases hg : gate p e r.hist with
    | none => simp
    | some b =>
      cases b
      · simp [hg] at h
      · simp only [hg] at h ⊢
        have hr := walk_res p.blocks.length e (p.blocks.drop r.idx) r.idx r
        generalize walk p.blocks.length e (p.blocks.drop r.idx) r.idx r = w at hr h
        cases hr <;> simp_all

/-- a gate evaluation that raises is reported as a raise (and by `raise_leaves_run` changes nothing). -/
theorem gate_raise (p : Pattern ε) (r : Run ε) (e : ε) (hh : r.halted = false)
    (hg : gate p e r.hist = none) : process p r e = (.raised, r) := by
  simp [process, hh, hg]

end Bobo.Run

namespace Bobo.Decider
open Bobo.Run
variable {ε : Type}

/-- contribution of one run to `_check_against_runs`. -/
def contrib (e : ε) (ph : String) (r : LRun ε) : RunsAcc ε := checkRun e ph {} r

def RunsAcc.append (a b : RunsAcc ε) : RunsAcc ε :=
  { keep := a.keep ++ b.keep, hc := a.hc ++ b.hc, hi := a.hi ++ b.hi, upd := a.upd ++ b.upd }

theorem checkRun_eq_append (e : ε) (ph : String) (acc : RunsAcc ε) (r : LRun ε) :
    checkRun e ph acc r = acc.append (contrib e ph r) := by
  unfold contrib checkRun RunsAcc.append
  cases hp : process r.pat r.run e with
  | mk out run' =>
    cases out with
    | ok b => cases b <;> simp <;> (try split) <;> (try split) <;> simp
    | raised => simp
    | indexError => simp

/-- **others unaffected**: what `_check_against_runs` does with one run depends on that run and the
event only — the loop is a concatenation of independent per-run contributions, so a run whose
predicate raises cannot influence how any other run processes the event. -/
theorem runs_processed_independently (e : ε) (ph : String) (rs : List (LRun ε)) (acc : RunsAcc ε) :
    rs.foldl (checkRun e ph) acc = rs.foldl (fun a r => a.append (contrib e ph r)) acc := by
  induction rs generalizing acc with
  | nil => rfl
  | cons r rest ih => simp only [List.foldl_cons, checkRun_eq_append, ih]

/-- the raising run itself is neither removed nor reported, and stays exactly as it was. -/
theorem raising_run_kept (e : ε) (ph : String) (r : LRun ε)
    (h : (process r.pat r.run e).1 = .raised) :
    contrib e ph r = { keep := [r], hc := [], hi := [], upd := [] } := by
  have h2 := raise_leaves_run r.pat r.run e h
  unfold contrib checkRun
  cases hp : process r.pat r.run e with
  | mk out run' =>
    rw [hp] at h h2
    simp at h h2
    subst h h2
    simp

/-- in pattern start, a raising first-block predicate counts as "did not match" and the remaining
predicates of the block are still tried. -/
theorem first_block_raise_is_false (q : Pred ε) (ps : List (Pred ε)) (e : ε) (h : q e [] = none) :
    startMatch (q :: ps) e = startMatch ps e := by
  simp [startMatch, h]

/-- `update()` keeps running: processing existing runs is a total function whatever the predicates
do, and starting runs can only fail on a duplicate run id (never because of a predicate). -/
theorem checkPattern_total (c : Cfg ε) (e : ε) (ph : String) (acc : PatAcc ε) (p : Pattern ε)
    (hb : p.blocks ≠ [])
    (hfresh : (acc.table.runAt ph p.name (c.idOf acc.nextId)).isSome = false) :
    (checkPattern c e ph acc p).isSome = true := by
  unfold checkPattern
  cases hbl : p.blocks with
  | nil => exact absurd hbl hb
  | cons b0 rest =>
    simp only
    split
    · split
      · rfl
      · split
        · simp only [Table.add, newRun]
          simp [hfresh]
        · rfl
    · rfl

/-! non-vacuity: a run whose precondition raises on the event 7 -/
section example_
def exPat : Pattern Nat :=
  { name := "p", singleton := false, pre := [fun e _ => if e == 7 then none else some true], halt := [],
    blocks := [ { preds := [fun e _ => some (e == 0)], group := "a", strict := false, loop := false, negated := false, optional := false },
                { preds := [fun e _ => some (e == 1)], group := "b", strict := true, loop := false, negated := false, optional := false } ] }
example : (process exPat (newRun "r0" exPat "a" 0) 7).1 = .raised := by decide
end example_

end Bobo.Decider

/-! G-tie (C14): the block walk of run.py regenerated on this run is the model's `walk`. -/
namespace Bobo.Run
/-- `_process_loop` / `_process_not_loop` / the gate of `process` / `_move_forward` as they stand in the source now
(Gen/RunWalk.lean) are what the model's `walk`, `process` and `moveForward` do. -/
theorem run_source_walk_c14 {ε : Type} (n : Nat) (e : ε) (b : Block ε) (rest : List (Block ε)) (i : Nat) (r : Run ε) :
    (walk n e (b :: rest) i r =
      match isMatch b.preds e r.hist with
      | none => (.raised, r)
      | some m => applyAct n e b rest i r
          (if b.loop then Bobo.Gen.RunWalk.loopAct m b.strict
           else Bobo.Gen.RunWalk.notLoopAct m b.negated b.optional b.strict)) ∧
    Bobo.Gen.RunWalk.processSteps = processStepsModel ∧
    Bobo.Gen.RunWalk.moveForwardStmts =
      ["self._add_event(event, block)", "self._block_index = temp_index + 1", "self._halted = self.is_complete()"] :=
  ⟨gen_walk_eq n e b rest i r, gen_processSteps_eq, gen_moveForward_eq⟩
end Bobo.Run

/-! G-tie (C14): the local path of decider.py (`_check_against_runs`, `_check_against_patterns`) as it stands now. -/
namespace Bobo.Decider
/-- per run: `process` alone inside the `try`, then the classification table generated from the source; for a
freshly started run: the decision table generated from the source; and the shapes of the two loops. -/
theorem decider_local_fragments_c14 {ε : Type} (e : ε) (ph : String) (acc : RunsAcc ε) (r : LRun ε)
    (haltedNew completeNew singleton noRuns : Bool) :
    (checkRun e ph acc r =
      match (Bobo.Run.process r.pat r.run e).1 with
      | .ok changed =>
        applyCls ph acc { r with run := (Bobo.Run.process r.pat r.run e).2 }
          (Bobo.Gen.DeciderFrag.classify changed (Bobo.Run.process r.pat r.run e).2.halted
            ((Bobo.Run.process r.pat r.run e).2.isComplete r.pat.blocks.length))
      | _ => { acc with keep := acc.keep ++ [{ r with run := (Bobo.Run.process r.pat r.run e).2 }] }) ∧
    Bobo.Gen.DeciderFrag.startDecision haltedNew completeNew singleton noRuns =
      (if haltedNew && completeNew then .completeAtOnce else if !singleton || noRuns then .store else .skip) ∧
    Bobo.Gen.DeciderFrag.runsShape =
      ["per-run:try-process-only;classify", "remove-finished-after-all-runs", "return:completed,halted,updated"] ∧
    Bobo.Gen.DeciderFrag.patternsShape =
      ["first-block:any-predicate,raise-counts-as-no,empty-history", "new-run:index-1,history-{group0:[event]},fresh-id",
       "return:completed,updated"] :=
  ⟨gen_checkRun_eq e ph acc r, gen_startDecision_eq _ _ _ _, gen_runsShape_eq, gen_patternsShape_eq⟩
end Bobo.Decider
