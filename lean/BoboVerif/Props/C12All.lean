import BoboVerif.Lemmas.ProgressAll
import BoboVerif.Props.C05All
/-!
C12 / C14 (all patterns) — **the lifecycle never gets stuck, and a run is announced finished exactly once by the
instance that finished it**; singleton and non-singleton patterns alike, executions mixing the decider's own
`update()` steps with arbitrary remote messages (`AllRun`, Props/C05All.lean).

A. `remote_never_raises` — `on_distributed_update` lets no exception escape: EVERY state, EVERY message, EVERY
   pattern kind, every "ahead" test, with or without the second filter.  No hypothesis at all (none turned out to be
   needed: the only `raise` is `_add_run` on a stored identifier, and `updateOne` reaches `_add_run` only when the
   identifier is not stored under the key — non-singleton: `run_at` has just returned nothing; singleton: the bucket
   is empty).  (`Props/C04.lean`'s `remote_total` needs `NoSing`, memory on and room.)
B. `all_run_remote_progress`, `all_run_local_progress` — in every state of an `AllRun` execution every message and
   every event is handled; `all_run_local_extend`, `all_run_remote_extend` — and the state reached is a state of an
   `AllRun` execution again (given the side conditions of `AllStep`), so the argument repeats: no interleaving of
   local events and (well-keyed, room-respecting) remote messages makes `update()` or `on_distributed_update` raise.
C. `locally_announced_once_all_patterns` — the identifiers announced finished by LOCAL steps are pairwise distinct
   over the whole execution and none had been named finished before (by a local step or by a peer) when announced.
   `remote_announced_once_partial` — the weaker statement for REMOTE notifications, and the counter-run showing what
   it excludes.
D. non-vacuity on the singleton configuration `sg*` of Props/C05All.lean.

Hypotheses added beyond those named in the task: none.  (B.2 has the announced `hblocks`: a pattern has at least one
block — otherwise `pattern.blocks[0]` raises `IndexError`; `no_blocks_raises` below is the counter-run.)
-/
namespace Bobo.Decider
open Bobo.Run
set_option linter.unusedVariables false
variable {ε : Type}

/-! ### A. the remote handler never raises -/

/-- **A. `on_distributed_update` never raises** — for every state, every message and every pattern kind (and every
"ahead" test, with or without the second filter; memory on or off; room or no room).  No hypothesis. -/
theorem remote_never_raises (aheadF : Rec ε → Run ε → Bool) (refilter : Bool) (c : Cfg ε) (s : DState ε)
    (comp halt upd : List (Rec ε)) :
    (remoteStepG aheadF refilter c s comp halt upd).isSome = true :=
  remoteStepG_isSome aheadF refilter c s comp halt upd

/-- the code as it stands. -/
theorem remoteStep_never_raises (c : Cfg ε) (s : DState ε) (comp halt upd : List (Rec ε)) :
    (remoteStep c s comp halt upd).isSome = true :=
  remote_never_raises ahead true c s comp halt upd

/-- the same, naming the result. -/
theorem remoteStep_total_all (c : Cfg ε) (s : DState ε) (comp halt upd : List (Rec ε)) :
    ∃ s' n, remoteStep c s comp halt upd = some (s', n) := by
  obtain ⟨⟨s', n⟩, h⟩ := Option.isSome_iff_exists.mp (remoteStep_never_raises c s comp halt upd)
  exact ⟨s', n, h⟩

/-- the one step of the `updated` loop: never `none`, whatever the table holds. -/
theorem updated_record_never_raises (c : Cfg ε) (aheadF : Rec ε → Run ε → Bool) (st : DState ε × List (Rec ε))
    (rr : Rec ε) : (updateOne c aheadF st rr).isSome = true :=
  updateOne_isSome c aheadF st rr

/-! ### B. progress: an execution can always go on -/

/-- **B.1** in every state reached by an `AllRun` execution, every message is handled (an instance of A: the
hypothesis `h` is not even used). -/
theorem all_run_remote_progress (c : Cfg ε) (g : Nat → String) (s : DState ε) (fin : List String)
    (h : AllRun c g s fin) (comp halt upd : List (Rec ε)) :
    (remoteStep (withIds c g) s comp halt upd).isSome = true :=
  remoteStep_never_raises (withIds c g) s comp halt upd

/-- every reachable state holds none of the identifiers the local generator has still to hand out (`FutureFree`):
stored identifiers are "not ahead" (`AllInv.ids.tbl`) — local steps store identifiers just issued, and a message never
names an identifier still to be issued (`hfresh` of `AllStep.rem`). -/
theorem all_run_futureFree (c : Cfg ε) (hc : c.caching = true) (hcw : CfgWF c) (g : Nat → String)
    (inj : ∀ i j, g i = g j → i = j) (s : DState ε) (fin : List String) (h : AllRun c g s fin) :
    TableWF s.table ∧ FutureFree (withIds c g) s.table s.nextId := by
  obtain ⟨hi, _, _⟩ := allInv_from c hc hcw g inj {} s fin (allInv_init c g) h
  exact ⟨hi.wf, futureFree_of_allInv c g s hi⟩

/-- **B.2** in every state reached by an `AllRun` execution (memory on, `CfgWF c`, `g` injective), every event is
handled — whatever the predicates of the patterns do on it — provided every pattern has at least one block. -/
theorem all_run_local_progress (c : Cfg ε) (hc : c.caching = true) (hcw : CfgWF c) (g : Nat → String)
    (inj : ∀ i j, g i = g j → i = j) (hblocks : ∀ P ∈ c.phenomena, ∀ p ∈ P.patterns, p.blocks ≠ [])
    (s : DState ε) (fin : List String) (h : AllRun c g s fin) (e : ε) :
    (localStep (withIds c g) s e).isSome = true := by
  obtain ⟨hi, _, _⟩ := allInv_from c hc hcw g inj {} s fin (allInv_init c g) h
  obtain ⟨s', nt, ch, h1⟩ := localStep_isSome_of_allInv c g inj hblocks s hi e
  rw [h1]; rfl

/-- B.2 continued: the event is handled AND (when the memories have room for what the step finishes) the state reached
is a state of an `AllRun` execution again — so the next event or message is handled as well, and so on. -/
theorem all_run_local_extend (c : Cfg ε) (hc : c.caching = true) (hcw : CfgWF c) (g : Nat → String)
    (inj : ∀ i j, g i = g j → i = j) (hblocks : ∀ P ∈ c.phenomena, ∀ p ∈ P.patterns, p.blocks ≠ [])
    (s : DState ε) (fin : List String) (h : AllRun c g s fin) (e : ε) :
    ∃ s' nt ch, localStep (withIds c g) s e = some (s', nt, ch) ∧
      (s.cacheC.length + nt.completed.length ≤ c.maxCache → s.cacheH.length + nt.halted.length ≤ c.maxCache →
        AllRun c g s' (fin ++ (nt.completed ++ nt.halted).map (·.id))) := by
  obtain ⟨hi, _, _⟩ := allInv_from c hc hcw g inj {} s fin (allInv_init c g) h
  obtain ⟨s', nt, ch, h1⟩ := localStep_isSome_of_allInv c g inj hblocks s hi e
  exact ⟨s', nt, ch, h1, fun hevC hevH => AllFrom.step h (.loc h1 hevC hevH)⟩

/-- B.1 continued: the message is handled AND (room for two records per finished record, well-keyed, naming no
identifier the local generator has still to issue) the state reached is a state of an `AllRun` execution again. -/
theorem all_run_remote_extend (c : Cfg ε) (g : Nat → String) (s : DState ε) (fin : List String)
    (h : AllRun c g s fin) (comp halt upd : List (Rec ε)) :
    ∃ s' nt, remoteStep (withIds c g) s comp halt upd = some (s', nt) ∧
      (s.cacheC.length + 2 * comp.length ≤ c.maxCache → s.cacheH.length + 2 * halt.length ≤ c.maxCache →
        (∀ k, s.nextId ≤ k → g k ∉ msgIds comp halt upd) → KeyOK s comp halt upd →
        AllRun c g s' (fin ++ (comp ++ halt ++ nt.completed ++ nt.halted).map (·.id))) := by
  obtain ⟨s', nt, h1⟩ := remoteStep_total_all (withIds c g) s comp halt upd
  exact ⟨s', nt, h1, fun hevC hevH hfresh hkey => AllFrom.step h (.rem h1 hevC hevH hfresh hkey)⟩

/-- **B, together**: from a state of an `AllRun` execution, ANY list of events and messages is worked through to the
end by the runner that tests nothing but the side conditions of `AllStep` — unless one of those side conditions
(room in the memories; the message well-keyed and naming no identifier still to be issued) fails: the runner stops
(`none`) ONLY at a step whose side condition fails, never because `update()` or `on_distributed_update` raised. -/
theorem all_run_stops_only_on_side_condition (c : Cfg ε) (hc : c.caching = true) (hcw : CfgWF c)
    (g : Nat → String) (inj : ∀ i j, g i = g j → i = j) (fr : Nat → String → Bool)
    (hfr : ∀ n id, fr n id = true → ∀ k, n ≤ k → g k ≠ id)
    (hblocks : ∀ P ∈ c.phenomena, ∀ p ∈ P.patterns, p.blocks ≠ []) (steps : List (MStep ε)) :
    ∀ (s : DState ε) (fin0 fin : List String), AllRun c g s fin0 → allExec c g fr s fin steps = none →
      ∃ pre st post s1 fin1, steps = pre ++ st :: post ∧ allExec c g fr s fin pre = some (s1, fin1) ∧
        match st with
        | .loc e => ∃ s2 nt ch, localStep (withIds c g) s1 e = some (s2, nt, ch) ∧
            ¬ (s1.cacheC.length + nt.completed.length ≤ c.maxCache ∧ s1.cacheH.length + nt.halted.length ≤ c.maxCache)
        | .rem comp halt upd => ∃ s2 nt, remoteStep (withIds c g) s1 comp halt upd = some (s2, nt) ∧
            ¬ (s1.cacheC.length + 2 * comp.length ≤ c.maxCache ∧ s1.cacheH.length + 2 * halt.length ≤ c.maxCache ∧
              (msgIds comp halt upd).all (fr s1.nextId) = true ∧ keyOKb s1 comp halt upd = true) := by
  induction steps with
  | nil => intro s fin0 fin _ h; simp [allExec] at h
  | cons st rest ih =>
    intro s fin0 fin hrun h
    obtain ⟨hi, _, _⟩ := allInv_from c hc hcw g inj {} s fin0 (allInv_init c g) hrun
    cases st with
    | loc e =>
      obtain ⟨s2, nt, ch, h1⟩ := localStep_isSome_of_allInv c g inj hblocks s hi e
      by_cases hroom : s.cacheC.length + nt.completed.length ≤ c.maxCache ∧
          s.cacheH.length + nt.halted.length ≤ c.maxCache
      · have hrun2 : AllRun c g s2 (fin0 ++ (nt.completed ++ nt.halted).map (·.id)) :=
          AllFrom.step hrun (.loc h1 hroom.1 hroom.2)
        have h' : allExec c g fr s2 (fin ++ (nt.completed ++ nt.halted).map (·.id)) rest = none := by
          simpa only [allExec, h1, hroom.1, hroom.2, decide_true, Bool.and_self, if_true] using h
        obtain ⟨pre, st, post, s3, fin3, e1, e2, e3⟩ := ih s2 _ _ hrun2 h'
        refine ⟨.loc e :: pre, st, post, s3, fin3, by rw [e1]; rfl, ?_, e3⟩
        simpa only [allExec, h1, hroom.1, hroom.2, decide_true, Bool.and_self, if_true] using e2
      · exact ⟨[], .loc e, rest, s, fin, rfl, rfl, s2, nt, ch, h1, hroom⟩
    | rem comp halt upd =>
      obtain ⟨s2, nt, h1⟩ := remoteStep_total_all (withIds c g) s comp halt upd
      by_cases hside : s.cacheC.length + 2 * comp.length ≤ c.maxCache ∧ s.cacheH.length + 2 * halt.length ≤ c.maxCache ∧
          (msgIds comp halt upd).all (fr s.nextId) = true ∧ keyOKb s comp halt upd = true
      · obtain ⟨c1, c2, c3, c4⟩ := hside
        have hfresh : ∀ k, s.nextId ≤ k → g k ∉ msgIds comp halt upd := by
          intro k hk hm
          exact hfr s.nextId (g k) (List.all_eq_true.mp c3 _ hm) k hk rfl
        have hrun2 : AllRun c g s2 (fin0 ++ (comp ++ halt ++ nt.completed ++ nt.halted).map (·.id)) :=
          AllFrom.step hrun (.rem h1 c1 c2 hfresh (keyOK_of_keyOKb s hi.wf comp halt upd c4))
        have h' : allExec c g fr s2 (fin ++ (comp ++ halt ++ nt.completed ++ nt.halted).map (·.id)) rest = none := by
          simpa only [allExec, h1, c1, c2, c3, c4, decide_true, Bool.and_self, if_true] using h
        obtain ⟨pre, st, post, s3, fin3, e1, e2, e3⟩ := ih s2 _ _ hrun2 h'
        refine ⟨.rem comp halt upd :: pre, st, post, s3, fin3, by rw [e1]; rfl, ?_, e3⟩
        simpa only [allExec, h1, c1, c2, c3, c4, decide_true, Bool.and_self, if_true] using e2
      · exact ⟨[], .rem comp halt upd, rest, s, fin, rfl, rfl, s2, nt, h1, hside⟩

/-! ### C. announced exactly once by the instance that finished it -/

/-- one local step: in a state reached by an execution that named `fin` finished so far, the identifiers `update()`
reports completed or halted are pairwise distinct and none of them is in `fin`. -/
theorem local_announcement_is_new (c : Cfg ε) (hc : c.caching = true) (hcw : CfgWF c) (g : Nat → String)
    (inj : ∀ i j, g i = g j → i = j) (s s' : DState ε) (fin : List String) (h : AllRun c g s fin)
    (e : ε) (nt : Notif ε) (ch : Bool) (hstep : localStep (withIds c g) s e = some (s', nt, ch))
    (hevC : s.cacheC.length + nt.completed.length ≤ c.maxCache)
    (hevH : s.cacheH.length + nt.halted.length ≤ c.maxCache) :
    ((nt.completed ++ nt.halted).map (·.id)).Nodup ∧ ∀ r ∈ nt.completed ++ nt.halted, r.id ∉ fin := by
  obtain ⟨hi, _, hm⟩ := allInv_from c hc hcw g inj {} s fin (allInv_init c g) h
  obtain ⟨h1, h2⟩ := local_announces_new c hc hcw g inj s s' e nt ch hi hstep hevC hevH
  exact ⟨h1, fun r hr hin => h2 r hr (hm r.id hin)⟩

/-- every execution has a trace (per step: local or remote, and the identifiers it names finished) whose flat list is
the list `AllFrom` collects; and conversely. -/
theorem all_from_iff_trace (c : Cfg ε) (g : Nat → String) (s0 s : DState ε) (fin : List String) :
    AllFrom c g s0 s fin ↔ ∃ tr, LFrom c g s0 s tr ∧ finOf tr = fin :=
  ⟨fun h => h.toL, fun ⟨tr, h, e⟩ => e ▸ h.toAll⟩

/-- **C. announced exactly once by the instance that finished it** (every pattern kind).  An execution with trace
`tr`, started from a state `s0` reached by an `AllRun` execution that named `fin0` finished.  `locOf tr` lists, in
order, the identifiers announced finished by the LOCAL steps (`(nt.completed ++ nt.halted).map (·.id)` of each local
notification).  Then
* `locOf tr` has no duplicates — within one notification and across notifications;
* none of them is in `fin0`: it had not been named finished before the execution started;
* at the moment it is announced (`tr = pre ++ (true, x) :: post`, `x` = the labels of that local step), none of
  the step's labels had been named finished before — neither in `fin0` nor by any earlier step of the trace, LOCAL
  OR REMOTE (`finOf pre`: local notifications, the `comp`/`halt` lists of peers' messages, remote notifications). -/
theorem locally_announced_once_all_patterns (c : Cfg ε) (hc : c.caching = true) (hcw : CfgWF c) (g : Nat → String)
    (inj : ∀ i j, g i = g j → i = j) (s0 : DState ε) (fin0 : List String) (h0 : AllRun c g s0 fin0)
    (s : DState ε) (tr : Trace) (h : LFrom c g s0 s tr) :
    (locOf tr).Nodup ∧ (∀ x ∈ locOf tr, x ∉ fin0) ∧
    (∀ pre x post, tr = pre ++ (true, x) :: post → x.Nodup ∧ ∀ id ∈ x, id ∉ fin0 ++ finOf pre) := by
  obtain ⟨h1, _, h3, h4⟩ := lfrom_local_once c hc hcw g inj s0 fin0 h0 s tr h
  exact ⟨h1, h3, h4⟩

/-- the same in terms of `AllFrom`: the execution has a trace with flat list `fin` of which all that holds. -/
theorem locally_announced_once_allFrom (c : Cfg ε) (hc : c.caching = true) (hcw : CfgWF c) (g : Nat → String)
    (inj : ∀ i j, g i = g j → i = j) (s0 : DState ε) (fin0 : List String) (h0 : AllRun c g s0 fin0)
    (s : DState ε) (fin : List String) (h : AllFrom c g s0 s fin) :
    ∃ tr, LFrom c g s0 s tr ∧ finOf tr = fin ∧ (locOf tr).Nodup ∧ (∀ x ∈ locOf tr, x ∈ fin ∧ x ∉ fin0) ∧
      (∀ pre x post, tr = pre ++ (true, x) :: post → x.Nodup ∧ ∀ id ∈ x, id ∉ fin0 ++ finOf pre) := by
  obtain ⟨tr, htr, e⟩ := h.toL
  obtain ⟨h1, h2, h3, h4⟩ := lfrom_local_once c hc hcw g inj s0 fin0 h0 s tr htr
  exact ⟨tr, htr, e, h1, fun x hx => ⟨e ▸ h2 x hx, h3 x hx⟩, h4⟩

/-- **the remote side, as far as it holds** (`_partial`).  One remote message in a state reached by an execution that
named `fin` finished so far.  Its notification names no identifier twice as completed and none twice as halted; what
it reports HALTED had never been named finished before; what it reports COMPLETED is not remembered as completed, and
had never been named finished before UNLESS it is remembered as halted — and then it is a record of the message's own
`completed` list (never a replaced local run of a singleton pattern).
EXCLUDED, because false (`remote_counter_halt_then_complete_all` below, and `mixed_counter_halt_then_complete`,
`mixed_counter_remote_halt_complete` in Props/C05.lean): (1) a run remembered as HALTED here and named COMPLETED by a
peer is reported once more (as completed); (2) one message naming an identifier both completed and halted is
reported in both lists of one notification.  No room / key / freshness hypothesis on the message is needed. -/
theorem remote_announced_once_partial (c : Cfg ε) (hc : c.caching = true) (hcw : CfgWF c) (g : Nat → String)
    (inj : ∀ i j, g i = g j → i = j) (s s' : DState ε) (fin : List String) (h : AllRun c g s fin)
    (comp halt upd : List (Rec ε)) (nt : Notif ε)
    (hstep : remoteStep (withIds c g) s comp halt upd = some (s', nt)) :
    (nt.completed.map (·.id)).Nodup ∧ (nt.halted.map (·.id)).Nodup ∧
    (∀ r ∈ nt.halted, r.id ∉ fin) ∧
    (∀ r ∈ nt.completed, inCache s.cacheC r.id = false ∧
      (inCache s.cacheH r.id = false → r.id ∉ fin) ∧ (inCache s.cacheH r.id = true → r ∈ comp)) := by
  obtain ⟨hi, _, hm⟩ := allInv_from c hc hcw g inj {} s fin (allInv_init c g) h
  have hc' : (withIds c g).caching = true := hc
  obtain ⟨h1, h2, h3, h4⟩ := remote_reported_new (withIds c g) hc' ahead true s s' comp halt upd nt hi.ids.fresh hstep
  refine ⟨h3, h4, fun r hr hin => h2 r hr (hm r.id hin), ?_⟩
  intro r hr
  refine ⟨(h1 r hr).1, ?_, (h1 r hr).2⟩
  intro hH hin
  rcases hm r.id hin with hmm | hmm
  · rw [(h1 r hr).1] at hmm; exact absurd hmm (by decide)
  · rw [hH] at hmm; exact absurd hmm (by decide)

/-! ### D. non-vacuity (the singleton configuration of Props/C05All.lean) -/

section singleton_example

theorem sgBlocks : ∀ P ∈ sgCfg.phenomena, ∀ p ∈ P.patterns, p.blocks ≠ [] := by
  intro P hP p hp
  simp only [sgCfg, List.mem_singleton] at hP
  subst hP
  simp only [List.mem_singleton] at hp
  subst hp
  simp [sgP]

/-- **non-vacuity of B**: after the 6-step execution `sgSteps` of the SINGLETON configuration (local start of "r0";
merged message finishing "f0" and with it "r0"; local start of "r00"; stale `updated` record; "f1" named halted, taking
"r00" with it; event 1) EVERY event is handled, EVERY message is handled — in particular the concrete merged message
naming "f2" completed and the long finished "f0" updated — and the state reached by handling event 0 (starts "r000")
is a state of an `AllRun` execution again. -/
example : ∃ s fin, AllRun sgCfg sgG s fin ∧ fin = ["f0", "r0", "f1", "r00"] ∧
    (∀ e : Nat, (localStep (withIds sgCfg sgG) s e).isSome = true) ∧
    (∀ comp halt upd, (remoteStep (withIds sgCfg sgG) s comp halt upd).isSome = true) ∧
    (remoteStep (withIds sgCfg sgG) s [sgRec "f2" 2] [] [sgRec "f0" 1]).isSome = true ∧
    (∃ s' nt ch, localStep (withIds sgCfg sgG) s 0 = some (s', nt, ch) ∧ nt.updated.map (·.id) = ["r000"] ∧
      AllRun sgCfg sgG s' (fin ++ (nt.completed ++ nt.halted).map (·.id))) := by
  have hsome : (allExec sgCfg sgG sgFr {} [] sgSteps).isSome = true := by decide
  obtain ⟨⟨s, fin⟩, hex⟩ := Option.isSome_iff_exists.mp hsome
  have hview1 : (allExec sgCfg sgG sgFr {} [] sgSteps).map (·.2) = some ["f0", "r0", "f1", "r00"] := by decide
  have hview2 : (allExec sgCfg sgG sgFr {} [] sgSteps).bind
      (fun r => (localStep (withIds sgCfg sgG) r.1 0).map (fun x =>
        (x.2.1.updated.map (·.id), x.2.1.completed.length, x.2.1.halted.length, r.1.cacheC.length, r.1.cacheH.length))) =
      some (["r000"], 0, 0, 2, 2) := by decide
  rw [hex] at hview1 hview2
  simp only [Option.map_some, Option.some.injEq, Option.bind_some] at hview1 hview2
  obtain ⟨ext, e1, hrun⟩ := allExec_sound sgCfg (by decide) sgCfgWF sgG sgG_inj sgFr sgFr_sound sgSteps {} s [] fin
    (allInv_init _ _) hex
  rw [List.nil_append] at e1
  subst e1
  have hrun' : AllRun sgCfg sgG s fin := hrun
  refine ⟨s, fin, hrun', hview1,
    fun e => all_run_local_progress sgCfg (by decide) sgCfgWF sgG sgG_inj sgBlocks s fin hrun' e,
    fun comp halt upd => all_run_remote_progress sgCfg sgG s fin hrun' comp halt upd,
    all_run_remote_progress sgCfg sgG s fin hrun' _ _ _, ?_⟩
  obtain ⟨s', nt, ch, h1, h2⟩ := all_run_local_extend sgCfg (by decide) sgCfgWF sgG sgG_inj sgBlocks s fin hrun' 0
  have hv := hview2
  rw [h1] at hv
  simp only [Option.map_some, Option.some.injEq, Prod.mk.injEq] at hv
  obtain ⟨v1, v2, v3, v4, v5⟩ := hv
  refine ⟨s', nt, ch, h1, v1, h2 ?_ ?_⟩
  · rw [v2, v4]; decide
  · rw [v3, v5]; decide

/-- local start "r0" and local completion of it; local start "r00"; a peer's "f0" named completed takes the local
"r00" with it; local start "r000" and local completion of it. -/
def sgSteps2 : List (MStep Nat) :=
  [.loc 0, .loc 1, .loc 0, .rem [sgRec "f0" 2] [] [], .loc 0, .loc 1]

/-- **non-vacuity of C**: the trace of that execution — every side condition holds at every step —; the local labels
are "r0" and "r000" (each announced once, by the instance that finished it; "r00", finished by the peer's message, is
in the REMOTE label), and the theorem applies. -/
example : ∃ s tr, LFrom sgCfg sgG {} s tr ∧
    tr = [(true, []), (true, ["r0"]), (true, []), (false, ["f0", "r00"]), (true, []), (true, ["r000"])] ∧
    locOf tr = ["r0", "r000"] ∧ finOf tr = ["r0", "f0", "r00", "r000"] ∧ (locOf tr).Nodup ∧
    (∀ pre x post, tr = pre ++ (true, x) :: post → x.Nodup ∧ ∀ id ∈ x, id ∉ finOf pre) := by
  have hsome : (lExec sgCfg sgG sgFr {} [] sgSteps2).isSome = true := by decide
  obtain ⟨⟨s, tr⟩, hex⟩ := Option.isSome_iff_exists.mp hsome
  have hview : (lExec sgCfg sgG sgFr {} [] sgSteps2).map (·.2) =
      some [(true, []), (true, ["r0"]), (true, []), (false, ["f0", "r00"]), (true, []), (true, ["r000"])] := by
    decide
  rw [hex] at hview
  simp only [Option.map_some, Option.some.injEq] at hview
  obtain ⟨ext, e1, hrun⟩ := lExec_sound sgCfg (by decide) sgCfgWF sgG sgG_inj sgFr sgFr_sound sgSteps2 {} s [] tr
    (allInv_init _ _) hex
  rw [List.nil_append] at e1
  subst e1
  obtain ⟨h1, _, h3⟩ := locally_announced_once_all_patterns sgCfg (by decide) sgCfgWF sgG sgG_inj {} []
    (AllRun.init _ _) s tr hrun
  refine ⟨s, tr, hrun, hview, by rw [hview]; decide, by rw [hview]; decide, h1, ?_⟩
  intro pre x post e
  obtain ⟨a, b⟩ := h3 pre x post e
  exact ⟨a, fun id hid hin => b id hid (by simpa using hin)⟩

/-- **what `remote_announced_once_partial` excludes does happen** (singleton configuration, a legitimate execution:
every side condition holds): a peer's "f1" is named HALTED (reported, with the replaced local "r0"); later a peer's
message names "f1" COMPLETED: it passes the filter (which looks at the completed memory only) and "f1" is reported a
second time. -/
theorem remote_counter_halt_then_complete_all : ∃ s tr, LFrom sgCfg sgG {} s tr ∧
    tr = [(true, []), (false, ["f1", "r0"]), (false, ["f1", "f1"])] ∧ ¬ (finOf tr).Nodup := by
  have hsome : (lExec sgCfg sgG sgFr {} [] [.loc 0, .rem [] [sgRec "f1" 1] [], .rem [sgRec "f1" 2] [] []]).isSome = true := by
    decide
  obtain ⟨⟨s, tr⟩, hex⟩ := Option.isSome_iff_exists.mp hsome
  have hview : (lExec sgCfg sgG sgFr {} [] [.loc 0, .rem [] [sgRec "f1" 1] [], .rem [sgRec "f1" 2] [] []]).map (·.2) =
      some [(true, []), (false, ["f1", "r0"]), (false, ["f1", "f1"])] := by decide
  rw [hex] at hview
  simp only [Option.map_some, Option.some.injEq] at hview
  obtain ⟨ext, e1, hrun⟩ := lExec_sound sgCfg (by decide) sgCfgWF sgG sgG_inj sgFr sgFr_sound _ {} s [] tr
    (allInv_init _ _) hex
  rw [List.nil_append] at e1
  subst e1
  exact ⟨s, tr, hrun, hview, by rw [hview]; decide⟩

/-- the configuration `sgCfg` with the pattern NOT singleton. -/
def sgNs : Cfg Nat :=
  { phenomena := [{ name := "ph", patterns := [{ sgP with singleton := false }] }], maxCache := 10, idOf := sgG }

/-- **A on the spot where `_add_run` could refuse**: one message naming the NEW identifier "f0" twice in `updated` —
the first record creates the run, the second finds it (singleton: head of the bucket; non-singleton: `run_at`) —
while `_add_run` itself does refuse a stored identifier. -/
example :
    (remoteStep sgCfg {} [] [] [sgRec "f0" 1, sgRec "f0" 1]).map sgView = some (["f0"], [], [], [], ["f0", "f0"]) ∧
    (remoteStep sgNs {} [] [] [sgRec "f0" 1, sgRec "f0" 1]).map sgView = some (["f0"], [], [], [], ["f0", "f0"]) ∧
    ((remoteStep sgCfg {} [] [] [sgRec "f0" 1]).bind (fun r =>
      r.1.table.add "ph" "p" { run := { id := "f0", idx := 1, hist := [], halted := false }, pat := sgP })).isNone = true :=
  ⟨by decide, by decide, by decide⟩

/-- **why B.2 assumes a block per pattern**: a pattern without blocks makes `update()` raise (`pattern.blocks[0]`). -/
theorem no_blocks_raises :
    (localStep { phenomena := [{ name := "ph", patterns := [{ sgP with blocks := [] }] }], maxCache := 10, idOf := sgG }
      {} 0).isNone = true := by
  decide

end singleton_example

end Bobo.Decider
