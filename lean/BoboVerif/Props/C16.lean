import BoboVerif.Model.IdGen
import BoboVerif.Gen.IdGen
import BoboVerif.Lemmas.IdFmt
import BoboVerif.Gen.Locks
/-!
C16 — Generated identifiers never repeat.

Property theorems only.  `step`/`run`/`fmt` are in Model/IdGen.lean; the
generated `Bobo.Gen.IdGen.step` is re-translated from /repo on every run.
-/
namespace Bobo.IdGen

/-- lexicographic order on (second, counter). -/
def lexLt (a b : Out) : Prop := a.1 < b.1 ∨ (a.1 = b.1 ∧ a.2 < b.2)

theorem lexLt_trans {a b c : Out} (h₁ : lexLt a b) (h₂ : lexLt b c) : lexLt a c := by
  unfold lexLt at *; omega

theorem lexLt_ne {a b : Out} (h : lexLt a b) : a ≠ b := by
  intro e; subst e; unfold lexLt at h; omega

/-- the pair handed out is the new state, and it is strictly above the old state. -/
theorem step_out_eq_state (s : St) (now : Int) :
    (step s now).2 = ((step s now).1.last, (step s now).1.count) := by
  unfold step; split <;> rfl

theorem step_increases (s : St) (now : Int) :
    lexLt (s.last, s.count) (step s now).2 := by
  unfold step lexLt; split <;> simp <;> omega

/-- every id handed out later is strictly above the current state. -/
theorem run_above (ts : List Int) : ∀ (s : St), ∀ o ∈ run step s ts, lexLt (s.last, s.count) o := by
  induction ts with
  | nil => intro s o h; simp [run] at h
  | cons t ts ih =>
    intro s o h
    simp only [run, List.mem_cons] at h
    rcases h with h | h
    · subst h; exact step_increases s t
    · have := ih _ o h
      rw [← step_out_eq_state] at this
      exact lexLt_trans (step_increases s t) this

/-- **C16 (numbers)**: for every clock sequence — any steps, backwards included —
the (second, counter) pairs handed out are strictly increasing, hence pairwise distinct. -/
theorem run_sorted (ts : List Int) : ∀ (s : St), (run step s ts).Pairwise lexLt := by
  induction ts with
  | nil => intro s; simp [run]
  | cons t ts ih =>
    intro s
    simp only [run, List.pairwise_cons]
    refine ⟨?_, ih _⟩
    intro o ho
    have := run_above ts _ o ho
    rwa [← step_out_eq_state] at this

theorem ids_distinct (s : St) (ts : List Int) : (run step s ts).Pairwise (· ≠ ·) :=
  (run_sorted ts s).imp lexLt_ne

/-- non-vacuity / finding F10: the pinned-tree body repeats an id when the clock steps back. -/
theorem old_collides : ¬ (run stepOld init [10, 10, 9, 10]).Pairwise (· ≠ ·) := by decide

example : run step init [10, 10, 9, 10] = [(10,0), (10,1), (10,2), (10,3)] := by decide

/-- tie G: the body of `generate` as translated from /repo equals the model. -/
theorem gen_step_eq : Bobo.Gen.IdGen.step = step := by
  funext s now; unfold Bobo.Gen.IdGen.step step; repeat' split
  all_goals first | rfl | (simp_all <;> omega) | simp_all

/-! ### the formatted strings (helper lemmas in Lemmas/IdFmt.lean) -/

/-- **`fmt` is injective** in (prefix, second, counter) for every prefix string (underscores and
digits allowed): the decimal renderings contain no `'_'`, so the last two underscores of an id
delimit the two numbers. -/
theorem fmt_injective {p₁ p₂ : Option String} {o₁ o₂ : Out} (h : fmt p₁ o₁ = fmt p₂ o₂) :
    p₁ = p₂ ∧ o₁ = o₂ := fmt_inj h

example : fmt (some "dev_1") (2, 3) ≠ fmt (some "dev") (1, 23) := fun h => by
  have := (fmt_injective h).1; simp at this

/-- ids of generators with different prefixes (one of them possibly without prefix) are disjoint. -/
theorem prefix_disjoint {p₁ p₂ : Option String} (hp : p₁ ≠ p₂) (o₁ o₂ : Out) : fmt p₁ o₁ ≠ fmt p₂ o₂ :=
  fun h => hp (fmt_injective h).1

theorem fmt_none_ne_fmt_some (u : String) (o₁ o₂ : Out) : fmt none o₁ ≠ fmt (some u) o₂ :=
  prefix_disjoint (by simp) o₁ o₂

/-- **C16 (strings)**: the formatted ids handed out by one generator are pairwise distinct, for every
prefix, every state and every clock sequence. -/
theorem ids_distinct_str (urn : Option String) (s : St) (ts : List Int) :
    ((run step s ts).map (fmt urn)).Pairwise (· ≠ ·) :=
  List.Pairwise.map _ (fun _ _ hne h => hne (fmt_injective h).2) (ids_distinct s ts)

example : (run step init [10, 10, 9, 10]).map (fmt (some "u")) = ["u_10_0", "u_10_1", "u_10_2", "u_10_3"] := by decide

/-! ### several generators (one per device, as `BoboSetupSimpleDistributed` builds them) -/

/-- ids of two generators with different prefixes, each in any state and under any clock sequence of its own, are
pairwise distinct as one combined list. -/
theorem ids_distinct_two_generators {p₁ p₂ : Option String} (hp : p₁ ≠ p₂) (s₁ s₂ : St) (ts₁ ts₂ : List Int) :
    ((run step s₁ ts₁).map (fmt p₁) ++ (run step s₂ ts₂).map (fmt p₂)).Pairwise (· ≠ ·) := by
  rw [List.pairwise_append]
  refine ⟨ids_distinct_str p₁ s₁ ts₁, ids_distinct_str p₂ s₂ ts₂, ?_⟩
  intro a ha b hb
  simp only [List.mem_map] at ha hb
  obtain ⟨o₁, _, rfl⟩ := ha
  obtain ⟨o₂, _, rfl⟩ := hb
  exact prefix_disjoint hp o₁ o₂

/-- one generator of a cluster: its prefix, its state, the clock readings of its calls. -/
abbrev GenRun := Option String × St × List Int

def GenRun.ids (g : GenRun) : List String := (run step g.2.1 g.2.2).map (fmt g.1)

/-- **C16 (cluster)**: any number of generators whose prefixes are pairwise different — each with its own state and
its own (unsynchronised, possibly backwards-stepping) clock — never hand out the same id twice between them. -/
theorem ids_distinct_cluster (gs : List GenRun) (hp : gs.Pairwise (fun a b => a.1 ≠ b.1)) :
    (gs.flatMap GenRun.ids).Pairwise (· ≠ ·) := by
  rw [List.pairwise_flatMap]
  refine ⟨fun g _ => ids_distinct_str g.1 g.2.1 g.2.2, hp.imp ?_⟩
  intro a b hab x hx y hy
  simp only [GenRun.ids, List.mem_map] at hx hy
  obtain ⟨o₁, _, rfl⟩ := hx
  obtain ⟨o₂, _, rfl⟩ := hy
  exact prefix_disjoint hab o₁ o₂

example : ([(some "a", init, [5, 5, 4]), (some "a_5", init, [0, 0]), (none, init, [5])] : List GenRun).flatMap GenRun.ids
    = ["a_5_0", "a_5_1", "a_5_2", "a_5_0_1", "a_5_0_2", "5_0"] := by decide

/-- the remembered second is never behind a clock reading already seen: after the calls, `last` is at least every
reading and at least the initial `last` (the logical second only moves forward). -/
theorem step_last_ge (s : St) (now : Int) : s.last ≤ (step s now).1.last ∧ now ≤ (step s now).1.last := by
  unfold step; split <;> simp <;> omega

def final (s : St) : List Int → St
  | [] => s
  | t :: ts => final (step s t).1 ts

theorem final_last_ge (ts : List Int) : ∀ s : St, s.last ≤ (final s ts).last ∧ ∀ t ∈ ts, t ≤ (final s ts).last := by
  induction ts with
  | nil => intro s; simp [final]
  | cons t ts ih =>
    intro s
    have h1 := step_last_ge s t
    have h2 := ih (step s t).1
    refine ⟨by simp only [final]; omega, ?_⟩
    intro u hu
    simp only [List.mem_cons] at hu
    simp only [final]
    rcases hu with rfl | hu
    · omega
    · exact h2.2 u hu

/-- every second that appears in an id is either the initial `last` or a clock reading that was really taken: the
generator never invents a time. -/
theorem run_seconds_from_clock (ts : List Int) : ∀ (s : St), ∀ o ∈ run step s ts, o.1 = s.last ∨ o.1 ∈ ts := by
  induction ts with
  | nil => intro s o h; simp [run] at h
  | cons t ts ih =>
    intro s o h
    simp only [run, List.mem_cons] at h
    rcases h with h | h
    · subst h; unfold step; split <;> simp
    · rcases ih _ o h with h' | h'
      · rw [h']; unfold step; split <;> simp
      · exact Or.inr (List.mem_cons_of_mem _ h')

/-- **`generate()` is one atomic step for any number of calling threads**: the generator's remembered second and
counter (and every other field of a lock-owning class written after construction) are read and written only with the
object's own lock held — the table of exceptions generated from the source (translate/locks.py, following the call
graph from every thread role's entry point with the set of held locks) is empty.  With `ids_distinct` this is the
"from any number of threads" clause: concurrent calls are serialised by the lock, so the identifiers they get are those
of SOME sequential run of `step` over the clock readings taken inside the lock. -/
theorem generator_fields_under_lock :
    Bobo.Gen.Locks.unlockedAccesses.filter (fun r => r.1 == "BoboGenEventIDUnique") = [] := by decide

end Bobo.IdGen
