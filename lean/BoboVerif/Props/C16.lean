import BoboVerif.Model.IdGen
import BoboVerif.Gen.IdGen
/-!
C16 — Generated identifiers never repeat.

Property theorems only.  `step`/`run`/`fmt` are in Model/IdGen.lean; the
generated `Bobo.Gen.IdGen.step` is re-translated from /repo on every run.
-/
namespace Bobo.IdGen

/-- lexicographic order on (second, counter). -/
def lexLt (a b : Out) : Prop := a.1 < b.1 ∨ (a.1 = b.1 ∧ a.2 < b.2)

theorem lexLt_trans {a b c : Out} (h₁ : lexLt a b) (h₂ : lexLt b c) : lexLt a c := by
  unfold lexLt at *; omega

theorem lexLt_ne {a b : Out} (h : lexLt a b) : a ≠ b := by
  intro e; subst e; unfold lexLt at h; omega

/-- the pair handed out is the new state, and it is strictly above the old state. -/
theorem step_out_eq_state (s : St) (now : Int) :
    (step s now).2 = ((step s now).1.last, (step s now).1.count) := by
  unfold step; split <;> rfl

theorem step_increases (s : St) (now : Int) :
    lexLt (s.last, s.count) (step s now).2 := by
  unfold step lexLt; split <;> simp <;> omega

/-- every id handed out later is strictly above the current state. -/
theorem run_above (ts : List Int) : ∀ (s : St), ∀ o ∈ run step s ts, lexLt (s.last, s.count) o := by
  induction ts with
  | nil => intro s o h; simp [run] at h
  | cons t ts ih =>
    intro s o h
    simp only [run, List.mem_cons] at h
    rcases h with h | h
    · subst h; exact step_increases s t
    · have := ih _ o h
      rw [← step_out_eq_state] at this
      exact lexLt_trans (step_increases s t) this

/-- **C16 (numbers)**: for every clock sequence — any steps, backwards included —
the (second, counter) pairs handed out are strictly increasing, hence pairwise distinct. -/
theorem run_sorted (ts : List Int) : ∀ (s : St), (run step s ts).Pairwise lexLt := by
  induction ts with
  | nil => intro s; simp [run]
  | cons t ts ih =>
    intro s
    simp only [run, List.pairwise_cons]
    refine ⟨?_, ih _⟩
    intro o ho
    have := run_above ts _ o ho
    rwa [← step_out_eq_state] at this

theorem ids_distinct (s : St) (ts : List Int) : (run step s ts).Pairwise (· ≠ ·) :=
  (run_sorted ts s).imp lexLt_ne

/-- non-vacuity / finding F10: the pinned-tree body repeats an id when the clock steps back. -/
theorem old_collides : ¬ (run stepOld init [10, 10, 9, 10]).Pairwise (· ≠ ·) := by decide

example : run step init [10, 10, 9, 10] = [(10,0), (10,1), (10,2), (10,3)] := by decide

/-- tie G: the body of `generate` as translated from /repo equals the model. -/
theorem gen_step_eq : Bobo.Gen.IdGen.step = step := by
  funext s now; unfold Bobo.Gen.IdGen.step step; split <;> (try split) <;> simp_all <;> omega

end Bobo.IdGen
