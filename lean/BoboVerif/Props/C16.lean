import BoboVerif.Model.IdGen
import BoboVerif.Gen.IdGen
import BoboVerif.Lemmas.IdFmt
import BoboVerif.Gen.Locks
/-!
C16 — Generated identifiers never repeat.

Property theorems only.  `step`/`run`/`fmt` are in Model/IdGen.lean; the
generated `Bobo.Gen.IdGen.step` is re-translated from /repo on every run.
-/
namespace Bobo.IdGen

/-- lexicographic order on (second, counter). -/
def lexLt (a b : Out) : Prop := a.1 < b.1 ∨ (a.1 = b.1 ∧ a.2 < b.2)

theorem lexLt_trans {a b c : Out} (h₁ : lexLt a b) (h₂ : lexLt b c) : lexLt a c := by
  unfold lexLt at *; omega

theorem lexLt_ne {a b : Out} (h : lexLt a b) : a ≠ b := by
  intro e; subst e; unfold lexLt at h; omega

/-- the pair handed out is the new state, and it is strictly above the old state. -/
theorem step_out_eq_state (s : St) (now : Int) :
    (step s now).2 = ((step s now).1.last, (step s now).1.count) := by
  unfold step; split <;> rfl

theorem step_increases (s : St) (now : Int) :
    lexLt (s.last, s.count) (step s now).2 := by
  unfold step lexLt; split <;> simp <;> omega

/-- every id handed out later is strictly above the current state. -/
theorem run_above (ts : List Int) : ∀ (s : St), ∀ o ∈ run step s ts, lexLt (s.last, s.count) o := by
  induction ts with
  | nil => intro s o h; simp [run] at h
  | cons t ts ih =>
    intro s o h
    simp only [run, List.mem_cons] at h
    rcases h with h | h
    · subst h; exact step_increases s t
    · have := ih _ o h
      rw [← step_out_eq_state] at this
      exact lexLt_trans (step_increases s t) this

/-- **C16 (numbers)**: for every clock sequence — any steps, backwards included —
the (second, counter) pairs handed out are strictly increasing, hence pairwise distinct. -/
theorem run_sorted (ts : List Int) : ∀ (s : St), (run step s ts).Pairwise lexLt := by
  induction ts with
  | nil => intro s; simp [run]
  | cons t ts ih =>
    intro s
    simp only [run, List.pairwise_cons]
    refine ⟨?_, ih _⟩
    intro o ho
    have := run_above ts _ o ho
    rwa [← step_out_eq_state] at this

theorem ids_distinct (s : St) (ts : List Int) : (run step s ts).Pairwise (· ≠ ·) :=
  (run_sorted ts s).imp lexLt_ne

/-- non-vacuity / finding F10: the pinned-tree body repeats an id when the clock steps back. -/
theorem old_collides : ¬ (run stepOld init [10, 10, 9, 10]).Pairwise (· ≠ ·) := by decide

example : run step init [10, 10, 9, 10] = [(10,0), (10,1), (10,2), (10,3)] := by decide

/-- tie G: the body of `generate` as translated from /repo equals the model. -/
theorem gen_step_eq : Bobo.Gen.IdGen.step = step := by
  funext s now; unfold Bobo.Gen.IdGen.step step; repeat' split
  all_goals first | rfl | (simp_all <;> omega) | simp_all

/-! ### the formatted strings (helper lemmas in Lemmas/IdFmt.lean) -/

/-- **`fmt` is injective** in (prefix, second, counter) for every prefix string (underscores and
digits allowed): the decimal renderings contain no `'_'`, so the last two underscores of an id
delimit the two numbers. -/
theorem fmt_injective {p₁ p₂ : Option String} {o₁ o₂ : Out} (h : fmt p₁ o₁ = fmt p₂ o₂) :
    p₁ = p₂ ∧ o₁ = o₂ := fmt_inj h

example : fmt (some "dev_1") (2, 3) ≠ fmt (some "dev") (1, 23) := fun h => by
  have := (fmt_injective h).1; simp at this

/-- ids of generators with different prefixes (one of them possibly without prefix) are disjoint. -/
theorem prefix_disjoint {p₁ p₂ : Option String} (hp : p₁ ≠ p₂) (o₁ o₂ : Out) : fmt p₁ o₁ ≠ fmt p₂ o₂ :=
  fun h => hp (fmt_injective h).1

theorem fmt_none_ne_fmt_some (u : String) (o₁ o₂ : Out) : fmt none o₁ ≠ fmt (some u) o₂ :=
  prefix_disjoint (by simp) o₁ o₂

/-- **C16 (strings)**: the formatted ids handed out by one generator are pairwise distinct, for every
prefix, every state and every clock sequence. -/
theorem ids_distinct_str (urn : Option String) (s : St) (ts : List Int) :
    ((run step s ts).map (fmt urn)).Pairwise (· ≠ ·) :=
  List.Pairwise.map _ (fun _ _ hne h => hne (fmt_injective h).2) (ids_distinct s ts)

example : (run step init [10, 10, 9, 10]).map (fmt (some "u")) = ["u_10_0", "u_10_1", "u_10_2", "u_10_3"] := by decide

/-- **`generate()` is one atomic step for any number of calling threads**: the generator's remembered second and
counter (and every other field of a lock-owning class written after construction) are read and written only with the
object's own lock held — the table of exceptions generated from the source (translate/locks.py, following the call
graph from every thread role's entry point with the set of held locks) is empty.  With `ids_distinct` this is the
"from any number of threads" clause: concurrent calls are serialised by the lock, so the identifiers they get are those
of SOME sequential run of `step` over the clock readings taken inside the lock. -/
theorem generator_fields_under_lock :
    Bobo.Gen.Locks.unlockedAccesses.filter (fun r => r.1 == "BoboGenEventIDUnique") = [] := by decide

end Bobo.IdGen
