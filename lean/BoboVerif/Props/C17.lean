import BoboVerif.Model.Crypto
import BoboVerif.Lemmas.Crypto
import BoboVerif.Gen.Crypto
/-!
C17 — Encryption round-trips, authenticates and never reuses a nonce.

Property theorems only.  The model is Model/Crypto.lean (framing of
`BoboDistributedCryptoAES` over a cipher `Cipher`/`AEAD` and a nonce source
`draw`, both parameters); helper lemmas and the toy AEAD used by the
non-vacuity `example`s are in Lemmas/Crypto.lean; `Bobo.Gen.Crypto.*` is
re-translated from /repo on every run (translate/crypto.py).

Assumptions are HYPOTHESES of the theorems, never axioms:
* `A : AEAD` — the laws of an ideal AEAD are fields of the structure
  (`open_seal`, `open_modified_none`, `open_taglen_none`, `seal_ct_len`,
  `seal_tag_len`); `Toy.aead` inhabits it.
* `DrawLen draw` — the nonce source returns as many bytes as requested;
  "never repeats" is the explicit hypothesis `hfresh` of `outputs_differ`.
* UTF-8 is concrete (`String.toUTF8` / `String.fromUTF8?`), nothing assumed.
-/
namespace Bobo.Crypto
variable {σ : Type}

/-- what `decrypt ∘ encrypt` computes, for EVERY text: the text without its trailing NULs. -/
theorem decrypt_encrypt (A : AEAD) (c : Cfg) (hv : c.Valid) (draw : Draw σ) (hd : DrawLen draw) (s : σ) (t : String) :
    decrypt A.toCipher c (encrypt A.toCipher c draw s t).1 = .ok (rstripNul t) := by
  unfold decrypt decryptWith
  simp only [slices_encrypt A c hv draw hd s t, decMacKw, resolveMac]
  rw [A.open_seal _ _ _ _ (validParams_of c hv draw hd s)]
  simp only [decode_utf8, rstripNul_pad]

/-- **C17 round trip.** -/
theorem roundtrip (A : AEAD) (c : Cfg) (hv : c.Valid) (draw : Draw σ) (hd : DrawLen draw) (s : σ)
    (t : String) (hnul : ¬ EndsNul t) :
    decrypt A.toCipher c (encrypt A.toCipher c draw s t).1 = .ok t := by
  rw [decrypt_encrypt A c hv draw hd s t, rstripNul_of_not_endsNul t hnul]

example : decrypt Toy.aead.toCipher Toy.cfg (encrypt Toy.aead.toCipher Toy.cfg Toy.draw 5 "héllo wörld €").1
    = .ok "héllo wörld €" :=
  roundtrip Toy.aead Toy.cfg (by decide) Toy.draw (fun n s => Toy.digits_length n s) 5 _ (by decide)


/-- **F12 (open finding), counter-lemma**: a text ending in U+0000 does NOT round-trip — for every
such text, under every ideal AEAD and configuration; what comes back is the text without its
trailing NULs.  Inherent in NUL padding + `rstrip`. -/
theorem trailing_nul_lost (A : AEAD) (c : Cfg) (hv : c.Valid) (draw : Draw σ) (hd : DrawLen draw) (s : σ)
    (t : String) (hnul : EndsNul t) :
    decrypt A.toCipher c (encrypt A.toCipher c draw s t).1 = .ok (rstripNul t) ∧
    decrypt A.toCipher c (encrypt A.toCipher c draw s t).1 ≠ .ok t := by
  rw [decrypt_encrypt A c hv draw hd s t]
  refine ⟨rfl, ?_⟩
  intro e
  exact rstripNul_ne_of_endsNul t hnul (by injection e)

/-- the two statements together: the round trip holds exactly for the texts not ending in NUL. -/
theorem roundtrip_iff (A : AEAD) (c : Cfg) (hv : c.Valid) (draw : Draw σ) (hd : DrawLen draw) (s : σ) (t : String) :
    decrypt A.toCipher c (encrypt A.toCipher c draw s t).1 = .ok t ↔ ¬ EndsNul t :=
  ⟨fun h hn => (trailing_nul_lost A c hv draw hd s t hn).2 h, roundtrip A c hv draw hd s t⟩

/-- witness of F12 as replayed on the real class: `"a\0"` comes back as `"a"`. -/
example : decrypt Toy.aead.toCipher Toy.cfg
    (encrypt Toy.aead.toCipher Toy.cfg Toy.draw 0 (String.ofList ['a', Char.ofNat 0])).1 = .ok "a" := by
  have h := (trailing_nul_lost Toy.aead Toy.cfg (by decide) Toy.draw Toy.digits_length 0
    (String.ofList ['a', Char.ofNat 0]) (by decide)).1
  rw [h]; exact congrArg Except.ok (by decide)

/-! ### tampering -/

/-- `decrypt` accepts only messages whose (ciphertext, nonce, tag) slots hold an output of `seal`
under the configured key and tag length. -/
theorem decrypt_ok_only_sealed (A : AEAD) (c : Cfg) (b : Bytes) (t : String)
    (h : decrypt A.toCipher c b = .ok t) :
    ∃ pt, A.sealFn c.key (slices c.nonceLen c.macLen b).nonce c.macLen pt =
      ((slices c.nonceLen c.macLen b).ct, (slices c.nonceLen c.macLen b).tag) := by
  apply Classical.byContradiction
  intro hne
  have hall : ∀ pt, A.sealFn c.key (slices c.nonceLen c.macLen b).nonce c.macLen pt ≠
      ((slices c.nonceLen c.macLen b).ct, (slices c.nonceLen c.macLen b).tag) :=
    fun pt e => hne ⟨pt, e⟩
  have := A.open_modified_none _ _ _ _ _ hall
  unfold decrypt decryptWith at h
  simp only [decMacKw, resolveMac, this] at h
  cases h

/-- **C17 tampering.**  Take an output of `encrypt`, replace its ciphertext, nonce or tag slot by
anything different (slot lengths kept, so that the slots are still where `decrypt` looks).  If the
party who modified it cannot produce NEW sealed triples — the only sealed triple it may present is
the original one (`hunf`, unforgeability of AES-GCM for someone without the key) — `decrypt`
raises.  Without `hunf` the statement is false for every AEAD (a second genuine message is also
"a change"); see `naive_tamper_law_inconsistent`. -/
theorem tamper_rejected (A : AEAD) (c : Cfg) (draw : Draw σ) (s : σ) (t : String)
    (ct' n' tag' : Bytes) (hn : n'.length = c.nonceLen) (ht : tag'.length = c.macLen)
    (hmod : (⟨ct', n', tag'⟩ : Slices) ≠ slices c.nonceLen c.macLen (encrypt A.toCipher c draw s t).1)
    (hunf : ∀ pt', A.sealFn c.key n' c.macLen pt' = (ct', tag') →
      (⟨ct', n', tag'⟩ : Slices) = slices c.nonceLen c.macLen (encrypt A.toCipher c draw s t).1) :
    decrypt A.toCipher c (layout ct' n' tag') = .error .cipher := by
  have hall : ∀ pt, A.sealFn c.key n' c.macLen pt ≠ (ct', tag') := fun pt e => hmod (hunf pt e)
  unfold decrypt decryptWith
  simp only [slices_layout _ _ _ _ _ hn ht, decMacKw, resolveMac, A.open_modified_none _ _ _ _ _ hall]

/-- **C17 tampering, byte level** (the form the bit-flip oracle exercises): any message of the same
length as an output that differs from it anywhere before the 4-byte marker has different
(ciphertext, nonce, tag) slots, and is rejected unless its slots hold a NEW sealed triple. -/
theorem tamper_rejected_bytes (A : AEAD) (c : Cfg) (hv : c.Valid) (draw : Draw σ) (hd : DrawLen draw) (s : σ) (t : String)
    (b' : Bytes) (hlen : b'.length = (encrypt A.toCipher c draw s t).1.length)
    (hdiff : b'.take (b'.length - 4) ≠ (encrypt A.toCipher c draw s t).1.take ((encrypt A.toCipher c draw s t).1.length - 4))
    (hunf : ∀ pt', A.sealFn c.key (slices c.nonceLen c.macLen b').nonce c.macLen pt' =
        ((slices c.nonceLen c.macLen b').ct, (slices c.nonceLen c.macLen b').tag) →
      slices c.nonceLen c.macLen b' = slices c.nonceLen c.macLen (encrypt A.toCipher c draw s t).1) :
    decrypt A.toCipher c b' = .error .cipher := by
  have hL := encrypt_length A c hv draw hd s t
  have hge : c.nonceLen + c.macLen + 4 ≤ (encrypt A.toCipher c draw s t).1.length := by
    rw [hL]; unfold lenEndBytes; omega
  have hmod : slices c.nonceLen c.macLen b' ≠ slices c.nonceLen c.macLen (encrypt A.toCipher c draw s t).1 := by
    intro e
    apply hdiff
    rw [← slices_concat c.nonceLen c.macLen b' (by omega), ← slices_concat c.nonceLen c.macLen _ hge, e]
  have hall : ∀ pt, A.sealFn c.key (slices c.nonceLen c.macLen b').nonce c.macLen pt ≠
      ((slices c.nonceLen c.macLen b').ct, (slices c.nonceLen c.macLen b').tag) := fun pt e => hmod (hunf pt e)
  unfold decrypt decryptWith
  simp only [decMacKw, resolveMac, A.open_modified_none _ _ _ _ _ hall]

/-- a wrong-length tag (e.g. a truncated message re-framed) is rejected outright. -/
theorem wrong_taglen_rejected (A : AEAD) (c : Cfg) (b : Bytes)
    (h : (slices c.nonceLen c.macLen b).tag.length ≠ c.macLen) :
    decrypt A.toCipher c b = .error .cipher := by
  unfold decrypt decryptWith
  simp only [decMacKw, resolveMac, A.open_taglen_none _ _ _ _ _ h]

/-- why `open_modified_none` is not stated as "every triple different from a sealed one is
rejected": together with `open_seal` that law is contradictory. -/
theorem naive_tamper_law_inconsistent (A : AEAD)
    (naive : ∀ k n τ pt n' ct' tag', ValidParams k n τ →
      (n', ct', tag') ≠ (n, (A.sealFn k n τ pt).1, (A.sealFn k n τ pt).2) → A.openFn k n' τ ct' tag' = none) :
    False := by
  let k : Bytes := List.replicate 16 0
  have hvp : ∀ n : Bytes, n ≠ [] → ValidParams k n 16 := fun n hn => ⟨Or.inl (by simp [k]), hn, by omega, by omega⟩
  have h1 := A.open_seal k [1] 16 [] (hvp _ (by simp))
  have h2 := naive k [0] 16 [] [1] (A.sealFn k [1] 16 []).1 (A.sealFn k [1] 16 []).2 (hvp _ (by simp))
    (by intro e; injection e with e1 _; injection e1 with e2 _; exact absurd e2 (by decide))
  rw [h1] at h2; cases h2

/-- non-vacuity of `tamper_rejected`: one flipped ciphertext bit of a toy output. -/
example : decrypt Toy.aead.toCipher Toy.cfg
    (layout ((utf8 (pad "hi")).set 0 (104 ^^^ 1)) (Toy.digits 12 3) (Toy.tagOf Toy.cfg.key (Toy.digits 12 3) 12 (utf8 (pad "hi"))))
    = .error .cipher := by
  have hpad : utf8 (pad "hi") = [104, 105, 0, 0, 0, 0, 0, 0, 0, 0, 0, 0, 0, 0, 0, 0] := by decide
  apply tamper_rejected Toy.aead Toy.cfg Toy.draw 3 "hi"
  · exact Toy.digits_length _ _
  · simp [Toy.tagOf, Toy.cfg]
  · rw [slices_encrypt Toy.aead Toy.cfg (by decide) Toy.draw Toy.digits_length 3 "hi", hpad]
    simp [Toy.aead, Toy.cipher]
    intro h; exact absurd h (by decide)
  · intro pt' h
    rw [hpad] at h
    simp only [Toy.aead, Toy.cipher, Prod.mk.injEq] at h
    obtain ⟨rfl, h2⟩ := h
    exact absurd h2 (by decide)

/-! ### length and marker -/

/-- **C17 minimum length**, following the real computation: pad count from the CHARACTER count,
ciphertext as long as the UTF-8 BYTES of the padded text (≥ its character count ≥ 16). -/
theorem min_length_holds (A : AEAD) (c : Cfg) (hv : c.Valid) (draw : Draw σ) (hd : DrawLen draw) (s : σ)
    (t : String) (hne : t ≠ "") :
    minLength c ≤ (encrypt A.toCipher c draw s t).1.length := by
  rw [encrypt_length A c hv draw hd s t]
  have h1 := utf8_length_ge (pad t)
  have h2 := pad_length_ge t hne
  unfold minLength; omega

example : minLength Toy.cfg ≤ (encrypt Toy.aead.toCipher Toy.cfg Toy.draw 0 "€").1.length :=
  min_length_holds Toy.aead Toy.cfg (by decide) Toy.draw Toy.digits_length 0 "€" (by decide)

/-- multi-byte text makes the output longer than a multiple of 16, never shorter than the minimum:
one 3-byte character is padded with 15 NULs to 16 characters = 18 bytes. -/
example : (utf8 (pad "€")).length = 18 := by decide

/-- every output ends with the frame marker. -/
theorem ends_with_marker (C : Cipher) (c : Cfg) (draw : Draw σ) (s : σ) (t : String) :
    endBytes <:+ (encrypt C c draw s t).1 := by
  rw [encrypt_eq]; unfold layout; exact List.suffix_append _ _

example : endBytes <:+ (encrypt Toy.aead.toCipher Toy.cfg Toy.draw 0 "x").1 := ends_with_marker _ _ _ _ _

/-- the empty text is not padded: its output is `ν + τ + 4` bytes, 16 short of `min_length()`
(consistent with "every NON-EMPTY message"). -/
theorem empty_is_short (A : AEAD) (c : Cfg) (hv : c.Valid) (draw : Draw σ) (hd : DrawLen draw) (s : σ) :
    (encrypt A.toCipher c draw s "").1.length = c.nonceLen + c.macLen + lenEndBytes ∧
    (encrypt A.toCipher c draw s "").1.length + padModulo = minLength c := by
  rw [encrypt_length A c hv draw hd s "", pad_empty, utf8_empty]
  unfold minLength; simp; omega

example : (encrypt Toy.aead.toCipher Toy.cfg Toy.draw 0 "").1.length = 28 :=
  (empty_is_short Toy.aead Toy.cfg (by decide) Toy.draw Toy.digits_length 0).1

/-! ### nonces -/

/-- **one fresh nonce per call**: `encrypt` advances the nonce source by exactly one draw of
`nonce_length` bytes, hands exactly those bytes to the cipher (`sealArgs`), and places exactly
those bytes in the nonce slot of the output. -/
theorem one_fresh_nonce_per_call (A : AEAD) (c : Cfg) (hv : c.Valid) (draw : Draw σ) (hd : DrawLen draw) (s : σ) (t : String) :
    (encrypt A.toCipher c draw s t).2 = (draw c.nonceLen s).2 ∧
    (sealArgs c (draw c.nonceLen s).1 t).2.1 = (draw c.nonceLen s).1 ∧
    (slices c.nonceLen c.macLen (encrypt A.toCipher c draw s t).1).nonce = (draw c.nonceLen s).1 := by
  refine ⟨rfl, rfl, ?_⟩
  rw [slices_encrypt A c hv draw hd s t]

/-- over any sequence of calls: the nonce slots of the outputs are the successive draws. -/
theorem nonces_are_draws (A : AEAD) (c : Cfg) (hv : c.Valid) (draw : Draw σ) (hd : DrawLen draw) (ts : List String) :
    ∀ s : σ, (encryptAll A.toCipher c draw s ts).map (fun o => (slices c.nonceLen c.macLen o).nonce)
      = drawAll draw c.nonceLen s ts.length := by
  induction ts with
  | nil => intro s; rfl
  | cons t ts ih =>
    intro s
    simp only [encryptAll, List.map_cons, List.length_cons, drawAll]
    rw [ih, (one_fresh_nonce_per_call A c hv draw hd s t).2.2]
    rfl

/-- **no nonce reuse ⇒ outputs differ**: if the source never repeats a value (the CSPRNG
assumption, a hypothesis), the nonce slots of any sequence of outputs are pairwise distinct and so
are the outputs — equal plaintexts included. -/
theorem outputs_differ (A : AEAD) (c : Cfg) (hv : c.Valid) (draw : Draw σ) (hd : DrawLen draw) (s : σ)
    (ts : List String) (hfresh : (drawAll draw c.nonceLen s ts.length).Pairwise (· ≠ ·)) :
    (encryptAll A.toCipher c draw s ts).Pairwise (· ≠ ·) := by
  rw [← nonces_are_draws A c hv draw hd ts s] at hfresh
  exact List.Pairwise.of_map _ (fun a b h e => h (by rw [e])) hfresh

example : (encryptAll Toy.aead.toCipher Toy.cfg Toy.draw 0 ["same", "same", "same"]).Pairwise (· ≠ ·) :=
  outputs_differ Toy.aead Toy.cfg (by decide) Toy.draw Toy.digits_length 0 _ (by decide)

/-! ### tag length -/

/-- **both directions use the configured tag length** (what the `mac_len=` keywords resolve to). -/
theorem taglen_consistent (c : Cfg) :
    resolveMac (decMacKw c) = resolveMac (encMacKw c) ∧ resolveMac (encMacKw c) = c.macLen := ⟨rfl, rfl⟩

example : resolveMac (decMacKw Toy.cfg) = 12 := rfl

/-- **F11 (fixed), counter-lemma**: the pinned `decrypt` opened with pycryptodome's default tag
length 16, so with any other configured length EVERY message was rejected. -/
theorem old_undecryptable (A : AEAD) (c : Cfg) (hv : c.Valid) (draw : Draw σ) (hd : DrawLen draw) (s : σ)
    (t : String) (h16 : c.macLen ≠ 16) :
    decryptOld A.toCipher c (encrypt A.toCipher c draw s t).1 = .error .cipher := by
  unfold decryptOld decryptWith
  simp only [slices_encrypt A c hv draw hd s t, decMacKwOld, resolveMac, defaultMacLen]
  rw [A.open_taglen_none]
  rw [A.seal_tag_len _ _ _ _ (validParams_of c hv draw hd s)]; exact h16

example : decryptOld Toy.aead.toCipher Toy.cfg (encrypt Toy.aead.toCipher Toy.cfg Toy.draw 0 "hello").1 = .error .cipher :=
  old_undecryptable Toy.aead Toy.cfg (by decide) Toy.draw Toy.digits_length 0 _ (by decide)

/-- observation (not part of C17's letter): the constructor checks the key's CHARACTER count while
the cipher receives its UTF-8 BYTES; a 16-character key with one 2-byte character passes the check
with a 17-byte key, which no AES variant accepts (every later `encrypt` raises ValueError). -/
theorem key_check_counts_chars :
    ∃ c, mkCfg "éaaaaaaaaaaaaaaa" 16 16 = some c ∧ c.key.length = 17 ∧ ¬ c.Valid := by
  refine ⟨⟨utf8 "éaaaaaaaaaaaaaaa", 16, 16⟩, by decide, by decide, by decide⟩

/-! ### tie G: the fragments translated from /repo equal the model -/

theorem gen_consts_eq :
    Bobo.Gen.Crypto.padModulo = padModulo ∧ Bobo.Gen.Crypto.endBytes = endBytes ∧
    Bobo.Gen.Crypto.lenEndBytes = lenEndBytes ∧ Bobo.Gen.Crypto.padChar = padChar := by decide

theorem gen_keyRejected_eq : Bobo.Gen.Crypto.keyRejected = keyRejected := by
  funext n
  by_cases h1 : n = 16 <;> by_cases h2 : n = 24 <;> by_cases h3 : n = 32 <;>
    simp [Bobo.Gen.Crypto.keyRejected, keyRejected, h1, h2, h3]

theorem gen_minLength_eq : (fun c : Cfg => Bobo.Gen.Crypto.minLength c.nonceLen c.macLen) = minLength := by
  funext c
  simp only [Bobo.Gen.Crypto.minLength, minLength, Bobo.Gen.Crypto.padModulo, Bobo.Gen.Crypto.lenEndBytes,
    Bobo.Gen.Crypto.endBytes, padModulo, lenEndBytes, List.length_cons, List.length_nil]

theorem gen_drawLen_eq : (fun c : Cfg => Bobo.Gen.Crypto.drawLen c.nonceLen c.macLen) = Cfg.nonceLen := rfl

/-- the `mac_len=` keyword of `AES.new` in both directions (F11: on the pinned tree the right-hand
component was `none` and this lemma did not check). -/
theorem gen_macKw_eq :
    (fun c : Cfg => Bobo.Gen.Crypto.encMacKw c.nonceLen c.macLen) = encMacKw ∧
    (fun c : Cfg => Bobo.Gen.Crypto.decMacKw c.nonceLen c.macLen) = decMacKw := ⟨rfl, rfl⟩

theorem gen_padCount_eq : Bobo.Gen.Crypto.padCount = padCount := by
  funext n
  simp only [Bobo.Gen.Crypto.padCount, padCount, Bobo.Gen.Crypto.padModulo, padModulo]
  by_cases h : n % 16 = 0
  · have h' : (n : Int) % 16 = 0 := by omega
    simp [h, h']
  · have h' : ¬ (n : Int) % 16 = 0 := by omega
    simp [h, h']
    omega

theorem gen_layout_eq : Bobo.Gen.Crypto.layout = layout := by
  funext ct n tag
  simp [Bobo.Gen.Crypto.layout, layout, Bobo.Gen.Crypto.endBytes, endBytes]

theorem gen_slices_eq :
    (fun ν τ b => (⟨Bobo.Gen.Crypto.sliceCt ν τ b, Bobo.Gen.Crypto.sliceNonce ν τ b,
      Bobo.Gen.Crypto.sliceTag ν τ b⟩ : Slices)) = slices := by
  funext ν τ b
  simp only [Bobo.Gen.Crypto.sliceCt, Bobo.Gen.Crypto.sliceNonce, Bobo.Gen.Crypto.sliceTag, slices,
    Bobo.Gen.Crypto.lenEndBytes, Bobo.Gen.Crypto.endBytes, lenEndBytes, List.length_cons, List.length_nil]

end Bobo.Crypto
