import BoboVerif.Props.C14
import BoboVerif.Lemmas.LocalTotal
/-!
C14 — "the engine keeps running": `update()` lets no exception escape, for every event, every stream and every
behaviour of the user's predicates (a separate file: the table lemmas it rests on import Props/C12–C14).
-/
namespace Bobo.Decider
open Bobo.Run
variable {ε : Type}

/-- **C14 (the engine keeps running), one event**: `update()` on one queued event lets no exception escape —
whatever every predicate, precondition and haltcondition of every pattern does on that event, raising included (they
are arbitrary functions into `Option Bool`; `none` = raises) — for every state whose table is well formed and holds
none of the identifiers still to be handed out; and it leaves such a state.  (Patterns have at least one block: C19.
The generator never repeats an identifier: C16.) -/
theorem update_never_raises (c : Cfg ε) (hinj : ∀ i j, c.idOf i = c.idOf j → i = j)
    (hblocks : ∀ P ∈ c.phenomena, ∀ p ∈ P.patterns, p.blocks ≠ [])
    (s : DState ε) (e : ε) (hwf : TableWF s.table) (hfree : FutureFree c s.table s.nextId) :
    ∃ s' nt ch, localStep c s e = some (s', nt, ch) ∧ TableWF s'.table ∧ FutureFree c s'.table s'.nextId :=
  localStep_total c hinj hblocks s e hwf hfree

/-- **C14 (the engine keeps running), every stream**: from the empty decider, every event of every stream is
handled — one notification (possibly empty) per event, no exception — for every configuration of patterns and
every behaviour of their predicates. -/
theorem stream_never_stops (c : Cfg ε) (hinj : ∀ i j, c.idOf i = c.idOf j → i = j)
    (hblocks : ∀ P ∈ c.phenomena, ∀ p ∈ P.patterns, p.blocks ≠ []) (es : List ε) :
    ∃ s' nts, localRun c {} es = some (s', nts) ∧ nts.length = es.length :=
  localRun_total c hinj hblocks es {} wf_empty (futureFree_empty c 0)

/-- the only way `_check_against_patterns` can raise: the generator hands out an identifier that is stored (so the
hypothesis on identifiers is not idle). -/
def exPat2 : Pattern Nat :=
  { name := "q", singleton := false, pre := [], halt := [],
    blocks := [ { preds := [fun e _ => some (e == 0)], group := "a", strict := false, loop := false, negated := false, optional := false },
                { preds := [fun e _ => some (e == 1)], group := "b", strict := false, loop := false, negated := false, optional := false } ] }
theorem repeated_id_raises :
    (localRun { phenomena := [{ name := "ph", patterns := [exPat2] }], maxCache := 10, idOf := fun _ => "same" } {} [0, 0]).isNone = true := by
  decide

/-! non-vacuity: the configuration of the example meets the hypotheses of `stream_never_stops`; on the stream 0, 7, 1 the run
started by 0 survives the raising 7 untouched and is completed by 1. -/
def exCfg : Cfg Nat := { phenomena := [{ name := "ph", patterns := [exPat] }], maxCache := 10, idOf := fun n => toString n }
example : ∀ P ∈ exCfg.phenomena, ∀ p ∈ P.patterns, p.blocks ≠ [] := by
  intro P hP p hp
  simp only [exCfg, List.mem_singleton] at hP; subst hP
  simp only [List.mem_singleton] at hp; subst hp
  simp [exPat]
example : ((localRun exCfg {} [0, 7, 1]).map (fun r => r.2.map (fun n => (n.completed.length, n.halted.length, n.updated.length)))) =
    some [(0, 0, 1), (0, 0, 0), (1, 0, 0)] := by decide

end Bobo.Decider
