import BoboVerif.Model.Run
import BoboVerif.Model.Decider
import BoboVerif.Lemmas.Run
import BoboVerif.Gen.PatternRules
import BoboVerif.Lemmas.GenRun
import BoboVerif.Lemmas.GenDecider
/-!
C01 — Pattern detection follows the documented block semantics.

`Bobo.Run.process` (Model/Run.lean) is the code-shaped model of
`BoboRun.process`; the theorems below are the *documented* semantics
(docs/phenomena.rst and the C01 statement), one theorem per rule, each proved
for every pattern, run, event and predicate behaviour.  Together with
`process_dispatch` they determine `process` completely, i.e. they are the
declarative specification the code-shaped walk is shown to satisfy; the
Python oracle `harness/oracle_runs.py` is their executable transcription.

Doc-silent points, fixed here as the code has them (listed in DESIGN.md 4.C01):
D1 an event that advances a negated block is recorded in that block's group;
D2 a looping block reached by falling through keeps the run's index;
D3 a looping block may be matched zero times; D4 preconditions use `all`,
haltconditions `any`, both over the pre-event history, all of them evaluated;
D5 first-block predicates see the empty history.
-/
namespace Bobo.Run
set_option linter.unusedSimpArgs false

variable {ε : Type}

/-! ### the gate: conditions are consulted before the block, on the pre-event history -/

/-- a finished run ignores every further event. -/
theorem halted_ignores (p : Pattern ε) (r : Run ε) (e : ε) (h : r.halted = true) :
    process p r e = (.ok false, r) := by
  simp [process, h]

/-- a failed gate halts the run and nothing else changes. -/
theorem gate_fail_halts (p : Pattern ε) (r : Run ε) (e : ε) (hh : r.halted = false)
    (hg : gate p e r.hist = some false) : process p r e = (.ok true, halt r) := by
  simp [process, hh, hg]

/-- otherwise the event goes to the current block. -/
theorem process_dispatch (p : Pattern ε) (r : Run ε) (e : ε) (hh : r.halted = false)
    (hg : gate p e r.hist = some true) :
    process p r e = walk p.blocks.length e (p.blocks.drop r.idx) r.idx r := by
  simp [process, hh, hg]

/-- precondition: if some precondition is not satisfied (all are evaluated), the run halts. -/
theorem precondition_fail_halts (p : Pattern ε) (e : ε) (h : Hist ε) (bs : List Bool)
    (hne : p.pre ≠ []) (hev : evalAll p.pre e h = some bs) (hf : bs.all id = false) :
    gate p e h = some false := by
  have : p.pre.isEmpty = false := by cases hp : p.pre <;> simp_all
  simp [gate, this, hev, hf]

/-- haltcondition: preconditions hold and some haltcondition is satisfied ⇒ the run halts. -/
theorem haltcondition_hit_halts (p : Pattern ε) (e : ε) (h : Hist ε) (hs : List Bool)
    (hpre : p.pre = []) (hne : p.halt ≠ []) (hev : evalAll p.halt e h = some hs) (ht : hs.any id = true) :
    gate p e h = some false := by
  have : p.halt.isEmpty = false := by cases hp : p.halt <;> simp_all
  simp [gate, hpre, this, hev, ht]

/-- no conditions ⇒ the gate is open. -/
theorem gate_open_without_conditions (p : Pattern ε) (e : ε) (h : Hist ε)
    (hpre : p.pre = []) (hhalt : p.halt = []) : gate p e h = some true := by
  simp [gate, hpre, hhalt]

/-- all preconditions hold and no haltcondition does ⇒ the gate is open. -/
theorem gate_open (p : Pattern ε) (e : ε) (h : Hist ε) (bs hs : List Bool)
    (hev : evalAll p.pre e h = some bs) (ha : bs.all id = true)
    (hev' : evalAll p.halt e h = some hs) (hn : hs.any id = false) : gate p e h = some true := by
  unfold gate
  cases hp : p.pre <;> cases hq : p.halt <;> simp_all [evalAll]

/-! ### the block rules (current block `b`, remaining blocks `rest`, position `i`) -/

section blocks
variable (n : Nat) (e : ε) (b : Block ε) (rest : List (Block ε)) (i : Nat) (r : Run ε)

/-- strict blocks halt on a non-matching event. -/
theorem strict_miss_halts (hl : b.loop = false) (hn : b.negated = false) (ho : b.optional = false)
    (hs : b.strict = true) (hm : isMatch b.preds e r.hist = some false) :
    walk n e (b :: rest) i r = (.ok true, halt r) := by
  simp [walk, hm, hl, hn, ho, hs]

/-- relaxed blocks wait. -/
theorem relaxed_miss_waits (hl : b.loop = false) (hn : b.negated = false) (ho : b.optional = false)
    (hs : b.strict = false) (hm : isMatch b.preds e r.hist = some false) :
    walk n e (b :: rest) i r = (.ok false, r) := by
  simp [walk, hm, hl, hn, ho, hs]

/-- an accepted event is recorded in the block's group and the run moves to the next block
(plain and optional blocks alike). -/
theorem hit_advances (hl : b.loop = false) (hn : b.negated = false)
    (hm : isMatch b.preds e r.hist = some true) :
    walk n e (b :: rest) i r = (.ok true, moveForward n r b e i) := by
  by_cases ho : b.optional = true <;> simp [walk, hm, hl, hn, ho]

/-- negated blocks advance on the first non-matching event (which is recorded: D1). -/
theorem negated_advances_on_first_miss (hl : b.loop = false) (hn : b.negated = true)
    (hm : isMatch b.preds e r.hist = some false) :
    walk n e (b :: rest) i r = (.ok true, moveForward n r b e i) := by
  simp [walk, hm, hl, hn]

/-- a negated block whose forbidden event happens: strict halts, relaxed keeps waiting. -/
theorem negated_hit (hl : b.loop = false) (hn : b.negated = true)
    (hm : isMatch b.preds e r.hist = some true) :
    walk n e (b :: rest) i r = if b.strict then (.ok true, halt r) else (.ok false, r) := by
  simp [walk, hm, hl, hn]

/-- optional blocks may be skipped: a non-matching event is tried against the next block. -/
theorem optional_may_skip (hl : b.loop = false) (hn : b.negated = false) (ho : b.optional = true)
    (hm : isMatch b.preds e r.hist = some false) :
    walk n e (b :: rest) i r = walk n e rest (i + 1) r := by
  simp [walk, hm, hl, hn, ho]

/-- looping blocks may repeat: an accepted event is recorded and the position stays. -/
theorem loop_may_repeat (hl : b.loop = true) (hm : isMatch b.preds e r.hist = some true) :
    walk n e (b :: rest) i r = (.ok true, { r with hist := addEvent r.hist b.group e }) := by
  simp [walk, hm, hl]

/-- a looping block that does not accept: strict halts, relaxed lets the next block try. -/
theorem loop_miss (hl : b.loop = true) (hm : isMatch b.preds e r.hist = some false) :
    walk n e (b :: rest) i r = if b.strict then (.ok true, halt r) else walk n e rest (i + 1) r := by
  simp [walk, hm, hl]

/-- a predicate that raises before any predicate of the block accepted: nothing changes. -/
theorem block_raise (hm : isMatch b.preds e r.hist = none) :
    walk n e (b :: rest) i r = (.raised, r) := by
  simp [walk, hm]

end blocks

/-- a run completes exactly when its final block accepts: after an advance from position `i`
(inside the block list) the run is complete iff `i` was the last block. -/
theorem completes_iff_final_block_accepts (n : Nat) (r : Run ε) (b : Block ε) (e : ε) (i : Nat)
    (hi : i < n) : ((moveForward n r b e i).isComplete n = true) ↔ i + 1 = n := by
  unfold moveForward Run.isComplete completeAt
  simp only [decide_eq_true_eq]
  omega

/-- ... and it is then marked finished; otherwise it stays active. -/
theorem advance_halted_iff_complete (n : Nat) (r : Run ε) (b : Block ε) (e : ε) (i : Nat) :
    (moveForward n r b e i).halted = (moveForward n r b e i).isComplete n := by
  simp [moveForward, Run.isComplete]

/-- the history only grows by the event just offered (append-only; used by C12 as well). -/
theorem process_hist (p : Pattern ε) (r : Run ε) (e : ε) :
    (process p r e).2.hist = r.hist ∨ ∃ g, (process p r e).2.hist = addEvent r.hist g e := by
  unfold process
  split
  · exact .inl rfl
  · split
    · exact .inl rfl
    · exact .inl rfl
    · have hr := walk_res p.blocks.length e (p.blocks.drop r.idx) r.idx r
      generalize walk p.blocks.length e (p.blocks.drop r.idx) r.idx r = w at hr
      cases hr with
      | index => exact .inl rfl
      | raised => exact .inl rfl
      | wait => exact .inl rfl
      | halt => exact .inl rfl
      | record g => exact .inr ⟨g, rfl⟩
      | advance g j => exact .inr ⟨g, rfl⟩

/-! ### well-formed patterns: the constructor rules (tie G) and totality of the walk -/

/-- tie G: the `if …: raise` chain of `BoboPatternBlock.__init__`, as translated from /repo,
rejects exactly the illegal blocks of the model. -/
theorem gen_blockRejects_eq (b : Block ε) :
    Bobo.Gen.PatternRules.blockRejects b.preds.length b.strict b.loop b.negated b.optional = !b.legal := by
  unfold Bobo.Gen.PatternRules.blockRejects Block.legal
  cases b.preds <;> cases b.strict <;> cases b.loop <;> cases b.negated <;> cases b.optional <;> simp

/-- tie G: `BoboPattern.__init__` rejects exactly: empty name, no blocks, first or last block not plain. -/
theorem gen_patternRejects_eq (nameLen nblocks : Nat) (fn fo fl fs ln lo ll ls : Bool) :
    Bobo.Gen.PatternRules.patternRejects nameLen nblocks fn fo fl fs ln lo ll ls
      = (decide (nameLen = 0) || decide (nblocks = 0) || !(!fn && !fo && !fl) || !(!ln && !lo && !ll)) := by
  unfold Bobo.Gen.PatternRules.patternRejects
  cases fn <;> cases fo <;> cases fl <;> cases ln <;> cases lo <;> cases ll <;> simp

/-- the length tests come before anything indexes `blocks` (so an empty list raises the documented error). -/
theorem gen_guards_first : Bobo.Gen.PatternRules.guardsBeforeIndexing = 2 := by decide

theorem legal_endsPlain (p : Pattern ε) (h : p.legal = true) : EndsPlain p.blocks := by
  unfold Pattern.legal at h
  have hl : ∃ l, p.blocks.getLast? = some l ∧ l.plain = true := by
    cases hh : p.blocks.head? <;> cases hg : p.blocks.getLast? <;> simp_all
  obtain ⟨l, hl, hp⟩ := hl
  clear h
  generalize p.blocks = bs at hl
  induction bs with
  | nil => simp at hl
  | cons b rest ih =>
    cases rest with
    | nil =>
      simp at hl; subst hl
      simp [Block.plain] at hp
      exact ⟨hp.2, hp.1.2⟩
    | cons b' rest' =>
      exact ih (by simpa [List.getLast?_cons_cons] using hl)

/-- **every accepted pattern runs inside its block list**: for a pattern the constructors accept and a
run positioned inside the list, `process` never raises an index error, whatever the event and the
predicates do. -/
theorem accepted_runs_safely (p : Pattern ε) (hp : p.legal = true) (r : Run ε) (e : ε)
    (hi : r.idx < p.blocks.length) : (process p r e).1 ≠ .indexError := by
  unfold process
  split
  · simp
  · split
    · simp
    · simp
    · exact walk_no_index_error _ e _ (endsPlain_drop _ _ hi (legal_endsPlain p hp)) _ _

/-- the position invariant of live runs: `1 ≤ idx`, and `idx < |blocks|` unless finished. -/
def RunInv (p : Pattern ε) (r : Run ε) : Prop := 1 ≤ r.idx ∧ (r.halted = true ∨ r.idx < p.blocks.length)

theorem newRun_inv (id : String) (p : Pattern ε) (g0 : String) (e : ε) : RunInv p (newRun id p g0 e) := by
  unfold RunInv newRun completeAt
  simp
  omega

theorem process_preserves_inv (p : Pattern ε) (r : Run ε) (e : ε) (h : RunInv p r) :
    RunInv p (process p r e).2 := by
  unfold process
  split
  · exact h
  · split
    · exact h
    · exact ⟨h.1, .inl rfl⟩
    · have hr := walk_res p.blocks.length e (p.blocks.drop r.idx) r.idx r
      have hge := walk_idx_ge p.blocks.length e (p.blocks.drop r.idx) r.idx r (Nat.le_refl _)
      generalize walk p.blocks.length e (p.blocks.drop r.idx) r.idx r = w at hr hge
      cases hr with
      | index => exact h
      | raised => exact h
      | wait => exact h
      | halt => exact ⟨h.1, .inl rfl⟩
      | record g => exact h
      | advance g j =>
        refine ⟨by simp, ?_⟩
        simp only [completeAt]
        by_cases hc : p.blocks.length ≤ j + 1
        · left; simp [hc]
        · right; omega

/-- reachable runs never raise an index error (C19's "without an internal error", C01's totality). -/
theorem reachable_runs_total (p : Pattern ε) (hp : p.legal = true) (r : Run ε) (h : RunInv p r) (e : ε) :
    (process p r e).1 ≠ .indexError := by
  rcases h.2 with hh | hlt
  · simp [process, hh]
  · exact accepted_runs_safely p hp r e hlt

/-! non-vacuity: a concrete legal 4-block pattern with an optional block falling into a loop -/
section example_
def exPat : Pattern Nat :=
  { name := "p", singleton := false, pre := [], halt := [fun e _ => some (e == 9)],
    blocks := [ { preds := [fun e _ => some (e == 0)], group := "a", strict := false, loop := false, negated := false, optional := false },
                { preds := [fun e _ => some (e == 1)], group := "b", strict := false, loop := false, negated := false, optional := true },
                { preds := [fun e _ => some (e == 2)], group := "c", strict := false, loop := true, negated := false, optional := false },
                { preds := [fun e _ => some (e == 3)], group := "d", strict := true, loop := false, negated := false, optional := false } ] }
example : exPat.legal = true := by decide
example : RunInv exPat (newRun "r0" exPat "a" 0) := newRun_inv _ _ _ _
/-- D2: the event 2 falls through the optional block into the loop, is recorded, and the index stays 1. -/
example : (process exPat (newRun "r0" exPat "a" 0) 2).2.idx = 1 ∧
          (process exPat (newRun "r0" exPat "a" 0) 2).2.hist = [("a", [0]), ("c", [2])] := by decide
example : (process exPat (newRun "r0" exPat "a" 0) 3).2.halted = true ∧
          (process exPat (newRun "r0" exPat "a" 0) 3).2.idx = 4 := by decide
example : (process exPat (newRun "r0" exPat "a" 0) 9).1 = .ok true ∧
          (process exPat (newRun "r0" exPat "a" 0) 9).2.halted = true ∧
          (process exPat (newRun "r0" exPat "a" 0) 9).2.idx = 1 := by decide
end example_

end Bobo.Run

/-! G-tie (C01): the block walk of run.py regenerated on this run is the model's `walk`. -/
namespace Bobo.Run
/-- `_process_loop` / `_process_not_loop` / the gate of `process` / `_move_forward` as they stand in the source now
(Gen/RunWalk.lean) are what the model's `walk`, `process` and `moveForward` do. -/
theorem run_source_walk_c01 {ε : Type} (n : Nat) (e : ε) (b : Block ε) (rest : List (Block ε)) (i : Nat) (r : Run ε) :
    (walk n e (b :: rest) i r =
      match isMatch b.preds e r.hist with
      | none => (.raised, r)
      | some m => applyAct n e b rest i r
          (if b.loop then Bobo.Gen.RunWalk.loopAct m b.strict
           else Bobo.Gen.RunWalk.notLoopAct m b.negated b.optional b.strict)) ∧
    Bobo.Gen.RunWalk.processSteps = processStepsModel ∧
    Bobo.Gen.RunWalk.moveForwardStmts =
      ["self._add_event(event, block)", "self._block_index = temp_index + 1", "self._halted = self.is_complete()"] :=
  ⟨gen_walk_eq n e b rest i r, gen_processSteps_eq, gen_moveForward_eq⟩
end Bobo.Run

/-! G-tie (C01): the local path of decider.py (`_check_against_runs`, `_check_against_patterns`) as it stands now. -/
namespace Bobo.Decider
/-- per run: `process` alone inside the `try`, then the classification table generated from the source; for a
freshly started run: the decision table generated from the source; and the shapes of the two loops. -/
theorem decider_local_fragments_c01 {ε : Type} (e : ε) (ph : String) (acc : RunsAcc ε) (r : LRun ε)
    (haltedNew completeNew singleton noRuns : Bool) :
    (checkRun e ph acc r =
      match (Bobo.Run.process r.pat r.run e).1 with
      | .ok changed =>
        applyCls ph acc { r with run := (Bobo.Run.process r.pat r.run e).2 }
          (Bobo.Gen.DeciderFrag.classify changed (Bobo.Run.process r.pat r.run e).2.halted
            ((Bobo.Run.process r.pat r.run e).2.isComplete r.pat.blocks.length))
      | _ => { acc with keep := acc.keep ++ [{ r with run := (Bobo.Run.process r.pat r.run e).2 }] }) ∧
    Bobo.Gen.DeciderFrag.startDecision haltedNew completeNew singleton noRuns =
      (if haltedNew && completeNew then .completeAtOnce else if !singleton || noRuns then .store else .skip) ∧
    Bobo.Gen.DeciderFrag.runsShape =
      ["per-run:try-process-only;classify", "remove-finished-after-all-runs", "return:completed,halted,updated"] ∧
    Bobo.Gen.DeciderFrag.patternsShape =
      ["first-block:any-predicate,raise-counts-as-no,empty-history", "new-run:index-1,history-{group0:[event]},fresh-id",
       "return:completed,updated"] :=
  ⟨gen_checkRun_eq e ph acc r, gen_startDecision_eq _ _ _ _, gen_runsShape_eq, gen_patternsShape_eq⟩
end Bobo.Decider
