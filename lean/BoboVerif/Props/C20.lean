import BoboVerif.Model.Actions
import BoboVerif.Gen.Actions
/-!
C20 — Every action execution is reported once, with its own outcome.

Property theorems only; the model is Model/Actions.lean.  Actions (any name, any
total function from the complex event to (success, data)), the data type, the
number of workers, the schedule of the pool (which running task finishes when,
when a worker picks up the next task, when responses are fetched) are universally
quantified.
-/
namespace Bobo.Actions

variable {δ : Type}

/-! ## 1. sequential multi-action -/

/-- the loop computes: success so far ∧ every executed sub-action succeeded; data so far ++ the
outputs of the executed sub-actions, in order. -/
theorem multiLoop_spec (stop : Bool) (e : CEv) (acts : List (CEv → Bool × δ)) :
    ∀ (success : Bool) (data : List (Bool × δ)),
      multiLoop stop e acts success data =
        (success && (executed stop e acts).all (fun a => (a e).1), data ++ (executed stop e acts).map (· e)) := by
  induction acts with
  | nil => intro s d; simp [multiLoop, executed]
  | cons a rest ih =>
    intro s d
    cases h : (a e).1 <;> cases stop <;> simp [multiLoop, executed, h, ih]

/-- **C20 (multi, data)**: the reported list is the list of outputs of the executed sub-actions, in order. -/
theorem multi_reports_in_order (acts : List (CEv → Bool × δ)) (stop : Bool) (e : CEv) :
    (multiExecute acts stop e).2 = (executed stop e acts).map (· e) := by
  simp [multiExecute, multiLoop_spec]

/-- **C20 (multi, success)**: the multi-action succeeds exactly when every sub-action it executed succeeded. -/
theorem multi_success_iff (acts : List (CEv → Bool × δ)) (stop : Bool) (e : CEv) :
    (multiExecute acts stop e).1 = true ↔ ∀ a ∈ executed stop e acts, (a e).1 = true := by
  simp [multiExecute, multiLoop_spec]

/-- without stop-on-fail every sub-action is executed. -/
theorem executed_all (e : CEv) (acts : List (CEv → Bool × δ)) : executed false e acts = acts := by
  induction acts with
  | nil => rfl
  | cons a rest ih => simp [executed, ih]

/-- **C20 (multi, stop-on-fail)**: with `stop_on_fail` the executed sub-actions are exactly the
prefix ending at the first failure (nothing after it runs), or all of them when none fails;
without it all run. -/
theorem stop_on_fail_prefix (e : CEv) (acts : List (CEv → Bool × δ)) :
    executed false e acts = acts ∧
    ((executed true e acts = acts ∧ ∀ a ∈ acts, (a e).1 = true) ∨
     ∃ pre f post, acts = pre ++ f :: post ∧ (∀ a ∈ pre, (a e).1 = true) ∧ (f e).1 = false ∧
       executed true e acts = pre ++ [f]) := by
  refine ⟨executed_all e acts, ?_⟩
  induction acts with
  | nil => left; simp [executed]
  | cons a rest ih =>
    cases h : (a e).1 with
    | false => right; exact ⟨[], a, rest, rfl, by simp, h, by simp [executed, h]⟩
    | true =>
      rcases ih with ⟨h1, h2⟩ | ⟨pre, f, post, h1, h2, h3, h4⟩
      · left; exact ⟨by simp [executed, h, h1], by simpa [h] using h2⟩
      · right
        refine ⟨a :: pre, f, post, by simp [h1], ?_, h3, by simp [executed, h, h4]⟩
        intro b hb; rcases List.mem_cons.mp hb with rfl | hb
        · exact h
        · exact h2 b hb

/-- a multi-action is itself an action (nesting): its outcome is the pair above. -/
def multiAsAction (name : String) (acts : List (CEv → Bool × δ)) (stop : Bool) : Action (List (Bool × δ)) :=
  ⟨name, multiExecute acts stop⟩

/-! ## 2. handler responses -/

/-- the response names its action, carries the complex event handed over with it, and the
success flag and data are what *that* action returned for *that* event. -/
theorem respond_fields (a : Action δ) (e : CEv) :
    (respond a e).actionName = a.name ∧ (respond a e).complexEvent = e ∧
    (respond a e).success = (a.exec e).1 ∧ (respond a e).data = (a.exec e).2 := ⟨rfl, rfl, rfl, rfl⟩

abbrev R (p : Action δ × CEv) : Resp δ := respond p.1 p.2

/-- the requests of a call sequence. -/
def bRequests : List (BOp δ) → List (Action δ × CEv)
  | [] => []
  | .handle a e :: ops => (a, e) :: bRequests ops
  | .get :: ops => bRequests ops

theorem bStep_inv (maxSize : Nat) (t : BTrace δ) (o : BOp δ)
    (h : t.got ++ t.st.queue = t.handled.map R) :
    (bStep maxSize t o).got ++ (bStep maxSize t o).st.queue = (bStep maxSize t o).handled.map R := by
  cases o with
  | handle a e =>
    simp only [bStep, bHandle]
    split <;> rename_i heq <;> split at heq <;> simp_all
    · cases heq; simp [← List.append_assoc, h]
  | get =>
    simp only [bStep, bGet]
    cases hq : t.st.queue with
    | nil => simpa [hq] using h
    | cons r q => simpa [hq] using h

theorem bRun_inv (maxSize : Nat) (ops : List (BOp δ)) : ∀ (t : BTrace δ),
    t.got ++ t.st.queue = t.handled.map R →
    (bRun maxSize t ops).got ++ (bRun maxSize t ops).st.queue = (bRun maxSize t ops).handled.map R := by
  induction ops with
  | nil => intro t h; exact h
  | cons o os ih => intro t h; exact ih _ (bStep_inv maxSize t o h)

theorem bRun_handled_unbounded (ops : List (BOp δ)) : ∀ (t : BTrace δ),
    (bRun 0 t ops).handled = t.handled ++ bRequests ops ∧ (bRun 0 t ops).dropped = t.dropped := by
  induction ops with
  | nil => intro t; simp [bRun, bRequests]
  | cons o os ih =>
    intro t
    cases o with
    | handle a e =>
      have := ih (bStep 0 t (.handle a e))
      simp only [bRun, List.foldl_cons] at this ⊢
      simp [bStep, bHandle, full, bRequests] at this ⊢
      exact this
    | get =>
      have := ih (bStep 0 t .get)
      simp only [bRun, List.foldl_cons] at this ⊢
      rw [this.1, this.2]
      simp only [bStep, bGet, bRequests]
      cases t.st.queue <;> simp

/-- **C20 (blocking)**: for every sequence of `handle` / `get_handler_response` calls on a blocking
handler (unbounded queue), the responses obtained so far followed by the ones still queued are
exactly one response per request, in submission order, each built from its own (action, event). -/
theorem blocking_fifo (ops : List (BOp δ)) :
    (bRun 0 {} ops).got ++ (bRun 0 {} ops).st.queue = (bRequests ops).map R ∧
    (bRun 0 {} ops).dropped = [] := by
  have h1 := bRun_inv 0 ops ({} : BTrace δ) rfl
  have h2 := bRun_handled_unbounded ops ({} : BTrace δ)
  exact ⟨by rw [h1, h2.1]; rfl, h2.2⟩

/-- with a bounded queue the invariant still holds for the requests that were accepted (an overflow
raises *after* the action ran: see `blocking_overflow_drops`). -/
theorem blocking_fifo_bounded (maxSize : Nat) (ops : List (BOp δ)) :
    (bRun maxSize {} ops).got ++ (bRun maxSize {} ops).st.queue = (bRun maxSize {} ops).handled.map R :=
  bRun_inv maxSize ops {} rfl

/-! ## 3. pool handlers -/

/-- the requests of a schedule. -/
def pRequests : List (POp δ) → List (Action δ × CEv)
  | [] => []
  | .submit a e :: ops => (a, e) :: pRequests ops
  | _ :: ops => pRequests ops

theorem perm_eraseIdx {β : Type} : ∀ (l : List β) (i : Nat) (p : β), l[i]? = some p → l.Perm (p :: l.eraseIdx i)
  | [], i, p, h => by simp at h
  | x :: l, 0, p, h => by simp at h; subst h; simp
  | x :: l, i + 1, p, h => by
    simp at h
    have := perm_eraseIdx l i p h
    simp only [List.eraseIdx_cons_succ]
    exact (List.Perm.cons x this).trans (List.Perm.swap p x _)

/-- everything accepted is, at every moment, in exactly one place: obtained, queued, running or waiting. -/
def PInv (t : PTrace δ) : Prop :=
  (t.got ++ t.st.queue ++ (t.st.running ++ t.st.waiting).map R).Perm (t.submitted.map R)

theorem pStep_inv (workers maxSize : Nat) (t : PTrace δ) (o : POp δ) (h : PInv t) :
    PInv (pStep workers maxSize t o) := by
  unfold PInv at *
  cases o with
  | submit a e =>
    simp only [pStep]
    split
    · exact h
    · simp only [List.map_append, List.map_cons, List.map_nil, ← List.append_assoc]
      simp only [List.map_append, ← List.append_assoc] at h
      exact List.Perm.append_right _ h
  | start =>
    simp only [pStep]
    split
    · exact h
    · rename_i p w hw
      split
      · simpa [hw] using h
      · exact h
  | finish i =>
    simp only [pStep]
    split
    · exact h
    · rename_i p hp
      refine List.Perm.trans ?_ h
      have h1 : ((t.st.running.eraseIdx i ++ t.st.waiting).map R).Perm _ := List.Perm.refl _
      have h2 : (R p :: (t.st.running.eraseIdx i ++ t.st.waiting).map R).Perm ((t.st.running ++ t.st.waiting).map R) := by
        have := (perm_eraseIdx t.st.running i p hp).symm
        have := (List.Perm.append_right t.st.waiting this).map R
        simpa using this
      have h3 : (t.got ++ (t.st.queue ++ [respond p.1 p.2]) ++ (t.st.running.eraseIdx i ++ t.st.waiting).map R).Perm
          (t.got ++ t.st.queue ++ (R p :: (t.st.running.eraseIdx i ++ t.st.waiting).map R)) := by
        simp [List.append_assoc]
      exact h3.trans (List.Perm.append_left _ h2)
  | get =>
    simp only [pStep]
    split
    · exact h
    · rename_i r q hq
      simpa [hq] using h

theorem pRun_inv (workers maxSize : Nat) (ops : List (POp δ)) : ∀ (t : PTrace δ), PInv t →
    PInv (pRun workers maxSize t ops) := by
  induction ops with
  | nil => intro t h; exact h
  | cons o os ih => intro t h; exact ih _ (pStep_inv workers maxSize t o h)

theorem pRun_submitted_unbounded (workers : Nat) (ops : List (POp δ)) : ∀ (t : PTrace δ),
    (pRun workers 0 t ops).submitted = t.submitted ++ pRequests ops ∧ (pRun workers 0 t ops).refused = t.refused := by
  induction ops with
  | nil => intro t; simp [pRun, pRequests]
  | cons o os ih =>
    intro t
    have := ih (pStep workers 0 t o)
    simp only [pRun, List.foldl_cons] at this ⊢
    rw [this.1, this.2]
    cases o with
    | submit a e => simp [pStep, pRequests]
    | start =>
      simp only [pStep, pRequests]
      split
      · simp
      · split <;> simp
    | finish i => simp only [pStep, pRequests]; split <;> simp
    | get => simp only [pStep, pRequests]; split <;> simp

/-- **C20 (pools)**: for every number of workers and every schedule — tasks start in submission order
on free workers, running tasks finish in ANY order, responses are fetched at any time — once the pool
is quiescent the responses (fetched ++ still queued) are a permutation of one response per request,
each built from that request's own (action, event): exactly one each, none crossed, none lost. -/
theorem pool_bijection (workers : Nat) (ops : List (POp δ))
    (hq : (pRun workers 0 {} ops).st.waiting = [] ∧ (pRun workers 0 {} ops).st.running = []) :
    ((pRun workers 0 {} ops).got ++ (pRun workers 0 {} ops).st.queue).Perm ((pRequests ops).map R) := by
  have h := pRun_inv workers 0 ops ({} : PTrace δ) (by simp [PInv])
  have hs := (pRun_submitted_unbounded workers ops ({} : PTrace δ)).1
  unfold PInv at h
  rw [hq.1, hq.2, hs] at h
  simpa using h

/-- at every moment (not only at quiescence) nothing is lost or duplicated. -/
theorem pool_conservation (workers maxSize : Nat) (ops : List (POp δ)) :
    PInv (pRun workers maxSize {} ops) :=
  pRun_inv workers maxSize ops {} (by simp [PInv])

/-- **C20 (pairing)**: every response that exists at any moment was built from one submitted
(action, event) pair: it names that action, carries that event, and its success / data are what that
action returned for that event. -/
theorem response_built_next_to_execute (workers maxSize : Nat) (ops : List (POp δ)) (r : Resp δ)
    (hr : r ∈ (pRun workers maxSize {} ops).got ++ (pRun workers maxSize {} ops).st.queue) :
    ∃ p ∈ (pRun workers maxSize {} ops).submitted,
      r = respond p.1 p.2 ∧ r.actionName = p.1.name ∧ r.complexEvent = p.2 ∧
      r.success = (p.1.exec p.2).1 ∧ r.data = (p.1.exec p.2).2 := by
  have h := pool_conservation workers maxSize ops
  have hm : r ∈ (pRun workers maxSize {} ops).submitted.map R :=
    h.subset (List.mem_append_left _ hr)
  obtain ⟨p, hp, rfl⟩ := List.mem_map.mp hm
  exact ⟨p, hp, rfl, rfl, rfl, rfl, rfl⟩

/-- the pool never runs more tasks than it has workers. -/
theorem pool_workers_bound (workers maxSize : Nat) (ops : List (POp δ)) :
    (pRun workers maxSize {} ops).st.running.length ≤ workers := by
  have : ∀ (t : PTrace δ), t.st.running.length ≤ workers → (pRun workers maxSize t ops).st.running.length ≤ workers := by
    induction ops with
    | nil => intro t h; exact h
    | cons o os ih =>
      intro t h
      apply ih
      cases o with
      | submit a e => simp only [pStep]; split <;> exact h
      | start =>
        simp only [pStep]
        split
        · exact h
        · split
          · simp; omega
          · exact h
      | finish i =>
        simp only [pStep]
        split
        · exact h
        · rename_i p hp
          have := (List.getElem?_eq_some_iff.mp hp).1
          simp [List.length_eraseIdx]; split <;> omega
      | get => simp only [pStep]; split <;> exact h
  exact this {} (by simp)

/-! ## 4. forwarder -/

/-- **C20 (action event)**: the action event built from a response carries the response's action name,
success flag and data, and the phenomenon / pattern of the complex event that triggered the action. -/
theorem action_event_fields (id : String) (ts : Int) (a : Action δ) (e : CEv) :
    let ev := actionEvent id ts (respond a e)
    ev.actionName = a.name ∧ ev.success = (a.exec e).1 ∧ ev.data = (a.exec e).2 ∧
    ev.phenomenon = e.phenomenon ∧ ev.pattern = e.pattern ∧ ev.eventId = id ∧ ev.timestamp = ts :=
  ⟨rfl, rfl, rfl, rfl, rfl, rfl, rfl⟩

/-- with the blocking handler, one `update` of the forwarder on a queued complex event whose phenomenon
has an action executes it and publishes exactly one action event, with those fields. -/
theorem forwarder_update_reports (phenomena : List (String × Option (Action δ))) (idOf : Nat → String)
    (tsOf : Nat → Int) (s : FSt δ) (e : CEv) (q : List CEv) (a : Action δ)
    (hq : s.queue = e :: q) (hh : s.handler.queue = []) (ha : lookup phenomena e.phenomenon = some (some a)) :
    (fUpdate phenomena idOf tsOf s).1.out = s.out ++ [actionEvent (idOf s.calls) (tsOf s.calls) (respond a e)] ∧
    (fUpdate phenomena idOf tsOf s).1.queue = q ∧ (fUpdate phenomena idOf tsOf s).2 = true := by
  simp [fUpdate, fUpdateHandler, fUpdateResponses, hq, ha, bHandle, full, bGet, hh]

/-! ## 5. non-vacuity -/

namespace Demo

def ev1 : CEv := ⟨"c1", "phen", "pat"⟩
def ev2 : CEv := ⟨"c2", "phen", "pat2"⟩
def ok (n : Nat) : CEv → Bool × Nat := fun _ => (true, n)
def ko (n : Nat) : CEv → Bool × Nat := fun _ => (false, n)
/-- an action whose outcome depends on the event it is given. -/
def byEvent : CEv → Bool × Nat := fun e => (e.eventId == "c1", e.eventId.length)

example : multiExecute [ok 1, ko 2, ok 3] true ev1 = (false, [(true, 1), (false, 2)]) := by decide
example : multiExecute [ok 1, ko 2, ok 3] false ev1 = (false, [(true, 1), (false, 2), (true, 3)]) := by decide
example : multiExecute [ok 1, byEvent, ok 3] true ev1 = (true, [(true, 1), (true, 2), (true, 3)]) := by decide
example : multiExecute [ok 1, byEvent, ok 3] true ev2 = (false, [(true, 1), (false, 2)]) := by decide
example : (executed true ev1 [ok 1, ko 2, ok 3]).length = 2 := by decide

def a1 : Action Nat := ⟨"A1", ok 10⟩
def a2 : Action Nat := ⟨"A2", ko 20⟩
def a3 : Action Nat := ⟨"A3", byEvent⟩

def key (r : Resp Nat) : String × String × Bool × Nat := (r.actionName, r.complexEvent.eventId, r.success, r.data)

-- blocking: FIFO
example : ((bRun 0 {} [.handle a1 ev1, .handle a2 ev2, .get, .handle a3 ev2, .get, .get, .get]).got).map key
    = [("A1", "c1", true, 10), ("A2", "c2", false, 20), ("A3", "c2", false, 2)] := by decide

/-- the blocking handler runs the action before it tests the queue: on overflow the action has been
executed and its response is dropped (the caller gets "queue is full"). -/
theorem blocking_overflow_drops :
    ((bRun 1 {} [.handle a1 ev1, .handle a2 ev2, .get, .get]).got).map key = [("A1", "c1", true, 10)] ∧
    ((bRun 1 {} [.handle a1 ev1, .handle a2 ev2, .get, .get]).dropped).map (·.1.name) = ["A2"] := by decide

-- pool, 2 workers: the second task finishes first; responses come out in completion order, each with its own pair
def sched : List (POp Nat) :=
  [.submit a1 ev1, .submit a2 ev2, .submit a3 ev1, .start, .start, .start, .finish 1, .start, .finish 1, .get, .finish 0, .get, .get]

example : ((pRun 2 0 {} sched).got).map key = [("A2", "c2", false, 20), ("A3", "c1", true, 2), ("A1", "c1", true, 10)] := by decide
example : (pRun 2 0 {} sched).st.waiting.length = 0 ∧ (pRun 2 0 {} sched).st.running.length = 0 := by decide

def fOut := (fUpdate [("phen", some a3)] (fun n => "id" ++ toString n) (fun n => 1000 + n) ({ queue := [ev1] } : FSt Nat)).1.out

example : fOut.map (fun x => (x.eventId, x.timestamp, x.actionName)) = [("id0", 1000, "A3")] ∧
    fOut.map (fun x => (x.success, x.data, x.phenomenon, x.pattern)) = [(true, 2, "phen", "pat")] := by decide

end Demo

/-! ## 6. tie G -/

/-- the loop of `BoboActionMultiSequential.execute` as translated from /repo equals the model. -/
theorem gen_multiLoop_eq : @Bobo.Gen.Actions.multiLoop = @multiLoop := by
  funext δ stop e acts
  induction acts with
  | nil => funext s d; rfl
  | cons a rest ih =>
    funext s d
    simp only [Bobo.Gen.Actions.multiLoop, multiLoop, ih]

theorem gen_multiExecute_eq : @Bobo.Gen.Actions.multiExecute = @multiExecute := by
  funext δ acts stop e
  simp only [Bobo.Gen.Actions.multiExecute, multiExecute, gen_multiLoop_eq]

/-- the response record built in `_execute_action` and in `_pool_execute_action`. -/
theorem gen_respond_blocking_eq : @Bobo.Gen.Actions.respondBlocking = @respond := rfl
theorem gen_respond_pool_eq : @Bobo.Gen.Actions.respondPool = @respond := rfl

/-- the action event built in `_update_responses`. -/
theorem gen_actionEvent_eq : @Bobo.Gen.Actions.actionEvent = @actionEvent := rfl

end Bobo.Actions
