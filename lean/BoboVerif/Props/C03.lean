import BoboVerif.Props.C12
import BoboVerif.Lemmas.Remote
import BoboVerif.Lemmas.RunChange
import BoboVerif.Lemmas.LocalStarts
import BoboVerif.Lemmas.LocalExact
import BoboVerif.Lemmas.IdInv
import BoboVerif.Lemmas.LocalSim
import BoboVerif.Lemmas.GenDecider
import BoboVerif.Lemmas.Rename
/-!
C03 — Replication is transparent and survivors take over (failover equivalence).

What is proved here (for every pattern, event, record and predicate behaviour)
is the *mirror* property record by record: whatever a local step does to a run
and announces, a replica holding the same run reproduces exactly when it
applies that announcement —

* a local change that leaves the run active produces a record STRICTLY AHEAD of
  the run's previous position (`local_update_is_ahead`), so a replica at the
  previous position applies it and ends with exactly the originator's index and
  history (`replica_applies_update`); this is where finding F1 lived: with the
  pinned comparison (index only) progress inside a looping block is NOT ahead
  (`loop_progress_not_ahead_old`) and the replica kept a stale history;
* a record for a run the replica does not hold creates it at the record's
  position at the end of its bucket (`replica_creates_new`);
* a completed / halted record removes the run (`replica_removes_finished`).

The whole-table statements come after these record-level lemmas (which keep their historical `_partial`
names): `replica_mirrors_runs` (one step: originator and replica compute the SAME fold of the `updated` records),
`split_stream_mirror` / `split_stream_mirror_ids` / `split_stream_mirror_n` (every split of every stream over any
number of instances keeps all tables identical key by key, history content included; identifier hygiene derived
from collision-free generators), and `single_engine_step` / `single_engine_shadows` (the cluster against ONE
engine fed the whole stream: same tables key by key and, at every step, the same announced records per key).
`SyncBisim` below is the older, weaker (identifier / index / size only) formulation, kept for reference.
The composition is also exercised on every run by the correspondence harness (real clusters against one real
engine, all splits and crash points of short streams).  `FeedbackInert` is an explicit hypothesis of the full
property: without it the property is false of the code (finding F2, recorded open).
-/
namespace Bobo.Decider
open Bobo.Run Bobo.Lattice
set_option linter.unusedSimpArgs false
variable {ε : Type}

/-- processing a complex or action event changes no run (relaxed, non-negated blocks whose predicates
reject non-simple events, no preconditions): the hypothesis under which C03 can hold at all. -/
def FeedbackInert (c : Cfg ε) (isSimple : ε → Bool) : Prop :=
  ∀ P ∈ c.phenomena, ∀ p ∈ P.patterns, ∀ (r : Run ε) (e : ε), isSimple e = false →
    (process p r e) = (.ok false, r) ∧ ∀ b ∈ p.blocks.head?, startMatch b.preds e = false

/-- the older bucket-level formulation (superseded by `split_stream_mirror_n` / `single_engine_shadows`, which are
proved): after the same input stream, split arbitrarily, with full delivery between inputs, every replica's buckets
equal the single decider's. -/
def SyncBisim (c : Cfg ε) (single : DState ε) (replicas : List (DState ε)) : Prop :=
  ∀ r ∈ replicas, ∀ ph pa, (r.table.runsFrom ph pa).map (fun x => (x.run.id, x.run.idx, x.run.hist.size))
    = (single.table.runsFrom ph pa).map (fun x => (x.run.id, x.run.idx, x.run.hist.size))

/-- a local change that keeps the run active yields a position strictly ahead of the old one. -/
theorem local_update_is_ahead_partial (p : Pattern ε) (r : Run ε) (e : ε)
    (hch : (process p r e).1 = .ok true) (hlive : (process p r e).2.halted = false)
    (ph : String) :
    ahead (LRun.ser ph ({ run := (process p r e).2, pat := p } : LRun ε)) r = true := by
  rw [ahead_iff]
  obtain ⟨⟨g, hg⟩, hidx⟩ := changed_live_records p r e hch hlive
  simp only [LRun.ser]
  have := addEvent_size_ge r.hist g e
  rw [← hg] at this
  omega

/-- finding F1 (pinned tree): a looping block that accepts another event keeps the index, so with the
index-only comparison the originator's record is not ahead and the replica ignores it. -/
theorem loop_progress_not_ahead_old (rr : Rec ε) (l : Run ε) (h : rr.idx = l.idx) : aheadOld rr l = false := by
  simp [aheadOld, h]

/-- a replica holding the run at an earlier position takes exactly the originator's index and history. -/
theorem replica_applies_update_partial (c : Cfg ε) (s : DState ε) (out : List (Rec ε)) (rr : Rec ε)
    (p : Pattern ε) (rl : LRun ε)
    (hp : c.getPattern rr.phen rr.pat = some p) (hs : p.singleton = false)
    (hl : s.table.runAt rr.phen rr.pat rr.id = some rl) (ha : ahead rr rl.run = true) :
    ∃ s' out', updateOne c ahead (s, out) rr = some (s', out') ∧
      (s'.table.runAt rr.phen rr.pat rr.id).map (fun x => (x.run.idx, x.run.hist)) = some (rr.idx, rr.hist) := by
  rw [remote_only_ahead c s out rr p rl hp hs hl]
  refine ⟨_, _, rfl, ?_⟩
  have hid : rl.run.id = rr.id := by
    have := List.find?_some (by rw [runAt_def] at hl; exact hl)
    simpa using this
  simp only [ha, if_true]
  rw [runAt_setBlock, hid]
  simp [hl]

/-- a record for a run the replica does not hold creates it, at the record's position. -/
theorem replica_creates_new_partial (c : Cfg ε) (s : DState ε) (out : List (Rec ε)) (rr : Rec ε)
    (p : Pattern ε) (hp : c.getPattern rr.phen rr.pat = some p) (hs : p.singleton = false)
    (hl : s.table.runAt rr.phen rr.pat rr.id = none) :
    ∃ s' out', updateOne c ahead (s, out) rr = some (s', out') ∧
      (s'.table.runAt rr.phen rr.pat rr.id).map (fun x => (x.run.id, x.run.idx, x.run.hist)) =
        some (rr.id, rr.idx, rr.hist) ∧
      s'.table.runsFrom rr.phen rr.pat = s.table.runsFrom rr.phen rr.pat ++
        [{ run := { id := rr.id, idx := rr.idx, hist := rr.hist, halted := completeAt p.blocks.length rr.idx }, pat := p }] := by
  unfold updateOne
  simp only [hp, hs, Bool.false_eq_true, if_false, hl]
  obtain ⟨t', ht'⟩ := add_isSome_of_runAt_none s.table rr.phen rr.pat
    { run := { id := rr.id, idx := rr.idx, hist := rr.hist, halted := completeAt p.blocks.length rr.idx }, pat := p } hl
  simp only [ht']
  refine ⟨_, _, rfl, ?_, ?_⟩
  · simp only
    rw [runAt_add _ _ _ _ _ ht']
    simp
  · simp only
    unfold Table.add at ht'
    simp only [hl, Option.isSome_none, Bool.false_eq_true, if_false, Option.some.injEq] at ht'
    subst ht'
    rw [runsFrom_modify _ _ _ _ _ true _ (.inl rfl)]
    simp

/-- a completed / halted record removes the run from the replica. -/
theorem replica_removes_finished_partial (c : Cfg ε) (hns : NoSing c) (b : Bool) (s : DState ε) (out : List (Rec ε))
    (rr : Rec ε) (hp : (c.getPattern rr.phen rr.pat).isSome = true) :
    (removeOne c b (s, out) rr).1.table.runAt rr.phen rr.pat rr.id = none := by
  rw [removeOne_nosing c hns]
  cases hg : c.getPattern rr.phen rr.pat with
  | none => simp [hg] at hp
  | some p =>
    simp only
    rw [runAt_remove]
    simp

/-- **replicas mirror the originator, position by position**: if a replica agrees with the originator on the
status of every run key before the originator processes an event (same finished runs, same active runs at the
same index and history size), then after it applies the originator's notification it agrees again — for every
pattern set without singletons, every event, every table; finished-run memory enabled and not evicting.
(Both sides are joins with the SAME notification: `local_is_join` and `remote_is_join`.)  By induction, with
all replication messages delivered between consecutive inputs, every live replica holds at every moment the
same runs at the same positions as the instance that processed the input — so any survivor can take over. -/
theorem replica_mirrors_status (c : Cfg ε) (hc : c.caching = true) (hns : NoSing c)
    (sA sA' sB sB' : DState ε) (e : ε) (nt nB : Notif ε) (ch : Bool)
    (hwf : TableWF sA.table)
    (hA : localStep c sA e = some (sA', nt, ch))
    (hB : remoteStep c sB nt.completed nt.halted nt.updated = some (sB', nB))
    (hAC : sA.cacheC.length + nt.completed.length ≤ c.maxCache) (hAH : sA.cacheH.length + nt.halted.length ≤ c.maxCache)
    (hBC : sB.cacheC.length + nt.completed.length ≤ c.maxCache) (hBH : sB.cacheH.length + nt.halted.length ≤ c.maxCache)
    (ph pa id : String) (hk : (c.getPattern ph pa).isSome = true)
    (hagree : abs sB ph pa id = abs sA ph pa id) :
    abs sB' ph pa id = abs sA' ph pa id := by
  rw [remote_abs_after c hc hns sB sB' nB _ _ _ hBC hBH hB ph pa id hk,
    (local_is_join c hc sA sA' e nt ch hwf hA hAC hAH).2 ph pa id, hagree]

/-- the replica reports exactly the completions the originator reported that it had not already seen. -/
theorem replica_reports_completions (c : Cfg ε) (hc : c.caching = true) (hns : NoSing c)
    (sB sB' : DState ε) (nB : Notif ε) (comp halt upd : List (Rec ε))
    (hBC : sB.cacheC.length + comp.length ≤ c.maxCache) (hBH : sB.cacheH.length + halt.length ≤ c.maxCache)
    (hB : remoteStep c sB comp halt upd = some (sB', nB))
    (ph pa id : String) (hk : (c.getPattern ph pa).isSome = true) (hin : comp.any (·.id == id) = true) :
    abs sB' ph pa id = Bobo.Lattice.completed := by
  rw [remote_abs_after c hc hns sB sB' nB _ _ _ hBC hBH hB ph pa id hk]
  have hv := absMsg_valid comp halt upd ph pa id
  have : absMsg comp halt upd ph pa id = Bobo.Lattice.completed := by
    unfold absMsg
    simp only [hin, if_true]
    refine join_completed_left (join_valid ?_ (joinAll_recSt_valid _))
    split
    · exact halted_valid
    · exact bot_valid
  rw [this]; exact join_completed_right (abs_valid _ _ _ _)

/-- **replicas mirror the originator run by run, content included.**  If, before the originator processes an
event, a replica holds under every key of a known pattern exactly the run the originator holds (same identifier,
index, history CONTENT, pattern), then after it applies the originator's notification it again holds exactly the
originator's run under every such key — for every pattern set without singletons whose names resolve uniquely,
every event and every table; finished-run memory enabled and not evicting on the replica.  Identifier hygiene
is explicit: the notification names no run the replica remembers as finished (`hmemB`), names no identifier both
as finished and as updated (`hsep`), and the originator does not still hold a run it announces as finished
(`hfin`) — all three follow from run identifiers being unique (C12).  The proof shows both sides compute the SAME
fold: `local_exact` (the originator's table after the step is `applyRec` folded over the `updated` records naming
the key) and `remote_exact` (so is the replica's). -/
theorem replica_mirrors_runs (c : Cfg ε) (hc : c.caching = true) (hns : NoSing c) (hcw : CfgWF c)
    (sA sA' sB : DState ε) (e : ε) (nt : Notif ε) (ch : Bool)
    (hwf : TableWF sA.table)
    (hlive : ∀ ph pa id r, (c.getPattern ph pa).isSome = true → sA.table.runAt ph pa id = some r → r.run.halted = false)
    (hA : localStep c sA e = some (sA', nt, ch))
    (hBC : sB.cacheC.length + nt.completed.length ≤ c.maxCache) (hBH : sB.cacheH.length + nt.halted.length ≤ c.maxCache)
    (hmemB : ∀ x ∈ nt.completed ++ nt.halted ++ nt.updated, inCache sB.cacheC x.id = false ∧ inCache sB.cacheH x.id = false)
    (hsep : ∀ u ∈ nt.updated, ∀ f ∈ nt.completed ++ nt.halted, u.id ≠ f.id)
    (hfin : ∀ x ∈ nt.completed ++ nt.halted, sA'.table.runAt x.phen x.pat x.id = none)
    (hagree : ∀ ph pa id, (c.getPattern ph pa).isSome = true → sB.table.runAt ph pa id = sA.table.runAt ph pa id) :
    ∃ sB' nB, remoteStep c sB nt.completed nt.halted nt.updated = some (sB', nB) ∧
      sB'.cacheC = sB.cacheC ++ nt.completed ∧ sB'.cacheH = sB.cacheH ++ nt.halted ∧
      ∀ ph pa id, (c.getPattern ph pa).isSome = true → sB'.table.runAt ph pa id = sA'.table.runAt ph pa id := by
  obtain ⟨sB', nB, hB, hC, hH, hT⟩ := remote_exact c hc hns sB nt.completed nt.halted nt.updated hBC hBH hmemB hsep
  refine ⟨sB', nB, hB, hC, hH, ?_⟩
  intro ph pa id hk
  cases hp : c.getPattern ph pa with
  | none => simp [hp] at hk
  | some p =>
    rw [hT ph pa id p hp]
    by_cases hany : (nt.completed ++ nt.halted).any (keyMatch ph pa id) = true
    · -- the key's run finished: the replica drops it, the originator no longer holds it
      obtain ⟨x, hx, hxk⟩ := List.any_eq_true.mp hany
      obtain ⟨k1, k2, k3⟩ := (keyMatch_iff ph pa id x).mp hxk
      have hnone := hfin x hx
      rw [← k1, ← k2, ← k3] at hnone
      have hnil : nt.updated.filter (keyMatch ph pa id) = [] := by
        rw [List.filter_eq_nil_iff]
        intro u hu huk
        have := (keyMatch_iff ph pa id u).mp huk
        exact hsep u hu x hx (by rw [← this.2.2, ← k3])
      simp only [hany, if_true, hnil, List.foldl_nil, hnone]
    · have hany' : (nt.completed ++ nt.halted).any (keyMatch ph pa id) = false := by simpa using hany
      rcases local_exact c hcw sA sA' e nt ch hwf hA ph pa id p hp (fun r => hlive ph pa id r hk) with h1 | h1
      · rw [hany'] at h1; exact absurd h1 (by decide)
      · simp only [hany', Bool.false_eq_true, if_false]
        rw [h1, hagree ph pa id hk]

/-- … and the finished-run memories stay equal (neither side evicting). -/
theorem replica_mirrors_memory (c : Cfg ε) (hc : c.caching = true) (hns : NoSing c)
    (sA sA' sB sB' : DState ε) (e : ε) (nt nB : Notif ε) (ch : Bool)
    (hA : localStep c sA e = some (sA', nt, ch))
    (hB : remoteStep c sB nt.completed nt.halted nt.updated = some (sB', nB))
    (hAC : sA.cacheC.length + nt.completed.length ≤ c.maxCache) (hAH : sA.cacheH.length + nt.halted.length ≤ c.maxCache)
    (hmemB : ∀ x ∈ nt.completed ++ nt.halted ++ nt.updated, inCache sB.cacheC x.id = false ∧ inCache sB.cacheH x.id = false)
    (hsep : ∀ u ∈ nt.updated, ∀ f ∈ nt.completed ++ nt.halted, u.id ≠ f.id)
    (hmC : sB.cacheC = sA.cacheC) (hmH : sB.cacheH = sA.cacheH) :
    sB'.cacheC = sA'.cacheC ∧ sB'.cacheH = sA'.cacheH := by
  obtain ⟨sB2, nB2, hB2, hC, hH, _⟩ := remote_exact c hc hns sB nt.completed nt.halted nt.updated
    (by rw [hmC]; exact hAC) (by rw [hmH]; exact hAH) hmemB hsep
  rw [hB] at hB2
  simp only [Option.some.injEq, Prod.mk.injEq] at hB2
  obtain ⟨e1, _⟩ := hB2
  subst e1
  unfold localStep at hA
  generalize checkAgainstRuns e sA.table = car at hA
  obtain ⟨t1, rhc, rhi, rupd⟩ := car
  simp only at hA
  cases hcp : checkAgainstPatterns c e t1 sA.nextId with
  | none => simp [hcp] at hA
  | some acc =>
    simp only [hcp, Option.some.injEq, Prod.mk.injEq] at hA
    obtain ⟨hs', hnt, _⟩ := hA
    subst hnt
    simp only at hAC hAH hC hH
    rw [maybeCache_noevict c hc _ _ _ (by simpa using hAC) (by simpa using hAH)] at hs'
    subst hs'
    simp only [hC, hH, hmC, hmH]
    exact ⟨trivial, trivial⟩

/-! ### every split of every stream: the lockstep invariant -/

/-- identifier hygiene of one originator step (all consequences of run identifiers being unique, C12) and
no eviction from the finished-run memory during it. -/
structure Hygiene (c : Cfg ε) (a a' : DState ε) (nt : Notif ε) : Prop where
  evC : a.cacheC.length + nt.completed.length ≤ c.maxCache
  evH : a.cacheH.length + nt.halted.length ≤ c.maxCache
  mem : ∀ x ∈ nt.completed ++ nt.halted ++ nt.updated, inCache a.cacheC x.id = false ∧ inCache a.cacheH x.id = false
  sep : ∀ u ∈ nt.updated, ∀ f ∈ nt.completed ++ nt.halted, u.id ≠ f.id
  fin : ∀ x ∈ nt.completed ++ nt.halted, a'.table.runAt x.phen x.pat x.id = none

/-- two instances holding the same runs (content included) under every key of a known pattern, and the same
finished-run memories. -/
structure Mirror (c : Cfg ε) (a b : DState ε) : Prop where
  runs : ∀ ph pa id, (c.getPattern ph pa).isSome = true → b.table.runAt ph pa id = a.table.runAt ph pa id
  memC : b.cacheC = a.cacheC
  memH : b.cacheH = a.cacheH

theorem Mirror.symm {c : Cfg ε} {a b : DState ε} (h : Mirror c a b) : Mirror c b a :=
  ⟨fun ph pa id hk => (h.runs ph pa id hk).symm, h.memC.symm, h.memH.symm⟩

/-- the states two instances can reach when an input stream is split between them in ANY way and each
notification is applied by the other instance before the next input (`stepA`: the first instance runs
`update()` on the event and the second applies the notification; `stepB`: the other way round). -/
inductive Lock (c : Cfg ε) (fA fB : Nat → String) : DState ε → DState ε → Prop
  | init : Lock c fA fB {} {}
  | stepA {a b a' b' : DState ε} {e : ε} {nt nB : Notif ε} {ch : Bool} (h : Lock c fA fB a b)
      (hA : localStep (withIds c fA) a e = some (a', nt, ch))
      (hB : remoteStep (withIds c fB) b nt.completed nt.halted nt.updated = some (b', nB))
      (hyg : Hygiene c a a' nt) : Lock c fA fB a' b'
  | stepB {a b a' b' : DState ε} {e : ε} {nt nA : Notif ε} {ch : Bool} (h : Lock c fA fB a b)
      (hB : localStep (withIds c fB) b e = some (b', nt, ch))
      (hA : remoteStep (withIds c fA) a nt.completed nt.halted nt.updated = some (a', nA))
      (hyg : Hygiene c b b' nt) : Lock c fA fB a' b'

/-- what `Lock` maintains. -/
structure LockInv (c : Cfg ε) (a b : DState ε) : Prop where
  mirror : Mirror c a b
  wfA : TableWF a.table
  wfB : TableWF b.table
  liveA : ∀ ph pa id r, (c.getPattern ph pa).isSome = true → a.table.runAt ph pa id = some r → r.run.halted = false

theorem LockInv.liveB {c : Cfg ε} {a b : DState ε} (h : LockInv c a b) :
    ∀ ph pa id r, (c.getPattern ph pa).isSome = true → b.table.runAt ph pa id = some r → r.run.halted = false := by
  intro ph pa id r hk hr
  rw [h.mirror.runs ph pa id hk] at hr
  exact h.liveA ph pa id r hk hr

theorem LockInv.symm {c : Cfg ε} {a b : DState ε} (h : LockInv c a b) : LockInv c b a :=
  ⟨h.mirror.symm, h.wfB, h.wfA, h.liveB⟩

/-- one lockstep step keeps the invariant (originator `a`, replica `b`). -/
theorem lockInv_step (c : Cfg ε) (hc : c.caching = true) (hns : NoSing c) (hcw : CfgWF c) (f g : Nat → String)
    (a b a' b' : DState ε) (e : ε) (nt nB : Notif ε) (ch : Bool) (h : LockInv c a b)
    (hA : localStep (withIds c f) a e = some (a', nt, ch))
    (hB : remoteStep (withIds c g) b nt.completed nt.halted nt.updated = some (b', nB))
    (hyg : Hygiene c a a' nt) : LockInv c a' b' := by
  have hc' : (withIds c f).caching = true := hc
  have hns' : NoSing (withIds c f) := hns
  have hcw' : CfgWF (withIds c f) := hcw
  rw [remoteStep_ids c g f] at hB
  have hmemB : ∀ x ∈ nt.completed ++ nt.halted ++ nt.updated,
      inCache b.cacheC x.id = false ∧ inCache b.cacheH x.id = false := by
    rw [h.mirror.memC, h.mirror.memH]; exact hyg.mem
  obtain ⟨b2, nB2, hB2, _, _, hT⟩ := replica_mirrors_runs (withIds c f) hc' hns' hcw' a a' b e nt ch h.wfA h.liveA hA
    (by rw [h.mirror.memC]; exact hyg.evC) (by rw [h.mirror.memH]; exact hyg.evH) hmemB hyg.sep hyg.fin h.mirror.runs
  rw [hB] at hB2
  simp only [Option.some.injEq, Prod.mk.injEq] at hB2
  obtain ⟨e1, _⟩ := hB2
  subst e1
  obtain ⟨m1, m2⟩ := replica_mirrors_memory (withIds c f) hc' hns' a a' b b' e nt nB ch hA hB hyg.evC hyg.evH hmemB hyg.sep
    h.mirror.memC h.mirror.memH
  refine ⟨⟨hT, m1, m2⟩, (local_is_join (withIds c f) hc' a a' e nt ch h.wfA hA hyg.evC hyg.evH).1,
    wf_remoteStep ahead true (withIds c f) b b' _ _ _ nB h.wfB hB, ?_⟩
  intro ph pa id r hk hr
  exact local_live (withIds c f) a a' e nt ch h.wfA hA ph pa id (fun r0 => h.liveA ph pa id r0 hk) r hr

/-- **every split of every stream keeps the two instances identical.**  Whatever way an input stream is
divided between two instances, with each notification applied by the other before the next input, both hold
under every key of a known pattern exactly the same run — identifier, index, history content — and the same
finished-run memories, after every input (non-singleton rules whose names resolve uniquely, finished-run
memory enabled and not evicting, run identifiers unique: `Hygiene`).  Hence either instance can be lost at any
point of the stream: the survivor already holds every partially completed run, content included, and
`update()` is a function of the table and the event. -/
theorem split_stream_mirror (c : Cfg ε) (hc : c.caching = true) (hns : NoSing c) (hcw : CfgWF c)
    (fA fB : Nat → String) (a b : DState ε) (h : Lock c fA fB a b) : LockInv c a b := by
  induction h with
  | init =>
    exact ⟨⟨fun _ _ _ _ => rfl, rfl, rfl⟩, wf_empty, wf_empty, fun ph pa id r _ hr => by
      simp [Table.runAt, Table.runsFrom, lookup] at hr⟩
  | stepA _ hA hB hyg ih => exact lockInv_step c hc hns hcw fA fB _ _ _ _ _ _ _ _ ih hA hB hyg
  | stepB _ hB hA hyg ih => exact (lockInv_step c hc hns hcw fB fA _ _ _ _ _ _ _ _ ih.symm hB hA hyg).symm

/-! ### … and the identifier hygiene is not an assumption: it follows from collision-free generators -/

/-- the finished-run memory has room for what this step announces ("memory large enough"). -/
structure Room (c : Cfg ε) (a : DState ε) (nt : Notif ε) : Prop where
  evC : a.cacheC.length + nt.completed.length ≤ c.maxCache
  evH : a.cacheH.length + nt.halted.length ≤ c.maxCache

/-- lockstep execution of two instances over any split of any stream, assuming per step only `Room`. -/
inductive LockR (c : Cfg ε) (fA fB : Nat → String) : DState ε → DState ε → Prop
  | init : LockR c fA fB {} {}
  | stepA {a b a' b' : DState ε} {e : ε} {nt nB : Notif ε} {ch : Bool} (h : LockR c fA fB a b)
      (hA : localStep (withIds c fA) a e = some (a', nt, ch))
      (hB : remoteStep (withIds c fB) b nt.completed nt.halted nt.updated = some (b', nB))
      (room : Room c a nt) : LockR c fA fB a' b'
  | stepB {a b a' b' : DState ε} {e : ε} {nt nA : Notif ε} {ch : Bool} (h : LockR c fA fB a b)
      (hB : localStep (withIds c fB) b e = some (b', nt, ch))
      (hA : remoteStep (withIds c fA) a nt.completed nt.halted nt.updated = some (a', nA))
      (room : Room c b nt) : LockR c fA fB a' b'

/-- the mirror invariant together with the identifier discipline of both instances. -/
structure LockInvIds (c : Cfg ε) (fA fB : Nat → String) (a b : DState ε) : Prop where
  inv : LockInv c a b
  idsA : IdInv c (Issued fA fB a.nextId b.nextId) a
  idsB : IdInv c (Issued fA fB a.nextId b.nextId) b

theorem LockInvIds.symm {c : Cfg ε} {fA fB : Nat → String} {a b : DState ε} (h : LockInvIds c fA fB a b) :
    LockInvIds c fB fA b a :=
  ⟨h.inv.symm, h.idsB.mono (fun _ hi => hi.symm), h.idsA.mono (fun _ hi => hi.symm)⟩

theorem lockInvIds_step (c : Cfg ε) (hc : c.caching = true) (hns : NoSing c) (hcw : CfgWF c) (f g : Nat → String)
    (G : Gens f g) (a b a' b' : DState ε) (e : ε) (nt nB : Notif ε) (ch : Bool) (h : LockInvIds c f g a b)
    (hA : localStep (withIds c f) a e = some (a', nt, ch))
    (hB : remoteStep (withIds c g) b nt.completed nt.halted nt.updated = some (b', nB))
    (room : Room c a nt) : LockInvIds c f g a' b' := by
  have hliveAll : ∀ ph pa id r, a.table.runAt ph pa id = some r → r.run.halted = false :=
    fun ph pa id r hr => h.inv.liveA ph pa id r (h.idsA.known ph pa id r hr) hr
  obtain ⟨hnextA, hmem, hsep, hfin, hidsA0, _⟩ := local_ids c hc hcw f G.injA (Issued f g a.nextId b.nextId) a a' e nt ch
    h.inv.wfA hliveAll h.idsA (fun k hk => not_issued_fresh G a.nextId b.nextId k hk) hA room.evC room.evH
  have hidsA' : IdInv c (Issued f g a'.nextId b.nextId) a' := by
    refine hidsA0.mono ?_
    intro id hi
    rcases hi with hi | ⟨k, _, hk2, ek⟩
    · exact hi.mono hnextA
    · exact .inl ⟨k, hk2, ek⟩
  have hyg : Hygiene c a a' nt := ⟨room.evC, room.evH, hmem, hsep, hfin⟩
  have hinv' := lockInv_step c hc hns hcw f g a b a' b' e nt nB ch h.inv hA hB hyg
  obtain ⟨hnx, hfr⟩ := remote_frame ahead true (withIds c g) b b' _ _ _ nB hB
  have hknownB : ∀ ph pa id r, b'.table.runAt ph pa id = some r → (c.getPattern ph pa).isSome = true := by
    intro ph pa id r hr
    cases hp : c.getPattern ph pa with
    | some p => rfl
    | none =>
      rw [hfr ph pa id hp] at hr
      have := h.idsB.known ph pa id r hr
      rw [hp] at this; exact this
  have toA : ∀ ph pa id r, b'.table.runAt ph pa id = some r → a'.table.runAt ph pa id = some r := by
    intro ph pa id r hr
    rw [← hinv'.mirror.runs ph pa id (hknownB ph pa id r hr)]; exact hr
  refine ⟨hinv', hnx ▸ hidsA', hnx ▸ ⟨hknownB, ?_, ?_, ?_, ?_⟩⟩
  · exact fun ph pa id r hr => hidsA'.tbl ph pa id r (toA ph pa id r hr)
  · intro id hm
    rw [hinv'.mirror.memC, hinv'.mirror.memH] at hm
    exact hidsA'.mem id hm
  · exact fun ph pa ph' pa' id r r' hr hr' => hidsA'.uniq ph pa ph' pa' id r r' (toA _ _ _ r hr) (toA _ _ _ r' hr')
  · intro ph pa id r hr
    rw [hinv'.mirror.memC, hinv'.mirror.memH]
    exact hidsA'.fresh ph pa id r (toA _ _ _ r hr)

/-- **every split of every stream keeps the two instances identical — identifier hygiene derived.**  As
`split_stream_mirror`, but the only assumptions left are about the environment: the two identifier generators
never repeat and never collide (`Gens`, what C16 proves of the generator in /repo), and the finished-run memory
has room at every step (`Room`, as the property states).  The identifier discipline `IdInv` (only known keys are
stored; every stored or remembered identifier was issued; no identifier under two keys; no stored run remembered
as finished) is an invariant of the lockstep execution, and it yields the hygiene of every notification. -/
theorem split_stream_mirror_ids (c : Cfg ε) (hc : c.caching = true) (hns : NoSing c) (hcw : CfgWF c)
    (fA fB : Nat → String) (G : Gens fA fB) (a b : DState ε) (h : LockR c fA fB a b) : LockInvIds c fA fB a b := by
  induction h with
  | init =>
    have hnone : ∀ ph pa id (r : LRun ε), ({} : DState ε).table.runAt ph pa id = some r → False := by
      intro ph pa id r hr; simp [Table.runAt, Table.runsFrom, lookup] at hr
    have hid : IdInv c (Issued fA fB 0 0) ({} : DState ε) :=
      ⟨fun ph pa id r hr => (hnone ph pa id r hr).elim, fun ph pa id r hr => (hnone ph pa id r hr).elim,
       fun id hm => by simp [inCache] at hm, fun ph pa _ _ id r _ hr _ => (hnone ph pa id r hr).elim,
       fun ph pa id r hr => (hnone ph pa id r hr).elim⟩
    exact ⟨⟨⟨fun _ _ _ _ => rfl, rfl, rfl⟩, wf_empty, wf_empty, fun ph pa id r _ hr => (hnone ph pa id r hr).elim⟩, hid, hid⟩
  | stepA _ hA hB room ih => exact lockInvIds_step c hc hns hcw fA fB G _ _ _ _ _ _ _ _ ih hA hB room
  | stepB _ hB hA room ih => exact (lockInvIds_step c hc hns hcw fB fA G.symm _ _ _ _ _ _ _ _ ih.symm hB hA room).symm

/-! ### any number of instances -/

theorem Mirror.refl (c : Cfg ε) (a : DState ε) : Mirror c a a := ⟨fun _ _ _ _ => rfl, rfl, rfl⟩

theorem Mirror.trans {c : Cfg ε} {a b d : DState ε} (h1 : Mirror c a b) (h2 : Mirror c b d) : Mirror c a d :=
  ⟨fun ph pa id hk => (h2.runs ph pa id hk).trans (h1.runs ph pa id hk), h2.memC.trans h1.memC, h2.memH.trans h1.memH⟩

/-- the identifier generators of `n` instances never repeat and never collide. -/
def GensN {n : Nat} (f : Fin n → Nat → String) : Prop := ∀ i j k l, f i k = f j l → i = j ∧ k = l

/-- `id` has been handed out by some instance. -/
def IssuedN {n : Nat} (f : Fin n → Nat → String) (node : Fin n → DState ε) (id : String) : Prop :=
  ∃ i k, k < (node i).nextId ∧ id = f i k

/-- lockstep execution of `n` instances over any assignment of the stream's events to instances: instance `i`
runs `update()` on the event, every other instance applies the notification before the next input. -/
inductive LockN (c : Cfg ε) {n : Nat} (f : Fin n → Nat → String) : (Fin n → DState ε) → Prop
  | init : LockN c f (fun _ => {})
  | step {node node' : Fin n → DState ε} {i : Fin n} {e : ε} {nt : Notif ε} {ch : Bool} (h : LockN c f node)
      (hA : localStep (withIds c (f i)) (node i) e = some (node' i, nt, ch))
      (hB : ∀ j, j ≠ i → ∃ nB, remoteStep (withIds c (f j)) (node j) nt.completed nt.halted nt.updated = some (node' j, nB))
      (room : Room c (node i) nt) : LockN c f node'

structure LockInvN (c : Cfg ε) {n : Nat} (f : Fin n → Nat → String) (node : Fin n → DState ε) : Prop where
  mirror : ∀ i j, Mirror c (node i) (node j)
  wf : ∀ i, TableWF (node i).table
  live : ∀ i ph pa id r, (c.getPattern ph pa).isSome = true → (node i).table.runAt ph pa id = some r →
    r.run.halted = false
  ids : ∀ i, IdInv c (IssuedN f node) (node i)

/-- **every assignment of every stream to any number of instances keeps all of them identical.**  The
`n`-instance form of `split_stream_mirror_ids`: after every input, all instances hold under every key exactly
the same run (identifier, index, history content) and the same finished-run memories; so any proper subset of
them can be lost at any point and every survivor already holds every partially completed run.  Assumptions:
non-singleton rules with unique names, collision-free identifier generators, room in the finished-run memory. -/
theorem split_stream_mirror_n (c : Cfg ε) (hc : c.caching = true) (hns : NoSing c) (hcw : CfgWF c) {n : Nat}
    (f : Fin n → Nat → String) (G : GensN f) (node : Fin n → DState ε) (h : LockN c f node) : LockInvN c f node := by
  induction h with
  | init =>
    have hnone : ∀ ph pa id (r : LRun ε), ({} : DState ε).table.runAt ph pa id = some r → False := by
      intro ph pa id r hr; simp [Table.runAt, Table.runsFrom, lookup] at hr
    exact ⟨fun _ _ => Mirror.refl c _, fun _ => wf_empty, fun _ ph pa id r _ hr => (hnone ph pa id r hr).elim,
      fun _ => ⟨fun ph pa id r hr => (hnone ph pa id r hr).elim, fun ph pa id r hr => (hnone ph pa id r hr).elim,
        fun id hm => by simp [inCache] at hm, fun ph pa _ _ id r _ hr _ => (hnone ph pa id r hr).elim,
        fun ph pa id r hr => (hnone ph pa id r hr).elim⟩⟩
  | @step node node' i e nt ch _ hA hB room ih =>
    have injI : ∀ k l, f i k = f i l → k = l := fun k l hkl => (G i i k l hkl).2
    have hliveAll : ∀ ph pa id r, (node i).table.runAt ph pa id = some r → r.run.halted = false :=
      fun ph pa id r hr => ih.live i ph pa id r ((ih.ids i).known ph pa id r hr) hr
    have hfr : ∀ k, (node i).nextId ≤ k → ¬ IssuedN f node (f i k) := by
      rintro k hk ⟨i', k', hk', e'⟩
      obtain ⟨e1, e2⟩ := G i i' k k' e'
      subst e1 e2; omega
    obtain ⟨hnextI, hmem, hsep, hfin, hidsI0, _⟩ := local_ids c hc hcw (f i) injI (IssuedN f node) (node i) (node' i) e nt ch
      (ih.wf i) hliveAll (ih.ids i) hfr hA room.evC room.evH
    have hyg : Hygiene c (node i) (node' i) nt := ⟨room.evC, room.evH, hmem, hsep, hfin⟩
    -- each replica against the originator
    have hpair : ∀ j, j ≠ i → LockInv c (node' i) (node' j) ∧ (node' j).nextId = (node j).nextId ∧
        (∀ ph pa id, c.getPattern ph pa = none → (node' j).table.runAt ph pa id = (node j).table.runAt ph pa id) := by
      intro j hj
      obtain ⟨nB, hBj⟩ := hB j hj
      have hl : LockInv c (node i) (node j) := ⟨ih.mirror i j, ih.wf i, ih.wf j, ih.live i⟩
      obtain ⟨hnx, hfr'⟩ := remote_frame ahead true (withIds c (f j)) (node j) (node' j) _ _ _ nB hBj
      exact ⟨lockInv_step c hc hns hcw (f i) (f j) (node i) (node j) (node' i) (node' j) e nt nB ch hl hA hBj hyg, hnx, hfr'⟩
    have hwfI : TableWF (node' i).table :=
      (local_is_join (withIds c (f i)) hc (node i) (node' i) e nt ch (ih.wf i) hA room.evC room.evH).1
    have hliveI : ∀ ph pa id r, (c.getPattern ph pa).isSome = true → (node' i).table.runAt ph pa id = some r →
        r.run.halted = false := fun ph pa id r hk hr =>
      local_live (withIds c (f i)) (node i) (node' i) e nt ch (ih.wf i) hA ph pa id (fun r0 => ih.live i ph pa id r0 hk) r hr
    -- issued identifiers only grow
    have hissMono : ∀ id, (IssuedN f node id ∨ ∃ k, (node i).nextId ≤ k ∧ k < (node' i).nextId ∧ id = f i k) →
        IssuedN f node' id := by
      rintro id (⟨i', k', hk', e'⟩ | ⟨k, _, hk2, ek⟩)
      · refine ⟨i', k', ?_, e'⟩
        by_cases hi' : i' = i
        · subst hi'; omega
        · rw [(hpair i' hi').2.1]; exact hk'
      · exact ⟨i, k, hk2, ek⟩
    have hidsI : IdInv c (IssuedN f node') (node' i) := hidsI0.mono hissMono
    have hmirI : ∀ j, Mirror c (node' i) (node' j) := by
      intro j
      by_cases hj : j = i
      · subst hj; exact Mirror.refl c _
      · exact (hpair j hj).1.mirror
    refine ⟨fun a b => (hmirI a).symm.trans (hmirI b), ?_, ?_, ?_⟩
    · intro j
      by_cases hj : j = i
      · subst hj; exact hwfI
      · exact (hpair j hj).1.wfB
    · intro j
      by_cases hj : j = i
      · subst hj; exact hliveI
      · exact (hpair j hj).1.liveB
    · intro j
      by_cases hj : j = i
      · subst hj; exact hidsI
      · obtain ⟨hinvJ, _, hfrJ⟩ := hpair j hj
        have hknownJ : ∀ ph pa id r, (node' j).table.runAt ph pa id = some r → (c.getPattern ph pa).isSome = true := by
          intro ph pa id r hr
          cases hp : c.getPattern ph pa with
          | some p => rfl
          | none =>
            rw [hfrJ ph pa id hp] at hr
            have := (ih.ids j).known ph pa id r hr
            rw [hp] at this; exact this
        have toI : ∀ ph pa id r, (node' j).table.runAt ph pa id = some r → (node' i).table.runAt ph pa id = some r := by
          intro ph pa id r hr
          rw [← hinvJ.mirror.runs ph pa id (hknownJ ph pa id r hr)]; exact hr
        refine ⟨hknownJ, fun ph pa id r hr => hidsI.tbl ph pa id r (toI ph pa id r hr), ?_,
          fun ph pa ph' pa' id r r' hr hr' => hidsI.uniq ph pa ph' pa' id r r' (toI _ _ _ r hr) (toI _ _ _ r' hr'), ?_⟩
        · intro id hm
          rw [hinvJ.mirror.memC, hinvJ.mirror.memH] at hm
          exact hidsI.mem id hm
        · intro ph pa id r hr
          rw [hinvJ.mirror.memC, hinvJ.mirror.memH]
          exact hidsI.fresh ph pa id r (toI _ _ _ r hr)

/-! ### … and any instances may be lost at any point -/

/-- lockstep execution in which instances may be LOST at any point: a lost instance takes no further part (its
state is frozen and irrelevant); the event goes to a live instance and every other LIVE instance applies the
notification.  `alive` is the current set of live instances. -/
inductive LockC (c : Cfg ε) {n : Nat} (f : Fin n → Nat → String) : (Fin n → DState ε) → (Fin n → Bool) → Prop
  | init : LockC c f (fun _ => {}) (fun _ => true)
  | lose {node : Fin n → DState ε} {alive : Fin n → Bool} (h : LockC c f node alive) (k : Fin n) :
      LockC c f node (fun j => if j = k then false else alive j)
  | step {node node' : Fin n → DState ε} {alive : Fin n → Bool} {i : Fin n} {e : ε} {nt : Notif ε} {ch : Bool}
      (h : LockC c f node alive) (hi : alive i = true)
      (hA : localStep (withIds c (f i)) (node i) e = some (node' i, nt, ch))
      (hB : ∀ j, j ≠ i → alive j = true →
        ∃ nB, remoteStep (withIds c (f j)) (node j) nt.completed nt.halted nt.updated = some (node' j, nB))
      (hD : ∀ j, alive j = false → node' j = node j)
      (room : Room c (node i) nt) : LockC c f node' alive

/-- what `LockC` maintains for the LIVE instances (identifiers issued by lost instances stay issued). -/
structure LockInvC (c : Cfg ε) {n : Nat} (f : Fin n → Nat → String) (node : Fin n → DState ε) (alive : Fin n → Bool) : Prop where
  mirror : ∀ i j, alive i = true → alive j = true → Mirror c (node i) (node j)
  wf : ∀ i, alive i = true → TableWF (node i).table
  live : ∀ i, alive i = true → ∀ ph pa id r, (c.getPattern ph pa).isSome = true → (node i).table.runAt ph pa id = some r →
    r.run.halted = false
  ids : ∀ i, alive i = true → IdInv c (IssuedN f node) (node i)

/-- **failover**: whatever proper or improper subset of the instances is lost, at whatever points of the stream,
the instances still alive hold, after every input, exactly the same runs (identifier, index, history content) and
the same finished-run memories — so the survivors, fed the remainder of the stream, go on exactly like a cluster
that never lost anyone (and, by `single_engine_step`, like ONE engine fed the whole stream). -/
theorem survivors_stay_identical (c : Cfg ε) (hc : c.caching = true) (hns : NoSing c) (hcw : CfgWF c) {n : Nat}
    (f : Fin n → Nat → String) (G : GensN f) (node : Fin n → DState ε) (alive : Fin n → Bool)
    (h : LockC c f node alive) : LockInvC c f node alive := by
  induction h with
  | init =>
    have hnone : ∀ ph pa id (r : LRun ε), ({} : DState ε).table.runAt ph pa id = some r → False := by
      intro ph pa id r hr; simp [Table.runAt, Table.runsFrom, lookup] at hr
    exact ⟨fun _ _ _ _ => Mirror.refl c _, fun _ _ => wf_empty, fun _ _ ph pa id r _ hr => (hnone ph pa id r hr).elim,
      fun _ _ => ⟨fun ph pa id r hr => (hnone ph pa id r hr).elim, fun ph pa id r hr => (hnone ph pa id r hr).elim,
        fun id hm => by simp [inCache] at hm, fun ph pa _ _ id r _ hr _ => (hnone ph pa id r hr).elim,
        fun ph pa id r hr => (hnone ph pa id r hr).elim⟩⟩
  | @lose node alive _ k ih =>
    have sub : ∀ j, (if j = k then false else alive j) = true → alive j = true := by
      intro j hj; by_cases e1 : j = k
      · simp [e1] at hj
      · simpa [e1] using hj
    exact ⟨fun i j hi hj => ih.mirror i j (sub i hi) (sub j hj), fun i hi => ih.wf i (sub i hi),
      fun i hi => ih.live i (sub i hi), fun i hi => ih.ids i (sub i hi)⟩
  | @step node node' alive i e nt ch _ hi hA hB hD room ih =>
    have injI : ∀ k l, f i k = f i l → k = l := fun k l hkl => (G i i k l hkl).2
    have hliveAll : ∀ ph pa id r, (node i).table.runAt ph pa id = some r → r.run.halted = false :=
      fun ph pa id r hr => ih.live i hi ph pa id r ((ih.ids i hi).known ph pa id r hr) hr
    have hfr : ∀ k, (node i).nextId ≤ k → ¬ IssuedN f node (f i k) := by
      rintro k hk ⟨i', k', hk', e'⟩
      obtain ⟨e1, e2⟩ := G i i' k k' e'
      subst e1 e2; omega
    obtain ⟨hnextI, hmem, hsep, hfin, hidsI0, _⟩ := local_ids c hc hcw (f i) injI (IssuedN f node) (node i) (node' i) e nt ch
      (ih.wf i hi) hliveAll (ih.ids i hi) hfr hA room.evC room.evH
    have hyg : Hygiene c (node i) (node' i) nt := ⟨room.evC, room.evH, hmem, hsep, hfin⟩
    have hpair : ∀ j, j ≠ i → alive j = true → LockInv c (node' i) (node' j) ∧ (node' j).nextId = (node j).nextId ∧
        (∀ ph pa id, c.getPattern ph pa = none → (node' j).table.runAt ph pa id = (node j).table.runAt ph pa id) := by
      intro j hj haj
      obtain ⟨nB, hBj⟩ := hB j hj haj
      have hl : LockInv c (node i) (node j) := ⟨ih.mirror i j hi haj, ih.wf i hi, ih.wf j haj, ih.live i hi⟩
      obtain ⟨hnx, hfr'⟩ := remote_frame ahead true (withIds c (f j)) (node j) (node' j) _ _ _ nB hBj
      exact ⟨lockInv_step c hc hns hcw (f i) (f j) (node i) (node j) (node' i) (node' j) e nt nB ch hl hA hBj hyg, hnx, hfr'⟩
    have hwfI : TableWF (node' i).table :=
      (local_is_join (withIds c (f i)) hc (node i) (node' i) e nt ch (ih.wf i hi) hA room.evC room.evH).1
    have hliveI : ∀ ph pa id r, (c.getPattern ph pa).isSome = true → (node' i).table.runAt ph pa id = some r →
        r.run.halted = false := fun ph pa id r hk hr =>
      local_live (withIds c (f i)) (node i) (node' i) e nt ch (ih.wf i hi) hA ph pa id
        (fun r0 => ih.live i hi ph pa id r0 hk) r hr
    have hissMono : ∀ id, (IssuedN f node id ∨ ∃ k, (node i).nextId ≤ k ∧ k < (node' i).nextId ∧ id = f i k) →
        IssuedN f node' id := by
      rintro id (⟨i', k', hk', e'⟩ | ⟨k, _, hk2, ek⟩)
      · refine ⟨i', k', ?_, e'⟩
        by_cases hi' : i' = i
        · subst hi'; omega
        · cases ha : alive i' with
          | true => rw [(hpair i' hi' ha).2.1]; exact hk'
          | false => rw [hD i' ha]; exact hk'
      · exact ⟨i, k, hk2, ek⟩
    have hidsI : IdInv c (IssuedN f node') (node' i) := hidsI0.mono hissMono
    have hmirI : ∀ j, alive j = true → Mirror c (node' i) (node' j) := by
      intro j haj
      by_cases hj : j = i
      · subst hj; exact Mirror.refl c _
      · exact (hpair j hj haj).1.mirror
    refine ⟨fun a b ha hb => (hmirI a ha).symm.trans (hmirI b hb), ?_, ?_, ?_⟩
    · intro j haj
      by_cases hj : j = i
      · subst hj; exact hwfI
      · exact (hpair j hj haj).1.wfB
    · intro j haj
      by_cases hj : j = i
      · subst hj; exact hliveI
      · exact (hpair j hj haj).1.liveB
    · intro j haj
      by_cases hj : j = i
      · subst hj; exact hidsI
      · obtain ⟨hinvJ, _, hfrJ⟩ := hpair j hj haj
        have hknownJ : ∀ ph pa id r, (node' j).table.runAt ph pa id = some r → (c.getPattern ph pa).isSome = true := by
          intro ph pa id r hr
          cases hp : c.getPattern ph pa with
          | some p => rfl
          | none =>
            rw [hfrJ ph pa id hp] at hr
            have := (ih.ids j haj).known ph pa id r hr
            rw [hp] at this; exact this
        have toI : ∀ ph pa id r, (node' j).table.runAt ph pa id = some r → (node' i).table.runAt ph pa id = some r := by
          intro ph pa id r hr
          rw [← hinvJ.mirror.runs ph pa id (hknownJ ph pa id r hr)]; exact hr
        refine ⟨hknownJ, fun ph pa id r hr => hidsI.tbl ph pa id r (toI ph pa id r hr), ?_,
          fun ph pa ph' pa' id r r' hr hr' => hidsI.uniq ph pa ph' pa' id r r' (toI _ _ _ r hr) (toI _ _ _ r' hr'), ?_⟩
        · intro id hm
          rw [hinvJ.mirror.memC, hinvJ.mirror.memH] at hm
          exact hidsI.mem id hm
        · intro ph pa id r hr
          rw [hinvJ.mirror.memC, hinvJ.mirror.memH]
          exact hidsI.fresh ph pa id r (toI _ _ _ r hr)

/-! ### ONE engine fed the whole stream shadows the cluster -/

theorem wf_localStep (c : Cfg ε) (s s' : DState ε) (e : ε) (nt : Notif ε) (ch : Bool) (hwf : TableWF s.table)
    (hstep : localStep c s e = some (s', nt, ch)) : TableWF s'.table := by
  unfold localStep at hstep
  have hwf1 := wf_checkAgainstRuns e s.table hwf
  generalize checkAgainstRuns e s.table = car at hstep hwf1
  obtain ⟨t1, rhc, rhi, rupd⟩ := car
  simp only at hstep hwf1
  cases hp : checkAgainstPatterns c e t1 s.nextId with
  | none => simp [hp] at hstep
  | some acc =>
    simp only [hp, Option.some.injEq, Prod.mk.injEq] at hstep
    obtain ⟨hs', _, _⟩ := hstep
    subst hs'
    rw [maybeCache_table]
    exact (checkAgainstPatterns_rel c e t1 s.nextId acc hp).wf hwf1

/-- the reference: ONE engine that is fed every event of the stream.  Run identifiers are labels, so the
reference draws them from the same source as the instance that is given the event (generator `g`, counter `n`
of that instance). -/
def refStep (c : Cfg ε) (g : Nat → String) (n : Nat) (s : DState ε) (e : ε) : Option (DState ε × Notif ε × Bool) :=
  localStep (withIds c g) { s with nextId := n } e

/-- the cluster (`LockN`) with the reference engine running alongside. -/
inductive LockRef (c : Cfg ε) {n : Nat} (f : Fin n → Nat → String) : (Fin n → DState ε) → DState ε → Prop
  | init : LockRef c f (fun _ => {}) {}
  | step {node node' : Fin n → DState ε} {s s' : DState ε} {i : Fin n} {e : ε} {nt ntS : Notif ε} {ch chS : Bool}
      (h : LockRef c f node s)
      (hA : localStep (withIds c (f i)) (node i) e = some (node' i, nt, ch))
      (hB : ∀ j, j ≠ i → ∃ nB, remoteStep (withIds c (f j)) (node j) nt.completed nt.halted nt.updated = some (node' j, nB))
      (room : Room c (node i) nt)
      (hS : refStep c (f i) (node i).nextId s e = some (s', ntS, chS)) : LockRef c f node' s'

theorem LockRef.cluster {c : Cfg ε} {n : Nat} {f : Fin n → Nat → String} {node : Fin n → DState ε} {s : DState ε}
    (h : LockRef c f node s) : LockN c f node := by
  induction h with
  | init => exact .init
  | step _ hA hB room _ ih => exact .step ih hA hB room

/-- key-wise equality of the tables of two instances of the cluster (all keys, not only known ones). -/
theorem keyEq_of_lockInvN {c : Cfg ε} {n : Nat} {f : Fin n → Nat → String} {node : Fin n → DState ε}
    (h : LockInvN c f node) (i j : Fin n) : KeyEq (node i).table (node j).table := by
  intro ph pa id
  cases hp : c.getPattern ph pa with
  | some p => exact ((h.mirror i j).runs ph pa id (by rw [hp]; rfl)).symm
  | none =>
    have hnone : ∀ k, (node k).table.runAt ph pa id = none := by
      intro k
      cases hr : (node k).table.runAt ph pa id with
      | none => rfl
      | some r => have := (h.ids k).known ph pa id r hr; rw [hp] at this; simp at this
    rw [hnone i, hnone j]

/-- **one step of the cluster against ONE engine**: if every instance's table agrees key by key with the
reference engine's, then whichever instance is given the next event, (1) the reference engine can process it
too, (2) for every run key it announces exactly the completed / halted / updated records the instance
announces — in particular the same complex events, history content included — and (3) afterwards every
instance's table again agrees key by key with the reference's. -/
theorem single_engine_step (c : Cfg ε) (hc : c.caching = true) (hns : NoSing c) (hcw : CfgWF c) {n : Nat}
    (f : Fin n → Nat → String) (G : GensN f) (node node' : Fin n → DState ε) (s : DState ε)
    (hN : LockN c f node) (hsim : ∀ j, KeyEq (node j).table s.table) (hwfS : TableWF s.table)
    (i : Fin n) (e : ε) (nt : Notif ε) (ch : Bool)
    (hA : localStep (withIds c (f i)) (node i) e = some (node' i, nt, ch))
    (hB : ∀ j, j ≠ i → ∃ nB, remoteStep (withIds c (f j)) (node j) nt.completed nt.halted nt.updated = some (node' j, nB))
    (room : Room c (node i) nt) :
    ∃ s' ntS chS, refStep c (f i) (node i).nextId s e = some (s', ntS, chS) ∧
      (∀ ph pa id,
        nt.completed.filter (keyMatch ph pa id) = ntS.completed.filter (keyMatch ph pa id) ∧
        nt.halted.filter (keyMatch ph pa id) = ntS.halted.filter (keyMatch ph pa id) ∧
        nt.updated.filter (keyMatch ph pa id) = ntS.updated.filter (keyMatch ph pa id)) ∧
      (∀ j, KeyEq (node' j).table s'.table) ∧ TableWF s'.table := by
  have hinv := split_stream_mirror_n c hc hns hcw f G node hN
  have hinv' := split_stream_mirror_n c hc hns hcw f G node' (.step hN hA hB room)
  obtain ⟨s', ntS, chS, hS, hk', _, hlists⟩ := local_sim (withIds c (f i)) hns hcw (node i)
    { s with nextId := (node i).nextId } (node' i) e nt ch (hinv.wf i) hwfS (hsim i) rfl hA
  refine ⟨s', ntS, chS, hS, hlists, fun j => (keyEq_of_lockInvN hinv' j i).trans hk', ?_⟩
  exact wf_localStep (withIds c (f i)) { s with nextId := (node i).nextId } s' e ntS chS hwfS hS

/-- **the cluster and ONE engine fed the whole stream agree after every input**: for every reachable state
of the cluster with the reference engine alongside, every instance holds under every key exactly the run the
reference engine holds (identifier, index, history content); by `single_engine_step` the announcements of
every step agree key by key as well, and the reference engine is never stuck. -/
theorem single_engine_shadows (c : Cfg ε) (hc : c.caching = true) (hns : NoSing c) (hcw : CfgWF c) {n : Nat}
    (f : Fin n → Nat → String) (G : GensN f) (node : Fin n → DState ε) (s : DState ε) (h : LockRef c f node s) :
    (∀ j, KeyEq (node j).table s.table) ∧ TableWF s.table := by
  induction h with
  | init => exact ⟨fun _ => KeyEq.refl _, wf_empty⟩
  | @step node node' s s' i e nt ntS ch chS hprev hA hB room hS ih =>
    obtain ⟨s2, ntS2, chS2, hS2, _, hk2, hwf2⟩ := single_engine_step c hc hns hcw f G node node' s hprev.cluster
      ih.1 ih.2 i e nt ch hA hB room
    rw [hS] at hS2
    simp only [Option.some.injEq, Prod.mk.injEq] at hS2
    obtain ⟨e1, _, _⟩ := hS2
    subst e1
    exact ⟨hk2, hwf2⟩

/-! non-vacuity of `replica_mirrors_runs`: a concrete two-pattern configuration and a step that halts one run and starts another -/
section example_
def exBlk (k : Nat) (g : String) : Block Nat :=
  { preds := [fun e _ => some (e == k)], group := g, strict := false, loop := false, negated := false, optional := false }
def exP1 : Pattern Nat :=
  { name := "p1", singleton := false, pre := [], halt := [fun e _ => some (e == 7)], blocks := [exBlk 0 "a", exBlk 1 "b", exBlk 2 "c"] }
def exP2 : Pattern Nat :=
  { name := "p2", singleton := false, pre := [], halt := [], blocks := [exBlk 7 "a", exBlk 8 "b"] }
def exCfg : Cfg Nat :=
  { phenomena := [{ name := "ph", patterns := [exP1, exP2] }], maxCache := 10,
    idOf := fun n => match n with | 0 => "r0" | _ => "r1" }
def exRun : LRun Nat := { run := newRun "x" exP1 "a" 0, pat := exP1 }
def exT : Table Nat := [("ph", [("p1", [exRun])])]
def exS : DState Nat := { table := exT }

theorem exT_add : Table.add ([] : Table Nat) "ph" "p1" exRun = some exT := by rfl
theorem exWF : TableWF exT := wf_add [] exT wf_empty "ph" "p1" exRun rfl exT_add

theorem noSing_of_all {ε} (c : Cfg ε) (h : ∀ P ∈ c.phenomena, ∀ p ∈ P.patterns, p.singleton = false) : NoSing c := by
  intro ph pa p hg
  unfold Cfg.getPattern at hg
  cases hf : c.phenomena.find? (·.name == ph) with
  | none => simp [hf] at hg
  | some P =>
    simp only [hf] at hg
    exact h P (List.mem_of_find?_eq_some hf) p (List.mem_of_find?_eq_some hg)

theorem exNoSing : NoSing exCfg := by
  apply noSing_of_all
  intro P hP p hp
  simp only [exCfg, List.mem_singleton] at hP
  subst hP
  simp only [List.mem_cons, List.not_mem_nil, or_false] at hp
  rcases hp with e | e <;> subst e <;> rfl

theorem exCfgWF : CfgWF exCfg := by
  intro P hP p hp
  simp only [exCfg, List.mem_singleton] at hP
  subst hP
  simp only [List.mem_cons, List.not_mem_nil, or_false] at hp
  rcases hp with e | e <;> subst e <;> rfl

theorem exLive : ∀ ph pa id r, (exCfg.getPattern ph pa).isSome = true → exT.runAt ph pa id = some r → r.run.halted = false := by
  intro ph pa id r _ h
  rw [runAt_add [] exT "ph" "p1" exRun exT_add] at h
  split at h
  · simp only [Option.some.injEq] at h; subst h; rfl
  · simp [Table.runAt, Table.runsFrom, lookup] at h

/-- the hypotheses of `replica_mirrors_runs` are jointly satisfiable on a step that both halts a stored run
and starts a new one: the originator holds run "x" of p1; event 7 halts it (p1's halt condition) and starts
run "r0" of p2; a replica holding the same table reproduces the originator's table exactly. -/
example : ∃ sA' nt ch sB' nB, localStep exCfg exS 7 = some (sA', nt, ch) ∧
    nt.halted.map (·.id) = ["x"] ∧ nt.updated.map (·.id) = ["r0"] ∧
    remoteStep exCfg exS nt.completed nt.halted nt.updated = some (sB', nB) ∧
    ∀ ph pa id, (exCfg.getPattern ph pa).isSome = true → sB'.table.runAt ph pa id = sA'.table.runAt ph pa id := by
  have hsome : (localStep exCfg exS 7).isSome = true := by decide
  obtain ⟨⟨sA', nt, ch⟩, hA⟩ := Option.isSome_iff_exists.mp hsome
  have hcomp : nt.completed = [] := by
    have : ((localStep exCfg exS 7).map (fun r => r.2.1.completed.length)) = some 0 := by decide
    rw [hA] at this; simpa using this
  have hhalt : nt.halted.map (·.id) = ["x"] := by
    have : ((localStep exCfg exS 7).map (fun r => r.2.1.halted.map (·.id))) = some ["x"] := by decide
    rw [hA] at this; simpa using this
  have hupd : nt.updated.map (·.id) = ["r0"] := by
    have : ((localStep exCfg exS 7).map (fun r => r.2.1.updated.map (·.id))) = some ["r0"] := by decide
    rw [hA] at this; simpa using this
  have hfinx : sA'.table.runAt "ph" "p1" "x" = none := by
    have : ((localStep exCfg exS 7).map (fun r => (r.1.table.runAt "ph" "p1" "x").isSome)) = some false := by decide
    rw [hA] at this
    simp only [Option.map_some, Option.some.injEq] at this
    cases hx : sA'.table.runAt "ph" "p1" "x" with
    | none => rfl
    | some v => simp [hx] at this
  have hkeys : nt.halted.map (fun x => (x.phen, x.pat, x.id)) = [("ph", "p1", "x")] := by
    have : ((localStep exCfg exS 7).map (fun r => r.2.1.halted.map (fun x => (x.phen, x.pat, x.id)))) = some [("ph", "p1", "x")] := by decide
    rw [hA] at this; simpa using this
  obtain ⟨sB', nB, hB, _, _, hT⟩ := replica_mirrors_runs exCfg (by decide) exNoSing exCfgWF exS sA' exS 7 nt ch exWF exLive hA
    (by rw [hcomp]; decide) (by have := congrArg List.length hhalt; simp at this; simp [exS, this]; decide)
    (fun x _ => ⟨rfl, rfl⟩)
    (by
      intro u hu f hf
      rw [hcomp, List.nil_append] at hf
      have h1 : u.id ∈ nt.updated.map (·.id) := List.mem_map.mpr ⟨u, hu, rfl⟩
      have h2 : f.id ∈ nt.halted.map (·.id) := List.mem_map.mpr ⟨f, hf, rfl⟩
      rw [hupd] at h1; rw [hhalt] at h2
      simp only [List.mem_singleton] at h1 h2
      rw [h1, h2]; decide)
    (by
      intro x hx
      rw [hcomp, List.nil_append] at hx
      have h2 : (x.phen, x.pat, x.id) ∈ nt.halted.map (fun x => (x.phen, x.pat, x.id)) := List.mem_map.mpr ⟨x, hx, rfl⟩
      rw [hkeys] at h2
      simp only [List.mem_singleton, Prod.mk.injEq] at h2
      obtain ⟨e1, e2, e3⟩ := h2
      rw [e1, e2, e3]; exact hfinx)
    (fun _ _ _ _ => rfl)
  exact ⟨sA', nt, ch, sB', nB, hA, hhalt, hupd, hB, hT⟩
/-! non-vacuity of `split_stream_mirror_ids`: concrete collision-free generators and a reachable non-trivial state -/
def gA (k : Nat) : String := String.ofList (List.replicate k 'a')
def gB (k : Nat) : String := String.ofList ('b' :: List.replicate k 'a')
theorem exGens : Gens gA gB := by
  refine ⟨?_, ?_, ?_⟩
  · intro i j h
    have := congrArg String.toList h
    simp only [gA, String.toList_ofList] at this
    have := congrArg List.length this
    simpa using this
  · intro i j h
    have := congrArg String.toList h
    simp only [gB, String.toList_ofList] at this
    have := congrArg List.length this
    simpa using this
  · intro i j h
    have := congrArg String.toList h
    simp only [gA, gB, String.toList_ofList] at this
    cases i with
    | zero => simp at this
    | succ n => simp [List.replicate_succ] at this

/-- one lockstep step as a function (for the concrete example only). -/
def stepPair {ε} (cA cB : Cfg ε) (a b : DState ε) (e : ε) : Option (DState ε × DState ε × Notif ε × Notif ε × Bool) :=
  match localStep cA a e with
  | none => none
  | some (a', nt, ch) =>
    match remoteStep cB b nt.completed nt.halted nt.updated with
    | none => none
    | some (b', nB) => some (a', b', nt, nB, ch)

theorem stepPair_spec {ε} (cA cB : Cfg ε) (a b a' b' : DState ε) (e : ε) (nt nB : Notif ε) (ch : Bool)
    (h : stepPair cA cB a b e = some (a', b', nt, nB, ch)) :
    localStep cA a e = some (a', nt, ch) ∧ remoteStep cB b nt.completed nt.halted nt.updated = some (b', nB) := by
  unfold stepPair at h
  cases hA : localStep cA a e with
  | none => simp [hA] at h
  | some v =>
    obtain ⟨a1, nt1, ch1⟩ := v
    simp only [hA] at h
    cases hB : remoteStep cB b nt1.completed nt1.halted nt1.updated with
    | none => simp [hB] at h
    | some w =>
      obtain ⟨b1, nB1⟩ := w
      simp only [hB, Option.some.injEq, Prod.mk.injEq] at h
      obtain ⟨e1, e2, e3, e4, e5⟩ := h
      subst e1 e2 e3 e4 e5
      exact ⟨rfl, hB⟩

/-- `LockR` reaches non-trivial states with concrete collision-free generators: after the first instance has
processed event 0 (starting a run of p1 under its first identifier) both instances hold that run, and the
invariant theorem applies. -/
example : ∃ a b, LockR exCfg gA gB a b ∧ (a.table.runAt "ph" "p1" (gA 0)).isSome = true ∧
    (b.table.runAt "ph" "p1" (gA 0)).isSome = true ∧ LockInvIds exCfg gA gB a b := by
  have hsome : (stepPair (withIds exCfg gA) (withIds exCfg gB) {} {} 0).isSome = true := by decide
  obtain ⟨⟨a', b', nt, nB, ch⟩, hp⟩ := Option.isSome_iff_exists.mp hsome
  have hfacts : ((stepPair (withIds exCfg gA) (withIds exCfg gB) {} {} 0).map (fun r =>
      ((r.1.table.runAt "ph" "p1" (gA 0)).isSome, (r.2.1.table.runAt "ph" "p1" (gA 0)).isSome,
        r.2.2.1.completed.length, r.2.2.1.halted.length))) = some (true, true, 0, 0) := by decide
  rw [hp] at hfacts
  simp only [Option.map_some, Option.some.injEq, Prod.mk.injEq] at hfacts
  obtain ⟨f1, f2, f3, f4⟩ := hfacts
  obtain ⟨hA, hB⟩ := stepPair_spec _ _ _ _ _ _ _ _ _ _ hp
  have hl : LockR exCfg gA gB a' b' :=
    LockR.stepA LockR.init hA hB ⟨by rw [f3]; decide, by rw [f4]; decide⟩
  exact ⟨a', b', hl, f1, f2, split_stream_mirror_ids exCfg (by decide) exNoSing exCfgWF gA gB exGens a' b' hl⟩
end example_

end Bobo.Decider

/-! G-tie (C03): the fragments of decider.py regenerated on this run are the ones the model is built from. -/
namespace Bobo.Decider
/-- the forward-only test, the memory filters and the step order of `on_distributed_update` / `update()` as they
stand in the source now (Gen/DeciderFrag.lean) equal the model's. -/
theorem decider_source_fragments_c03 {ε : Type} (rr : Rec ε) (l : Bobo.Run.Run ε) (c : Cfg ε) (hc : c.caching = true)
    (s : DState ε) (comp halt upd : List (Rec ε)) :
    Bobo.Gen.DeciderFrag.ahead rr.idx rr.hist.size l.idx l.hist.size = ahead rr l ∧
    checkAgainstCache c s comp halt upd =
      (comp.filter (fun r => Bobo.Gen.DeciderFrag.keepCompleted (inCache s.cacheC r.id) (inCache s.cacheH r.id)),
       halt.filter (fun r => Bobo.Gen.DeciderFrag.keepHalted (inCache s.cacheC r.id) (inCache s.cacheH r.id)),
       upd.filter (fun r => Bobo.Gen.DeciderFrag.keepUpdated (inCache s.cacheC r.id) (inCache s.cacheH r.id))) ∧
    Bobo.Gen.DeciderFrag.remoteOrder = remoteOrderModel ∧ Bobo.Gen.DeciderFrag.localOrder = localOrderModel ∧
    Bobo.Gen.DeciderFrag.processEventLists = "r_halt_com+p_halt_com,r_halt_incom,r_upd+p_upd" :=
  ⟨gen_ahead_eq rr l, gen_filters_eq c hc s comp halt upd, gen_remoteOrder_eq, gen_localOrder_eq, gen_processEventLists_eq⟩
end Bobo.Decider

/-! ### run identifiers are labels: a single engine that numbers its runs itself (Lemmas/Rename.lean)

`single_engine_step` / `single_engine_shadows` compare the cluster with a reference engine that draws its identifiers
from the source of the instance processing the event.  The theorems below remove that proviso: which identifiers an
engine hands out does not matter — `update()` and `on_distributed_update` commute with every renaming that is injective
on the identifiers involved (`localStep_rename`, `remoteStep_rename`), hence two single engines with different
collision-free generators behave the same up to the renaming that maps the `k`-th identifier of the one to the `k`-th
identifier of the other. -/
namespace Bobo.Decider
open Bobo.Run
section rename
variable {ε : Type}

/-- **the identifiers of a single engine are irrelevant (uniform form)**: for collision-free generators `g`, `h` there
is ONE renaming `ρ` with `ρ (g k) = h k` for all `k`, injective on everything `g` can hand out, such that for every
configuration-independent stream the engine with generator `h` fails iff the engine with generator `g` fails, and
otherwise ends in the renamed state (same counter) having sent the renamed notifications. -/
theorem single_engine_ids_irrelevant_uniform (c : Cfg ε) (g h : Nat → String)
    (hg : ∀ i j, g i = g j → i = j) (hh : ∀ i j, h i = h j → i = j) :
    ∃ ρ : String → String, (∀ k, ρ (g k) = h k) ∧ InjOn ρ (fun x => ∃ k, g k = x) ∧
      ∀ es : List ε, runLocal c h {} es =
        (runLocal c g {} es).map (fun r => (renState ρ r.1, r.2.map (renNotif ρ))) := by
  refine ⟨renOf g h, renOf_gen g h hg, renOf_injOn g h hg hh, fun es => ?_⟩
  have := runLocal_rename c (renOf_injOn g h hg hh) g h (fun k => ⟨k, rfl⟩) (renOf_gen g h hg) es {}
    (stateIn_empty _)
  rw [renState_empty] at this
  exact this

/-- **the identifiers of a single engine are irrelevant**: two single engines with collision-free generators `g`
and `h`, started empty and fed the same stream, either both fail, or end in states `s`, `s'` and send notifications
`nts`, `nts'` that are equal up to a renaming `ρ` with `ρ (g k) = h k` for all `k` (same counter). -/
theorem single_engine_ids_irrelevant (c : Cfg ε) (g h : Nat → String)
    (hg : ∀ i j, g i = g j → i = j) (hh : ∀ i j, h i = h j → i = j) (es : List ε) :
    (runLocal c h {} es = none ↔ runLocal c g {} es = none) ∧
    ∀ s nts s' nts', runLocal c g {} es = some (s, nts) → runLocal c h {} es = some (s', nts') →
      ∃ ρ : String → String, (∀ k, ρ (g k) = h k) ∧ s' = renState ρ s ∧ s'.nextId = s.nextId ∧
        nts' = nts.map (renNotif ρ) := by
  obtain ⟨ρ, h1, _, h3⟩ := single_engine_ids_irrelevant_uniform c g h hg hh
  have h3 := h3 es
  refine ⟨?_, ?_⟩
  · rw [h3]; cases runLocal c g {} es <;> simp
  · intro s nts s' nts' e1 e2
    rw [e1, e2] at h3
    simp only [Option.map_some, Option.some.injEq, Prod.mk.injEq] at h3
    exact ⟨ρ, h1, h3.1, by rw [h3.1]; rfl, h3.2⟩

/-! non-vacuity of `localStep_rename`: a stored run ("x" ↦ "y") that stays, a newly started run ("r0" ↦ "q0"), a
renaming that is not the identity, different generators and different counters -/
section example_rename
def exρ (x : String) : String :=
  if x = "x" then "y" else if x = "r0" then "q0" else if x = "r1" then "q1" else x
def exG2 (n : Nat) : String := if n = 5 then "q0" else "q1"
def exSset (x : String) : Prop := x = "x" ∨ x = "r0" ∨ x = "r1"

theorem exρ_injOn : InjOn exρ exSset := by
  rintro x y (rfl | rfl | rfl) (rfl | rfl | rfl) h <;> first | rfl | exact absurd h (by decide)

theorem exS_in : TableIn exSset exS.table := by
  intro phe hphe pe hpe r hr
  simp only [exS, exT, List.mem_singleton] at hphe
  subst hphe
  simp only [List.mem_singleton] at hpe
  subst hpe
  simp only [List.mem_singleton] at hr
  subst hr
  exact .inl rfl

theorem ex_drawn : ∀ k, exSset (exCfg.idOf (0 + k)) := by
  intro k
  rw [Nat.zero_add]
  cases k with
  | zero => exact .inr (.inl rfl)
  | succ k => exact .inr (.inr rfl)

theorem ex_maps : ∀ k, exρ (exCfg.idOf (0 + k)) = exG2 (5 + k) := by
  intro k
  rw [Nat.zero_add]
  cases k with
  | zero => decide
  | succ k =>
    have h1 : exCfg.idOf (k + 1) = "r1" := rfl
    have h2 : exG2 (5 + (k + 1)) = "q1" := by
      unfold exG2
      rw [if_neg (by omega)]
    rw [h1, h2]; decide

/-- `localStep_rename` instantiated: the engine holding run "x" processes event 0 (which leaves "x" stored and
starts run "r0" of p1); the engine holding the renamed run "y", drawing from another generator at another
counter, does the renamed step — and the step is a real one (`some`), announces the new run, and the old run is
still stored, under the old respectively the new name. -/
example : ∃ s' nt ch,
    localStep (withIds exCfg exCfg.idOf) { exS with nextId := 0 } 0 = some (s', nt, ch) ∧
    localStep (withIds exCfg exG2) { renState exρ exS with nextId := 5 } 0 =
      some ({ renState exρ s' with nextId := 5 + (s'.nextId - 0) }, renNotif exρ nt, ch) ∧
    nt.updated.map (·.id) = ["r0"] ∧ (renNotif exρ nt).updated.map (·.id) = ["q0"] ∧
    (s'.table.runAt "ph" "p1" "x").isSome = true ∧ ((renState exρ s').table.runAt "ph" "p1" "y").isSome = true ∧
    s'.nextId = 1 := by
  have hren := localStep_rename exCfg exρ_injOn exCfg.idOf exG2 0 5 ex_drawn ex_maps exS exS_in 0
  have hsome : (localStep (withIds exCfg exCfg.idOf) { exS with nextId := 0 } 0).isSome = true := by decide
  obtain ⟨⟨s', nt, ch⟩, hA⟩ := Option.isSome_iff_exists.mp hsome
  rw [hA] at hren
  have hfacts : ((localStep (withIds exCfg exCfg.idOf) { exS with nextId := 0 } 0).map (fun r =>
      (r.2.1.updated.map (·.id), (renNotif exρ r.2.1).updated.map (·.id), (r.1.table.runAt "ph" "p1" "x").isSome,
        ((renState exρ r.1).table.runAt "ph" "p1" "y").isSome, r.1.nextId))) = some (["r0"], ["q0"], true, true, 1) := by
    decide
  rw [hA] at hfacts
  simp only [Option.map_some, Option.some.injEq, Prod.mk.injEq] at hfacts
  obtain ⟨f1, f2, f3, f4, f5⟩ := hfacts
  exact ⟨s', nt, ch, hA, hren, f1, f2, f3, f4, f5⟩
end example_rename

/-! ### the reference engine of `LockRef` is, up to a renaming, a plain single engine that numbers its runs itself -/

/-- `LockRef` with the stream fed so far and the reference engine's notifications on record. -/
inductive LockRefT (c : Cfg ε) {n : Nat} (f : Fin n → Nat → String) :
    (Fin n → DState ε) → DState ε → List ε → List (Notif ε) → Prop
  | init : LockRefT c f (fun _ => {}) {} [] []
  | step {node node' : Fin n → DState ε} {s s' : DState ε} {es : List ε} {nts : List (Notif ε)} {i : Fin n} {e : ε}
      {nt ntS : Notif ε} {ch chS : Bool}
      (h : LockRefT c f node s es nts)
      (hA : localStep (withIds c (f i)) (node i) e = some (node' i, nt, ch))
      (hB : ∀ j, j ≠ i → ∃ nB, remoteStep (withIds c (f j)) (node j) nt.completed nt.halted nt.updated = some (node' j, nB))
      (room : Room c (node i) nt)
      (hS : refStep c (f i) (node i).nextId s e = some (s', ntS, chS)) : LockRefT c f node' s' (es ++ [e]) (nts ++ [ntS])

theorem LockRefT.forget {c : Cfg ε} {n : Nat} {f : Fin n → Nat → String} {node : Fin n → DState ε} {s : DState ε}
    {es : List ε} {nts : List (Notif ε)} (h : LockRefT c f node s es nts) : LockRef c f node s := by
  induction h with
  | init => exact .init
  | step _ hA hB room hS ih => exact .step ih hA hB room hS

/-- every reachable state of `LockRef` is reached along some stream. -/
theorem LockRef.trace {c : Cfg ε} {n : Nat} {f : Fin n → Nat → String} {node : Fin n → DState ε} {s : DState ε}
    (h : LockRef c f node s) : ∃ es nts, LockRefT c f node s es nts := by
  induction h with
  | init => exact ⟨[], [], .init⟩
  | step _ hA hB room hS ih =>
    obtain ⟨es, nts, ht⟩ := ih
    exact ⟨_, _, .step ht hA hB room hS⟩

/-- the identifiers issued so far together with everything instance `i` may still hand out. -/
def StepSet {n : Nat} (f : Fin n → Nat → String) (node : Fin n → DState ε) (i : Fin n) (x : String) : Prop :=
  IssuedN f node x ∨ ∃ j, f i ((node i).nextId + j) = x

/-- the reference engine (state `s`, notifications `nts` after stream `es`) against the plain single engine with
generator `h` (state `sh`): `ρ` is injective on the identifiers issued so far, the reference engine holds issued
identifiers only, and the plain engine has reached the `ρ`-renamed state sending the `ρ`-renamed notifications. -/
structure PlainSim (c : Cfg ε) {n : Nat} (f : Fin n → Nat → String) (h : Nat → String) (node : Fin n → DState ε)
    (s : DState ε) (es : List ε) (nts : List (Notif ε)) (ρ : String → String) (sh : DState ε) : Prop where
  inj : InjOn ρ (IssuedN f node)
  sin : StateIn (IssuedN f node) s
  nin : ∀ nt ∈ nts, NotifIn (IssuedN f node) nt
  run : runLocal c h {} es = some (sh, nts.map (renNotif ρ))
  st : sh = { renState ρ s with nextId := sh.nextId }
  img : ∀ x, IssuedN f node x → ∃ k, k < sh.nextId ∧ ρ x = h k

/-- **the reference engine is a plain single engine up to renaming**: along every run of the cluster with the
reference engine alongside (stream `es`), the plain single engine `runLocal c h {} es` — ONE engine that draws its
identifiers `h 0, h 1, …` itself — does not fail, and there is a renaming `ρ`, injective on the identifiers issued
so far, that maps the reference engine's table and memories to the plain engine's and the reference engine's
notifications to the plain engine's. -/
theorem reference_is_plain_engine (c : Cfg ε) (hc : c.caching = true) (hns : NoSing c) (hcw : CfgWF c) {n : Nat}
    (f : Fin n → Nat → String) (G : GensN f) (h : Nat → String) (hh : ∀ i j, h i = h j → i = j)
    (node : Fin n → DState ε) (s : DState ε) (es : List ε) (nts : List (Notif ε)) (H : LockRefT c f node s es nts) :
    ∃ ρ sh, PlainSim c f h node s es nts ρ sh := by
  induction H with
  | init =>
    have hno : ∀ x, ¬ IssuedN f (fun _ : Fin n => ({} : DState ε)) x := by
      rintro x ⟨i, k, hk, _⟩; exact absurd hk (Nat.not_lt_zero _)
    exact ⟨id, {}, fun x y hx => (hno x hx).elim, stateIn_empty _, fun nt hnt => (nomatch hnt), rfl, rfl,
      fun x hx => (hno x hx).elim⟩
  | @step node node' s s' es nts i e nt ntS ch chS hprev hA hB room hS ih =>
    obtain ⟨ρ, sh, I⟩ := ih
    -- facts about the cluster
    have hshadow := single_engine_shadows c hc hns hcw f G node s hprev.forget
    have hinv := split_stream_mirror_n c hc hns hcw f G node hprev.forget.cluster
    have hS' : localStep (withIds c (f i)) { s with nextId := (node i).nextId } e = some (s', ntS, chS) := hS
    -- the reference engine draws exactly as many identifiers as the instance
    have hnx : (node' i).nextId = s'.nextId := by
      obtain ⟨s2, ntS2, chS2, hS2, _, hnx, _⟩ := local_sim (withIds c (f i)) hns hcw (node i)
        { s with nextId := (node i).nextId } (node' i) e nt ch (hinv.wf i) hshadow.2 (hshadow.1 i) rfl hA
      rw [hS'] at hS2
      simp only [Option.some.injEq, Prod.mk.injEq] at hS2
      rw [hS2.1]; exact hnx
    have injI : ∀ k l, f i k = f i l → k = l := fun k l hkl => (G i i k l hkl).2
    have hfresh : ∀ j, ¬ IssuedN f node (f i ((node i).nextId + j)) := by
      rintro j ⟨i', k', hk', e'⟩
      obtain ⟨e1, e2⟩ := G i i' _ _ e'
      subst e1; omega
    -- the extended renaming
    obtain ⟨ρ', hnew, hold⟩ : ∃ ρ' : String → String, (∀ j, ρ' (f i ((node i).nextId + j)) = h (sh.nextId + j)) ∧
        (∀ x, IssuedN f node x → ρ' x = ρ x) :=
      ⟨extRen ρ (f i) (node i).nextId h sh.nextId, extRen_new ρ (f i) injI _ h _,
        fun x hx => extRen_old ρ (f i) _ h _ x (by rintro ⟨j, rfl⟩; exact hfresh j hx)⟩
    have hinjS : InjOn ρ' (StepSet f node i) := by
      rintro x y (hx | ⟨j, rfl⟩) (hy | ⟨j', rfl⟩) hxy
      · rw [hold x hx, hold y hy] at hxy; exact I.inj x y hx hy hxy
      · rw [hold x hx, hnew] at hxy
        obtain ⟨k, hk, ek⟩ := I.img x hx
        rw [ek] at hxy
        have := hh _ _ hxy; omega
      · rw [hold y hy, hnew] at hxy
        obtain ⟨k, hk, ek⟩ := I.img y hy
        rw [ek] at hxy
        have := hh _ _ hxy; omega
      · rw [hnew, hnew] at hxy
        have := hh _ _ hxy
        have : j = j' := by omega
        rw [this]
    -- one step of the plain engine
    have hstep := localStep_rename c hinjS (f i) h (node i).nextId sh.nextId (fun k => .inr ⟨k, rfl⟩) hnew s
      (I.sin.1.mono (fun x hx => .inl hx)) e
    have hsh : ({ renState ρ' s with nextId := sh.nextId } : DState ε) = sh := by
      rw [renState_congr hold s I.sin]
      exact I.st.symm
    rw [hS', hsh] at hstep
    simp only [Option.map_some] at hstep
    -- issued identifiers
    have hmonoI : (node i).nextId ≤ (node' i).nextId :=
      (localStep_in (S := fun _ => True) (withIds c (f i)) (fun _ => trivial) (node i) (node' i) e nt ch
        ⟨fun _ _ _ _ _ _ => trivial, fun _ _ => trivial, fun _ _ => trivial⟩ hA).2.2
    have hother : ∀ j, j ≠ i → (node' j).nextId = (node j).nextId := by
      intro j hj
      obtain ⟨nB, hBj⟩ := hB j hj
      exact (remote_frame ahead true (withIds c (f j)) (node j) (node' j) _ _ _ nB hBj).1
    have hissMono : ∀ x, IssuedN f node x → IssuedN f node' x := by
      rintro x ⟨i', k', hk', e'⟩
      refine ⟨i', k', ?_, e'⟩
      by_cases hi' : i' = i
      · subst hi'; omega
      · rw [hother i' hi']; exact hk'
    have hissSplit : ∀ x, IssuedN f node' x → IssuedN f node x ∨
        ∃ j, (node i).nextId + j < (node' i).nextId ∧ f i ((node i).nextId + j) = x := by
      rintro x ⟨i', k', hk', e'⟩
      by_cases hi' : i' = i
      · subst hi'
        by_cases hk : k' < (node i').nextId
        · exact .inl ⟨i', k', hk, e'⟩
        · refine .inr ⟨k' - (node i').nextId, by omega, ?_⟩
          rw [e']; congr 1; omega
      · rw [hother i' hi'] at hk'; exact .inl ⟨i', k', hk', e'⟩
    have hsub : ∀ x, IssuedN f node' x → StepSet f node i x := by
      intro x hx
      rcases hissSplit x hx with h1 | ⟨j, _, h2⟩
      · exact .inl h1
      · exact .inr ⟨j, h2⟩
    obtain ⟨hsin', hnin', hle'⟩ := localStep_in_drawn (S := IssuedN f node) (withIds c (f i))
      { s with nextId := (node i).nextId } s' e ntS chS ⟨I.sin.1, I.sin.2.1, I.sin.2.2⟩ hS' (IssuedN f node') hissMono
      (fun k _ hk2 => ⟨i, k, by rw [hnx]; exact hk2, rfl⟩)
    refine ⟨ρ', { renState ρ' s' with nextId := sh.nextId + (s'.nextId - (node i).nextId) }, ?_, hsin', ?_, ?_, rfl, ?_⟩
    · exact fun x y hx hy => hinjS x y (hsub x hx) (hsub y hy)
    · intro nt0 hnt0
      rcases List.mem_append.mp hnt0 with h1 | h1
      · exact (I.nin nt0 h1).mono hissMono
      · simp only [List.mem_singleton] at h1; subst h1; exact hnin'
    · rw [runLocal_append, I.run]
      simp only [hstep, List.map_append, List.map_cons, List.map_nil]
      have : nts.map (renNotif ρ) = nts.map (renNotif ρ') := by
        apply List.map_congr_left
        intro nt0 hnt0
        exact (renNotif_congr hold nt0 (I.nin nt0 hnt0)).symm
      rw [this]
    · intro x hx
      simp only
      rcases hissSplit x hx with h1 | ⟨j, hj, rfl⟩
      · obtain ⟨k, hk, ek⟩ := I.img x h1
        exact ⟨k, by omega, by rw [hold x h1]; exact ek⟩
      · exact ⟨sh.nextId + j, by omega, hnew j⟩

theorem runAt_renTable_some (ρ : String → String) {S : String → Prop} (t : Table ε) (ht : TableIn S t)
    (ph pa id' : String) (r : LRun ε) (hr : (renTable ρ t).runAt ph pa id' = some r) : ∃ id, S id ∧ ρ id = id' := by
  unfold Table.runAt at hr
  rw [runsFrom_ren] at hr
  have hm := List.mem_of_find?_eq_some hr
  have hp := List.find?_some hr
  obtain ⟨r0, h0, e0⟩ := List.mem_map.mp hm
  subst e0
  exact ⟨r0.run.id, runsFrom_in ht ph pa r0 h0, by simpa [renRun, renRun0] using hp⟩

/-- **every instance of the cluster agrees key by key, up to a renaming of run identifiers, with a plain single
engine that numbers its runs itself** (`single_engine_shadows` composed with `reference_is_plain_engine`): after any
stream `es` split arbitrarily over the instances, the single engine `runLocal c h {} es` with ITS OWN generator
`h` has not failed, and for a renaming `ρ` injective on the identifiers issued so far, every instance holds under
key (ph, pa, id) exactly the run the single engine holds under (ph, pa, ρ id) (same index, same history), every
identifier the single engine holds is the `ρ`-image of an issued one, and the single engine's notifications are the
`ρ`-renamed notifications of the reference engine (which by `single_engine_step` agree key by key with what the
instances announce). -/
theorem cluster_agrees_with_plain_engine (c : Cfg ε) (hc : c.caching = true) (hns : NoSing c) (hcw : CfgWF c) {n : Nat}
    (f : Fin n → Nat → String) (G : GensN f) (h : Nat → String) (hh : ∀ i j, h i = h j → i = j)
    (node : Fin n → DState ε) (s : DState ε) (es : List ε) (nts : List (Notif ε)) (H : LockRefT c f node s es nts) :
    ∃ ρ sh, InjOn ρ (IssuedN f node) ∧ runLocal c h {} es = some (sh, nts.map (renNotif ρ)) ∧
      (∀ j ph pa id, IssuedN f node id →
        sh.table.runAt ph pa (ρ id) = ((node j).table.runAt ph pa id).map (renRun ρ)) ∧
      (∀ j ph pa id r, (node j).table.runAt ph pa id = some r → IssuedN f node id) ∧
      (∀ ph pa id' r, sh.table.runAt ph pa id' = some r → ∃ id, IssuedN f node id ∧ ρ id = id') := by
  obtain ⟨ρ, sh, I⟩ := reference_is_plain_engine c hc hns hcw f G h hh node s es nts H
  have hshadow := single_engine_shadows c hc hns hcw f G node s H.forget
  have hinv := split_stream_mirror_n c hc hns hcw f G node H.forget.cluster
  have htab : sh.table = renTable ρ s.table := by rw [I.st]; rfl
  refine ⟨ρ, sh, I.inj, I.run, ?_, ?_, ?_⟩
  · intro j ph pa id hid
    rw [htab, runAt_ren I.inj s.table I.sin.1 ph pa id hid, hshadow.1 j ph pa id]
  · intro j ph pa id r hr
    exact (hinv.ids j).tbl ph pa id r hr
  · intro ph pa id' r hr
    rw [htab] at hr
    exact runAt_renTable_some ρ s.table I.sin.1 ph pa id' r hr

/-- the same for `LockRef` (the stream is the one along which the state was reached). -/
theorem cluster_agrees_with_plain_engine' (c : Cfg ε) (hc : c.caching = true) (hns : NoSing c) (hcw : CfgWF c) {n : Nat}
    (f : Fin n → Nat → String) (G : GensN f) (h : Nat → String) (hh : ∀ i j, h i = h j → i = j)
    (node : Fin n → DState ε) (s : DState ε) (H : LockRef c f node s) :
    ∃ es ρ sh ntsh, InjOn ρ (IssuedN f node) ∧ runLocal c h {} es = some (sh, ntsh) ∧
      (∀ j ph pa id, IssuedN f node id →
        sh.table.runAt ph pa (ρ id) = ((node j).table.runAt ph pa id).map (renRun ρ)) ∧
      (∀ j ph pa id r, (node j).table.runAt ph pa id = some r → IssuedN f node id) ∧
      (∀ ph pa id' r, sh.table.runAt ph pa id' = some r → ∃ id, IssuedN f node id ∧ ρ id = id') := by
  obtain ⟨es, nts, HT⟩ := H.trace
  obtain ⟨ρ, sh, h1, h2, h3, h4, h5⟩ := cluster_agrees_with_plain_engine c hc hns hcw f G h hh node s es nts HT
  exact ⟨es, ρ, sh, _, h1, h2, h3, h4, h5⟩

end rename
end Bobo.Decider
