import BoboVerif.Props.C12
import BoboVerif.Lemmas.Remote
import BoboVerif.Lemmas.RunChange
import BoboVerif.Lemmas.LocalStarts
/-!
C03 — Replication is transparent and survivors take over (failover equivalence).

What is proved here (for every pattern, event, record and predicate behaviour)
is the *mirror* property record by record: whatever a local step does to a run
and announces, a replica holding the same run reproduces exactly when it
applies that announcement —

* a local change that leaves the run active produces a record STRICTLY AHEAD of
  the run's previous position (`local_update_is_ahead`), so a replica at the
  previous position applies it and ends with exactly the originator's index and
  history (`replica_applies_update`); this is where finding F1 lived: with the
  pinned comparison (index only) progress inside a looping block is NOT ahead
  (`loop_progress_not_ahead_old`) and the replica kept a stale history;
* a record for a run the replica does not hold creates it at the record's
  position at the end of its bucket (`replica_creates_new`);
* a completed / halted record removes the run (`replica_removes_finished`).

The whole-table statement `SyncBisim` (every live instance's table equals the
single engine's after every input, for every split and crash set) is the
composition of these over the notification lists; it is stated below and its
proof is not complete — the theorems are therefore the `_partial` set.  The
composition is exercised on every run by the correspondence harness (real
clusters against one real engine, all splits and crash points of short
streams).  `FeedbackInert` is an explicit hypothesis of the full statement:
without it the property is false of the code (finding F2, recorded open).
-/
namespace Bobo.Decider
open Bobo.Run Bobo.Lattice
set_option linter.unusedSimpArgs false
variable {ε : Type}

/-- processing a complex or action event changes no run (relaxed, non-negated blocks whose predicates
reject non-simple events, no preconditions): the hypothesis under which C03 can hold at all. -/
def FeedbackInert (c : Cfg ε) (isSimple : ε → Bool) : Prop :=
  ∀ P ∈ c.phenomena, ∀ p ∈ P.patterns, ∀ (r : Run ε) (e : ε), isSimple e = false →
    (process p r e) = (.ok false, r) ∧ ∀ b ∈ p.blocks.head?, startMatch b.preds e = false

/-- the full statement (not yet proved as a whole): after the same input stream, split arbitrarily,
with full delivery between inputs, every replica's buckets equal the single decider's. -/
def SyncBisim (c : Cfg ε) (single : DState ε) (replicas : List (DState ε)) : Prop :=
  ∀ r ∈ replicas, ∀ ph pa, (r.table.runsFrom ph pa).map (fun x => (x.run.id, x.run.idx, x.run.hist.size))
    = (single.table.runsFrom ph pa).map (fun x => (x.run.id, x.run.idx, x.run.hist.size))

/-- a local change that keeps the run active yields a position strictly ahead of the old one. -/
theorem local_update_is_ahead_partial (p : Pattern ε) (r : Run ε) (e : ε)
    (hch : (process p r e).1 = .ok true) (hlive : (process p r e).2.halted = false)
    (ph : String) :
    ahead (LRun.ser ph ({ run := (process p r e).2, pat := p } : LRun ε)) r = true := by
  rw [ahead_iff]
  obtain ⟨⟨g, hg⟩, hidx⟩ := changed_live_records p r e hch hlive
  simp only [LRun.ser]
  have := addEvent_size_ge r.hist g e
  rw [← hg] at this
  omega

/-- finding F1 (pinned tree): a looping block that accepts another event keeps the index, so with the
index-only comparison the originator's record is not ahead and the replica ignores it. -/
theorem loop_progress_not_ahead_old (rr : Rec ε) (l : Run ε) (h : rr.idx = l.idx) : aheadOld rr l = false := by
  simp [aheadOld, h]

/-- a replica holding the run at an earlier position takes exactly the originator's index and history. -/
theorem replica_applies_update_partial (c : Cfg ε) (s : DState ε) (out : List (Rec ε)) (rr : Rec ε)
    (p : Pattern ε) (rl : LRun ε)
    (hp : c.getPattern rr.phen rr.pat = some p) (hs : p.singleton = false)
    (hl : s.table.runAt rr.phen rr.pat rr.id = some rl) (ha : ahead rr rl.run = true) :
    ∃ s' out', updateOne c ahead (s, out) rr = some (s', out') ∧
      (s'.table.runAt rr.phen rr.pat rr.id).map (fun x => (x.run.idx, x.run.hist)) = some (rr.idx, rr.hist) := by
  rw [remote_only_ahead c s out rr p rl hp hs hl]
  refine ⟨_, _, rfl, ?_⟩
  have hid : rl.run.id = rr.id := by
    have := List.find?_some (by rw [runAt_def] at hl; exact hl)
    simpa using this
  simp only [ha, if_true]
  rw [runAt_setBlock, hid]
  simp [hl]

/-- a record for a run the replica does not hold creates it, at the record's position. -/
theorem replica_creates_new_partial (c : Cfg ε) (s : DState ε) (out : List (Rec ε)) (rr : Rec ε)
    (p : Pattern ε) (hp : c.getPattern rr.phen rr.pat = some p) (hs : p.singleton = false)
    (hl : s.table.runAt rr.phen rr.pat rr.id = none) :
    ∃ s' out', updateOne c ahead (s, out) rr = some (s', out') ∧
      (s'.table.runAt rr.phen rr.pat rr.id).map (fun x => (x.run.id, x.run.idx, x.run.hist)) =
        some (rr.id, rr.idx, rr.hist) ∧
      s'.table.runsFrom rr.phen rr.pat = s.table.runsFrom rr.phen rr.pat ++
        [{ run := { id := rr.id, idx := rr.idx, hist := rr.hist, halted := completeAt p.blocks.length rr.idx }, pat := p }] := by
  unfold updateOne
  simp only [hp, hs, Bool.false_eq_true, if_false, hl]
  obtain ⟨t', ht'⟩ := add_isSome_of_runAt_none s.table rr.phen rr.pat
    { run := { id := rr.id, idx := rr.idx, hist := rr.hist, halted := completeAt p.blocks.length rr.idx }, pat := p } hl
  simp only [ht']
  refine ⟨_, _, rfl, ?_, ?_⟩
  · simp only
    rw [runAt_add _ _ _ _ _ ht']
    simp
  · simp only
    unfold Table.add at ht'
    simp only [hl, Option.isSome_none, Bool.false_eq_true, if_false, Option.some.injEq] at ht'
    subst ht'
    rw [runsFrom_modify _ _ _ _ _ true _ (.inl rfl)]
    simp

/-- a completed / halted record removes the run from the replica. -/
theorem replica_removes_finished_partial (c : Cfg ε) (hns : NoSing c) (b : Bool) (s : DState ε) (out : List (Rec ε))
    (rr : Rec ε) (hp : (c.getPattern rr.phen rr.pat).isSome = true) :
    (removeOne c b (s, out) rr).1.table.runAt rr.phen rr.pat rr.id = none := by
  rw [removeOne_nosing c hns]
  cases hg : c.getPattern rr.phen rr.pat with
  | none => simp [hg] at hp
  | some p =>
    simp only
    rw [runAt_remove]
    simp

/-- **replicas mirror the originator, position by position**: if a replica agrees with the originator on the
status of every run key before the originator processes an event (same finished runs, same active runs at the
same index and history size), then after it applies the originator's notification it agrees again — for every
pattern set without singletons, every event, every table; finished-run memory enabled and not evicting.
(Both sides are joins with the SAME notification: `local_is_join` and `remote_is_join`.)  By induction, with
all replication messages delivered between consecutive inputs, every live replica holds at every moment the
same runs at the same positions as the instance that processed the input — so any survivor can take over. -/
theorem replica_mirrors_status (c : Cfg ε) (hc : c.caching = true) (hns : NoSing c)
    (sA sA' sB sB' : DState ε) (e : ε) (nt nB : Notif ε) (ch : Bool)
    (hwf : TableWF sA.table)
    (hA : localStep c sA e = some (sA', nt, ch))
    (hB : remoteStep c sB nt.completed nt.halted nt.updated = some (sB', nB))
    (hAC : sA.cacheC.length + nt.completed.length ≤ c.maxCache) (hAH : sA.cacheH.length + nt.halted.length ≤ c.maxCache)
    (hBC : sB.cacheC.length + nt.completed.length ≤ c.maxCache) (hBH : sB.cacheH.length + nt.halted.length ≤ c.maxCache)
    (ph pa id : String) (hk : (c.getPattern ph pa).isSome = true)
    (hagree : abs sB ph pa id = abs sA ph pa id) :
    abs sB' ph pa id = abs sA' ph pa id := by
  rw [remote_abs_after c hc hns sB sB' nB _ _ _ hBC hBH hB ph pa id hk,
    (local_is_join c hc sA sA' e nt ch hwf hA hAC hAH).2 ph pa id, hagree]

/-- the replica reports exactly the completions the originator reported that it had not already seen. -/
theorem replica_reports_completions (c : Cfg ε) (hc : c.caching = true) (hns : NoSing c)
    (sB sB' : DState ε) (nB : Notif ε) (comp halt upd : List (Rec ε))
    (hBC : sB.cacheC.length + comp.length ≤ c.maxCache) (hBH : sB.cacheH.length + halt.length ≤ c.maxCache)
    (hB : remoteStep c sB comp halt upd = some (sB', nB))
    (ph pa id : String) (hk : (c.getPattern ph pa).isSome = true) (hin : comp.any (·.id == id) = true) :
    abs sB' ph pa id = Bobo.Lattice.completed := by
  rw [remote_abs_after c hc hns sB sB' nB _ _ _ hBC hBH hB ph pa id hk]
  have hv := absMsg_valid comp halt upd ph pa id
  have : absMsg comp halt upd ph pa id = Bobo.Lattice.completed := by
    unfold absMsg
    simp only [hin, if_true]
    refine join_completed_left (join_valid ?_ (joinAll_recSt_valid _))
    split
    · exact halted_valid
    · exact bot_valid
  rw [this]; exact join_completed_right (abs_valid _ _ _ _)

end Bobo.Decider
