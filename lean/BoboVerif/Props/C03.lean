import BoboVerif.Model.Decider
/-! C03 — placeholder header; theorems follow. -/
namespace Bobo.Decider
end Bobo.Decider
