import BoboVerif.Model.Validator
import BoboVerif.Gen.Validator
/-!
C18 — Validators gate the stream consistently.

Property theorems only; the model is Model/Validator.lean.  `Lib` (does
`json.dumps` succeed, the `jsonschema` verdict, `isinstance`, `type ==`), the
identifier / timestamp generators and the value type are parameters: every
theorem holds for all of them.
-/
namespace Bobo.Validator

variable {α τ σ : Type}

/-! ## 1. every validator judges an event by the data it carries -/

theorem verdict_by_data_all (L : Lib α τ σ) (e : Ev α) :
    isValid L (.all : V τ σ) (.event e) = isValid L .all (.bare e.data) := rfl

theorem verdict_by_data_jsonable (L : Lib α τ σ) (e : Ev α) :
    isValid L (.jsonable : V τ σ) (.event e) = isValid L .jsonable (.bare e.data) := rfl

theorem verdict_by_data_type (L : Lib α τ σ) (ts : List τ) (sub : Bool) (e : Ev α) :
    isValid L (.type ts sub : V τ σ) (.event e) = isValid L (.type ts sub) (.bare e.data) := rfl

theorem verdict_by_data_schema (L : Lib α τ σ) (s : σ) (e : Ev α) :
    isValid L (.schema s : V τ σ) (.event e) = isValid L (.schema s) (.bare e.data) := rfl

/-- **C18 (verdict)**: for every validator class and configuration, every library behaviour,
every event kind / id / timestamp: the verdict on an event is the verdict on the data it carries. -/
theorem verdict_by_data (L : Lib α τ σ) (v : V τ σ) (e : Ev α) :
    isValid L v (.event e) = isValid L v (.bare e.data) := by
  cases v <;> rfl

theorem verdict_payload (L : Lib α τ σ) (v : V τ σ) (x : Datum α) :
    isValid L v x = isValid L v (.bare (payload x)) := by
  cases x with
  | bare d => rfl
  | event e => exact verdict_by_data L v e

/-- equivalently: the verdict is a function of the payload alone. -/
theorem verdict_depends_on_payload (L : Lib α τ σ) (v : V τ σ) (x y : Datum α)
    (h : payload x = payload y) : isValid L v x = isValid L v y := by
  rw [verdict_payload L v x, verdict_payload L v y, h]

/-! ## 2. what a JSON validator accepts can be serialised -/

/-- **C18 (JSON)**: whatever `BoboValidatorJSONable` or `BoboValidatorJSONSchema` (any schema, any
`jsonschema` verdict) accepts — bare or wrapped — is a value on which `json.dumps` succeeds. -/
theorem json_validators_serialisable (L : Lib α τ σ) (v : V τ σ) (hv : v.isJson = true)
    (x : Datum α) (h : isValid L v x = true) : L.dumpsOk (.bare (payload x)) = true := by
  rw [verdict_payload] at h
  generalize payload x = d at h
  cases v with
  | all => simp [V.isJson] at hv
  | type ts sub => simp [V.isJson] at hv
  | jsonable => simpa [isValid, isValidS, jsonableValid, shape, unwrapIf, strip] using h
  | schema s =>
    cases hd : L.dumpsOk (.bare d) with
    | true => rfl
    | false => simp [isValid, isValidS, schemaValid, jsonableValid, shape, unwrapIf, strip, hd] at h

/-- the serialisers (`BoboEventSimple.to_json_str`, the tcp outgoing encoder) put the datum inside
an envelope of strings / ints; *assumed law* (checked on the real code by the harness, see
finding F16 for where it fails): the envelope serialises whenever `dumps` of the datum does. -/
def EnvelopeLaw (L : Lib α τ σ) (serialises : Ev α → Bool) : Prop :=
  ∀ e, L.dumpsOk (.bare e.data) = true → serialises e = true

/-! ## 3. the receiver gate -/

section gate
variable (valid : Datum α → Bool) (F : Fresh)

theorem outcomes_length (n : Nat) (xs : List (Datum α)) : (outcomes valid F n xs).length = xs.length := by
  induction xs generalizing n with
  | nil => rfl
  | cons x xs ih => simp [outcomes, ih]

theorem outcomes_getElem? (xs : List (Datum α)) : ∀ (n i : Nat) (x : Datum α), xs[i]? = some x →
    (outcomes valid F n xs)[i]? = some (processData valid F (callsAfter valid F n (xs.take i)) x).1 := by
  induction xs with
  | nil => intro n i x h; simp at h
  | cons y ys ih =>
    intro n i x h
    cases i with
    | zero => simp at h; subst h; simp [outcomes, callsAfter]
    | succ i => simp at h; simpa [outcomes, callsAfter] using ih _ i x h

/-- **C18 (gate, rejected)**: an item the validator rejects produces no event, whatever came before
or comes after it in the stream. -/
theorem rejected_never_event (n : Nat) (xs : List (Datum α)) (i : Nat) (x : Datum α)
    (hx : xs[i]? = some x) (hv : valid x = false) :
    (outcomes valid F n xs)[i]? = some none := by
  rw [outcomes_getElem? valid F xs n i x hx]; simp [processData, hv]

/-- **C18 (gate, events)**: an accepted event is handed on as the same object. -/
theorem events_pass_as_is (n : Nat) (xs : List (Datum α)) (i : Nat) (e : Ev α)
    (hx : xs[i]? = some (.event e)) (hv : valid (.event e) = true) :
    (outcomes valid F n xs)[i]? = some (some e) := by
  rw [outcomes_getElem? valid F xs n i _ hx]; simp [processData, hv]

/-- **C18 (gate, accepted)**: an accepted item produces exactly one event (the outcome at its
position is `some e`, and there is one outcome per item); it carries the item's payload unchanged;
a bare value is wrapped in a *simple* event whose id / timestamp are the next values of the generators. -/
theorem accepted_exactly_one (n : Nat) (xs : List (Datum α)) (i : Nat) (x : Datum α)
    (hx : xs[i]? = some x) (hv : valid x = true) :
    ∃ e, (outcomes valid F n xs)[i]? = some (some e) ∧ e.data = payload x ∧
      (∀ d, x = .bare d →
        e = ⟨.simple, F.idOf (callsAfter valid F n (xs.take i)), F.tsOf (callsAfter valid F n (xs.take i)), d⟩) ∧
      (∀ e', x = .event e' → e = e') := by
  rw [outcomes_getElem? valid F xs n i x hx]
  cases x with
  | bare d =>
    refine ⟨⟨.simple, F.idOf (callsAfter valid F n (xs.take i)), F.tsOf (callsAfter valid F n (xs.take i)), d⟩, ?_, rfl, ?_, ?_⟩
    · simp [processData, hv]
    · intro d' h; cases h; rfl
    · intro e' h; cases h
  | event e =>
    refine ⟨e, ?_, rfl, ?_, ?_⟩
    · simp [processData, hv]
    · intro d h; cases h
    · intro e' h; cases h; rfl

/-- the subscriber sees exactly the accepted items' payloads, unchanged and in order. -/
theorem published_data (n : Nat) (xs : List (Datum α)) :
    (published valid F n xs).map (·.data) = (xs.filter valid).map payload := by
  induction xs generalizing n with
  | nil => rfl
  | cons x xs ih =>
    unfold published at ih ⊢
    cases hv : valid x <;> cases x <;> simp [outcomes, processData, hv, ih, payload]

theorem published_length (n : Nat) (xs : List (Datum α)) :
    (published valid F n xs).length = (xs.filter valid).length := by
  have := congrArg List.length (published_data valid F n xs); simpa using this

theorem outcomes_append (xs ys : List (Datum α)) (n : Nat) :
    outcomes valid F n (xs ++ ys) = outcomes valid F n xs ++ outcomes valid F (callsAfter valid F n xs) ys := by
  induction xs generalizing n with
  | nil => rfl
  | cons x xs ih => simp [outcomes, callsAfter, ih]

theorem callsAfter_append (xs ys : List (Datum α)) (n : Nat) :
    callsAfter valid F n (xs ++ ys) = callsAfter valid F (callsAfter valid F n xs) ys := by
  induction xs generalizing n with
  | nil => rfl
  | cons x xs ih => simp [callsAfter, ih]

/-- what holds of the receiver after any sequence of `add_data` / `update` / `close` calls. -/
structure RInv (s : RSt α) : Prop where
  out_eq   : s.out = published valid F 0 s.processed
  calls_eq : s.calls = callsAfter valid F 0 s.processed
  fifo     : s.processed ++ s.queue = s.added

theorem rstep_inv (maxSize : Nat) (isNone : Datum α → Bool) (s : RSt α) (o : Op α)
    (h : RInv valid F s) : RInv valid F (rstep valid F maxSize isNone s o).1 := by
  obtain ⟨h1, h2, h3⟩ := h
  cases o with
  | add x =>
    simp only [rstep]
    split
    · exact ⟨h1, h2, h3⟩
    · split
      · exact ⟨h1, h2, h3⟩
      · exact ⟨h1, h2, by simp [← h3]⟩
  | close => exact ⟨h1, h2, h3⟩
  | update =>
    simp only [rstep]
    split
    · exact ⟨h1, h2, h3⟩
    · split
      · exact ⟨h1, h2, h3⟩
      · rename_i x q hq
        refine ⟨?_, ?_, ?_⟩
        · simp only [published, outcomes_append, List.filterMap_append, ← h2, outcomes]
          simp only [published] at h1
          rw [← h1]; cases hp : (processData valid F s.calls x).1 <;> simp
        · simp [callsAfter_append, callsAfter, ← h2]
        · simp [← h3, hq]

/-- **C18 (gate, whole receiver)**: after any sequence of calls on a fresh receiver the subscriber
has seen exactly `published` of the items dequeued so far, which are a prefix (FIFO) of the items
enqueued. -/
theorem receiver_publishes_exactly_accepted (maxSize : Nat) (isNone : Datum α → Bool) (ops : List (Op α)) :
    RInv valid F (rrun valid F maxSize isNone {} ops) := by
  have : ∀ (s : RSt α), RInv valid F s → RInv valid F (rrun valid F maxSize isNone s ops) := by
    induction ops with
    | nil => intro s h; exact h
    | cons o os ih => intro s h; exact ih _ (rstep_inv valid F maxSize isNone s o h)
  exact this {} ⟨rfl, rfl, rfl⟩

/-- consequence, in the words of the property: after any calls, the payloads the subscriber saw are
the payloads of the accepted dequeued items, in order; nothing rejected, nothing twice. -/
theorem receiver_out_data (maxSize : Nat) (isNone : Datum α → Bool) (ops : List (Op α)) :
    let s := rrun valid F maxSize isNone {} ops
    s.out.map (·.data) = (s.processed.filter valid).map payload ∧ s.processed ++ s.queue = s.added := by
  have h := receiver_publishes_exactly_accepted valid F maxSize isNone ops
  exact ⟨by rw [h.out_eq, published_data], h.fifo⟩

end gate

/-- **C18 (end to end)**: under a JSON validator every event the receiver publishes carries data on
which `json.dumps` succeeds; with the envelope law, every published event serialises. -/
theorem published_json_serialisable (L : Lib α τ σ) (v : V τ σ) (hv : v.isJson = true) (F : Fresh)
    (n : Nat) (xs : List (Datum α)) (e : Ev α) (he : e ∈ published (isValid L v) F n xs) :
    L.dumpsOk (.bare e.data) = true := by
  have hmem : e.data ∈ (published (isValid L v) F n xs).map (·.data) := List.mem_map_of_mem he
  rw [published_data] at hmem
  obtain ⟨x, hx, hxe⟩ := List.mem_map.mp hmem
  have := json_validators_serialisable L v hv x (List.mem_filter.mp hx).2
  rwa [hxe] at this

theorem published_serialises (L : Lib α τ σ) (ser : Ev α → Bool) (law : EnvelopeLaw L ser)
    (v : V τ σ) (hv : v.isJson = true) (F : Fresh) (n : Nat) (xs : List (Datum α)) (e : Ev α)
    (he : e ∈ published (isValid L v) F n xs) : ser e = true :=
  law e (published_json_serialisable L v hv F n xs e he)

/-! ## 4. non-vacuity, and the pinned tree (finding F13) -/

namespace Demo

/-- a tiny value universe: an integer, a string, a byte string (not JSON). -/
inductive Val where
  | int (n : Int) | str (s : String) | bytes
deriving DecidableEq, Repr

inductive Ty where
  | int | str | bytes | object
deriving DecidableEq, Repr

inductive Schema where
  | any      -- {}
  | integer  -- {"type": "integer"}
deriving DecidableEq, Repr

/-- the library as it behaves on these values: events and bytes do not `dumps`; `jsonschema`
with `{}` accepts every Python object, with `{"type":"integer"}` only an int. -/
def lib : Lib Val Ty Schema where
  dumpsOk
    | .bare (.int _) => true
    | .bare (.str _) => true
    | _ => false
  schemaOk
    | .any, _ => true
    | .integer, .bare (.int _) => true
    | .integer, _ => false
  isInst
    | _, .object => true
    | .bare (.int _), .int => true
    | .bare (.str _), .str => true
    | .bare .bytes, .bytes => true
    | _, _ => false
  typeIs
    | .bare (.int _), .int => true
    | .bare (.str _), .str => true
    | .bare .bytes, .bytes => true
    | _, _ => false

def ev (k : Kind) (d : Val) : Ev Val := ⟨k, "e", 7, d⟩
def fresh : Fresh := ⟨fun n => "id" ++ toString n, fun n => 1000 + n⟩

def vInt : V Ty Schema := .schema .integer
def vAny : V Ty Schema := .schema .any

-- the verdicts are not constant: accepted and rejected inputs exist for every class
example : isValid lib vInt (.bare (.int 5)) = true ∧ isValid lib vInt (.event (ev .complex (.int 5))) = true ∧
    isValid lib vInt (.bare (.str "a")) = false ∧ isValid lib vInt (.event (ev .action (.str "a"))) = false := by decide
example : isValid lib (.jsonable : V Ty Schema) (.bare .bytes) = false ∧
    isValid lib (.jsonable : V Ty Schema) (.event (ev .simple (.str "x"))) = true := by decide
example : isValid lib (.type [.str, .int] false : V Ty Schema) (.event (ev .simple (.int 1))) = true ∧
    isValid lib (.type [.str] true : V Ty Schema) (.bare (.int 1)) = false := by decide
-- the hypothesis of `json_validators_serialisable` is satisfiable, and its conclusion can fail without it
example : isValid lib vAny (.bare (.int 1)) = true ∧ lib.dumpsOk (.bare (payload (.bare (.int 1)))) = true := by decide
example : isValid lib (.all : V Ty Schema) (.bare .bytes) = true ∧ lib.dumpsOk (.bare .bytes) = false := by decide

/-- a stream with a rejected value, an accepted bare value, an accepted event, a rejected event. -/
def stream : List (Datum Val) :=
  [.bare (.str "no"), .bare (.int 5), .event (ev .complex (.int 6)), .event (ev .action .bytes), .bare (.int 8)]

example : outcomes (isValid lib vInt) fresh 0 stream =
    [none, some ⟨.simple, "id0", 1000, .int 5⟩, some (ev .complex (.int 6)), none, some ⟨.simple, "id1", 1001, .int 8⟩] := by
  decide

example : (rrun (isValid lib vInt) fresh 0 (fun _ => false) {}
      ([.add (.bare (.str "no")), .add (.bare (.int 5)), .update, .update, .add (.event (ev .complex (.int 6))), .update, .update])).out
    = [⟨.simple, "id0", 1000, .int 5⟩, ev .complex (.int 6)] := by decide

/-- **F13 (a)**: on the pinned tree the schema validator accepts `5` and rejects every event carrying `5`
— so `verdict_by_data` is false there (fed-back complex events are dropped under a schema validator). -/
theorem schemaOld_judges_the_wrapper :
    isValidOld lib vInt (.bare (.int 5)) = true ∧
    isValidOld lib vInt (.event (ev .simple (.int 5))) = false ∧
    isValidOld lib vInt (.event (ev .complex (.int 5))) = false ∧
    isValidOld lib vInt (.event (ev .action (.int 5))) = false := by decide

theorem verdict_by_data_Old_fails :
    ¬ (∀ (v : V Ty Schema) (e : Ev Val), isValidOld lib v (.event e) = isValidOld lib v (.bare e.data)) := by
  intro h; exact absurd (h vInt (ev .complex (.int 5))) (by decide)

/-- **F13 (b)**: on the pinned tree schema `{}` accepts `bytes`, on which `dumps` fails — so
`json_validators_serialisable` is false there. -/
theorem json_validators_serialisable_Old_fails :
    ¬ (∀ (v : V Ty Schema), v.isJson = true → ∀ x, isValidOld lib v x = true → lib.dumpsOk (.bare (payload x)) = true) := by
  intro h; exact absurd (h vAny rfl (.bare .bytes) (by decide)) (by decide)

/-- and the receiver then publishes an event that cannot be serialised. -/
theorem published_Old_not_serialisable :
    published (isValidOld lib vAny) fresh 0 [.bare .bytes] = [⟨.simple, "id0", 1000, .bytes⟩] := by decide

end Demo

/-! ## 5. tie G -/

/-- the shape of the four `is_valid` bodies as read from /repo equals the model's. -/
theorem gen_shape_eq : Bobo.Gen.Validator.shape = shape := by decide

end Bobo.Validator
