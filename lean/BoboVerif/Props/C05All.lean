import BoboVerif.Lemmas.FreshAll
/-!
C05 (all patterns) — **a finished run stays out of the active set**, singleton patterns included.

`Props/C05.lean` proves "finished stays finished" for configurations without singleton patterns (`NoSing`).
For a SINGLETON pattern `on_distributed_update` behaves differently: a remote completed / halted record removes the
ONE local run of the pattern whatever its identifier, and when the identifiers differ the local run's record
replaces the remote one in the notification and is memorised too; an `updated` record folds onto the one local run,
or creates a run with the REMOTE identifier when there is none.  This file proves the property for EVERY pattern
kind, with NO `NoSing` hypothesis:

1. `remote_fresh_all` — one remote message keeps "no stored run is remembered as finished" (`Fresh`), "an
   identifier is stored under at most one key" (`Uniq`) and "only known keys are stored" (`Known`); eviction allowed.
2. `remote_finished_memorised` — with room in the memories, everything the message names finished is memorised
   afterwards and nothing memorised is forgotten.
3. `remote_finished_not_active` — hence nothing the message names finished is stored afterwards, under ANY key:
   also when the same message names the identifier in `updated` with an older state ("merged backlog"), also when
   the pattern is singleton and the local run had another identifier.
4. `finished_stays_out_all_patterns` — whole executions mixing local events and remote messages.
5. non-vacuity: a concrete singleton configuration (`sg*`), and the defect the second filter repairs.

Hypotheses beyond those listed in the task, and why (details in Lemmas/FreshAll.lean):
* `CfgWF c` — a pattern is found under its own name (static; `local_ids` assumes it too).  Without it a key can hold
  a singleton and a non-singleton pattern of one name; `SingInv` then does not bound the bucket, `removeOne` removes
  the head only and a run with the finished identifier survives.
* `UpdOK upd` — the `updated` list names no identifier under two keys (second half of `KeyOK`, Lemmas/MixedRun.lean).
  Without it one message stores one new identifier under two keys and `Uniq` fails.
  (Counter-run for the non-singleton case: Props/C05.lean, "why `KeyOK` is assumed".)
Both are static — about the configuration resp. the message, not about the state — so there is nothing `localStep` /
`remoteStep` would have to preserve; `cfgWF_needed` below is the concrete counter-run without `CfgWF`.  `TableWF` is
NOT needed for 1–3; (4) carries it along (`wf_remoteStep`, `local_is_join`) because `local_ids_nolive` needs it.
-/
namespace Bobo.Decider
open Bobo.Run
set_option linter.unusedVariables false
variable {ε : Type}

/-- **1. one remote message, every pattern kind.**  Memory on; the receiver's state is fresh (no stored run is
remembered as finished), stores an identifier under one key only, stores known keys only, and keeps every singleton
bucket at ≤ 1 run; the message names each identifier under the key it is (if at all) stored under, and its `updated`
list names no identifier under two keys.  Then the state after `on_distributed_update` is fresh again, still stores
an identifier under one key only, and still stores known keys only.  No `NoSing`; no no-eviction hypothesis (eviction
only shrinks the memories).  (`SingInv c s'.table` is `remoteStep_singleton_inv`.) -/
theorem remote_fresh_all (c : Cfg ε) (hc : c.caching = true) (hcw : CfgWF c)
    (s s' : DState ε) (comp halt upd : List (Rec ε)) (n : Notif ε)
    (hF : Fresh s) (hU : Uniq s) (hK : Known c s) (hS : SingInv c s.table)
    (hkey : KeyOKL s (comp ++ halt ++ upd)) (hupd : UpdOK upd)
    (hs : remoteStep c s comp halt upd = some (s', n)) :
    Fresh s' ∧ Uniq s' ∧ Known c s' := by
  have hI : RInv c (fun _ => True) (comp ++ halt ++ upd) s :=
    ⟨hU, hK, hS, hkey, fun _ _ _ _ _ => trivial, fun _ _ => trivial⟩
  obtain ⟨h1, h2⟩ := remote_all c hc hcw (fun _ => True) ahead s s' comp halt upd n hF hI hupd
    (fun _ _ => trivial) hs
  exact ⟨h1, h2.uniq, h2.known⟩

/-- the four invariants together (with `remoteStep_singleton_inv`): what one remote message preserves. -/
theorem remote_fresh_all_inv (c : Cfg ε) (hc : c.caching = true) (hcw : CfgWF c)
    (s s' : DState ε) (comp halt upd : List (Rec ε)) (n : Notif ε)
    (hF : Fresh s) (hU : Uniq s) (hK : Known c s) (hS : SingInv c s.table)
    (hkey : KeyOKL s (comp ++ halt ++ upd)) (hupd : UpdOK upd)
    (hs : remoteStep c s comp halt upd = some (s', n)) :
    Fresh s' ∧ Uniq s' ∧ Known c s' ∧ SingInv c s'.table := by
  obtain ⟨h1, h2, h3⟩ := remote_fresh_all c hc hcw s s' comp halt upd n hF hU hK hS hkey hupd hs
  exact ⟨h1, h2, h3, remoteStep_singleton_inv c ahead true s s' comp halt upd n hS hs⟩

/-- **2. told finished ⇒ memorised.**  Memory on, with room for TWO records per finished record of the message (a
singleton replacement memorises the replaced local run besides the remote record).  Then every record the message
names completed or halted is memorised afterwards (its identifier is in one of the two memories), and whatever was
memorised before still is.  No hypothesis on the state or on the patterns at all. -/
theorem remote_finished_memorised (c : Cfg ε) (hc : c.caching = true)
    (s s' : DState ε) (comp halt upd : List (Rec ε)) (n : Notif ε)
    (hevC : s.cacheC.length + 2 * comp.length ≤ c.maxCache)
    (hevH : s.cacheH.length + 2 * halt.length ≤ c.maxCache)
    (hs : remoteStep c s comp halt upd = some (s', n)) :
    (∀ rr ∈ comp ++ halt, inCache s'.cacheC rr.id = true ∨ inCache s'.cacheH rr.id = true) ∧
    (∀ id, inCache s.cacheC id = true → inCache s'.cacheC id = true) ∧
    (∀ id, inCache s.cacheH id = true → inCache s'.cacheH id = true) := by
  obtain ⟨gC, gH, h1, h2⟩ := remote_memorised c hc ahead true s s' comp halt upd n hevC hevH hs
  refine ⟨?_, gC, gH⟩
  intro rr hrr
  rcases List.mem_append.mp hrr with h | h
  · exact .inl (h1 rr h)
  · exact h2 rr h

/-- **3. one message: what it names finished is not active afterwards** — under NO key of the table, whatever else
the message says: the same identifier may also be in `upd` with an older state (the "merged backlog" message), and
the pattern may be singleton with a local run of another identifier (that run is removed and memorised as well). -/
theorem remote_finished_not_active (c : Cfg ε) (hc : c.caching = true) (hcw : CfgWF c)
    (s s' : DState ε) (comp halt upd : List (Rec ε)) (n : Notif ε)
    (hF : Fresh s) (hU : Uniq s) (hK : Known c s) (hS : SingInv c s.table)
    (hkey : KeyOKL s (comp ++ halt ++ upd)) (hupd : UpdOK upd)
    (hevC : s.cacheC.length + 2 * comp.length ≤ c.maxCache)
    (hevH : s.cacheH.length + 2 * halt.length ≤ c.maxCache)
    (hs : remoteStep c s comp halt upd = some (s', n)) :
    ∀ rr ∈ comp ++ halt, ∀ ph pa, s'.table.runAt ph pa rr.id = none := by
  obtain ⟨hF', _, _⟩ := remote_fresh_all c hc hcw s s' comp halt upd n hF hU hK hS hkey hupd hs
  obtain ⟨hm, _, _⟩ := remote_finished_memorised c hc s s' comp halt upd n hevC hevH hs
  intro rr hrr ph pa
  cases hr : s'.table.runAt ph pa rr.id with
  | none => rfl
  | some r => exact absurd (hm rr hrr) ((fresh_iff s').mp hF' ph pa rr.id r hr)

/-- the same for identifiers finished EARLIER: what the receiver remembers as finished before the message is not
stored after it (nothing is forgotten when there is room, and the state after is fresh). -/
theorem remote_memorised_not_active (c : Cfg ε) (hc : c.caching = true) (hcw : CfgWF c)
    (s s' : DState ε) (comp halt upd : List (Rec ε)) (n : Notif ε)
    (hF : Fresh s) (hU : Uniq s) (hK : Known c s) (hS : SingInv c s.table)
    (hkey : KeyOKL s (comp ++ halt ++ upd)) (hupd : UpdOK upd)
    (hevC : s.cacheC.length + 2 * comp.length ≤ c.maxCache)
    (hevH : s.cacheH.length + 2 * halt.length ≤ c.maxCache)
    (hs : remoteStep c s comp halt upd = some (s', n)) :
    ∀ id, Mem s id → ∀ ph pa, s'.table.runAt ph pa id = none := by
  obtain ⟨hF', _, _⟩ := remote_fresh_all c hc hcw s s' comp halt upd n hF hU hK hS hkey hupd hs
  obtain ⟨_, gC, gH⟩ := remote_finished_memorised c hc s s' comp halt upd n hevC hevH hs
  intro id hm ph pa
  cases hr : s'.table.runAt ph pa id with
  | none => rfl
  | some r =>
    refine absurd ?_ ((fresh_iff s').mp hF' ph pa id r hr)
    rcases hm with h | h
    · exact .inl (gC id h)
    · exact .inr (gH id h)

/-! ### 4. whole executions -/

/-- executions of one decider from the empty state, mixing its own `update()` steps with arbitrary remote messages
(`AllStep`, Lemmas/FreshAll.lean: room in the memories at each step — two records per finished record of a message;
each message respects the keys of the runs it names w.r.t. the state it meets and names no identifier the local
generator has yet to issue).  `fin` lists the identifiers named finished so far: by a local notification, by a remote
message (`comp ++ halt`), or by a remote notification (the replaced local runs of singleton patterns). -/
def AllRun (c : Cfg ε) (g : Nat → String) : DState ε → List String → Prop := AllFrom c g {}

theorem AllRun.init (c : Cfg ε) (g : Nat → String) : AllRun c g {} [] := .refl

/-- every reachable state is well-formed, fresh (no stored run is remembered as finished), stores an identifier under
one key only, stores known keys only and keeps every singleton bucket at ≤ 1 run — any mix of pattern kinds. -/
theorem all_run_inv (c : Cfg ε) (hc : c.caching = true) (hcw : CfgWF c) (g : Nat → String)
    (inj : ∀ i j, g i = g j → i = j) (s : DState ε) (fin : List String) (h : AllRun c g s fin) :
    TableWF s.table ∧ Fresh s ∧ Uniq s ∧ Known c s ∧ SingInv c s.table := by
  obtain ⟨hi, _, _⟩ := allInv_from c hc hcw g inj {} s fin (allInv_init c g) h
  exact ⟨hi.wf, hi.ids.fresh, hi.ids.uniq, hi.ids.known, hi.sing⟩

/-- **4. a finished run stays out of the active set, for ALL patterns**: once an identifier `x` has been named
finished — reported completed or halted by a local notification, named completed or halted by a remote message, or
reported by a remote notification (the local run of a singleton pattern that a remote record replaced) — then in
EVERY later state of the execution no key of the table holds a run with identifier `x`, and `x` is in the
finished-run memory.  No `NoSing`: singleton and non-singleton patterns alike. -/
theorem finished_stays_out_all_patterns (c : Cfg ε) (hc : c.caching = true) (hcw : CfgWF c)
    (g : Nat → String) (inj : ∀ i j, g i = g j → i = j) (s0 : DState ε) (fin0 : List String)
    (h0 : AllRun c g s0 fin0) (x : String) (hx : x ∈ fin0)
    (s : DState ε) (ext : List String) (hl : AllFrom c g s0 s ext) :
    (∀ ph pa, s.table.runAt ph pa x = none) ∧ (inCache s.cacheC x = true ∨ inCache s.cacheH x = true) := by
  obtain ⟨hi, _, hm⟩ := allInv_from c hc hcw g inj {} s (fin0 ++ ext) (allInv_init c g) (h0.trans hl)
  have hmem : Mem s x := hm x (List.mem_append.mpr (.inl hx))
  refine ⟨?_, hmem⟩
  intro ph pa
  cases hr : s.table.runAt ph pa x with
  | none => rfl
  | some r => exact absurd hmem ((fresh_iff s).mp hi.ids.fresh ph pa x r hr)

/-- spelled out for a remote message: whatever a message names completed or halted — and whatever its notification
reports — is in no key of the table after the message and in every later state. -/
theorem finished_by_message_stays_out (c : Cfg ε) (hc : c.caching = true) (hcw : CfgWF c)
    (g : Nat → String) (inj : ∀ i j, g i = g j → i = j) (s0 s1 : DState ε) (fin0 : List String)
    (h0 : AllRun c g s0 fin0) (comp halt upd : List (Rec ε)) (nt : Notif ε)
    (hstep : remoteStep (withIds c g) s0 comp halt upd = some (s1, nt))
    (hevC : s0.cacheC.length + 2 * comp.length ≤ c.maxCache)
    (hevH : s0.cacheH.length + 2 * halt.length ≤ c.maxCache)
    (hfresh : ∀ k, s0.nextId ≤ k → g k ∉ msgIds comp halt upd)
    (hkey : KeyOK s0 comp halt upd)
    (rr : Rec ε) (hrr : rr ∈ comp ++ halt ++ nt.completed ++ nt.halted)
    (s : DState ε) (ext : List String) (hl : AllFrom c g s1 s ext) :
    ∀ ph pa, s.table.runAt ph pa rr.id = none :=
  (finished_stays_out_all_patterns c hc hcw g inj s1 _ (AllFrom.step h0 (.rem hstep hevC hevH hfresh hkey)) rr.id
    (List.mem_append.mpr (.inr (List.mem_map.mpr ⟨rr, hrr, rfl⟩))) s ext hl).1

/-- spelled out for a local step: whatever `update()` reports completed or halted is in no key of the table
afterwards and in every later state. -/
theorem finished_locally_stays_out (c : Cfg ε) (hc : c.caching = true) (hcw : CfgWF c)
    (g : Nat → String) (inj : ∀ i j, g i = g j → i = j) (s0 s1 : DState ε) (fin0 : List String)
    (h0 : AllRun c g s0 fin0) (e : ε) (nt : Notif ε) (ch : Bool)
    (hstep : localStep (withIds c g) s0 e = some (s1, nt, ch))
    (hevC : s0.cacheC.length + nt.completed.length ≤ c.maxCache)
    (hevH : s0.cacheH.length + nt.halted.length ≤ c.maxCache)
    (rr : Rec ε) (hrr : rr ∈ nt.completed ++ nt.halted)
    (s : DState ε) (ext : List String) (hl : AllFrom c g s1 s ext) :
    ∀ ph pa, s.table.runAt ph pa rr.id = none :=
  (finished_stays_out_all_patterns c hc hcw g inj s1 _ (AllFrom.step h0 (.loc hstep hevC hevH)) rr.id
    (List.mem_append.mpr (.inr (List.mem_map.mpr ⟨rr, hrr, rfl⟩))) s ext hl).1

/-! ### 5. non-vacuity: a singleton configuration -/

section singleton_example
def sgBlk (k : Nat) (grp : String) : Block Nat :=
  { preds := [fun e _ => some (e == k)], group := grp, strict := false, loop := false, negated := false,
    optional := false }
/-- a SINGLETON pattern of two blocks (event 0, then event 1). -/
def sgP : Pattern Nat :=
  { name := "p", singleton := true, pre := [], halt := [], blocks := [sgBlk 0 "a", sgBlk 1 "b"] }
/-- the local generator: "r0", "r00", "r000", … -/
def sgG (k : Nat) : String := String.ofList ('r' :: List.replicate (k + 1) '0')
/-- "`id` is none of `sgG n`, `sgG (n+1)`, …" -/
def sgFr (n : Nat) (id : String) : Bool :=
  !(id.toList.head? == some 'r' && id.toList.tail.all (· == '0') && decide (n + 2 ≤ id.length))
def sgCfg : Cfg Nat :=
  { phenomena := [{ name := "ph", patterns := [sgP] }], maxCache := 10, idOf := sgG }

theorem sgG_inj : ∀ i j, sgG i = sgG j → i = j := by
  intro i j h
  have := congrArg String.toList h
  simp only [sgG, String.toList_ofList] at this
  have := congrArg List.length this
  simpa using this

theorem sgFr_sound : ∀ n id, sgFr n id = true → ∀ k, n ≤ k → sgG k ≠ id := by
  intro n id h k hk e
  subst e
  simp [sgFr, sgG, String.toList_ofList, String.length_ofList] at h
  have h1 : "r".length = 1 := by decide
  omega

theorem sgCfgWF : CfgWF sgCfg := by
  intro P hP p hp
  simp only [sgCfg, List.mem_singleton] at hP
  subst hP
  simp only [List.mem_singleton] at hp
  subst hp
  rfl
/-- a peer's record of ITS run "f0" of the same singleton pattern at block index `idx`. -/
def sgRec (id : String) (idx : Nat) : Rec Nat :=
  { id := id, phen := "ph", pat := "p", idx := idx, hist := if idx ≤ 1 then [("a", [0])] else [("a", [0]), ("b", [1])] }

/-- identifiers stored / memorised completed / memorised halted in a state, and reported (completed, updated). -/
def sgView (r : DState Nat × Notif Nat) : List String × List String × List String × List String × List String :=
  (r.1.table.all.map (·.2.run.id), r.1.cacheC.map (·.id), r.1.cacheH.map (·.id),
   r.2.completed.map (·.id), r.2.updated.map (·.id))

/-- the state after the local event 0: the singleton pattern's one run, with the LOCAL identifier "r0". -/
def sgS0 : Option (DState Nat) := (localStep sgCfg {} 0).map (·.1)

/-- **non-vacuity (the code as it stands)**: the local run of the singleton pattern has identifier "r0".  A peer's
merged message arrives: `comp = [f0 at index 2]`, `upd = [f0 at index 1]` (older).  Afterwards NEITHER "r0" NOR "f0"
is stored — the table is empty — both are memorised as completed, "r0" is what is reported completed, and nothing is
reported updated. -/
example :
    sgS0.map (fun s => s.table.all.map (·.2.run.id)) = some ["r0"] ∧
    (sgS0.bind (fun s => remoteStep sgCfg s [sgRec "f0" 2] [] [sgRec "f0" 1])).map sgView =
      some ([], ["f0", "r0"], [], ["r0"], []) ∧
    (sgS0.bind (fun s => remoteStep sgCfg s [sgRec "f0" 2] [] [sgRec "f0" 1])).map
      (fun r => ((r.1.table.runAt "ph" "p" "r0").isSome, (r.1.table.runAt "ph" "p" "f0").isSome)) =
      some (false, false) := by
  decide

/-- **the defect the second filter repairs**: WITHOUT re-filtering the `updated` list after the completed / halted
lists were applied and memorised (`remoteStepG ahead false`), the same message leaves "f0" STORED again — a run whose
identifier is in the completed memory is active, and it is reported updated. -/
theorem second_filter_needed :
    (sgS0.bind (fun s => remoteStepG ahead false sgCfg s [sgRec "f0" 2] [] [sgRec "f0" 1])).map sgView =
      some (["f0"], ["f0", "r0"], [], ["r0"], ["f0"]) ∧
    (sgS0.bind (fun s => remoteStepG ahead false sgCfg s [sgRec "f0" 2] [] [sgRec "f0" 1])).map
      (fun r => ((r.1.table.runAt "ph" "p" "f0").isSome, inCache r.1.cacheC "f0")) = some (true, true) := by
  decide

/-- in the words of the invariant: without the second filter the state after the message is NOT fresh. -/
theorem second_filter_needed_fresh :
    ¬ ∀ s s' n, sgS0 = some s → remoteStepG ahead false sgCfg s [sgRec "f0" 2] [] [sgRec "f0" 1] = some (s', n) →
      Fresh s' := by
  intro h
  have hsome : (sgS0.bind (fun s => remoteStepG ahead false sgCfg s [sgRec "f0" 2] [] [sgRec "f0" 1])).isSome = true := by
    decide
  obtain ⟨⟨s', n⟩, hex⟩ := Option.isSome_iff_exists.mp hsome
  have h2 := second_filter_needed.2
  rw [hex] at h2
  simp only [Option.map_some, Option.some.injEq, Prod.mk.injEq] at h2
  cases hs0 : sgS0 with
  | none => rw [hs0] at hex; simp at hex
  | some s =>
    rw [hs0] at hex
    simp only [Option.bind_some] at hex
    have hF := h s s' n hs0 hex
    cases hr : s'.table.runAt "ph" "p" "f0" with
    | none => rw [hr] at h2; simp at h2
    | some r =>
      have := (hF "ph" "p" "f0" r hr).1
      rw [h2.2] at this
      exact absurd this (by decide)

/-- local event 0 starts "r0"; the merged message finishes the peer's "f0" (and with it the local "r0"); event 0
starts the singleton pattern again ("r00"); a stale `updated` record for "f0" arrives; a peer's "f1" is named halted
(and takes the local "r00" with it); event 1. -/
def sgSteps : List (MStep Nat) :=
  [.loc 0, .rem [sgRec "f0" 2] [] [sgRec "f0" 1], .loc 0, .rem [] [] [sgRec "f0" 1], .rem [] [sgRec "f1" 1] [], .loc 1]

/-- **non-vacuity of (4)**: the run above is a legitimate `AllRun` of the SINGLETON configuration (every side
condition holds at every step); the identifiers named finished are "f0", "r0" (the replaced local run), "f1", "r00";
at the end nothing is stored and each of them is memorised and in no key of the table. -/
example : ∃ s fin, AllRun sgCfg sgG s fin ∧ fin = ["f0", "r0", "f1", "r00"] ∧
    s.table.all.map (·.2.run.id) = [] ∧ (s.cacheC.map (·.id), s.cacheH.map (·.id)) = (["f0", "r0"], ["f1", "r00"]) ∧
    ∀ x ∈ fin, (∀ ph pa, s.table.runAt ph pa x = none) ∧ (inCache s.cacheC x = true ∨ inCache s.cacheH x = true) := by
  have hsome : (allExec sgCfg sgG sgFr {} [] sgSteps).isSome = true := by decide
  obtain ⟨⟨s, fin⟩, hex⟩ := Option.isSome_iff_exists.mp hsome
  have hview : (allExec sgCfg sgG sgFr {} [] sgSteps).map
      (fun r => (r.2, r.1.table.all.map (·.2.run.id), r.1.cacheC.map (·.id), r.1.cacheH.map (·.id))) =
      some (["f0", "r0", "f1", "r00"], [], ["f0", "r0"], ["f1", "r00"]) := by decide
  rw [hex] at hview
  simp only [Option.map_some, Option.some.injEq, Prod.mk.injEq] at hview
  obtain ⟨ext, e1, hrun⟩ := allExec_sound sgCfg (by decide) sgCfgWF sgG sgG_inj sgFr sgFr_sound sgSteps {} s [] fin
    (allInv_init _ _) hex
  rw [List.nil_append] at e1
  subst e1
  refine ⟨s, fin, hrun, hview.1, hview.2.1, by rw [hview.2.2.1, hview.2.2.2], ?_⟩
  intro x hx
  exact finished_stays_out_all_patterns sgCfg (by decide) sgCfgWF sgG sgG_inj s fin hrun x hx s [] .refl

/-- the intermediate states of that run, by identifier: (stored, memorised completed, memorised halted). -/
example :
    (List.range 7).map (fun k => (allExec sgCfg sgG sgFr {} [] (sgSteps.take k)).map
      (fun r => (r.1.table.all.map (·.2.run.id), r.1.cacheC.map (·.id), r.1.cacheH.map (·.id)))) =
    [some ([], [], []), some (["r0"], [], []), some ([], ["f0", "r0"], []), some (["r00"], ["f0", "r0"], []),
     some (["r00"], ["f0", "r0"], []), some ([], ["f0", "r0"], ["f1", "r00"]),
     some ([], ["f0", "r0"], ["f1", "r00"])] := by
  decide

/-- **the hypotheses of (1)–(3) hold together in the singleton example**: the state after the local event 0 stores
the local run "r0", is fresh, stores an identifier under one key only, stores known keys only and bounds the singleton
bucket; the merged message `comp = [f0 at 2]`, `upd = [f0 at 1]` respects the keys and there is room — so
`remote_finished_not_active` applies, and it says "f0" is under no key afterwards. -/
example : ∃ s s' n, sgS0 = some s ∧ (s.table.runAt "ph" "p" "r0").isSome = true ∧
    Fresh s ∧ Uniq s ∧ Known sgCfg s ∧ SingInv sgCfg s.table ∧
    KeyOKL s ([sgRec "f0" 2] ++ [] ++ [sgRec "f0" 1]) ∧ UpdOK [sgRec "f0" 1] ∧
    s.cacheC.length + 2 * [sgRec "f0" 2].length ≤ sgCfg.maxCache ∧
    s.cacheH.length + 2 * ([] : List (Rec Nat)).length ≤ sgCfg.maxCache ∧
    remoteStep sgCfg s [sgRec "f0" 2] [] [sgRec "f0" 1] = some (s', n) ∧
    ∀ ph pa, s'.table.runAt ph pa "f0" = none := by
  have hsome : (localStep sgCfg {} 0).isSome = true := by decide
  obtain ⟨⟨s, nt, ch⟩, hl⟩ := Option.isSome_iff_exists.mp hsome
  have hv : (localStep sgCfg {} 0).map (fun r => (r.2.1.completed.length, r.2.1.halted.length,
      (r.1.table.runAt "ph" "p" "r0").isSome, keyOKb r.1 [sgRec "f0" 2] [] [sgRec "f0" 1],
      r.1.cacheC.length, r.1.cacheH.length)) = some (0, 0, true, true, 0, 0) := by decide
  have hsome2 : ((localStep sgCfg {} 0).bind
      (fun r => remoteStep sgCfg r.1 [sgRec "f0" 2] [] [sgRec "f0" 1])).isSome = true := by decide
  rw [hl] at hv hsome2
  simp only [Option.map_some, Option.some.injEq, Prod.mk.injEq, Option.bind_some] at hv hsome2
  obtain ⟨v1, v2, v3, v4, v5, v6⟩ := hv
  obtain ⟨⟨s', n⟩, hr⟩ := Option.isSome_iff_exists.mp hsome2
  have hrun : AllRun sgCfg sgG s ([] ++ (nt.completed ++ nt.halted).map (·.id)) :=
    AllFrom.step (AllRun.init sgCfg sgG) (.loc hl (by rw [v1]; decide) (by rw [v2]; decide))
  obtain ⟨hwf, hF, hU, hK, hS⟩ := all_run_inv sgCfg (by decide) sgCfgWF sgG sgG_inj s _ hrun
  have hkey := keyOK_of_keyOKb s hwf _ _ _ v4
  have hevC : s.cacheC.length + 2 * [sgRec "f0" 2].length ≤ sgCfg.maxCache := by rw [v5]; decide
  have hevH : s.cacheH.length + 2 * ([] : List (Rec Nat)).length ≤ sgCfg.maxCache := by rw [v6]; decide
  refine ⟨s, s', n, by simp [sgS0, hl], v3, hF, hU, hK, hS, hkey.1, hkey.2, hevC, hevH, hr, ?_⟩
  exact remote_finished_not_active sgCfg (by decide) sgCfgWF s s' [sgRec "f0" 2] [] [sgRec "f0" 1] n hF hU hK hS
    hkey.1 hkey.2 hevC hevH hr (sgRec "f0" 2) (by simp)

/-! #### why `CfgWF` is assumed -/

/-- a configuration that is NOT `CfgWF`: two patterns named "p" in one phenomenon, the first singleton, the second
not. -/
def sgBad : Cfg Nat :=
  { phenomena := [{ name := "ph", patterns := [sgP, { sgP with singleton := false }] }], maxCache := 10, idOf := sgG }

theorem sgBad_not_cfgWF : ¬ CfgWF sgBad := by
  intro h
  have h1 := h { name := "ph", patterns := [sgP, { sgP with singleton := false }] } (by simp [sgBad])
    { sgP with singleton := false } (by simp)
  have h2 := congrArg (fun o => o.map (·.singleton)) h1
  revert h2
  decide

/-- **without `CfgWF` statement (1) fails**: event 0 starts a run of BOTH patterns named "p" ("r0", "r00") in the one
bucket (`SingInv` says nothing about it: the key is not a singleton key).  A message names "r00" completed: the handler
finds the FIRST pattern "p" — singleton — removes the head of the bucket ("r0", another identifier: memorised and
reported) and leaves "r00" stored although it has just been memorised. -/
theorem cfgWF_needed :
    (localStep sgBad {} 0).map (fun r => r.1.table.all.map (·.2.run.id)) = some ["r0", "r00"] ∧
    ((localStep sgBad {} 0).bind (fun r => remoteStep sgBad r.1 [sgRec "r00" 2] [] [])).map sgView =
      some (["r00"], ["r00", "r0"], [], ["r0"], []) := by
  decide

end singleton_example

end Bobo.Decider
