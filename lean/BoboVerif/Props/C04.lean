import BoboVerif.Lemmas.RemoteJoin
import BoboVerif.Lemmas.Net
import BoboVerif.Lemmas.ClusterRefine
import BoboVerif.Lemmas.GenDecider
/-!
C04 — Replicas converge under every message interleaving.

Stated, as the property is, for non-singleton patterns (`NoSing`) with
finished-run memory enabled (`c.caching`) and large enough (the `NoEviction`
hypotheses on each step).

1. `remote_is_join`: the remote-update handler of the decider model — the
   literal list-processing of `on_distributed_update`, for ARBITRARY messages —
   is the join of the status lattice  unknown < progress(index, history size) <
   halted < completed.  This is the documented conflict table
   (docs/distributed.rst): completion wins over halt, halt over progress,
   progress never moves a run backwards.
2. Network level (Lemmas/Net.lean, per run key): with ghost `own` = everything
   an instance announced from its own processing, the invariant J1–J4 is
   preserved by every step — local announcement, delivery of ANY in-flight
   message with or without removal (reordering, duplication, re-delivery),
   snapshots, resyncs — and at quiescence every instance knows exactly the join
   of everything announced (`net_convergence`).  Only associativity,
   commutativity and idempotence of ⊔ are used: no enumeration of schedules.
-/
namespace Bobo.Decider
open Bobo.Run Bobo.Lattice
variable {ε : Type}

/-- **the remote-update handler is the lattice join.** -/
theorem remote_is_join (c : Cfg ε) (hc : c.caching = true) (hns : NoSing c) (s : DState ε)
    (comp halt upd : List (Rec ε))
    (hevC : s.cacheC.length + comp.length ≤ c.maxCache)
    (hevH : s.cacheH.length + halt.length ≤ c.maxCache) :
    ∃ s' n, remoteStep c s comp halt upd = some (s', n) ∧
      ∀ ph pa id, (c.getPattern ph pa).isSome = true →
        abs s' ph pa id = join (abs s ph pa id) (absMsg comp halt upd ph pa id) := by
  obtain ⟨s', n, h1, _, h3⟩ := remote_is_join_aux c hc hns s comp halt upd hevC hevH
  exact ⟨s', n, h1, h3⟩

/-- the handler never lets an exception escape (non-singleton configuration). -/
theorem remote_total (c : Cfg ε) (hc : c.caching = true) (hns : NoSing c) (s : DState ε)
    (comp halt upd : List (Rec ε))
    (hevC : s.cacheC.length + comp.length ≤ c.maxCache)
    (hevH : s.cacheH.length + halt.length ≤ c.maxCache) :
    (remoteStep c s comp halt upd).isSome = true := by
  obtain ⟨s', n, h1, _⟩ := remote_is_join c hc hns s comp halt upd hevC hevH
  simp [h1]

section conflict_table
variable (c : Cfg ε) (hc : c.caching = true) (hns : NoSing c) (s s' : DState ε) (n : Notif ε)
  (comp halt upd : List (Rec ε))
  (hevC : s.cacheC.length + comp.length ≤ c.maxCache)
  (hevH : s.cacheH.length + halt.length ≤ c.maxCache)
  (hstep : remoteStep c s comp halt upd = some (s', n))
  (ph pa id : String) (hk : (c.getPattern ph pa).isSome = true)
include hc hns hevC hevH hstep hk

theorem abs_after : abs s' ph pa id = join (abs s ph pa id) (absMsg comp halt upd ph pa id) := by
  obtain ⟨s2, n2, h1, h2⟩ := remote_is_join c hc hns s comp halt upd hevC hevH
  rw [hstep] at h1
  simp only [Option.some.injEq, Prod.mk.injEq] at h1
  rw [h1.1]; exact h2 ph pa id hk

/-- progress never moves a run backwards; no status is ever lost. -/
theorem progress_never_backwards : abs s ph pa id ≤ abs s' ph pa id := by
  rw [abs_after c hc hns s s' n comp halt upd hevC hevH hstep ph pa id hk]; exact le_join_left _ _

/-- a completion named by the message wins over everything. -/
theorem completion_wins (h : comp.any (·.id == id) = true) : abs s' ph pa id = completed := by
  rw [abs_after c hc hns s s' n comp halt upd hevC hevH hstep ph pa id hk]
  have : absMsg comp halt upd ph pa id = completed := by
    unfold absMsg
    simp only [h, if_true]
    refine join_completed_left (join_valid ?_ (joinAll_recSt_valid _))
    split
    · exact halted_valid
    · exact bot_valid
  rw [this]; exact join_completed_right (abs_valid _ _ _ _)

/-- a halt named by the message wins over progress (and loses against a completion). -/
theorem halt_beats_progress (h : halt.any (·.id == id) = true) : halted ≤ abs s' ph pa id := by
  rw [abs_after c hc hns s s' n comp halt upd hevC hevH hstep ph pa id hk]
  refine le_trans ?_ (le_join_right _ _)
  unfold absMsg
  simp only [h, if_true]
  exact le_trans (le_join_left _ _) (le_join_right _ _)

/-- a message that says nothing new about a key leaves it as it was (stale, repeated, behind). -/
theorem stale_message_ignored (h : absMsg comp halt upd ph pa id ≤ abs s ph pa id) :
    abs s' ph pa id = abs s ph pa id := by
  rw [abs_after c hc hns s s' n comp halt upd hevC hevH hstep ph pa id hk]; exact join_eq_left h

end conflict_table

/-- the order in which two messages are applied does not matter (commutativity), … -/
theorem remote_order_irrelevant (m₁ m₂ x : Status) :
    join (join x m₁) m₂ = join (join x m₂) m₁ := by
  rw [join_assoc, join_assoc, join_comm m₁ m₂]

/-- … and a message applied twice has the effect of once (idempotence: re-delivery is harmless). -/
theorem remote_redelivery_harmless (x m : Status) : join (join x m) m = join x m := by
  rw [join_assoc, join_idem]

/-- **any number of messages in any order**: two deliveries of the same messages that are permutations of one another
leave the same status (the two-message law lifted to lists of any length). -/
theorem remote_any_order (x : Status) {ms₁ ms₂ : List Status} (h : ms₁.Perm ms₂) :
    ms₁.foldl join x = ms₂.foldl join x := by
  induction h generalizing x with
  | nil => rfl
  | cons m _ ih => simp only [List.foldl_cons]; exact ih _
  | swap m₁ m₂ l => simp only [List.foldl_cons]; rw [remote_order_irrelevant]
  | trans _ _ ih₁ ih₂ => exact (ih₁ x).trans (ih₂ x)

/-- a message already among those applied changes nothing when it arrives again, however many others came in between. -/
theorem remote_absorbs_known (ms : List Status) : ∀ (x m : Status), m ∈ ms → join (ms.foldl join x) m = ms.foldl join x := by
  induction ms with
  | nil => intro x m h; simp at h
  | cons a ms ih =>
    intro x m h
    simp only [List.foldl_cons]
    rcases List.mem_cons.mp h with rfl | h
    · have hperm : (m :: ms).Perm (ms ++ [m]) := (List.perm_append_singleton m ms).symm
      have e := remote_any_order x hperm
      simp only [List.foldl_cons, List.foldl_append, List.foldl_nil] at e
      rw [e]; exact remote_redelivery_harmless _ _
    · exact ih _ m h

/-- **duplicates and order together**: delivering a batch, then any re-delivery of messages of that batch (any subset,
any order, any multiplicity), is the same as delivering the batch once. -/
theorem remote_redelivery_of_batch (x : Status) (ms : List Status) : ∀ (dup : List Status), (∀ m ∈ dup, m ∈ ms) →
    (ms ++ dup).foldl join x = ms.foldl join x := by
  intro dup h
  rw [List.foldl_append]
  generalize hy : ms.foldl join x = y
  have habs : ∀ m ∈ dup, join y m = y := fun m hm => hy ▸ remote_absorbs_known ms x m (h m hm)
  clear h hy
  induction dup with
  | nil => rfl
  | cons d dup ih =>
    simp only [List.foldl_cons]
    rw [habs d (by simp)]
    exact ih (fun m hm => habs m (List.mem_cons_of_mem _ hm))

end Bobo.Decider

namespace Bobo.Net
open Bobo.Lattice

/-- the network invariant holds after every prefix of every schedule. -/
theorem net_inv_every_step {n : Nat} (steps : List (Step n)) : Inv (run (init n) steps) :=
  inv_run _ inv_init steps

/-- **convergence**: in every reachable state with nothing in flight, queued or stashed and no
resync pending, all instances hold the same status for the run — for every interleaving, delay,
re-ordering and re-delivery. -/
theorem net_convergence {n : Nat} (steps : List (Step n)) (i j : Fin n)
    (hq : Quiescent (run (init n) steps)) :
    (run (init n) steps).know i = (run (init n) steps).know j := convergence steps i j hq

/-- a status known anywhere at quiescence is known everywhere (a run completed anywhere is completed everywhere). -/
theorem known_anywhere_known_everywhere {n : Nat} (steps : List (Step n)) (i j : Fin n) (x : Status)
    (hq : Quiescent (run (init n) steps)) (h : x ≤ (run (init n) steps).know i) :
    x ≤ (run (init n) steps).know j := by
  rw [← net_convergence steps i j hq]; exact h

/-! non-vacuity: two instances, a racing update and completion, a duplicate delivery -/
example : (run (init 2) [.say 0 (active 1 1), .say 1 completed, .deliver 0 1 0 false, .deliver 0 1 0 true,
    .deliver 1 0 0 true]).know 0 = completed := by decide
example : Quiescent (run (init 2) [.say 0 (active 1 1), .say 1 completed, .deliver 0 1 0 false, .deliver 0 1 0 true,
    .deliver 1 0 0 true]) := by
  intro i j _
  match i, j with
  | 0, 0 => decide
  | 0, 1 => decide
  | 1, 0 => decide
  | 1, 1 => decide

end Bobo.Net

namespace Bobo.ClusterD
open Bobo.Run Bobo.Decider Bobo.Lattice
variable {ε : Type}

/-- **C04 on clusters of decider states** (`Model/ClusterD.lean`): for every schedule of inputs at any
instances and deliveries of any pending message in any order, with or without removal (delays,
re-ordering across and within links, duplication, re-delivery), once nothing is pending all instances
hold the same status — same active runs at the same positions, same finished runs — for every run key
of a known pattern.  Local steps are joins with their own notification (`local_is_join`, proved on the
literal `localStep` under the table well-formedness invariant that every step preserves), remote steps are
joins with the message (`remote_is_join`); the rest is the network invariant. -/
theorem cluster_convergence {n : Nat} (c : Cfg ε) (hc : c.caching = true) (hns : NoSing c)
    (steps : List (CStep n ε)) (cs : CState n ε)
    (hrun : crun c (cinit n ε) steps = some cs)
    (hquiet : ∀ i j, i ≠ j → cs.flight i j = [])
    (ph pa id : String) (hk : (c.getPattern ph pa).isSome = true) (i j : Fin n) :
    abs (cs.node i) ph pa id = abs (cs.node j) ph pa id := by
  obtain ⟨ns, hR, hI⟩ := sim_run c hc hns ph pa id hk steps (cinit n ε) cs (Bobo.Net.init n)
    (sim_init ph pa id) Bobo.Net.inv_init hrun
  have hq : Bobo.Net.Quiescent ns := by
    intro a b hab
    refine ⟨?_, hR.pending a b⟩
    rw [hR.flight a b, hquiet a b hab]; rfl
  rw [← hR.know i, ← hR.know j, Bobo.Net.quiescent_know_eq ns hI hq i, Bobo.Net.quiescent_know_eq ns hI hq j]

/-- a run completed anywhere is completed everywhere at quiescence (each instance reported it: C05). -/
theorem completed_everywhere {n : Nat} (c : Cfg ε) (hc : c.caching = true) (hns : NoSing c)
    (steps : List (CStep n ε)) (cs : CState n ε)
    (hrun : crun c (cinit n ε) steps = some cs)
    (hquiet : ∀ i j, i ≠ j → cs.flight i j = [])
    (ph pa id : String) (hk : (c.getPattern ph pa).isSome = true) (i j : Fin n)
    (hdone : abs (cs.node i) ph pa id = completed) : abs (cs.node j) ph pa id = completed := by
  rw [← cluster_convergence c hc hns steps cs hrun hquiet ph pa id hk i j]; exact hdone

/-- local processing announces exactly what it changes (re-export of the lemma the cluster theorem rests on). -/
theorem local_step_is_join (c : Cfg ε) (hc : c.caching = true) (s s' : DState ε) (e : ε) (nt : Notif ε) (ch : Bool)
    (hwf : TableWF s.table) (hstep : localStep c s e = some (s', nt, ch))
    (hevC : s.cacheC.length + nt.completed.length ≤ c.maxCache)
    (hevH : s.cacheH.length + nt.halted.length ≤ c.maxCache) (ph pa id : String) :
    abs s' ph pa id = join (abs s ph pa id) (absMsg nt.completed nt.halted nt.updated ph pa id) :=
  (local_is_join c hc s s' e nt ch hwf hstep hevC hevH).2 ph pa id

end Bobo.ClusterD

/-! G-tie (C04): the fragments of decider.py regenerated on this run are the ones the model is built from. -/
namespace Bobo.Decider
/-- the forward-only test, the memory filters and the step order of `on_distributed_update` / `update()` as they
stand in the source now (Gen/DeciderFrag.lean) equal the model's. -/
theorem decider_source_fragments_c04 {ε : Type} (rr : Rec ε) (l : Bobo.Run.Run ε) (c : Cfg ε) (hc : c.caching = true)
    (s : DState ε) (comp halt upd : List (Rec ε)) :
    Bobo.Gen.DeciderFrag.ahead rr.idx rr.hist.size l.idx l.hist.size = ahead rr l ∧
    checkAgainstCache c s comp halt upd =
      (comp.filter (fun r => Bobo.Gen.DeciderFrag.keepCompleted (inCache s.cacheC r.id) (inCache s.cacheH r.id)),
       halt.filter (fun r => Bobo.Gen.DeciderFrag.keepHalted (inCache s.cacheC r.id) (inCache s.cacheH r.id)),
       upd.filter (fun r => Bobo.Gen.DeciderFrag.keepUpdated (inCache s.cacheC r.id) (inCache s.cacheH r.id))) ∧
    Bobo.Gen.DeciderFrag.remoteOrder = remoteOrderModel ∧ Bobo.Gen.DeciderFrag.localOrder = localOrderModel ∧
    Bobo.Gen.DeciderFrag.processEventLists = "r_halt_com+p_halt_com,r_halt_incom,r_upd+p_upd" :=
  ⟨gen_ahead_eq rr l, gen_filters_eq c hc s comp halt upd, gen_remoteOrder_eq, gen_localOrder_eq, gen_processEventLists_eq⟩
end Bobo.Decider
