import BoboVerif.Model.Decider
/-! C04 — placeholder header; theorems are added in Lemmas/Lattice.lean + below. -/
namespace Bobo.Decider
end Bobo.Decider
