import BoboVerif.Model.Decider
/-! C07 — placeholder header; theorems follow. -/
namespace Bobo.Decider
end Bobo.Decider
