import BoboVerif.Model.Tcp
import BoboVerif.Lemmas.Tcp
import BoboVerif.Props.C15
import BoboVerif.Props.C06
import BoboVerif.Lemmas.TcpRestart
import BoboVerif.Lemmas.TcpClusterRestart
/-!
C07 (transport side) — the restart announcement survives every interleaving of the survivor's two threads.

The survivor's outgoing pass is `passSmall` (Model/Tcp.lean): the pass split into the steps that the
device-manager lock makes atomic (R(i) read `resets`; C(i) read `last_comms`; X(i) read the rest and
decide — for every device; then per `outlist` entry P(i) flags / pre-send / payload; the send; K(i)
bookkeeping up to `contacted`; T(i) `last_attempt = now`), with the listener thread's steps
(`incomingPeers`: a RESET-flagged message ⇒ `clear_last`) scheduled by `sched` at ANY boundary between
them, any number of them, from any device.  Everything below is for every schedule, every outcome
vector, all clocks, all periods, any number of devices, any queue-empty readings.

"A RESET from device `j` was handled during the pass" is expressed by the device's reset counter:
it is incremented by `clear_last` and by nothing else.
-/
namespace Bobo.Tcp
variable {Rec : Type}

/-! The helper lemmas (`lcOf`, `rsOf`, `Stable`, `applyInc_stable`, `sendSmall_pres`, `decideSmall_pres`,
`passSmall_pres`: a property of device `j`'s (last_comms, resets) that a handled RESET cannot falsify
survives every step of the pass; every `outlist` entry for `j` was chosen by the tree from a
`last_comms` reading related to the counter it carries) are in Lemmas/Tcp.lean. -/

/-- the small-step model is anchored to the sequential model of C15 (whose decision tree, bookkeeping and
device-manager methods are generated from the source and which is compared with the real loop):
with no listener step inside it, the pass in small steps *is* `outIter`, and its `outlist` is `decidePhase`. -/
theorem passSmall_nil (s : TState Rec) (now : Int) (snap : Msg Rec) (outcome : Nat → Nat × Int) :
    let r := passSmall s now (fun _ => s.queue.isEmpty) snap outcome (fun _ => [])
    (r.1, r.2.1) = outIter s now snap outcome ∧ r.2.2 = decidePhase s.cfg s.self now s.queue.isEmpty s.peers := by
  have hd := decideFold_nil s.cfg s.self now s.queue.isEmpty s.peers [] []
  have hid : (decidePhase s.cfg s.self now s.queue.isEmpty s.peers).map (fun it => (it.1 + 0, it.2))
      = decidePhase s.cfg s.self now s.queue.isEmpty s.peers := by
    simp
  simp only [List.length_nil, List.nil_append] at hd
  rw [hid] at hd
  simp only [passSmall, passSmallG, List.range_eq_range', hd, sendSmall_nil, applyInc, List.foldl_nil, outIter, sendPhase]
  exact ⟨trivial, trivial⟩


/-- **`reset_survives_pass`**: for every interleaving — if a RESET from device `j` was handled at any
point of the pass (its reset counter moved), then at the end of the pass either `last_comms j = 0`
(so the following passes can only choose RESYNC, see `reset_forces_resync`), or a message to `j` was
*delivered* in this very pass that had been decided after the last RESET: chosen by the tree from
`last_comms = 0` (hence a RESYNC when the clock is late, `decided_after_reset_is_resync`). -/
theorem reset_survives_pass (s : TState Rec) (now : Int) (qE : Nat → Bool) (snap : Msg Rec)
    (outcome : Nat → Nat × Int) (sched : Point → List (Nat × Nat)) (j : Nat) :
    let r := passSmall s now qE snap outcome sched
    rsOf r.1.peers j ≠ rsOf s.peers j →
      lcOf r.1.peers j = 0 ∨
      (∃ t a q st, (j, t, rsOf r.1.peers j) ∈ r.2.2 ∧ (outcome j).1 = 0 ∧
        selectMode s.cfg (now - 0) a q st = some t) := by
  intro r hne
  have := passSmall_pres
    (fun lc rs => rs ≥ rsOf s.peers j ∧ (rs ≠ rsOf s.peers j → lc = 0))
    (by intro lc rs h; exact ⟨by omega, fun _ => rfl⟩)
    (fun lc seen => seen ≠ rsOf s.peers j → lc = 0) j
    (by intro lc1 seen lc rs h1 h2 hge hs; exact h2.2 (by omega))
    (fun ol lc rs => rs ≥ rsOf s.peers j ∧
      (rs ≠ rsOf s.peers j → lc = 0 ∨ (∃ t, (j, t, rs) ∈ ol ∧ (outcome j).1 = 0)))
    (by intro ol lc rs h; exact ⟨by omega, fun _ => Or.inl rfl⟩)
    s now qE snap outcome sched
    (by intro ol lc rs h; exact ⟨h.1, fun hn => Or.inl (h.2 hn)⟩)
    (by intro ol _ t seen hmem herr lc h; exact ⟨h.1, fun _ => Or.inr ⟨t, hmem, herr⟩⟩)
    ⟨Nat.le_refl _, fun h => absurd rfl h⟩
  obtain ⟨hall, -, hq⟩ := this
  rcases hq hne with h0 | ⟨t, hmem, herr⟩
  · exact Or.inl h0
  · right
    obtain ⟨lc, a, q, st, hsel, hlc⟩ := hall t _ hmem
    rw [hlc hne] at hsel
    exact ⟨t, a, q, st, hmem, herr, hsel⟩

/-- a message chosen from `last_comms = 0` under a late clock is a RESYNC. -/
theorem decided_after_reset_is_resync (cfg : Periods) (now a : Int) (q : Bool) (st : Nat) (t : MsgType)
    (hnow : now ≥ cfg.periodResync) (h : selectMode cfg (now - 0) a q st = some t) : t = .resync := by
  rw [resync_only _ _ _ _ _ (by omega)] at h
  split at h
  · cases h; rfl
  · cases h

/-- **`reset_forces_resync`**: a pass that starts with `last_comms j = 0` (what `reset_survives_pass`
leaves behind; also a fresh device manager) and reads a late clock can, under every interleaving,
only choose RESYNC (or nothing) for `j` — never SYNC, never PING. -/
theorem reset_forces_resync (s : TState Rec) (now : Int) (qE : Nat → Bool) (snap : Msg Rec)
    (outcome : Nat → Nat × Int) (sched : Point → List (Nat × Nat)) (j : Nat)
    (h0 : lcOf s.peers j = 0) (hnow : now ≥ s.cfg.periodResync) :
    ∀ t seen, (j, t, seen) ∈ (passSmall s now qE snap outcome sched).2.2 → t = .resync := by
  have := passSmall_pres (fun lc _ => lc = 0) (by intro lc rs h; rfl) (fun lc _ => lc = 0) j
    (by intro lc1 seen lc rs _ h2 _; exact h2)
    (fun _ _ _ => True) (by intro ol lc rs _; trivial)
    s now qE snap outcome sched (by intros; trivial) (by intros; trivial) h0
  intro t seen hmem
  obtain ⟨lc, a, q, st, hsel, hlc⟩ := this.1 t seen hmem
  rw [hlc] at hsel
  exact decided_after_reset_is_resync _ _ _ _ _ _ hnow hsel

/-- **`resync_until_success`**: and `last_comms j = 0` persists, under every interleaving, until a
RESYNC to `j` is delivered: at the end of such a pass either it still holds or a RESYNC was
delivered to `j` in this pass. -/
theorem resync_until_success (s : TState Rec) (now : Int) (qE : Nat → Bool) (snap : Msg Rec)
    (outcome : Nat → Nat × Int) (sched : Point → List (Nat × Nat)) (j : Nat)
    (h0 : lcOf s.peers j = 0) (hnow : now ≥ s.cfg.periodResync) :
    let r := passSmall s now qE snap outcome sched
    lcOf r.1.peers j = 0 ∨ (∃ seen, (j, .resync, seen) ∈ r.2.2 ∧ (outcome j).1 = 0) := by
  intro r
  have := passSmall_pres (fun lc _ => lc = 0) (by intro lc rs h; rfl) (fun lc _ => lc = 0) j
    (by intro lc1 seen lc rs _ h2 _; exact h2)
    (fun ol lc _ => lc = 0 ∨ (∃ t seen, (j, t, seen) ∈ ol ∧ (outcome j).1 = 0))
    (by intro ol lc rs _; exact Or.inl rfl)
    s now qE snap outcome sched (by intro ol lc rs h; exact Or.inl h)
    (by intro ol _ t seen hmem herr lc _; exact Or.inr ⟨t, seen, hmem, herr⟩) h0
  rcases this.2 with h | ⟨t, seen, hmem, herr⟩
  · exact Or.inl h
  · right
    have ht := reset_forces_resync s now qE snap outcome sched j h0 hnow t seen hmem
    subst ht
    exact ⟨seen, hmem, herr⟩

/-- the three statements chained over two passes: a RESET from `j` handled anywhere inside pass 1
(late clock), whatever the interleavings of both passes — unless a RESYNC decided after the RESET was
already delivered in pass 1, pass 2 chooses nothing but RESYNC for `j`. -/
theorem reset_then_next_pass (s : TState Rec) (now₁ now₂ : Int) (qE₁ qE₂ : Nat → Bool) (snap₁ snap₂ : Msg Rec)
    (oc₁ oc₂ : Nat → Nat × Int) (sched₁ sched₂ : Point → List (Nat × Nat)) (j : Nat)
    (h1 : now₁ ≥ s.cfg.periodResync) (h2 : now₂ ≥ s.cfg.periodResync) :
    let r₁ := passSmall s now₁ qE₁ snap₁ oc₁ sched₁
    rsOf r₁.1.peers j ≠ rsOf s.peers j →
      (∃ seen, (j, .resync, seen) ∈ r₁.2.2 ∧ (oc₁ j).1 = 0) ∨
      (∀ t seen, (j, t, seen) ∈ (passSmall r₁.1 now₂ qE₂ snap₂ oc₂ sched₂).2.2 → t = .resync) := by
  intro r₁ hne
  rcases reset_survives_pass s now₁ qE₁ snap₁ oc₁ sched₁ j hne with h0 | ⟨t, a, q, st, hmem, herr, hsel⟩
  · right
    exact reset_forces_resync r₁.1 now₂ qE₂ snap₂ oc₂ sched₂ j h0 h2
  · left
    have := decided_after_reset_is_resync _ _ _ _ _ _ h1 hsel
    subst this
    exact ⟨_, hmem, herr⟩

/-! ### the restarted instance -/

/-- **`restart_announces`**: a fresh instance (every device manager as constructed, `flag_reset = True`):
(1) under every interleaving its first pass with a late clock chooses nothing but RESYNC for any
device; (2) sequentially, as soon as the clock is also `≥ attempt_resync`, the first pass does hand
a RESYNC carrying the RESET flag to the wire for every other device; (3) the flag is on every
message to a device until one is delivered, and on none after (`flag_until_delivered`). -/
theorem restart_announces (self : String) (cfg : Periods) (urns : List String) (queue : List (Msg Rec))
    (now : Int) (snap : Msg Rec) (outcome : Nat → Nat × Int) (j : Nat) (u : String)
    (hu : urns[j]? = some u) (hnow : now ≥ cfg.periodResync) :
    let s : TState Rec := ⟨self, cfg, queue, urns.map (fun u => (u, Peer.init true))⟩
    (∀ qE sched t seen, (j, t, seen) ∈ (passSmall s now qE snap outcome sched).2.2 → t = .resync) ∧
    (u ≠ self → now ≥ cfg.attemptResync →
      ∃ w, (outIter s now snap outcome).2.find? (fun w => w.peer == j) = some w ∧
        w.typ = .resync ∧ w.flags = FLAG_RESET ∧ w.payload = snap) ∧
    (∀ steps, FlagOK true (jlog j (run s steps))) := by
  intro s
  have hj : s.peers[j]? = some (u, Peer.init true) := by simp [s, hu]
  refine ⟨?_, ?_, ?_⟩
  · intro qE sched t seen hmem
    exact reset_forces_resync s now qE snap outcome sched j (by simp [lcOf, hj, Peer.init]) hnow t seen hmem
  · intro hself hatt
    have hw := outIter_wire s now snap outcome j
    rw [hj] at hw
    simp only [Option.bind_some] at hw
    have hd : decideEntry s.cfg s.self now s.queue.isEmpty (u, (Peer.init true : Peer Rec)) = some (.resync, 0) := by
      unfold decideEntry
      simp only [hself, if_false, s]
      rw [(fresh_first_is_resync cfg now _ hnow hatt).1]
      rfl
    rw [hd] at hw
    exact ⟨_, hw, rfl, rfl, rfl⟩
  · intro steps
    exact flag_until_delivered s steps j _ hj

/-! ### non-vacuity, and the defect that was there (F5) -/

/-- survivor "a" with peer "b" in contact (`last_comms = 1000`), one queued change, default periods. -/
def c07State : TState Nat :=
  ⟨"a", Periods.default, [⟨[7], [], []⟩], [("a", Peer.init false), ("b", ⟨1000, 1000, 0, false, [], [], []⟩)]⟩

/-- the RESET from "b" (device index 1) is handled while the SYNC to "b" is being sent. -/
def c07Sched : Point → List (Nat × Nat)
  | .duringSend 1 => [(1, 1)]
  | _ => []

/-- current code: the SYNC is delivered but not recorded as contact; `last_comms` stays 0, the counter
moved — the hypotheses of `reset_survives_pass` / `reset_forces_resync` are met by a real execution. -/
example :
    let r := passSmall c07State 1001 (fun _ => false) Msg.empty (fun _ => (0, 1002)) c07Sched
    r.2.2 = [(1, .sync, 0)] ∧ r.1.peers[1]? = some ("b", ⟨0, 1002, 1, false, [], [], []⟩) ∧
    rsOf r.1.peers 1 ≠ rsOf c07State.peers 1 ∧ lcOf r.1.peers 1 = 0 := by decide

/-- and the next pass (late clock, 10 s after the attempt) sends the RESYNC. -/
example :
    let r := passSmall c07State 1001 (fun _ => false) Msg.empty (fun _ => (0, 1002)) c07Sched
    (passSmall r.1 1012 (fun _ => true) Msg.empty (fun _ => (0, 1012)) (fun _ => [])).2.2 = [(1, .resync, 1)] := by
  decide

/-- **`old_overwrites_reset`** (finding F5, the bookkeeping before the fix): the same interleaving —
decide SYNC; RESET handled during the send; send ok; `last_comms = now` — leaves `last_comms = 1002`:
the announcement is lost, the next passes choose nothing / PING / SYNC for "b", and no RESYNC is sent
until a whole `period_resync` of silence has passed (never, while ordinary contact continues). -/
theorem old_overwrites_reset :
    let r := passSmallG false c07State 1001 (fun _ => false) Msg.empty (fun _ => (0, 1002)) c07Sched
    rsOf r.1.peers 1 ≠ rsOf c07State.peers 1 ∧ lcOf r.1.peers 1 = 1002 ∧ r.2.2 = [(1, .sync, 0)] ∧
    (passSmallG false r.1 1012 (fun _ => true) Msg.empty (fun _ => (0, 1012)) (fun _ => [])).2.2 = [] ∧
    (passSmallG false r.1 1012 (fun _ => false) Msg.empty (fun _ => (0, 1012)) (fun _ => [])).2.2 = [(1, .sync, 1)] ∧
    (passSmallG false r.1 1040 (fun _ => true) Msg.empty (fun _ => (0, 1040)) (fun _ => [])).2.2 = [(1, .ping, 1)] := by
  decide

/-! ---------------------------------------------------------------------------------------------
## C07 at the status-lattice level: a restarted receiver recovers everything the survivor knew

Pair model of Lemmas/TcpLattice.lean (see the last section of Props/C06.lean): the survivor's transport state
`t`, its knowledge `knowS`, the receiver `j` with knowledge `knowJ`, the `wire`.  `restartJ keep` — anywhere in
the run, any number of times — is the crash: `j` loses all its state (`knowJ := bot`), what was on the wire
to it survives or not (`keep`), and the survivor handles the restart announcement (`incoming j FLAG_RESET`;
that the announcement is sent and survives every interleaving of the survivor's threads is the first part of
this file).

Ghost (Lemmas/TcpRestart.lean) `baseAfter j P0 bot steps`: `bot` until the first restart; each `restartJ` sets
it to `knowS` AT THAT MOMENT — everything the survivor knows (announced itself: `say`; learnt from third
parties: `learn`) is owed again to `j`.  No other step touches it.

Invariant (`binv_step`, `binv_run`; `restart_invariant_every_run` below): `base ≤ knowS` (the survivor's
knowledge only grows: `knowS_monotone`) and
   `j` is in the resync period at every clock `≥ L`   ∨   `base ≤ knowJ ⊔ ⨆ wire`.
After a restart the left disjunct holds until a RESYNC is reported delivered; that RESYNC carries the snapshot
`knowS ≥ base`.

Hypotheses: exactly those of `idle_pair_knows_everything` — own entry excluded (`hself`), `last_comms ≥ 0`
initially (`hlc`), decision clocks never going backwards (`PMono`), epoch clock (`hepoch`: every reading
`≥ period_resync`; needed, see the counter-run at the end of Props/C06.lean, which is a counter-run for this
theorem too and is repeated below with `base`).  No new hypothesis.
--------------------------------------------------------------------------------------------- -/
section Restart
open Bobo.Lattice

/-- the invariant after every run (`base` = `baseAfter j P0 bot steps`). -/
theorem restart_invariant_every_run (j : Nat) (P0 : Pair) (e0 : String × Peer Status) (L0 : Int)
    (he0 : P0.t.peers[j]? = some e0) (hself : e0.1 ≠ P0.t.self) (hlc : 0 ≤ e0.2.lastComms)
    (hown : P0.own = bot) (hmiss : P0.missing = []) (hepoch : P0.t.cfg.periodResync ≤ L0)
    (steps : List PStep) (hmono : PMono L0 steps) (L : Int) (hL : pLastNow L0 steps ≤ L) :
    baseAfter j P0 bot steps ≤ (prun j P0 steps).knowS ∧
    ∃ p, (prun j P0 steps).t.peers[j]? = some (e0.1, p) ∧
      ((∀ now', now' ≥ L → InResync (prun j P0 steps).t.cfg now' p) ∨
       baseAfter j P0 bot steps ≤
         join (prun j P0 steps).knowJ (joinAll ((prun j P0 steps).wire.map meaning))) := by
  obtain ⟨hp, hb⟩ := binv_run j e0.1 steps P0 bot L0 hmono
    (pinv_init j P0 e0 L0 he0 hself hlc hown hmiss hepoch) (binv_init j P0 L0)
  have hb' := binv_mono hL hb
  obtain ⟨_, _, ⟨p, hpe, _, _, _⟩, _⟩ := hp
  refine ⟨hb'.baseS, p, hpe, ?_⟩
  rcases hb'.flow with ⟨e', he', hA⟩ | hf
  · rw [hpe] at he'; cases he'
    exact Or.inl hA
  · exact Or.inr hf

/-- **`restarted_receiver_recovers`**: for every crash point (`restartJ` anywhere in the run, any number of
times), every interleaving with local changes, knowledge learnt from third parties, passes with any send
outcomes (failures, timeouts, outages), deliveries in any order, duplicate deliveries, other RESETs and
clock advances: if the link is idle at the end (`j` not in the resync period at the clock `L`, backlog,
queue and wire empty) then the restarted instance holds everything the survivor knew when it (last)
restarted — `base ≤ knowJ` — and everything the survivor ever announced — `own ≤ knowJ`. -/
theorem restarted_receiver_recovers (j : Nat) (P0 : Pair) (e0 : String × Peer Status) (L0 : Int)
    (he0 : P0.t.peers[j]? = some e0) (hself : e0.1 ≠ P0.t.self) (hlc : 0 ≤ e0.2.lastComms)
    (hown : P0.own = bot) (hmiss : P0.missing = []) (hepoch : P0.t.cfg.periodResync ≤ L0)
    (steps : List PStep) (hmono : PMono L0 steps) (L : Int) (hL : pLastNow L0 steps ≤ L)
    (e : String × Peer Status) (he : (prun j P0 steps).t.peers[j]? = some e)
    (hidle : ¬ InResync (prun j P0 steps).t.cfg L e.2) (hstash : stashOf e.2 = ([], [], []))
    (hqueue : (prun j P0 steps).t.queue = []) (hwire : (prun j P0 steps).wire = []) :
    baseAfter j P0 bot steps ≤ (prun j P0 steps).knowJ ∧ (prun j P0 steps).own ≤ (prun j P0 steps).knowJ := by
  refine ⟨?_, idle_pair_knows_everything j P0 e0 L0 he0 hself hlc hown hmiss hepoch steps hmono L hL e he hidle
    hstash hqueue hwire⟩
  obtain ⟨_, hb⟩ := binv_run j e0.1 steps P0 bot L0 hmono
    (pinv_init j P0 e0 L0 he0 hself hlc hown hmiss hepoch) (binv_init j P0 L0)
  exact binv_idle j _ _ L (binv_mono hL hb) e he hidle hwire

/-- the survivor's knowledge never decreases along a run (so the snapshot of a later RESYNC still carries
what was owed at the restart). -/
theorem survivor_knowledge_monotone (j : Nat) (P : Pair) (steps : List PStep) :
    P.knowS ≤ (prun j P steps).knowS := knowS_monotone j steps P

/-! ### non-vacuity: the survivor learnt `halted` from a third party; the receiver restarts; a RESYNC fails,
the next one is delivered -/

def restartRun : List PStep :=
  [ .say ⟨[], [], [active 1 1]⟩,
    .pass 996 (fun _ => (0, 996)),     -- SYNC to b delivered
    .deliver 0,
    .learn halted,                     -- from a third party: never queued for b
    .restartJ false,                   -- b crashes, comes back empty, announces it
    .pass 1000 (failB 1001),           -- RESYNC to b fails
    .pass 1005 (fun _ => (0, 1005)),   -- too early for the next attempt (attempt_resync = 10)
    .pass 1011 (fun _ => (0, 1012)),   -- RESYNC delivered: snapshot = everything the survivor knows
    .deliver 0 ]

example :
    PMono 990 restartRun ∧ pLastNow 990 restartRun = 1011 ∧ pair0.t.cfg.periodResync ≤ 990 ∧
    (prun 1 pair0 (restartRun.take 3)).knowJ = active 1 1 ∧
    -- the crash
    (prun 1 pair0 (restartRun.take 5)).knowJ = bot ∧ baseAfter 1 pair0 bot (restartRun.take 5) = halted ∧
    (prun 1 pair0 (restartRun.take 5)).t.peers[1]? = some ("b", ⟨0, 0, 1, false, [], [], []⟩) ∧
    -- the failed RESYNC and the pass that is too early: nothing on the wire, b still knows nothing
    (prun 1 pair0 (restartRun.take 7)).wire = [] ∧ (prun 1 pair0 (restartRun.take 7)).knowJ = bot ∧
    (prun 1 pair0 (restartRun.take 7)).t.peers[1]? = some ("b", ⟨0, 1001, 1, false, [], [], []⟩) ∧
    -- the delivered RESYNC
    (prun 1 pair0 (restartRun.take 8)).wire = [⟨[], [], [halted]⟩] ∧
    -- the end: idle, `base = halted`, `own = active 1 1`, and b holds both
    baseAfter 1 pair0 bot restartRun = halted ∧ (prun 1 pair0 restartRun).own = active 1 1 ∧
    (prun 1 pair0 restartRun).knowJ = halted ∧
    (prun 1 pair0 restartRun).t.peers[1]? = some ("b", ⟨1012, 1012, 1, false, [], [], []⟩) ∧
    (prun 1 pair0 restartRun).t.queue = [] ∧ (prun 1 pair0 restartRun).wire = [] := by decide

/-- … and through the theorem. -/
example : baseAfter 1 pair0 bot restartRun ≤ (prun 1 pair0 restartRun).knowJ ∧
    (prun 1 pair0 restartRun).own ≤ (prun 1 pair0 restartRun).knowJ :=
  restarted_receiver_recovers 1 pair0 ("b", ⟨995, 995, 0, false, [], [], []⟩) 990 (by decide) (by decide) (by decide)
    rfl rfl (by decide) restartRun (by decide) 1011 (by decide) ("b", ⟨1012, 1012, 1, false, [], [], []⟩) (by decide)
    (by unfold InResync; decide) rfl (by decide) (by decide)

/-- two crashes, the second while the first RESYNC is still on the wire and lost with it (`keep = false`). -/
example :
    let steps : List PStep := [.learn (active 2 5), .restartJ true, .pass 1000 (fun _ => (0, 1001)), .learn halted,
      .restartJ false, .pass 1011 (fun _ => (0, 1012)), .redeliver 0, .deliver 0]
    PMono 990 steps ∧ baseAfter 1 pair0 bot (steps.take 2) = active 2 5 ∧
    (prun 1 pair0 (steps.take 3)).wire = [⟨[], [], [active 2 5]⟩] ∧
    (prun 1 pair0 (steps.take 5)).wire = [] ∧ baseAfter 1 pair0 bot steps = halted ∧
    (prun 1 pair0 steps).knowJ = halted ∧ (prun 1 pair0 steps).wire = [] ∧ (prun 1 pair0 steps).t.queue = [] ∧
    (prun 1 pair0 steps).t.peers[1]? = some ("b", ⟨1012, 1012, 2, false, [], [], []⟩) := by decide

/-! ### `hepoch` is needed (clock below `period_resync`): after the restart b is not in the resync period, the
link is idle, and b holds nothing of what the survivor knows -/
example :
    let P0 : Pair := { pair0 with t := { pair0.t with peers :=
      [("a", Peer.init false), ("b", Peer.init false), ("c", Peer.init false)] } }
    let steps : List PStep := [.learn halted, .restartJ true, .pass 20 (fun _ => (0, 20))]
    PMono 0 steps ∧ pLastNow 0 steps = 20 ∧ ¬ (P0.t.cfg.periodResync ≤ 0) ∧
    (prun 1 P0 steps).t.peers[1]? = some ("b", ⟨0, 0, 1, false, [], [], []⟩) ∧
    (20 : Int) - 0 < P0.t.cfg.periodResync ∧
    (prun 1 P0 steps).t.queue = [] ∧ (prun 1 P0 steps).wire = [] ∧
    baseAfter 1 P0 bot steps = halted ∧ (prun 1 P0 steps).knowJ = bot ∧
    ¬ (baseAfter 1 P0 bot steps ≤ (prun 1 P0 steps).knowJ) := by decide

end Restart

/-! ---------------------------------------------------------------------------------------------
## C07 on the whole cluster: restarts of INSTANCES (Lemmas/TcpClusterRestart.lean)

The cluster model of the last section of Props/C06.lean (`Cluster n`, `CStep`: say / pass / deliver / redeliver /
incoming) with one more step, `RStep.restart r keep` (wrapper `RStep n` / `RCluster n`; nothing of
Lemmas/TcpCluster.lean is changed).  `restart r keep`, any number of times, any instances, anywhere in the run:

  * `r` loses what it knows (`know r := bot`) and its transport state is that of a fresh instance (`freshT`: empty
    queue, every device manager `Peer.init true`: `last_comms = last_attempt = 0`, `flag_reset = True`, empty
    backlogs — the state of `restart_announces` above);
  * what is on the wires TO `r` survives or not (`keep`); what `r` had put on the wires FROM `r` stays;
  * every other instance handles `r`'s RESET AT THE RESTART (`incoming a r FLAG_RESET` for all `a ≠ r`): this is
    what the pair step `restartJ keep` does to its one sender, so `restart r keep` projects onto `restartJ keep` for
    every pair `(a, r)` (`proj_restart_receiver`), onto `incoming r FLAG_RESET` for every pair `(a, b)`, `r ∉ {a, b}`
    (`proj_restart_other`), and the pair invariants `PInv` / `BInv` are transported step by step.  (With the RESET
    handled at a later step the pair invariant is false in between, and since the wires of the model carry no
    flags nothing would force that step to happen before the end of the run.)
  * for the pairs `(r, b)` — the restarted instance as a SENDER — the pair run ends and a new one starts from an
    initial pair state (`proj_restart_sender`, `pinv_init`); the ghost `own r` is reset: `own` = announced SINCE
    the last restart (`ownSince`).  Ghosts that are never reset: `said` (everything ever announced);
    `lost r` (everything `r` had announced when it last restarted, `lost_spec`);
    `owed i r` (what `i` knew when `r` last restarted, `owed_spec`; the ghost `base` of the pair `(i, r)`).

Clocks: `RMono` — per instance the decision clocks never go backwards, ACROSS its restarts too (wall clock); this
is what carries the epoch-clock condition `period_resync ≤ clock` over a restart of the sender.  `RInit` =
`CInit` (Props/C06.lean) + no ghost of a restart.  No other hypothesis.

Results (all for every run, every number of restarts of any instances at any points):
  1. `restarted_instance_recovers_cluster` — at idle every instance `j` (restarted or not) knows everything a
     never-restarted `i ≠ j` EVER announced.  TRUE AS STATED.
  2. the second half of the statement asked for — "`know i ≤ know r` at idle for never-restarted `i`, restarted
     `r`" — is FALSE (`lateRun`: what `r` itself had handed to the network before its restart reaches `i` after
     `i`'s RESYNC to `r`); `restarted_instance_knows_survivors_partial`: at idle `r` knows everything `i` knew WHEN `r`
     (LAST) RESTARTED, for every `i` not restarted since.
  3. `ownSince_known_everywhere` — what ANY instance announced since its last restart is known everywhere at
     idle; `lostKnown_partial` — whatever an `i` (not restarted since) knew of `lost r` at the restart is known by
     `r` (and still by `i`) at idle; NOT by everybody: `splitRun`.
  4. `splitRun` — full convergence fails with a sender restart: a announces, reaches b only, restarts; ends
     idle (and stays idle under the PINGs that follow) with `know a = know b ≠ know c`.
  5. `recoverRun` — non-vacuity, directly and through the theorems.
--------------------------------------------------------------------------------------------- -/
section ClusterRestart
open Bobo.Lattice

/-- **projection** (the run with restarts as a run of the pair model): for every ordered pair `i ≠ j` whose sender
`i` is never restarted, the cluster run is the pair run `rprojSteps i j R0 steps` — restarts of `j` are `restartJ`,
restarts of third instances are their RESETs at `i`'s listener —, the decision clocks of the pair run are monotone
with the same last clock, and the ghost `owed i j` is the pair ghost `base`. -/
theorem restart_cluster_run_is_pair_run {n : Nat} (R0 : RCluster n) (L0 : Fin n → Int) (steps : List (RStep n))
    (hmono : RMono L0 steps) (i j : Fin n) (hij : i ≠ j) (hnr : wasRestarted i steps = false) :
    PMono (L0 i) (rprojSteps i j R0 steps) ∧ pLastNow (L0 i) (rprojSteps i j R0 steps) = rLastNow L0 steps i ∧
    (∃ ms, prun j.val (proj R0.c i j []) (rprojSteps i j R0 steps) = proj (rrun R0 steps).c i j ms) ∧
    baseAfter j.val (proj R0.c i j []) (R0.owed i j) (rprojSteps i j R0 steps) = (rrun R0 steps).owed i j :=
  ⟨(rproj_clocks i j steps R0 L0 hmono).1, (rproj_clocks i j steps R0 L0 hmono).2,
    (rcluster_projects i j hij steps R0 [] hnr).1, (rcluster_projects i j hij steps R0 [] hnr).2⟩

/-- the invariant after every run with restarts: for EVERY ordered pair (restarted sender or not) the pair
invariants hold of the projection; `heard i j ≤ know j`; `said = lost ⊔ ownSince`. -/
theorem restart_cluster_invariant_every_run {n : Nat} (R0 : RCluster n) (L0 : Fin n → Int) (hinit : RInit R0 L0)
    (steps : List (RStep n)) (hmono : RMono L0 steps) : RInv (rrun R0 steps) (rLastNow L0 steps) :=
  rinv_run steps R0 L0 hmono (rinv_init R0 L0 hinit)

/-- one idle link `i → j` after a run with restarts: `j` knows what `i` announced since `i`'s last restart and what
`i` knew when `j` last restarted (`bot` if `i` was restarted since); `i` still knows the latter. -/
theorem idle_link_after_restarts {n : Nat} (R0 : RCluster n) (L0 : Fin n → Int) (hinit : RInit R0 L0)
    (steps : List (RStep n)) (hmono : RMono L0 steps) (i j : Fin n) (hij : i ≠ j)
    (L : Int) (hL : rLastNow L0 steps i ≤ L) (hidle : LinkIdle (rrun R0 steps).c L i j) :
    (rrun R0 steps).ownSince i ≤ (rrun R0 steps).c.know j ∧
    (rrun R0 steps).owed i j ≤ (rrun R0 steps).c.know j ∧
    (rrun R0 steps).owed i j ≤ (rrun R0 steps).c.know i := by
  have hinv := restart_cluster_invariant_every_run R0 L0 hinit steps hmono
  obtain ⟨e, he, hres, hstash, hq, hw⟩ := hidle
  simp only [stashOf, Prod.mk.injEq] at hstash
  obtain ⟨h1, h2⟩ := rinv_idle _ _ hinv i j hij L hL e he hres hstash.1 hstash.2.1 hstash.2.2 hq hw
  exact ⟨h1, h2, rinv_owed_le_know _ _ hinv i j hij⟩

/-- **`restarted_instance_recovers_cluster`**: the cluster starts as in `idle_cluster_converged` (`RInit`).  After
EVERY run — announcements, passes with any send outcomes, deliveries in any order, duplicates, listener steps, and
RESTARTS of any instances, any number of times, at any points, with or without loss of what was on the wires to
them — whose decision clocks do not go backwards per instance (a restarted instance's clock keeps running): if at
the end every link is idle, then every instance `j` — the restarted ones included — knows everything that every
instance `i ≠ j` that was NEVER restarted has EVER announced (`said i`, which for such an `i` is the `own i` of the
model without restarts: `said_eq_own_of_never`). -/
theorem restarted_instance_recovers_cluster {n : Nat} (R0 : RCluster n) (L0 : Fin n → Int) (hinit : RInit R0 L0)
    (steps : List (RStep n)) (hmono : RMono L0 steps)
    (L : Fin n → Int) (hL : ∀ i, rLastNow L0 steps i ≤ L i)
    (hidle : ∀ i j, i ≠ j → LinkIdle (rrun R0 steps).c (L i) i j) :
    ∀ i j, i ≠ j → wasRestarted i steps = false →
      (rrun R0 steps).said i ≤ (rrun R0 steps).c.know j ∧ (rrun R0 steps).c.own i ≤ (rrun R0 steps).c.know j := by
  intro i j hij hnr
  have h := (idle_link_after_restarts R0 L0 hinit steps hmono i j hij (L i) (hL i) (hidle i j hij)).1
  rw [said_eq_own_of_never R0 L0 hinit steps hmono i hnr]
  exact ⟨h, h⟩

/-- the same through the PAIR theorem `restarted_receiver_recovers`, by the whole-run projection
`restart_cluster_run_is_pair_run`: one idle link `i → j` of a never-restarted sender. -/
theorem restarted_instance_recovers_by_projection {n : Nat} (R0 : RCluster n) (L0 : Fin n → Int)
    (hinit : RInit R0 L0) (steps : List (RStep n)) (hmono : RMono L0 steps) (i j : Fin n) (hij : i ≠ j)
    (hnr : wasRestarted i steps = false) (L : Int) (hL : rLastNow L0 steps i ≤ L)
    (hidle : LinkIdle (rrun R0 steps).c L i j) :
    (rrun R0 steps).owed i j ≤ (rrun R0 steps).c.know j ∧ (rrun R0 steps).c.own i ≤ (rrun R0 steps).c.know j := by
  obtain ⟨e0, he0, hself, hlc⟩ := hinit.cinit.peer0 i j hij
  obtain ⟨hpm, hpl, ⟨ms, hproj⟩, hbase⟩ := restart_cluster_run_is_pair_run R0 L0 steps hmono i j hij hnr
  obtain ⟨e, he, hres, hstash, hq, hw⟩ := hidle
  rw [hinit.owed0] at hbase
  have h := restarted_receiver_recovers j.val (proj R0.c i j []) e0 (L0 i) he0 hself hlc (hinit.cinit.own0 i) rfl
    (hinit.cinit.epoch i) (rprojSteps i j R0 steps) hpm L (by rw [hpl]; exact hL) e (by rw [hproj]; exact he)
    (by rw [hproj]; exact hres) hstash (by rw [hproj]; exact hq) (by rw [hproj]; exact hw)
  rw [hproj, hbase] at h
  have hk := (restart_cluster_invariant_every_run R0 L0 hinit steps hmono).heardK i j
  exact ⟨le_trans h.1 hk, le_trans h.2 hk⟩

/- The second half of the statement asked for —

     theorem restarted_instance_knows_survivors … (hidle : every link idle) :
         ∀ i r, i ≠ r → wasRestarted i steps = false → wasRestarted r steps = true →
           (rrun R0 steps).c.know i ≤ (rrun R0 steps).c.know r

   — is FALSE: `lateRun` below.  What a never-restarted `i` knows AT THE END may have reached it after its RESYNC
   to `r` and from somebody who does not have it any more (`r` itself before its restart, or another restarted
   instance).  True: everything `i` knew WHEN `r` LAST RESTARTED. -/

/-- **`restarted_instance_knows_survivors_partial`**: … if at the end every link is idle, then every restarted
instance `r` knows everything that every other instance `i` knew at the moment `r` (last) restarted — for every `i`
that was not restarted since (in particular every never-restarted `i`).  `pre` is the run up to that restart. -/
theorem restarted_instance_knows_survivors_partial {n : Nat} (R0 : RCluster n) (L0 : Fin n → Int)
    (hinit : RInit R0 L0) (steps : List (RStep n)) (hmono : RMono L0 steps)
    (L : Fin n → Int) (hL : ∀ i, rLastNow L0 steps i ≤ L i)
    (hidle : ∀ i j, i ≠ j → LinkIdle (rrun R0 steps).c (L i) i j)
    (pre post : List (RStep n)) (r : Fin n) (keep : Bool) (hsplit : steps = pre ++ .restart r keep :: post)
    (hr : wasRestarted r post = false) (i : Fin n) (hir : i ≠ r) (hi : wasRestarted i post = false) :
    (rrun R0 pre).c.know i ≤ (rrun R0 steps).c.know r ∧ (rrun R0 pre).c.know i ≤ (rrun R0 steps).c.know i := by
  have h := idle_link_after_restarts R0 L0 hinit steps hmono i r hir (L i) (hL i) (hidle i r hir)
  have ho : (rrun R0 steps).owed i r = (rrun R0 pre).c.know i := by
    rw [hsplit]; exact owed_spec R0 pre post r i keep hir hi hr
  rw [ho] at h
  exact ⟨h.2.1, h.2.2⟩

/-- **`ownSince_known_everywhere`** (what survives of a restarted sender, 1): at idle, everything ANY instance `r`
announced since its last restart (everything it ever announced, if it was never restarted) is known by every other
instance. -/
theorem ownSince_known_everywhere {n : Nat} (R0 : RCluster n) (L0 : Fin n → Int) (hinit : RInit R0 L0)
    (steps : List (RStep n)) (hmono : RMono L0 steps)
    (L : Fin n → Int) (hL : ∀ i, rLastNow L0 steps i ≤ L i)
    (hidle : ∀ i j, i ≠ j → LinkIdle (rrun R0 steps).c (L i) i j) :
    ∀ r j, r ≠ j → (rrun R0 steps).ownSince r ≤ (rrun R0 steps).c.know j :=
  fun r j hrj => (idle_link_after_restarts R0 L0 hinit steps hmono r j hrj (L r) (hL r) (hidle r j hrj)).1

/-- **`lostKnown_partial`** (what survives of a restarted sender, 2): `lost r` at the end is everything `r` had ever
announced when it last restarted; whatever part `d` of it some other instance `i` (not restarted since) knew at that
moment is known, at idle, by `r` again and still by `i`.  By EVERYBODY: false (`splitRun`: nobody announces it
again, and a third instance gets it only if a RESYNC happens to carry it). -/
theorem lostKnown_partial {n : Nat} (R0 : RCluster n) (L0 : Fin n → Int)
    (hinit : RInit R0 L0) (steps : List (RStep n)) (hmono : RMono L0 steps)
    (L : Fin n → Int) (hL : ∀ i, rLastNow L0 steps i ≤ L i)
    (hidle : ∀ i j, i ≠ j → LinkIdle (rrun R0 steps).c (L i) i j)
    (pre post : List (RStep n)) (r : Fin n) (keep : Bool) (hsplit : steps = pre ++ .restart r keep :: post)
    (hr : wasRestarted r post = false) :
    (rrun R0 steps).lost r = (rrun R0 pre).said r ∧
    ∀ (i : Fin n), i ≠ r → wasRestarted i post = false →
      ∀ d, d ≤ (rrun R0 steps).lost r → d ≤ (rrun R0 pre).c.know i →
        d ≤ (rrun R0 steps).c.know r ∧ d ≤ (rrun R0 steps).c.know i := by
  have hpre : RMono L0 pre := by
    have : ∀ (xs ys : List (RStep n)) (L : Fin n → Int), RMono L (xs ++ ys) → RMono L xs := by
      intro xs
      induction xs with
      | nil => intro _ _ _; trivial
      | cons x xs ih => intro ys L h; exact ⟨h.1, ih ys _ h.2⟩
    exact this pre _ L0 (hsplit ▸ hmono)
  refine ⟨?_, ?_⟩
  · rw [hsplit]; exact lost_spec R0 L0 (rinv_init R0 L0 hinit) pre post hpre r keep hr
  · intro i hir hi d _ hd
    have h := restarted_instance_knows_survivors_partial R0 L0 hinit steps hmono L hL hidle pre post r keep hsplit hr
      i hir hi
    exact ⟨le_trans hd h.1, le_trans hd h.2⟩

/-! ### the runs: "a", "b", "c" of `cl0` (Props/C06.lean), no ghost of a restart -/

def rcl0 : RCluster 3 := ⟨cl0, fun _ => bot, fun _ => bot, fun _ _ => bot⟩

theorem rcl0_init : RInit rcl0 (fun _ => 999) := ⟨cl0_init, fun _ => rfl, fun _ => rfl, fun _ _ => rfl⟩

def failC (clock : Int) : Nat → Nat × Int := fun i => if i = 2 then (1, clock) else (0, clock)

/-! ### full convergence FAILS with a sender restart -/

/-- a announces `active 1 1`, reaches b only (the SYNC to c fails: backlog), restarts (backlog gone).  Its RESYNCs
(snapshot: nothing) go out before b's RESYNC (snapshot: `active 1 1`) gives it back what it had announced. -/
def splitRun : List (RStep 3) :=
  [ .step (.say 0 ⟨[], [], [active 1 1]⟩),
    .step (.pass 0 1000 (failC 1001)),          -- SYNC to b on the wire; SYNC to c fails: c's backlog
    .step (.deliver 0 1 0),                      -- b knows it
    .restart 0 false,                            -- a restarts; b and c handle its RESET
    .step (.pass 0 1002 (fun _ => (0, 1003))),  -- a, fresh: RESYNC to b and to c, snapshot = bot
    .step (.deliver 0 1 0),
    .step (.deliver 0 2 0),
    .step (.pass 1 1002 (fun _ => (0, 1003))),  -- b: RESYNC to a, snapshot = active 1 1
    .step (.deliver 1 0 0),                      -- a knows it again — and never announces it
    .step (.pass 2 1002 (fun _ => (0, 1003))),  -- c: RESYNC to a, snapshot = bot
    .step (.deliver 2 0 0) ]

/-- what the model says: the run ends with EVERY link idle, a and b know `active 1 1`, c knows nothing. -/
example :
    RMono (fun _ => 999) splitRun ∧ (∀ i, rLastNow (fun _ => 999) splitRun i ≤ 1002) ∧
    ((rrun rcl0 (splitRun.take 2)).c.t 0).peers[2]? = some ("c", ⟨995, 1001, 0, false, [], [], [active 1 1]⟩) ∧
    (rrun rcl0 (splitRun.take 3)).c.know 1 = active 1 1 ∧
    -- the restart: a fresh, its RESET handled by b and c, the ghosts
    ((rrun rcl0 (splitRun.take 4)).c.t 0).peers[2]? = some ("c", ⟨0, 0, 0, true, [], [], []⟩) ∧
    ((rrun rcl0 (splitRun.take 4)).c.t 1).peers[0]? = some ("a", ⟨0, 0, 1, false, [], [], []⟩) ∧
    ((rrun rcl0 (splitRun.take 4)).c.t 2).peers[0]? = some ("a", ⟨0, 0, 1, false, [], [], []⟩) ∧
    (rrun rcl0 (splitRun.take 4)).c.know 0 = bot ∧ (rrun rcl0 (splitRun.take 4)).lost 0 = active 1 1 ∧
    (rrun rcl0 (splitRun.take 4)).ownSince 0 = bot ∧ (rrun rcl0 (splitRun.take 4)).said 0 = active 1 1 ∧
    (rrun rcl0 (splitRun.take 4)).owed 1 0 = active 1 1 ∧ (rrun rcl0 (splitRun.take 4)).owed 2 0 = bot ∧
    (rrun rcl0 (splitRun.take 5)).c.wire 0 2 = [⟨[], [], [bot]⟩] ∧
    (rrun rcl0 (splitRun.take 8)).c.wire 1 0 = [⟨[], [], [active 1 1]⟩] ∧
    -- the end
    (∀ i j, i ≠ j → LinkIdle (rrun rcl0 splitRun).c 1002 i j) ∧
    wasRestarted 1 splitRun = false ∧ wasRestarted 2 splitRun = false ∧
    (rrun rcl0 splitRun).lost 0 = active 1 1 ∧
    (rrun rcl0 splitRun).c.know 0 = active 1 1 ∧ (rrun rcl0 splitRun).c.know 1 = active 1 1 ∧
    (rrun rcl0 splitRun).c.know 2 = bot ∧
    (rrun rcl0 splitRun).c.know 2 ≠ (rrun rcl0 splitRun).c.know 1 ∧
    ¬ ((rrun rcl0 splitRun).lost 0 ≤ (rrun rcl0 splitRun).c.know 2) := by decide

/-- … and it stays that way: half a minute later everybody PINGs everybody (empty payloads); all links idle
again, c still knows nothing. -/
example :
    let steps : List (RStep 3) := splitRun ++
      [ .step (.pass 0 1035 (fun _ => (0, 1036))), .step (.pass 1 1035 (fun _ => (0, 1036))),
        .step (.pass 2 1035 (fun _ => (0, 1036))) ]
    let drain : List (RStep 3) :=
      [ .step (.deliver 0 1 0), .step (.deliver 0 2 0), .step (.deliver 1 0 0), .step (.deliver 1 2 0),
        .step (.deliver 2 0 0), .step (.deliver 2 1 0) ]
    RMono (fun _ => 999) (steps ++ drain) ∧
    (∀ i j, i ≠ j → (rrun rcl0 steps).c.wire i j = [Msg.empty]) ∧
    (∀ i j, i ≠ j → LinkIdle (rrun rcl0 (steps ++ drain)).c 1035 i j) ∧
    (rrun rcl0 (steps ++ drain)).c.know 1 = active 1 1 ∧ (rrun rcl0 (steps ++ drain)).c.know 2 = bot := by decide

/-! ### `know i ≤ know r` at idle (never-restarted `i`, restarted `r`) is FALSE -/

/-- a announces, hands the SYNCs to the network for b and c, restarts; b and c RESYNC to it (snapshot: nothing),
a RESYNCs to them (nothing); THEN the two SYNCs from before the restart are applied by b and c. -/
def lateRun : List (RStep 3) :=
  [ .step (.say 0 ⟨[], [], [active 1 1]⟩),
    .step (.pass 0 1000 (fun _ => (0, 1001))),
    .restart 0 true,
    .step (.pass 1 1002 (fun _ => (0, 1003))), .step (.deliver 1 0 0),
    .step (.pass 2 1002 (fun _ => (0, 1003))), .step (.deliver 2 0 0),
    .step (.pass 0 1002 (fun _ => (0, 1003))), .step (.deliver 0 1 1), .step (.deliver 0 2 1),
    .step (.deliver 0 1 0), .step (.deliver 0 2 0) ]

example :
    RMono (fun _ => 999) lateRun ∧ (∀ i, rLastNow (fun _ => 999) lateRun i ≤ 1002) ∧
    (∀ i j, i ≠ j → LinkIdle (rrun rcl0 lateRun).c 1002 i j) ∧
    wasRestarted 1 lateRun = false ∧ wasRestarted 0 lateRun = true ∧
    (rrun rcl0 (lateRun.take 3)).c.wire 0 1 = [⟨[], [], [active 1 1]⟩] ∧
    (rrun rcl0 (lateRun.take 2)).c.know 1 = bot ∧ (rrun rcl0 lateRun).owed 1 0 = bot ∧
    (rrun rcl0 lateRun).c.know 0 = bot ∧ (rrun rcl0 lateRun).c.know 1 = active 1 1 ∧
    (rrun rcl0 lateRun).c.know 2 = active 1 1 ∧
    ¬ ((rrun rcl0 lateRun).c.know 1 ≤ (rrun rcl0 lateRun).c.know 0) := by decide

/-! ### non-vacuity: b restarts in the middle and recovers what a had announced before -/

def recoverRun : List (RStep 3) :=
  [ .step (.say 0 ⟨[], [], [active 1 1]⟩),
    .step (.pass 0 1000 (fun _ => (0, 1001))),
    .step (.deliver 0 1 0),
    .step (.deliver 0 2 0),
    .restart 1 false,                            -- b restarts; a and c handle its RESET
    .step (.pass 0 1002 (failB 1003)),           -- a's RESYNC to b fails
    .step (.pass 1 1002 (fun _ => (0, 1003))),  -- b, fresh: RESYNC to a and to c (snapshot = bot)
    .step (.deliver 1 0 0),
    .step (.deliver 1 2 0),
    .step (.pass 0 1005 (fun _ => (0, 1005))),  -- too early for a's next attempt
    .step (.pass 2 1005 (fun _ => (0, 1006))),  -- c's RESYNC to b: snapshot = active 1 1 (learnt from a)
    .step (.deliver 2 1 0),
    .step (.pass 0 1013 (fun _ => (0, 1014))),  -- a's RESYNC to b delivered
    .step (.redeliver 0 1 0),
    .step (.deliver 0 1 0) ]

def recoverL : Fin 3 → Int := fun i => [1013, 1002, 1005].getD i.val 0

example :
    RMono (fun _ => 999) recoverRun ∧ (∀ i, rLastNow (fun _ => 999) recoverRun i ≤ recoverL i) ∧
    (rrun rcl0 (recoverRun.take 4)).c.know 1 = active 1 1 ∧ (rrun rcl0 (recoverRun.take 4)).c.know 2 = active 1 1 ∧
    -- the restart
    (rrun rcl0 (recoverRun.take 5)).c.know 1 = bot ∧ (rrun rcl0 (recoverRun.take 5)).c.heard 0 1 = bot ∧
    ((rrun rcl0 (recoverRun.take 5)).c.t 1).queue = [] ∧
    ((rrun rcl0 (recoverRun.take 5)).c.t 1).peers =
      [("a", Peer.init true), ("b", Peer.init true), ("c", Peer.init true)] ∧
    ((rrun rcl0 (recoverRun.take 5)).c.t 0).peers[1]? = some ("b", ⟨0, 0, 1, false, [], [], []⟩) ∧
    (rrun rcl0 (recoverRun.take 5)).owed 0 1 = active 1 1 ∧ (rrun rcl0 (recoverRun.take 5)).owed 2 1 = active 1 1 ∧
    (rrun rcl0 (recoverRun.take 5)).owed 1 0 = bot ∧
    -- the failed RESYNC, the pass that is too early: nothing for b yet
    (rrun rcl0 (recoverRun.take 6)).c.wire 0 1 = [] ∧ (rrun rcl0 (recoverRun.take 10)).c.wire 0 1 = [] ∧
    (rrun rcl0 (recoverRun.take 10)).c.know 1 = bot ∧
    -- c's RESYNC carries what c learnt from a
    (rrun rcl0 (recoverRun.take 11)).c.wire 2 1 = [⟨[], [], [active 1 1]⟩] ∧
    (rrun rcl0 (recoverRun.take 12)).c.know 1 = active 1 1 ∧
    (rrun rcl0 (recoverRun.take 13)).c.wire 0 1 = [⟨[], [], [active 1 1]⟩] ∧
    -- the end: every link idle, b has recovered a's announcement
    (∀ i j, i ≠ j → LinkIdle (rrun rcl0 recoverRun).c (recoverL i) i j) ∧
    wasRestarted 0 recoverRun = false ∧ wasRestarted 1 recoverRun = true ∧ wasRestarted 2 recoverRun = false ∧
    (rrun rcl0 recoverRun).said 0 = active 1 1 ∧ active 1 1 ≠ bot ∧
    (rrun rcl0 recoverRun).c.heard 0 1 = active 1 1 ∧
    (rrun rcl0 recoverRun).c.know 0 = active 1 1 ∧ (rrun rcl0 recoverRun).c.know 1 = active 1 1 ∧
    (rrun rcl0 recoverRun).c.know 2 = active 1 1 := by decide

/-- … through the theorems: b knows what a ever announced, … -/
example : (rrun rcl0 recoverRun).said 0 ≤ (rrun rcl0 recoverRun).c.know 1 :=
  (restarted_instance_recovers_cluster rcl0 (fun _ => 999) rcl0_init recoverRun (by decide) recoverL (by decide)
    (by decide) 0 1 (by decide) (by decide)).1

/-- … and what c knew when b restarted (`pre` = the first four steps). -/
example : (rrun rcl0 (recoverRun.take 4)).c.know 2 ≤ (rrun rcl0 recoverRun).c.know 1 :=
  (restarted_instance_knows_survivors_partial rcl0 (fun _ => 999) rcl0_init recoverRun (by decide) recoverL (by decide)
    (by decide) (recoverRun.take 4) (recoverRun.drop 5) 1 false rfl (by decide) 2 (by decide) (by decide)).1

/-- the pair `(a, b)` of this run, as the pair model sees it: b's restart is `restartJ`. -/
example : rprojSteps 0 1 rcl0 recoverRun =
    [ .say ⟨[], [], [active 1 1]⟩, .pass 1000 (fun _ => (0, 1001)), .deliver 0, .restartJ false,
      .pass 1002 (failB 1003), .learn bot, .pass 1005 (fun _ => (0, 1005)), .pass 1013 (fun _ => (0, 1014)),
      .redeliver 0, .deliver 0 ].map id ∧
    rprojSteps 2 0 rcl0 recoverRun =
    [ .learn (active 1 1), .incoming 1 FLAG_RESET, .learn bot, .pass 1005 (fun _ => (0, 1006)) ].map id := by
  refine ⟨?_, ?_⟩ <;> rfl

/-- a restarted instance recovers what IT had announced, from the one peer it had reached — and here, because its
RESYNC to the third instance goes out AFTER that, everybody ends up knowing it (compare `splitRun`). -/
example :
    let steps : List (RStep 3) :=
      [ .step (.say 1 ⟨[], [halted], []⟩), .step (.pass 1 1000 (failC 1001)), .step (.deliver 1 0 0),
        .restart 1 false,
        .step (.pass 0 1002 (fun _ => (0, 1003))), .step (.deliver 0 1 0),     -- a's RESYNC: b has it back
        .step (.pass 1 1002 (fun _ => (0, 1003))), .step (.deliver 1 0 0), .step (.deliver 1 2 0),
        .step (.pass 2 1002 (fun _ => (0, 1003))), .step (.deliver 2 1 0) ]
    RMono (fun _ => 999) steps ∧ (∀ i, rLastNow (fun _ => 999) steps i ≤ 1002) ∧
    (∀ i j, i ≠ j → LinkIdle (rrun rcl0 steps).c 1002 i j) ∧
    (rrun rcl0 (steps.take 4)).c.know 1 = bot ∧ (rrun rcl0 (steps.take 4)).c.know 2 = bot ∧
    (rrun rcl0 steps).lost 1 = halted ∧ (rrun rcl0 steps).ownSince 1 = bot ∧ (rrun rcl0 steps).owed 0 1 = halted ∧
    (rrun rcl0 steps).c.know 0 = halted ∧ (rrun rcl0 steps).c.know 1 = halted ∧
    (rrun rcl0 steps).c.know 2 = halted := by decide

end ClusterRestart

end Bobo.Tcp
