import BoboVerif.Model.Tcp
import BoboVerif.Lemmas.Tcp
import BoboVerif.Props.C15
/-!
C07 (transport side) — the restart announcement survives every interleaving of the survivor's two threads.

The survivor's outgoing pass is `passSmall` (Model/Tcp.lean): the pass split into the steps that the
device-manager lock makes atomic (R(i) read `resets`; C(i) read `last_comms`; X(i) read the rest and
decide — for every device; then per `outlist` entry P(i) flags / pre-send / payload; the send; K(i)
bookkeeping up to `contacted`; T(i) `last_attempt = now`), with the listener thread's steps
(`incomingPeers`: a RESET-flagged message ⇒ `clear_last`) scheduled by `sched` at ANY boundary between
them, any number of them, from any device.  Everything below is for every schedule, every outcome
vector, all clocks, all periods, any number of devices, any queue-empty readings.

"A RESET from device `j` was handled during the pass" is expressed by the device's reset counter:
it is incremented by `clear_last` and by nothing else.
-/
namespace Bobo.Tcp
variable {Rec : Type}

/-! The helper lemmas (`lcOf`, `rsOf`, `Stable`, `applyInc_stable`, `sendSmall_pres`, `decideSmall_pres`,
`passSmall_pres`: a property of device `j`'s (last_comms, resets) that a handled RESET cannot falsify
survives every step of the pass; every `outlist` entry for `j` was chosen by the tree from a
`last_comms` reading related to the counter it carries) are in Lemmas/Tcp.lean. -/

/-- the small-step model is anchored to the sequential model of C15 (whose decision tree, bookkeeping and
device-manager methods are generated from the source and which is compared with the real loop):
with no listener step inside it, the pass in small steps *is* `outIter`, and its `outlist` is `decidePhase`. -/
theorem passSmall_nil (s : TState Rec) (now : Int) (snap : Msg Rec) (outcome : Nat → Nat × Int) :
    let r := passSmall s now (fun _ => s.queue.isEmpty) snap outcome (fun _ => [])
    (r.1, r.2.1) = outIter s now snap outcome ∧ r.2.2 = decidePhase s.cfg s.self now s.queue.isEmpty s.peers := by
  have hd := decideFold_nil s.cfg s.self now s.queue.isEmpty s.peers [] []
  have hid : (decidePhase s.cfg s.self now s.queue.isEmpty s.peers).map (fun it => (it.1 + 0, it.2))
      = decidePhase s.cfg s.self now s.queue.isEmpty s.peers := by
    simp
  simp only [List.length_nil, List.nil_append] at hd
  rw [hid] at hd
  simp only [passSmall, passSmallG, List.range_eq_range', hd, sendSmall_nil, applyInc, List.foldl_nil, outIter, sendPhase]
  exact ⟨trivial, trivial⟩


/-- **`reset_survives_pass`**: for every interleaving — if a RESET from device `j` was handled at any
point of the pass (its reset counter moved), then at the end of the pass either `last_comms j = 0`
(so the following passes can only choose RESYNC, see `reset_forces_resync`), or a message to `j` was
*delivered* in this very pass that had been decided after the last RESET: chosen by the tree from
`last_comms = 0` (hence a RESYNC when the clock is late, `decided_after_reset_is_resync`). -/
theorem reset_survives_pass (s : TState Rec) (now : Int) (qE : Nat → Bool) (snap : Msg Rec)
    (outcome : Nat → Nat × Int) (sched : Point → List (Nat × Nat)) (j : Nat) :
    let r := passSmall s now qE snap outcome sched
    rsOf r.1.peers j ≠ rsOf s.peers j →
      lcOf r.1.peers j = 0 ∨
      (∃ t a q st, (j, t, rsOf r.1.peers j) ∈ r.2.2 ∧ (outcome j).1 = 0 ∧
        selectMode s.cfg (now - 0) a q st = some t) := by
  intro r hne
  have := passSmall_pres
    (fun lc rs => rs ≥ rsOf s.peers j ∧ (rs ≠ rsOf s.peers j → lc = 0))
    (by intro lc rs h; exact ⟨by omega, fun _ => rfl⟩)
    (fun lc seen => seen ≠ rsOf s.peers j → lc = 0) j
    (by intro lc1 seen lc rs h1 h2 hge hs; exact h2.2 (by omega))
    (fun ol lc rs => rs ≥ rsOf s.peers j ∧
      (rs ≠ rsOf s.peers j → lc = 0 ∨ (∃ t, (j, t, rs) ∈ ol ∧ (outcome j).1 = 0)))
    (by intro ol lc rs h; exact ⟨by omega, fun _ => Or.inl rfl⟩)
    s now qE snap outcome sched
    (by intro ol lc rs h; exact ⟨h.1, fun hn => Or.inl (h.2 hn)⟩)
    (by intro ol _ t seen hmem herr lc h; exact ⟨h.1, fun _ => Or.inr ⟨t, hmem, herr⟩⟩)
    ⟨Nat.le_refl _, fun h => absurd rfl h⟩
  obtain ⟨hall, -, hq⟩ := this
  rcases hq hne with h0 | ⟨t, hmem, herr⟩
  · exact Or.inl h0
  · right
    obtain ⟨lc, a, q, st, hsel, hlc⟩ := hall t _ hmem
    rw [hlc hne] at hsel
    exact ⟨t, a, q, st, hmem, herr, hsel⟩

/-- a message chosen from `last_comms = 0` under a late clock is a RESYNC. -/
theorem decided_after_reset_is_resync (cfg : Periods) (now a : Int) (q : Bool) (st : Nat) (t : MsgType)
    (hnow : now ≥ cfg.periodResync) (h : selectMode cfg (now - 0) a q st = some t) : t = .resync := by
  rw [resync_only _ _ _ _ _ (by omega)] at h
  split at h
  · cases h; rfl
  · cases h

/-- **`reset_forces_resync`**: a pass that starts with `last_comms j = 0` (what `reset_survives_pass`
leaves behind; also a fresh device manager) and reads a late clock can, under every interleaving,
only choose RESYNC (or nothing) for `j` — never SYNC, never PING. -/
theorem reset_forces_resync (s : TState Rec) (now : Int) (qE : Nat → Bool) (snap : Msg Rec)
    (outcome : Nat → Nat × Int) (sched : Point → List (Nat × Nat)) (j : Nat)
    (h0 : lcOf s.peers j = 0) (hnow : now ≥ s.cfg.periodResync) :
    ∀ t seen, (j, t, seen) ∈ (passSmall s now qE snap outcome sched).2.2 → t = .resync := by
  have := passSmall_pres (fun lc _ => lc = 0) (by intro lc rs h; rfl) (fun lc _ => lc = 0) j
    (by intro lc1 seen lc rs _ h2 _; exact h2)
    (fun _ _ _ => True) (by intro ol lc rs _; trivial)
    s now qE snap outcome sched (by intros; trivial) (by intros; trivial) h0
  intro t seen hmem
  obtain ⟨lc, a, q, st, hsel, hlc⟩ := this.1 t seen hmem
  rw [hlc] at hsel
  exact decided_after_reset_is_resync _ _ _ _ _ _ hnow hsel

/-- **`resync_until_success`**: and `last_comms j = 0` persists, under every interleaving, until a
RESYNC to `j` is delivered: at the end of such a pass either it still holds or a RESYNC was
delivered to `j` in this pass. -/
theorem resync_until_success (s : TState Rec) (now : Int) (qE : Nat → Bool) (snap : Msg Rec)
    (outcome : Nat → Nat × Int) (sched : Point → List (Nat × Nat)) (j : Nat)
    (h0 : lcOf s.peers j = 0) (hnow : now ≥ s.cfg.periodResync) :
    let r := passSmall s now qE snap outcome sched
    lcOf r.1.peers j = 0 ∨ (∃ seen, (j, .resync, seen) ∈ r.2.2 ∧ (outcome j).1 = 0) := by
  intro r
  have := passSmall_pres (fun lc _ => lc = 0) (by intro lc rs h; rfl) (fun lc _ => lc = 0) j
    (by intro lc1 seen lc rs _ h2 _; exact h2)
    (fun ol lc _ => lc = 0 ∨ (∃ t seen, (j, t, seen) ∈ ol ∧ (outcome j).1 = 0))
    (by intro ol lc rs _; exact Or.inl rfl)
    s now qE snap outcome sched (by intro ol lc rs h; exact Or.inl h)
    (by intro ol _ t seen hmem herr lc _; exact Or.inr ⟨t, seen, hmem, herr⟩) h0
  rcases this.2 with h | ⟨t, seen, hmem, herr⟩
  · exact Or.inl h
  · right
    have ht := reset_forces_resync s now qE snap outcome sched j h0 hnow t seen hmem
    subst ht
    exact ⟨seen, hmem, herr⟩

/-- the three statements chained over two passes: a RESET from `j` handled anywhere inside pass 1
(late clock), whatever the interleavings of both passes — unless a RESYNC decided after the RESET was
already delivered in pass 1, pass 2 chooses nothing but RESYNC for `j`. -/
theorem reset_then_next_pass (s : TState Rec) (now₁ now₂ : Int) (qE₁ qE₂ : Nat → Bool) (snap₁ snap₂ : Msg Rec)
    (oc₁ oc₂ : Nat → Nat × Int) (sched₁ sched₂ : Point → List (Nat × Nat)) (j : Nat)
    (h1 : now₁ ≥ s.cfg.periodResync) (h2 : now₂ ≥ s.cfg.periodResync) :
    let r₁ := passSmall s now₁ qE₁ snap₁ oc₁ sched₁
    rsOf r₁.1.peers j ≠ rsOf s.peers j →
      (∃ seen, (j, .resync, seen) ∈ r₁.2.2 ∧ (oc₁ j).1 = 0) ∨
      (∀ t seen, (j, t, seen) ∈ (passSmall r₁.1 now₂ qE₂ snap₂ oc₂ sched₂).2.2 → t = .resync) := by
  intro r₁ hne
  rcases reset_survives_pass s now₁ qE₁ snap₁ oc₁ sched₁ j hne with h0 | ⟨t, a, q, st, hmem, herr, hsel⟩
  · right
    exact reset_forces_resync r₁.1 now₂ qE₂ snap₂ oc₂ sched₂ j h0 h2
  · left
    have := decided_after_reset_is_resync _ _ _ _ _ _ h1 hsel
    subst this
    exact ⟨_, hmem, herr⟩

/-! ### the restarted instance -/

/-- **`restart_announces`**: a fresh instance (every device manager as constructed, `flag_reset = True`):
(1) under every interleaving its first pass with a late clock chooses nothing but RESYNC for any
device; (2) sequentially, as soon as the clock is also `≥ attempt_resync`, the first pass does hand
a RESYNC carrying the RESET flag to the wire for every other device; (3) the flag is on every
message to a device until one is delivered, and on none after (`flag_until_delivered`). -/
theorem restart_announces (self : String) (cfg : Periods) (urns : List String) (queue : List (Msg Rec))
    (now : Int) (snap : Msg Rec) (outcome : Nat → Nat × Int) (j : Nat) (u : String)
    (hu : urns[j]? = some u) (hnow : now ≥ cfg.periodResync) :
    let s : TState Rec := ⟨self, cfg, queue, urns.map (fun u => (u, Peer.init true))⟩
    (∀ qE sched t seen, (j, t, seen) ∈ (passSmall s now qE snap outcome sched).2.2 → t = .resync) ∧
    (u ≠ self → now ≥ cfg.attemptResync →
      ∃ w, (outIter s now snap outcome).2.find? (fun w => w.peer == j) = some w ∧
        w.typ = .resync ∧ w.flags = FLAG_RESET ∧ w.payload = snap) ∧
    (∀ steps, FlagOK true (jlog j (run s steps))) := by
  intro s
  have hj : s.peers[j]? = some (u, Peer.init true) := by simp [s, hu]
  refine ⟨?_, ?_, ?_⟩
  · intro qE sched t seen hmem
    exact reset_forces_resync s now qE snap outcome sched j (by simp [lcOf, hj, Peer.init]) hnow t seen hmem
  · intro hself hatt
    have hw := outIter_wire s now snap outcome j
    rw [hj] at hw
    simp only [Option.bind_some] at hw
    have hd : decideEntry s.cfg s.self now s.queue.isEmpty (u, (Peer.init true : Peer Rec)) = some (.resync, 0) := by
      unfold decideEntry
      simp only [hself, if_false, s]
      rw [(fresh_first_is_resync cfg now _ hnow hatt).1]
      rfl
    rw [hd] at hw
    exact ⟨_, hw, rfl, rfl, rfl⟩
  · intro steps
    exact flag_until_delivered s steps j _ hj

/-! ### non-vacuity, and the defect that was there (F5) -/

/-- survivor "a" with peer "b" in contact (`last_comms = 1000`), one queued change, default periods. -/
def c07State : TState Nat :=
  ⟨"a", Periods.default, [⟨[7], [], []⟩], [("a", Peer.init false), ("b", ⟨1000, 1000, 0, false, [], [], []⟩)]⟩

/-- the RESET from "b" (device index 1) is handled while the SYNC to "b" is being sent. -/
def c07Sched : Point → List (Nat × Nat)
  | .duringSend 1 => [(1, 1)]
  | _ => []

/-- current code: the SYNC is delivered but not recorded as contact; `last_comms` stays 0, the counter
moved — the hypotheses of `reset_survives_pass` / `reset_forces_resync` are met by a real execution. -/
example :
    let r := passSmall c07State 1001 (fun _ => false) Msg.empty (fun _ => (0, 1002)) c07Sched
    r.2.2 = [(1, .sync, 0)] ∧ r.1.peers[1]? = some ("b", ⟨0, 1002, 1, false, [], [], []⟩) ∧
    rsOf r.1.peers 1 ≠ rsOf c07State.peers 1 ∧ lcOf r.1.peers 1 = 0 := by decide

/-- and the next pass (late clock, 10 s after the attempt) sends the RESYNC. -/
example :
    let r := passSmall c07State 1001 (fun _ => false) Msg.empty (fun _ => (0, 1002)) c07Sched
    (passSmall r.1 1012 (fun _ => true) Msg.empty (fun _ => (0, 1012)) (fun _ => [])).2.2 = [(1, .resync, 1)] := by
  decide

/-- **`old_overwrites_reset`** (finding F5, the bookkeeping before the fix): the same interleaving —
decide SYNC; RESET handled during the send; send ok; `last_comms = now` — leaves `last_comms = 1002`:
the announcement is lost, the next passes choose nothing / PING / SYNC for "b", and no RESYNC is sent
until a whole `period_resync` of silence has passed (never, while ordinary contact continues). -/
theorem old_overwrites_reset :
    let r := passSmallG false c07State 1001 (fun _ => false) Msg.empty (fun _ => (0, 1002)) c07Sched
    rsOf r.1.peers 1 ≠ rsOf c07State.peers 1 ∧ lcOf r.1.peers 1 = 1002 ∧ r.2.2 = [(1, .sync, 0)] ∧
    (passSmallG false r.1 1012 (fun _ => true) Msg.empty (fun _ => (0, 1012)) (fun _ => [])).2.2 = [] ∧
    (passSmallG false r.1 1012 (fun _ => false) Msg.empty (fun _ => (0, 1012)) (fun _ => [])).2.2 = [(1, .sync, 1)] ∧
    (passSmallG false r.1 1040 (fun _ => true) Msg.empty (fun _ => (0, 1040)) (fun _ => [])).2.2 = [(1, .ping, 1)] := by
  decide

end Bobo.Tcp
