import BoboVerif.Model.Locks
import BoboVerif.Lemmas.Locks
import BoboVerif.Gen.Locks
/-!
C08 — No deadlock between engine, replication and input threads.

Model: `Model/Locks.lean` (re-entrant locks with owner + count, thread
programs of acquire/release actions, arbitrary interleaving, `Stuck`).
Helper lemmas (invariant, its preservation, the core "not stuck" lemma,
soundness of the finite checker): `Lemmas/Locks.lean`.
`Bobo.Gen.Locks.acqs` / `gate` are regenerated from /repo by
`translate/locks.py` on every run.

Everything below is unbounded in the number of threads, the number of lock
instances and the length of the programs.
-/
namespace Bobo.Locks

/-- **gated rank theorem** (generic).  If every thread program is balanced and the
system follows the gated rank discipline for some rank `r` and gate `g`
(a lock not yet held is acquired either while everything held has smaller rank, or
while holding the gate, provided whoever nests under that lock also holds the gate),
then no state reachable by any interleaving is stuck. -/
theorem gated_rank_no_deadlock (S : Sys) (hb : ∀ t, t < S.n → Balanced (S.prog t))
    (r : Lock → Nat) (g : Lock) (hd : Disciplined S r g) :
    ∀ s, Reachable S s → ¬ Stuck S s :=
  fun _ hr => not_stuck_of_inv (inv_reachable hr) hb r g hd

/-- **rank theorem** (generic, the classical statement): if there is `rank : Lock → Nat`
such that every thread only acquires a lock it does not already hold while every lock
it holds has smaller rank (re-entrant re-acquisition is always allowed), then no
reachable state is stuck. -/
theorem rank_no_deadlock (S : Sys) (hb : ∀ t, t < S.n → Balanced (S.prog t))
    (rank : Lock → Nat) (hd : RankDisciplined S rank) :
    ∀ s, Reachable S s → ¬ Stuck S s :=
  gated_rank_no_deadlock S hb rank 0 (fun t k x ht hna => Or.inl (hd t k x ht hna))

/-- non-vacuity: a concrete two-thread system (nested `with 0: with 1:` against `with 1:`)
satisfies the hypotheses. -/
example : ∀ s, Reachable nvSys s → ¬ Stuck nvSys s :=
  rank_no_deadlock nvSys
    (by intro t ht
        have : t = 0 ∨ t = 1 := by have : t < 2 := ht; omega
        rcases this with rfl | rfl
        · exact nvA_balanced
        · exact nvB_balanced)
    (fun l => l) nv_disciplined

/-- mutual exclusion is an invariant of every reachable state (not an assumption). -/
theorem mutual_exclusion (S : Sys) (s : State) (hr : Reachable S s) {t t' : Tid} {l : Lock}
    (ht : t < S.n) (ht' : t' < S.n)
    (h : 0 < heldAt (S.prog t) (s.pc t) l) (h' : 0 < heldAt (S.prog t') (s.pc t') l) : t = t' :=
  (inv_reachable hr).excl ht ht' h h'

/-- soundness of the finite checker: a table accepted by `checkAcqs` under a class
rank `rc` makes every conforming system disciplined (rank of an instance = rank of its class). -/
theorem checkAcqs_sound {S : Sys} {cls : Lock → Nat} {gate : Nat} {g : Lock} {es : List Entry}
    {rc : Nat → Nat} (hc : checkAcqs rc gate es = true) (hconf : Conforms S cls gate g es) :
    Disciplined S (fun l => rc (cls l)) g :=
  disciplined_of_check hc hconf

/-- `checkRanking`-style soundness for plain edge lists. -/
theorem ranking_sound {r : Nat → Nat} {edges : List (Nat × Nat)} (h : isRanking r edges = true) :
    ∀ e, e ∈ edges → r e.1 < r e.2 :=
  isRanking_sound h

theorem topoRank_is_ranking {edges : List (Nat × Nat)} {r : Nat → Nat} (h : topoRank edges = some r) :
    ∀ e, e ∈ edges → r e.1 < r e.2 :=
  topoRank_sound h

/-- **the generated lock-acquisition table has a ranking**: under the rank computed by
relaxation over its order constraints, every entry is ascending or excused by the gate
(`BoboEngine._lock`).  Kernel-evaluated on the concrete finite table. -/
theorem graph_ranked :
    checkAcqs (rankOf Bobo.Gen.Locks.gate Bobo.Gen.Locks.acqs) Bobo.Gen.Locks.gate Bobo.Gen.Locks.acqs = true := by
  decide +kernel

/-- the order constraints of the generated table are acyclic: the computed table is a ranking of them. -/
theorem graph_edges_ranked :
    isRanking (rankOf Bobo.Gen.Locks.gate Bobo.Gen.Locks.acqs)
      (strictEdges Bobo.Gen.Locks.gate Bobo.Gen.Locks.acqs) = true := by
  decide +kernel

/-- **C08 for bobocep**: any number of threads, over any number of lock instances
(`cls` maps an instance to its `Class.attr`, `g` is the engine-lock instance), whose programs
are balanced and whose (held set → newly acquired lock) pairs are all covered by the table
extracted from the source, can never reach a stuck state. -/
theorem bobocep_no_deadlock (S : Sys) (cls : Lock → Nat) (g : Lock)
    (hb : ∀ t, t < S.n → Balanced (S.prog t))
    (hconf : Conforms S cls Bobo.Gen.Locks.gate g Bobo.Gen.Locks.acqs) :
    ∀ s, Reachable S s → ¬ Stuck S s :=
  gated_rank_no_deadlock S hb _ g (checkAcqs_sound graph_ranked hconf)

/-- **threads wait only for locks**: the source contains no queue operation that can wait for another
thread — every `Queue.put` is the nowait form or sits inside a `not full()` guard on the same queue under the
lock that serialises its producers, and there is no blocking `Queue.get` (the table is generated from every
call reachable from the thread roles' entry points).  This is the side condition under which `Stuck`
(every unfinished thread waits for a LOCK) is the only way for bobocep's threads to block each other: a
blocking `put` on a bounded queue while holding a lock its consumer needs would be a deadlock the lock graph
does not show. -/
theorem no_queue_waits : Bobo.Gen.Locks.queueWaits = [] := by decide

/-- **no thread of the property's own roles waits for another thread to end while it holds a lock** (`Thread.join` /
`Pool.join` under a lock: the joined thread may need that very lock, or a lock of a third thread that needs it, before it
can end — a wait the lock graph does not show either).  The table is generated from the source along the call graph of
every role's entry points. -/
theorem no_join_under_lock : Bobo.Gen.Locks.joinWaits = [] := by decide

/-- **whoever waits for a thread to end holds no lock that thread ever takes** — for EVERY joining thread, the application's
controller thread included (`close()` then `join()` is the documented shutdown): for each generated (lock held at a join,
role of the thread waited for) no acquisition of that role is of that lock.  Otherwise the joined thread waits for the lock
and its holder waits for the thread: two parties, one lock, no lock-order edge to show it. -/
theorem join_targets_never_take_held_lock :
    ∀ j ∈ Bobo.Gen.Locks.joinHolds, ∀ a ∈ Bobo.Gen.Locks.roleAcqs, a.1 = j.2.1 → a.2 ≠ j.1 := by decide

/-- non-vacuity: there ARE joins under a lock (the controller's), and the threads they wait for do take locks -/
example : Bobo.Gen.Locks.joinHolds ≠ [] ∧ (∃ a ∈ Bobo.Gen.Locks.roleAcqs, a.1 = "dist_incoming") := by decide

/-- **methods are atomic steps**: every field of a lock-owning class that is written after its construction is read and
written only with one of the object's own locks held, on every path from every thread role's entry point (the table of
exceptions, generated from the source by following the call graph with the set of held locks, has one entry).  This is what
entitles the sequential models of the other properties (C02, C12, C15, C16, C18, C20: one public method = one step of
the model) to speak about executions with several threads: two threads cannot interleave INSIDE a method's
read-modify-write of the object's state.  The one exception is listed, not hidden: `BoboDistributedTCP._update` walks
the subscriber list without the lock under which `subscribe()` appends to it (subscribing while the distributed
thread runs may or may not reach the message being dispatched; no model depends on it). -/
theorem fields_only_under_own_lock :
    ∀ r ∈ Bobo.Gen.Locks.unlockedAccesses, (r.1, r.2.1, r.2.2.1) = ("BoboDistributedTCP", "_subscribers", "r") := by
  decide

/-! ### non-vacuity, and the pinned-tree defect (F6) as a counter-lemma -/

/-- engine-like thread: `with E: with R: with D: …; with P: with R: …` (descends P → R under the gate). -/
def demoEngine : Prog :=
  [.acq 0, .acq 1, .acq 2, .rel 2, .rel 1, .acq 3, .acq 1, .rel 1, .rel 3, .rel 0]
/-- feeder: `with R: …`; replication thread: `with D: with P: …`. -/
def demoFeeder : Prog := [.acq 1, .rel 1]
def demoDist : Prog := [.acq 2, .acq 3, .rel 3, .rel 2]

def demoSys : Sys := ⟨3, fun t => if t = 0 then demoEngine else if t = 1 then demoFeeder else demoDist⟩

/-- the table of the demo system (E=0 gate, R=1, D=2, P=3): the cycle R → D → P → R is excused by the gate. -/
def demoTable : List Entry := [([], 0), ([0], 1), ([0, 1], 2), ([0], 3), ([0, 3], 1), ([], 1), ([], 2), ([2], 3)]

example : checkAcqs (rankOf 0 demoTable) 0 demoTable = true := by decide +kernel
/-- without the gate the same table is rejected (the plain rank discipline does not hold for it). -/
example : checkAcqs (rankOf 99 demoTable) 99 demoTable = false := by decide +kernel

/-- the two threads of finding F6 (pinned tree): engine thread `with D: with L:`
(`BoboDecider.update` → `BoboDistributedTCP.on_decider_update`), distributed main thread
`with L: with D:` (`run` → `_update` → `BoboDecider.on_distributed_update`). -/
def f6Sys : Sys := ⟨2, fun t => if t = 0 then [.acq 1, .acq 6, .rel 6, .rel 1] else [.acq 6, .acq 1, .rel 1, .rel 6]⟩

def f6Stuck : State :=
  { owner := upd (upd (fun _ => none) 1 (some 0)) 6 (some 1),
    count := upd (upd (fun _ => 0) 1 1) 6 1,
    pc := upd (upd (fun _ => 0) 0 1) 1 1 }

/-- **F6 counter-lemma**: the lock inversion of the pinned tree reaches a stuck state. -/
theorem f6_inversion_deadlocks : ∃ s, Reachable f6Sys s ∧ Stuck f6Sys s := by
  refine ⟨f6Stuck, ?_, ?_⟩
  · have s1 : Reachable f6Sys
        { owner := upd (fun _ => none) 1 (some 0), count := upd (fun _ => 0) 1 1, pc := upd (fun _ => 0) 0 1 } :=
      Reachable.step Reachable.init ⟨0, by decide, rfl⟩
    exact Reachable.step s1 ⟨1, by decide, rfl⟩
  · refine ⟨⟨0, by decide, by unfold Unfinished; decide⟩, ?_⟩
    intro t ht
    have : t = 0 ∨ t = 1 := by
      have : t < 2 := ht
      omega
    rcases this with rfl | rfl <;> rfl

/-- and the table of the pinned tree (L → D by the distributed main thread, D → L by the engine
thread under the gate E = 7) is rejected by the checker: the gate does not excuse it because the
distributed main thread nests under `_lock_local` without holding the engine lock. -/
theorem f6_table_rejected :
    checkAcqs (rankOf 7 [([], 6), ([6], 1), ([], 7), ([7], 1), ([1, 7], 6)]) 7
      [([], 6), ([6], 1), ([], 7), ([7], 1), ([1, 7], 6)] = false := by
  decide +kernel

end Bobo.Locks
