import BoboVerif.Props.C01
import BoboVerif.Lemmas.DeciderOrder
/-!
C01, decider level — the ORDER in which one `update()` (`localStep`) treats an event:

  1. every run stored before the event is offered the event exactly once, and what happens to it is what
     `process` decides for that run alone (`old_runs_offered_once`);
  2. only then may new runs start: a run started by the event holds the freshly started state (index 1,
     history `[e]` in the first block's group) — it is not offered the event again — and whether it starts is
     decided by the first block's predicates and, for a singleton pattern, by the bucket AS THE RUNS PHASE
     LEFT IT (`new_runs_after_old`, `new_run_decided_after_old_runs`, `new_run_iff`,
     `singleton_starts_no_new_run_while_it_has_one`, `singleton_restarts_on_completing_event`);
  3. a one-block pattern completes at once and is never stored (`one_block_pattern_completes_at_once`);
  4. finished runs are reported once and are gone (`finished_reported_once`, `finished_reported_once_of_fresh`).

(The run-level block rules are in `Props/C01.lean`; this file sits above `Lemmas/LocalRuns` … `Lemmas/IdInv`,
which import `Props/C12`/`C13` and hence `Props/C01`, so it cannot be part of `Props/C01.lean` itself.)
-/
namespace Bobo.Decider
open Bobo.Run Bobo.Lattice
set_option linter.unusedSimpArgs false
set_option linter.unusedVariables false
variable {ε : Type}

/-! ### 1. old runs: each offered the event once, independently -/

/-- **every run stored before the event is offered the event exactly once, and its outcome is the one
`process` gives for that run alone.**  `fate e r` and `offered e r` are functions of `process r.pat r.run e`
only — not of the other stored runs, not of the configured patterns.  Exactly one of four things happens
(`match` on `fate e r`):

* kept — the run is exactly as it was, still stored under its key, and the notification does not mention it;
* advanced — the key holds `offered e r` (= the run after ONE `process`), still live; `updated` has exactly
  one record with its identifier: that run's serialisation; `completed` / `halted` do not mention it;
* completed — no key of the table holds the identifier any more; `completed` has exactly one record with it
  (the serialisation of the processed run); `halted` / `updated` do not mention it (the model, like the code's
  `runs_updated`, does not list a finished run as updated);
* halted — likewise with `halted`.

Hypotheses: the table is a well-formed nest of dicts (`TableWF`), no identifier is stored under two keys
(`OneKey`), identifiers the generator has not handed out yet are not in the table (`FreshIds`). -/
theorem old_runs_offered_once (c : Cfg ε) (s s' : DState ε) (e : ε) (nt : Notif ε) (ch : Bool)
    (hwf : TableWF s.table) (huniq : OneKey s.table) (hfresh : FreshIds c s)
    (hstep : localStep c s e = some (s', nt, ch))
    (ph pa id : String) (r : LRun ε) (hr : s.table.runAt ph pa id = some r) :
    match fate e r with
    | .kept =>
        offered e r = r ∧ s'.table.runAt ph pa id = some r ∧
        mentions nt.completed id = [] ∧ mentions nt.halted id = [] ∧ mentions nt.updated id = []
    | .advanced =>
        s'.table.runAt ph pa id = some (offered e r) ∧ (offered e r).run.halted = false ∧
        mentions nt.updated id = [(offered e r).ser ph] ∧
        mentions nt.completed id = [] ∧ mentions nt.halted id = []
    | .completed =>
        (∀ ph' pa', s'.table.runAt ph' pa' id = none) ∧
        (offered e r).run.halted = true ∧ (offered e r).run.isComplete r.pat.blocks.length = true ∧
        mentions nt.completed id = [(offered e r).ser ph] ∧
        mentions nt.halted id = [] ∧ mentions nt.updated id = []
    | .halted =>
        (∀ ph' pa', s'.table.runAt ph' pa' id = none) ∧
        (offered e r).run.halted = true ∧ (offered e r).run.isComplete r.pat.blocks.length = false ∧
        mentions nt.halted id = [(offered e r).ser ph] ∧
        mentions nt.completed id = [] ∧ mentions nt.updated id = [] := by
  obtain ⟨q1, q2, q3, q4⟩ := localStep_old_run_id c s s' e nt ch hwf huniq hfresh hstep ph pa id r hr
  have hcf := contrib_by_fate e ph r
  -- once the key is empty, no other key can hold the identifier
  have hgone : s'.table.runAt ph pa id = none → ∀ ph' pa', s'.table.runAt ph' pa' id = none := by
    intro hn ph' pa'
    cases hx : s'.table.runAt ph' pa' id with
    | none => rfl
    | some r' =>
      exfalso
      rcases localStep_key_origin c s s' e nt ch hwf hstep ph' pa' id r' hx with h | ⟨k, k1, _, k3⟩
      · obtain ⟨r0, hr0⟩ := (isSome_iff_exists _).mp h
        obtain ⟨e1, e2⟩ := huniq _ _ _ _ _ _ _ hr hr0
        subst e1 e2
        rw [hn] at hx; cases hx
      · have := hfresh k k1 ph pa
        rw [← k3, hr] at this
        cases this
  unfold mentions
  cases hf : fate e r with
  | kept =>
    rw [hf] at hcf
    rw [hcf] at q1 q2 q3 q4
    have hu := fate_kept_unchanged e r hf
    simp only
    exact ⟨hu, by rw [q1, hu]; rfl, q2, q3, q4⟩
  | advanced =>
    rw [hf] at hcf
    rw [hcf] at q1 q2 q3 q4
    simp only
    exact ⟨q1, (fate_advanced e r hf).2, q4, q2, q3⟩
  | completed =>
    rw [hf] at hcf
    rw [hcf] at q1 q2 q3 q4
    obtain ⟨_, f2, f3⟩ := fate_completed e r hf
    simp only
    exact ⟨hgone q1, f2, f3, q2, q3, q4⟩
  | halted =>
    rw [hf] at hcf
    rw [hcf] at q1 q2 q3 q4
    obtain ⟨_, f2, f3⟩ := fate_halted e r hf
    simp only
    exact ⟨hgone q1, f2, f3, q3, q2, q4⟩

/-! ### 2. new runs: started after the old runs were processed, not offered the event again -/

/-- **a run started by the event** (stored under a key that held nothing before) is the freshly started run of
a configured pattern with at least two blocks whose first block accepts the event: index 1, history exactly
`[e]` in the first block's group, live; its identifier is `c.idOf k` for a counter value `k` of this step; it is
announced as updated.  Its stored state is the freshly started one — `_check_against_patterns` runs after
`_check_against_runs`, so the new run is not offered the event a second time.  (`_check_against_patterns`
starts every run this way, whatever the first block's flags.) -/
theorem new_runs_after_old (c : Cfg ε) (s s' : DState ε) (e : ε) (nt : Notif ε) (ch : Bool)
    (hwf : TableWF s.table) (hstep : localStep c s e = some (s', nt, ch))
    (ph pa id : String) (r' : LRun ε)
    (hnew : s'.table.runAt ph pa id = some r') (hold : s.table.runAt ph pa id = none) :
    ∃ k P p b0 b1 rest, s.nextId ≤ k ∧ k < s'.nextId ∧ id = c.idOf k ∧
      P ∈ c.phenomena ∧ P.name = ph ∧ p ∈ P.patterns ∧ p.name = pa ∧
      p.blocks = b0 :: b1 :: rest ∧ startMatch b0.preds e = true ∧
      r'.pat = p ∧
      r'.run = { id := c.idOf k, idx := 1, hist := [(b0.group, [e])], halted := false } ∧
      r'.ser ph ∈ nt.updated := by
  obtain ⟨news, h1, h2⟩ := localStep_bucket c s s' e nt ch hstep ph pa
  rw [runAt_def, h1, List.find?_append] at hnew
  cases hf : ((checkAgainstRuns e s.table).1.runsFrom ph pa).find? (fun r => r.run.id == id) with
  | some r1 =>
    have := checkAgainstRuns_kept_old e s.table hwf ph pa id r1 (by rw [runAt_def]; exact hf)
    rw [hold] at this; cases this
  | none =>
    rw [hf] at hnew
    simp only [Option.none_or] at hnew
    have hm := List.mem_of_find?_eq_some hnew
    have hid : r'.run.id = id := by simpa using List.find?_some hnew
    obtain ⟨k, p, b0, b1, rest, k1, k2, k3, k4, k5, k6, k7, k8⟩ := h2 r' hm
    obtain ⟨P, hP, hPn, hpP⟩ := of_mem_flatPats c ph p k3
    refine ⟨k, P, p, b0, b1, rest, k1, k2, ?_, hP, hPn, hpP, k4, k5, k6, ?_, ?_, k8⟩
    · rw [← hid, k7]; rfl
    · rw [k7]
    · rw [k7]
      simp [newRun, completeAt, k5]

/-- **whether a pattern starts a run is decided on the table AS `_check_against_runs` LEFT IT**
(pairwise different pattern keys; pattern with at least two blocks): after `update()` the pattern's bucket is
what the runs phase kept in it, followed — iff the first block accepts the event and the pattern is not a
singleton whose bucket is still non-empty after the runs phase — by one freshly started run. -/
theorem new_run_decided_after_old_runs (c : Cfg ε) (hnd : PatKeysNodup c) (s s' : DState ε) (e : ε)
    (nt : Notif ε) (ch : Bool) (hstep : localStep c s e = some (s', nt, ch))
    (P : Phen ε) (hP : P ∈ c.phenomena) (p : Pattern ε) (hp : p ∈ P.patterns)
    (b0 b1 : Block ε) (rest : List (Block ε)) (hb : p.blocks = b0 :: b1 :: rest) :
    ∃ k, s.nextId ≤ k ∧ k ≤ s'.nextId ∧
      s'.table.runsFrom P.name p.name = (checkAgainstRuns e s.table).1.runsFrom P.name p.name ++
        (if startMatch b0.preds e = true ∧
            (p.singleton = false ∨ (checkAgainstRuns e s.table).1.runsFrom P.name p.name = [])
         then [{ run := newRun (c.idOf k) p b0.group e, pat := p }] else []) ∧
      (startMatch b0.preds e = true ∧
            (p.singleton = false ∨ (checkAgainstRuns e s.table).1.runsFrom P.name p.name = []) → k < s'.nextId) := by
  obtain ⟨k, k1, k2, k3, k4, _, _⟩ := localStep_pattern_exact c hnd s s' e nt ch hstep P hP p hp
  refine ⟨k, k1, k2, ?_, ?_⟩
  · rw [k4]
    congr 1
    unfold startOf
    simp only [hb, List.isEmpty_cons, Bool.false_eq_true, if_false]
    by_cases hm : startMatch b0.preds e = true
    · simp only [hm, if_true, true_and]
      cases hsg : p.singleton <;>
        cases hl : (checkAgainstRuns e s.table).1.runsFrom P.name p.name <;> simp
    · simp [hm]
  · intro hcond
    apply k3
    unfold startOf
    simp only [hb, List.isEmpty_cons, Bool.false_eq_true, if_false, hcond.1, if_true]
    rcases hcond.2 with h | h
    · simp [h]
    · simp [h]

/-- **a pattern starts a new run iff its first block accepts the event and it is not a singleton that still
has a run after the old runs were processed.**  "New run" = a run stored after the step under an identifier the
bucket did not hold before. -/
theorem new_run_iff (c : Cfg ε) (hnd : PatKeysNodup c) (s s' : DState ε) (e : ε) (nt : Notif ε) (ch : Bool)
    (hwf : TableWF s.table) (hfresh : FreshIds c s) (hstep : localStep c s e = some (s', nt, ch))
    (P : Phen ε) (hP : P ∈ c.phenomena) (p : Pattern ε) (hp : p ∈ P.patterns)
    (b0 b1 : Block ε) (rest : List (Block ε)) (hb : p.blocks = b0 :: b1 :: rest) :
    (∃ id r', s'.table.runAt P.name p.name id = some r' ∧ s.table.runAt P.name p.name id = none) ↔
    (startMatch b0.preds e = true ∧
      (p.singleton = false ∨ (checkAgainstRuns e s.table).1.runsFrom P.name p.name = [])) := by
  obtain ⟨k, k1, k2, k3, k4⟩ := new_run_decided_after_old_runs c hnd s s' e nt ch hstep P hP p hp b0 b1 rest hb
  constructor
  · rintro ⟨id, r', hnew, hold⟩
    rw [runAt_def, k3, List.find?_append] at hnew
    cases hf : ((checkAgainstRuns e s.table).1.runsFrom P.name p.name).find? (fun r => r.run.id == id) with
    | some r1 =>
      have := checkAgainstRuns_kept_old e s.table hwf P.name p.name id r1 (by rw [runAt_def]; exact hf)
      rw [hold] at this; cases this
    | none =>
      rw [hf] at hnew
      split at hnew
      · assumption
      · simp at hnew
  · intro hcond
    have hk := k4 hcond
    refine ⟨c.idOf k, { run := newRun (c.idOf k) p b0.group e, pat := p }, ?_, hfresh k k1 _ _⟩
    rw [runAt_def, k3, List.find?_append, if_pos hcond]
    cases hf : ((checkAgainstRuns e s.table).1.runsFrom P.name p.name).find? (fun r => r.run.id == c.idOf k) with
    | some r1 =>
      have := checkAgainstRuns_kept_old e s.table hwf P.name p.name (c.idOf k) r1 (by rw [runAt_def]; exact hf)
      rw [hfresh k k1] at this; cases this
    | none => simp [newRun]

/-- the bucket of a (phenomenon, pattern) key that holds exactly one run, after `_check_against_runs`. -/
theorem runs_phase_single (e : ε) (t : Table ε) (ph pa : String) (r : LRun ε) (hbucket : t.runsFrom ph pa = [r]) :
    (checkAgainstRuns e t).1.runsFrom ph pa = (contrib e ph r).keep := by
  rw [runsFrom_checkAgainstRuns, hbucket, procBucket_cons, procBucket_nil]
  simp [RunsAcc.append]

/-- **a singleton pattern starts no new run while it has one**: its single run is kept or advanced by the
event — then the bucket holds that run (offered the event once) and nothing else, even if the first block
accepts the event. -/
theorem singleton_starts_no_new_run_while_it_has_one (c : Cfg ε) (hnd : PatKeysNodup c) (s s' : DState ε) (e : ε)
    (nt : Notif ε) (ch : Bool) (hstep : localStep c s e = some (s', nt, ch))
    (P : Phen ε) (hP : P ∈ c.phenomena) (p : Pattern ε) (hp : p ∈ P.patterns) (hsg : p.singleton = true)
    (b0 b1 : Block ε) (rest : List (Block ε)) (hb : p.blocks = b0 :: b1 :: rest)
    (r : LRun ε) (hbucket : s.table.runsFrom P.name p.name = [r])
    (hstay : fate e r = .kept ∨ fate e r = .advanced) :
    s'.table.runsFrom P.name p.name = [offered e r] := by
  obtain ⟨k, _, _, k3, _⟩ := new_run_decided_after_old_runs c hnd s s' e nt ch hstep P hP p hp b0 b1 rest hb
  have hkeep : (checkAgainstRuns e s.table).1.runsFrom P.name p.name = [offered e r] := by
    rw [runs_phase_single e s.table P.name p.name r hbucket, contrib_by_fate]
    rcases hstay with h | h <;> rw [h]
  rw [k3, hkeep]
  simp [hsg]

/-- **a singleton whose run finishes on an event CAN start a new run on the same event**: the singleton gate
looks at the bucket as `_check_against_runs` left it, and the finished run is already gone from it.  The old
run is reported (completed or halted), the bucket then holds exactly the freshly started run. -/
theorem singleton_restarts_on_completing_event (c : Cfg ε) (hnd : PatKeysNodup c) (s s' : DState ε) (e : ε)
    (nt : Notif ε) (ch : Bool) (hwf : TableWF s.table) (hstep : localStep c s e = some (s', nt, ch))
    (P : Phen ε) (hP : P ∈ c.phenomena) (p : Pattern ε) (hp : p ∈ P.patterns) (hsg : p.singleton = true)
    (b0 b1 : Block ε) (rest : List (Block ε)) (hb : p.blocks = b0 :: b1 :: rest)
    (hm : startMatch b0.preds e = true)
    (r : LRun ε) (hbucket : s.table.runsFrom P.name p.name = [r])
    (hfin : fate e r = .completed ∨ fate e r = .halted) :
    ∃ k, s.nextId ≤ k ∧ k < s'.nextId ∧
      s'.table.runsFrom P.name p.name = [{ run := newRun (c.idOf k) p b0.group e, pat := p }] ∧
      ((fate e r = .completed ∧ (offered e r).ser P.name ∈ nt.completed) ∨
       (fate e r = .halted ∧ (offered e r).ser P.name ∈ nt.halted)) := by
  obtain ⟨k, k1, _, k3, k4⟩ := new_run_decided_after_old_runs c hnd s s' e nt ch hstep P hP p hp b0 b1 rest hb
  have hkeep : (checkAgainstRuns e s.table).1.runsFrom P.name p.name = [] := by
    rw [runs_phase_single e s.table P.name p.name r hbucket, contrib_by_fate]
    rcases hfin with h | h <;> rw [h]
  have hcond : startMatch b0.preds e = true ∧
      (p.singleton = false ∨ (checkAgainstRuns e s.table).1.runsFrom P.name p.name = []) := ⟨hm, .inr hkeep⟩
  refine ⟨k, k1, k4 hcond, ?_, ?_⟩
  · rw [k3, if_pos hcond, hkeep]; rfl
  · -- the finished run's record
    have hr : s.table.runAt P.name p.name r.run.id = some r := by
      rw [runAt_def, hbucket]; simp
    obtain ⟨_, p2, p3, _⟩ := checkAgainstRuns_perkey e s.table hwf P.name p.name r.run.id
    rw [hr] at p2 p3
    simp only [contribOf] at p2 p3
    obtain ⟨acc, _, _, _, hc, hh, _⟩ := localStep_decomp c s s' e nt ch hstep
    rw [contrib_by_fate] at p2 p3
    rcases hfin with h | h
    · left
      rw [h] at p2
      refine ⟨h, ?_⟩
      rw [hc]
      apply List.mem_append.mpr; left
      have : (offered e r).ser P.name ∈ (checkAgainstRuns e s.table).2.1.filter (keyMatch P.name p.name r.run.id) := by
        rw [p2]; simp
      exact (List.mem_filter.mp this).1
    · right
      rw [h] at p3
      refine ⟨h, ?_⟩
      rw [hh]
      have : (offered e r).ser P.name ∈ (checkAgainstRuns e s.table).2.2.1.filter (keyMatch P.name p.name r.run.id) := by
        rw [p3]; simp
      exact (List.mem_filter.mp this).1

/-- **nothing else is in the table**: a run stored after `update()` is an old run after being offered the event
once (kept or advanced), or a run started by the event (then `new_runs_after_old` describes it). -/
theorem stored_runs_old_or_new (c : Cfg ε) (s s' : DState ε) (e : ε) (nt : Notif ε) (ch : Bool)
    (hwf : TableWF s.table) (hfresh : FreshIds c s) (hstep : localStep c s e = some (s', nt, ch))
    (ph pa id : String) (r' : LRun ε) (h : s'.table.runAt ph pa id = some r') :
    (∃ r, s.table.runAt ph pa id = some r ∧ r' = offered e r ∧ (fate e r = .kept ∨ fate e r = .advanced)) ∨
    (s.table.runAt ph pa id = none ∧ ∃ k, s.nextId ≤ k ∧ k < s'.nextId ∧ id = c.idOf k) := by
  cases hs : s.table.runAt ph pa id with
  | none =>
    right
    obtain ⟨k, _, _, _, _, _, k1, k2, k3, _⟩ := new_runs_after_old c s s' e nt ch hwf hstep ph pa id r' h hs
    exact ⟨rfl, k, k1, k2, k3⟩
  | some r =>
    left
    obtain ⟨q1, _, _, _⟩ := localStep_old_run_key c s s' e nt ch hwf hfresh hstep ph pa id r hs
    rw [h, contrib_by_fate] at q1
    refine ⟨r, rfl, ?_⟩
    cases hf : fate e r with
    | kept => rw [hf] at q1; simp only [List.head?_cons, Option.some.injEq] at q1; exact ⟨q1, .inl rfl⟩
    | advanced => rw [hf] at q1; simp only [List.head?_cons, Option.some.injEq] at q1; exact ⟨q1, .inr rfl⟩
    | completed => rw [hf] at q1; simp at q1
    | halted => rw [hf] at q1; simp at q1

/-! ### 3. one-block patterns -/

/-- **a one-block pattern whose block accepts the event completes at once**: nothing is stored (the bucket is
what the runs phase left), nothing is announced as updated for it, and `completed` gains exactly one record for
it — identifier `c.idOf k` of this step, index 1, history `[e]` in the block's group. -/
theorem one_block_pattern_completes_at_once (c : Cfg ε) (hnd : PatKeysNodup c) (s s' : DState ε) (e : ε)
    (nt : Notif ε) (ch : Bool) (hstep : localStep c s e = some (s', nt, ch))
    (P : Phen ε) (hP : P ∈ c.phenomena) (p : Pattern ε) (hp : p ∈ P.patterns)
    (b0 : Block ε) (hb : p.blocks = [b0]) (hm : startMatch b0.preds e = true) :
    ∃ k, s.nextId ≤ k ∧ k < s'.nextId ∧
      s'.table.runsFrom P.name p.name = (checkAgainstRuns e s.table).1.runsFrom P.name p.name ∧
      nt.completed.filter (patKey P.name p.name) =
        (checkAgainstRuns e s.table).2.1.filter (patKey P.name p.name) ++
          [{ id := c.idOf k, phen := P.name, pat := p.name, idx := 1, hist := [(b0.group, [e])] }] ∧
      nt.updated.filter (patKey P.name p.name) = (checkAgainstRuns e s.table).2.2.2.filter (patKey P.name p.name) := by
  obtain ⟨k, k1, k2, k3, k4, k5, k6⟩ := localStep_pattern_exact c hnd s s' e nt ch hstep P hP p hp
  have hst : ∀ be, startOf c e P.name p be k =
      ⟨[{ id := c.idOf k, phen := P.name, pat := p.name, idx := 1, hist := [(b0.group, [e])] }], [], []⟩ := by
    intro be
    unfold startOf
    simp [hb, hm, LRun.ser, newRun]
  rw [hst] at k3 k4 k5 k6
  refine ⟨k, k1, k3 (by simp), ?_, k5, ?_⟩
  · rw [k4]; simp
  · rw [k6]; simp

/-- … in particular, when the table holds no run of the pattern: afterwards it still holds none, and the
notification's only record for the pattern is the one completed record. -/
theorem one_block_pattern_never_stored (c : Cfg ε) (hnd : PatKeysNodup c) (s s' : DState ε) (e : ε)
    (nt : Notif ε) (ch : Bool) (hwf : TableWF s.table) (hstep : localStep c s e = some (s', nt, ch))
    (P : Phen ε) (hP : P ∈ c.phenomena) (p : Pattern ε) (hp : p ∈ P.patterns)
    (b0 : Block ε) (hb : p.blocks = [b0]) (hm : startMatch b0.preds e = true)
    (hempty : s.table.runsFrom P.name p.name = []) :
    ∃ k, s.nextId ≤ k ∧ k < s'.nextId ∧
      s'.table.runsFrom P.name p.name = [] ∧
      nt.completed.filter (patKey P.name p.name) =
        [{ id := c.idOf k, phen := P.name, pat := p.name, idx := 1, hist := [(b0.group, [e])] }] ∧
      nt.updated.filter (patKey P.name p.name) = [] ∧ nt.halted.filter (patKey P.name p.name) = [] := by
  obtain ⟨k, k1, k2, k3, k4, k5⟩ := one_block_pattern_completes_at_once c hnd s s' e nt ch hstep P hP p hp b0 hb hm
  -- the runs phase says nothing about an empty bucket
  have hprov := checkAgainstRuns_provenance e s.table hwf
  have hnone : ∀ l : List (Rec ε),
      (∀ x ∈ l, x ∈ (checkAgainstRuns e s.table).2.1 ++ (checkAgainstRuns e s.table).2.2.1 ++ (checkAgainstRuns e s.table).2.2.2) →
      l.filter (patKey P.name p.name) = [] := by
    intro l hl
    rw [List.filter_eq_nil_iff]
    intro x hx hk
    have := hprov x (hl x hx)
    simp only [patKey, Bool.and_eq_true, beq_iff_eq] at hk
    rw [runAt_def, hk.1, hk.2, hempty] at this
    simp at this
  have hkeep : (checkAgainstRuns e s.table).1.runsFrom P.name p.name = [] := by
    rw [runsFrom_checkAgainstRuns, hempty, procBucket_nil]
  obtain ⟨acc, _, _, _, _, hh, _⟩ := localStep_decomp c s s' e nt ch hstep
  refine ⟨k, k1, k2, by rw [k3, hkeep], ?_, ?_, ?_⟩
  · rw [k4, hnone _ (fun x hx => by simp [hx])]; rfl
  · rw [k5, hnone _ (fun x hx => by simp [hx])]
  · rw [hh, hnone _ (fun x hx => by simp [hx])]

/-! ### 4. finished runs are reported once and are gone -/

/-- **every run that completes or halts on the event is reported exactly once and removed**: the identifiers in
`nt.completed ++ nt.halted` are pairwise different and none of them is stored under any key afterwards.
From `local_ids`, under its hypotheses: finished-run memory enabled (`hc`) and not evicting in this step
(`hevC`, `hevH`); pattern names resolve (`CfgWF`); the instance's identifier generator `fA` never repeats
(`injA`); the table is well-formed and holds live runs only; the identifier discipline `IdInv` holds before the
step for a notion `Iss` of "issued" under which identifiers not yet handed out are not issued (`hfr`). -/
theorem finished_reported_once (c : Cfg ε) (hc : c.caching = true) (hcw : CfgWF c) (fA : Nat → String)
    (injA : ∀ i j, fA i = fA j → i = j) (Iss : String → Prop)
    (a a' : DState ε) (e : ε) (nt : Notif ε) (ch : Bool)
    (hwf : TableWF a.table)
    (hlive : ∀ ph pa id r, a.table.runAt ph pa id = some r → r.run.halted = false)
    (hinv : IdInv c Iss a)
    (hfr : ∀ k, a.nextId ≤ k → ¬ Iss (fA k))
    (hA : localStep (withIds c fA) a e = some (a', nt, ch))
    (hevC : a.cacheC.length + nt.completed.length ≤ c.maxCache)
    (hevH : a.cacheH.length + nt.halted.length ≤ c.maxCache) :
    ((nt.completed ++ nt.halted).map (·.id)).Nodup ∧
    ∀ x ∈ nt.completed ++ nt.halted, ∀ ph pa, a'.table.runAt ph pa x.id = none := by
  obtain ⟨_, _, _, _, hinv', hnd⟩ :=
    local_ids c hc hcw fA injA Iss a a' e nt ch hwf hlive hinv hfr hA hevC hevH
  refine ⟨hnd, ?_⟩
  intro x hx ph pa
  cases hr : a'.table.runAt ph pa x.id with
  | none => rfl
  | some r' =>
    exfalso
    obtain ⟨f1, f2⟩ := hinv'.fresh ph pa x.id r' hr
    obtain ⟨hC, hH⟩ := localStep_caches (withIds c fA) hc a a' e nt ch hA hevC hevH
    rw [hC, inCache_append] at f1
    rw [hH, inCache_append] at f2
    simp only [Bool.or_eq_false_iff] at f1 f2
    rcases List.mem_append.mp hx with h | h
    · have : nt.completed.any (·.id == x.id) = true := List.any_eq_true.mpr ⟨x, h, by simp⟩
      rw [f1.2] at this; cases this
    · have : nt.halted.any (·.id == x.id) = true := List.any_eq_true.mpr ⟨x, h, by simp⟩
      rw [f2.2] at this; cases this


/-- **the same from the identifier facts alone** (no finished-run memory needed): well-formed table, one key
per identifier, identifiers not yet handed out not in the table, a generator that never repeats. -/
theorem finished_reported_once_of_fresh (c : Cfg ε) (hinj : ∀ i j, c.idOf i = c.idOf j → i = j)
    (s s' : DState ε) (e : ε) (nt : Notif ε) (ch : Bool)
    (hwf : TableWF s.table) (huniq : OneKey s.table) (hfresh : FreshIds c s)
    (hstep : localStep c s e = some (s', nt, ch)) :
    ((nt.completed ++ nt.halted).map (·.id)).Nodup ∧
    ∀ x ∈ nt.completed ++ nt.halted, ∀ ph pa, s'.table.runAt ph pa x.id = none := by
  obtain ⟨acc, hcp, ht, hn, hc, hh, hu⟩ := localStep_decomp c s s' e nt ch hstep
  have hids := checkAgainstPatterns_ids c hinj e _ s.nextId acc hcp
  obtain ⟨dh, du, hdh, hdu, hrange, hsep, hnodupU, hnodupH⟩ := hids.lists
  simp only [List.nil_append] at hdh hdu hrange
  have hprov := checkAgainstRuns_provenance e s.table hwf
  have hperkey := fun ph pa id => checkAgainstRuns_perkey e s.table hwf ph pa id
  generalize hcar : checkAgainstRuns e s.table = car at hc hh hu hprov hperkey hcp
  obtain ⟨t1, rhc, rhi, rupd⟩ := car
  simp only at hc hh hu hprov hperkey hcp
  have hprov' : ∀ x ∈ rhc ++ rhi ++ rupd, ∃ r, s.table.runAt x.phen x.pat x.id = some r :=
    fun x hx => (isSome_iff_exists _).mp (hprov x hx)
  -- a fresh identifier names no stored run
  have hnotfresh : ∀ x ∈ rhc ++ rhi ++ rupd, ∀ k, s.nextId ≤ k → x.id ≠ c.idOf k := by
    intro x hx k hk heq
    obtain ⟨r, hr⟩ := hprov' x hx
    rw [heq, hfresh k hk] at hr
    cases hr
  refine ⟨?_, ?_⟩
  · have hrun : ((rhc ++ rhi).map (·.id)).Nodup := by
      apply nodup_ids_of_key_unique
      · intro ph pa id
        obtain ⟨_, p2, p3, _⟩ := hperkey ph pa id
        rw [List.filter_append, List.length_append, p2, p3]
        exact contribOf_finished_le_one e ph _
      · intro x hx y hy hxy
        obtain ⟨rx, hrx⟩ := hprov' x (List.mem_append.mpr (.inl hx))
        obtain ⟨ry, hry⟩ := hprov' y (List.mem_append.mpr (.inl hy))
        rw [hxy] at hrx
        exact huniq _ _ _ _ _ rx ry hrx hry
    rw [hc, hh, hdh]
    have hperm : ((rhc ++ dh ++ rhi).map (·.id)).Perm (((rhc ++ rhi) ++ dh).map (·.id)) := by
      simp only [List.map_append, List.append_assoc]
      exact List.Perm.append_left _ List.perm_append_comm
    rw [hperm.nodup_iff, List.map_append, List.nodup_append]
    refine ⟨hrun, hnodupH, ?_⟩
    intro i hi j hj hij
    obtain ⟨x, hx, ex⟩ := List.mem_map.mp hi
    obtain ⟨y, hy, ey⟩ := List.mem_map.mp hj
    obtain ⟨k, k1, _, k3⟩ := hrange y (List.mem_append.mpr (.inl hy))
    exact hnotfresh x (List.mem_append.mpr (.inl hx)) k k1 (by rw [ex, hij, ← ey, k3])
  · intro x hx ph pa
    have hx' : x ∈ rhc ++ rhi ∨ x ∈ dh := by
      rw [hc, hh, hdh] at hx
      simp only [List.mem_append] at hx ⊢
      rcases hx with (h | h) | h
      · exact .inl (.inl h)
      · exact .inr h
      · exact .inl (.inr h)
    rcases hx' with h | h
    · -- a stored run that finished: `old_runs_offered_once`
      obtain ⟨r, hr⟩ := hprov' x (List.mem_append.mpr (.inl h))
      have h1 := old_runs_offered_once c s s' e nt ch hwf huniq hfresh hstep x.phen x.pat x.id r hr
      have hmem : x ∈ mentions nt.completed x.id ∨ x ∈ mentions nt.halted x.id := by
        unfold mentions
        rcases List.mem_append.mp hx with h2 | h2
        · exact .inl (List.mem_filter.mpr ⟨h2, by simp⟩)
        · exact .inr (List.mem_filter.mpr ⟨h2, by simp⟩)
      cases hf : fate e r with
      | kept =>
        rw [hf] at h1
        obtain ⟨_, _, m1, m2, _⟩ := h1
        rw [m1, m2] at hmem; simp at hmem
      | advanced =>
        rw [hf] at h1
        obtain ⟨_, _, _, m1, m2⟩ := h1
        rw [m1, m2] at hmem; simp at hmem
      | completed => rw [hf] at h1; exact h1.1 ph pa
      | halted => rw [hf] at h1; exact h1.1 ph pa
    · -- completed at once with an identifier of this step: never stored
      obtain ⟨k, k1, _, k3⟩ := hrange x (List.mem_append.mpr (.inl h))
      cases hr : s'.table.runAt ph pa x.id with
      | none => rfl
      | some r' =>
        exfalso
        have hold : s.table.runAt ph pa x.id = none := by rw [k3]; exact hfresh k k1 ph pa
        obtain ⟨k', P, p, b0, b1, rest, _, _, q3, _, _, _, _, _, _, _, q11, q12⟩ :=
          new_runs_after_old c s s' e nt ch hwf hstep ph pa x.id r' hr hold
        have hserid : (r'.ser ph).id = x.id := by rw [ser_id, q11, q3]
        rw [hu, hdu] at q12
        rcases List.mem_append.mp q12 with h2 | h2
        · exact hnotfresh _ (List.mem_append.mpr (.inr h2)) k k1 (by rw [hserid, k3])
        · exact hsep x h _ h2 hserid.symm

end Bobo.Decider

/-! ### 5. non-vacuity: concrete steps (`decide`) -/
namespace Bobo.Decider.C01Example
open Bobo.Run Bobo.Decider

def blk (k : Nat) (g : String) (strict : Bool := false) : Block Nat :=
  { preds := [fun e _ => some (e == k)], group := g, strict := strict, loop := false, negated := false, optional := false }

/-- three blocks, not a singleton: 1, then 2, then 3. -/
def pA : Pattern Nat := { name := "A", singleton := false, pre := [], halt := [], blocks := [blk 1 "a1", blk 2 "a2", blk 3 "a3"] }
/-- singleton: 2, then (strict) 5. -/
def pS : Pattern Nat := { name := "S", singleton := true, pre := [], halt := [], blocks := [blk 2 "s1", blk 5 "s2" true] }
/-- singleton: 4, then 4 — a run of it completes on the very event that can start the next one. -/
def pT : Pattern Nat := { name := "T", singleton := true, pre := [], halt := [], blocks := [blk 4 "t1", blk 4 "t2"] }
/-- one block. -/
def pO : Pattern Nat := { name := "O", singleton := false, pre := [], halt := [], blocks := [blk 2 "o1"] }

def cfg : Cfg Nat :=
  { phenomena := [{ name := "ph", patterns := [pA, pS, pT, pO] }], maxCache := 10,
    idOf := fun n => match n with | 0 => "n0" | 1 => "n1" | 2 => "n2" | 3 => "n3" | 4 => "n4" | _ => "n5" }

def runA : LRun Nat := { run := { id := "a", idx := 1, hist := [("a1", [1])], halted := false }, pat := pA }
def runS : LRun Nat := { run := { id := "s", idx := 1, hist := [("s1", [2])], halted := false }, pat := pS }
def runT : LRun Nat := { run := { id := "t", idx := 1, hist := [("t1", [4])], halted := false }, pat := pT }

/-- two stored runs (one of the singleton `S`), plus one of the singleton `T`; identifiers `n0`, `n1` used up. -/
def st : DState Nat := { table := [("ph", [("A", [runA]), ("S", [runS]), ("T", [runT])])], nextId := 2 }

/-- a run / a record / the outcome of a step as plain data (the model's structures hold predicates). -/
structure RunView where
  pat : String
  id : String
  idx : Nat
  hist : List (String × List Nat)
  halted : Bool
deriving DecidableEq, Repr
structure RecView where
  phen : String
  pat : String
  id : String
  idx : Nat
  hist : List (String × List Nat)
deriving DecidableEq, Repr
structure StepView where
  runs : List RunView
  nextId : Nat
  completed : List RecView
  halted : List RecView
  updated : List RecView
  changed : Bool
deriving DecidableEq, Repr
def view (r : LRun Nat) : RunView := ⟨r.pat.name, r.run.id, r.run.idx, r.run.hist, r.run.halted⟩
def rview (x : Rec Nat) : RecView := ⟨x.phen, x.pat, x.id, x.idx, x.hist⟩
/-- the step seen through the bucket (ph, pa) (`pa = ""`: the whole table). -/
def stepView (pa : String) (x : DState Nat × Notif Nat × Bool) : StepView :=
  ⟨if pa = "" then x.1.table.all.map (fun y => view y.2) else (x.1.table.runsFrom "ph" pa).map view,
   x.1.nextId, x.2.1.completed.map rview, x.2.1.halted.map rview, x.2.1.updated.map rview, x.2.2⟩

example : PatKeysNodup cfg := by unfold PatKeysNodup; decide

/-- what `process` alone decides for the three stored runs on event 2: `A`'s run advances, the singleton `S`'s
run is halted by its strict block, `T`'s run is not concerned. -/
example : fate 2 runA = .advanced ∧ fate 2 runS = .halted ∧ fate 2 runT = .kept := by decide

/-- **event 2**: the old runs first — `a` advances (offered once: index 2, history grown by `2`), `s` halts and is
removed, `t` stays — and only then the new ones: the singleton `S`, whose only run has just been halted, starts
a new run `n2` on the same event (index 1, history `[2]`: not offered the event again); the one-block pattern `O`
completes at once (`n3`, never stored); `A`'s first block does not accept, `T`'s neither. -/
example :
    (localStep cfg st 2).map (stepView "") =
    some { runs := [⟨"A", "a", 2, [("a1", [1]), ("a2", [2])], false⟩,
                    ⟨"S", "n2", 1, [("s1", [2])], false⟩,
                    ⟨"T", "t", 1, [("t1", [4])], false⟩],
           nextId := 4,
           completed := [⟨"ph", "O", "n3", 1, [("o1", [2])]⟩],
           halted := [⟨"ph", "S", "s", 1, [("s1", [2])]⟩],
           updated := [⟨"ph", "A", "a", 2, [("a1", [1]), ("a2", [2])]⟩, ⟨"ph", "S", "n2", 1, [("s1", [2])]⟩],
           changed := true } := by decide

example : fate 4 runT = .completed := by decide
/-- **event 4**: the singleton `T`'s run completes on the event (reported once, removed) and `T` starts a new run
on the same event, because the singleton gate looks at the table after the old runs were processed
(`singleton_restarts_on_completing_event`).  (`S`'s strict block rejects 4 as well: its run halts.) -/
example :
    (localStep cfg st 4).map (stepView "T") =
    some { runs := [⟨"T", "n2", 1, [("t1", [4])], false⟩],
           nextId := 3,
           completed := [⟨"ph", "T", "t", 2, [("t1", [4]), ("t2", [4])]⟩],
           halted := [⟨"ph", "S", "s", 1, [("s1", [2])]⟩],
           updated := [⟨"ph", "T", "n2", 1, [("t1", [4])]⟩],
           changed := true } := by decide

/-- while a singleton HAS a run that is not finished by the event, it starts no new run although its first block
accepts: state with `S`'s run replaced by one waiting at a relaxed block (pattern `S'`). -/
def pS' : Pattern Nat := { name := "S", singleton := true, pre := [], halt := [], blocks := [blk 2 "s1", blk 5 "s2"] }
def cfg' : Cfg Nat := { cfg with phenomena := [{ name := "ph", patterns := [pA, pS'] }] }
def st' : DState Nat :=
  { table := [("ph", [("A", [runA]), ("S", [{ runS with pat := pS' }])])], nextId := 2 }
example :
    (localStep cfg' st' 2).map (stepView "S") =
    some { runs := [⟨"S", "s", 1, [("s1", [2])], false⟩],
           nextId := 3,
           completed := [], halted := [],
           updated := [⟨"ph", "A", "a", 2, [("a1", [1]), ("a2", [2])]⟩],
           changed := true } := by decide

/-- the hypotheses of the theorems above hold for the example state. -/
theorem st_wf : TableWF st.table := by
  have h1 : Table.add ([] : Table Nat) "ph" "A" runA = some [("ph", [("A", [runA])])] := by rfl
  have h2 : Table.add [("ph", [("A", [runA])])] "ph" "S" runS = some [("ph", [("A", [runA]), ("S", [runS])])] := by rfl
  have h3 : Table.add [("ph", [("A", [runA]), ("S", [runS])])] "ph" "T" runT = some st.table := by rfl
  exact wf_add _ _ (wf_add _ _ (wf_add _ _ wf_empty "ph" "A" runA rfl h1) "ph" "S" runS rfl h2) "ph" "T" runT rfl h3

theorem st_oneKey : OneKey st.table := oneKey_of_keys _ (by decide)

theorem st_fresh : FreshIds cfg st := by
  apply freshIds_of_keys
  intro k hk
  have hk' : 2 ≤ k := hk
  rcases k with _ | _ | _ | _ | _ | k
  · omega
  · omega
  · decide
  · decide
  · decide
  · have : cfg.idOf (k + 1 + 1 + 1 + 1 + 1) = "n5" := rfl
    rw [this]; decide

/-- `old_runs_offered_once` applied to the example: whatever else happens in the step, the halted run `s` is
reported once, as halted, and no key holds `s` afterwards; the advanced run `a` is stored as `offered 2 runA` and
reported once, as updated. -/
example (s' : DState Nat) (nt : Notif Nat) (ch : Bool) (h : localStep cfg st 2 = some (s', nt, ch)) :
    (mentions nt.halted "s" = [(offered 2 runS).ser "ph"] ∧ mentions nt.completed "s" = [] ∧
      mentions nt.updated "s" = [] ∧ ∀ ph pa, s'.table.runAt ph pa "s" = none) ∧
    (s'.table.runAt "ph" "A" "a" = some (offered 2 runA) ∧ mentions nt.updated "a" = [(offered 2 runA).ser "ph"] ∧
      mentions nt.completed "a" = [] ∧ mentions nt.halted "a" = []) := by
  have h1 := old_runs_offered_once cfg st s' 2 nt ch st_wf st_oneKey st_fresh h "ph" "S" "s" runS (by rfl)
  have h2 := old_runs_offered_once cfg st s' 2 nt ch st_wf st_oneKey st_fresh h "ph" "A" "a" runA (by rfl)
  have f1 : fate 2 runS = .halted := by decide
  have f2 : fate 2 runA = .advanced := by decide
  rw [f1] at h1
  rw [f2] at h2
  simp only at h1 h2
  exact ⟨⟨h1.2.2.2.1, h1.2.2.2.2.1, h1.2.2.2.2.2, h1.1⟩, ⟨h2.1, h2.2.2.1, h2.2.2.2.1, h2.2.2.2.2⟩⟩

/-- `singleton_restarts_on_completing_event` applied to the example (event 4, pattern `T`). -/
example (s' : DState Nat) (nt : Notif Nat) (ch : Bool) (h : localStep cfg st 4 = some (s', nt, ch)) :
    ∃ k, 2 ≤ k ∧ k < s'.nextId ∧
      s'.table.runsFrom "ph" "T" = [{ run := newRun (cfg.idOf k) pT "t1" 4, pat := pT }] ∧
      (offered 4 runT).ser "ph" ∈ nt.completed := by
  obtain ⟨k, k1, k2, k3, k4⟩ := singleton_restarts_on_completing_event cfg (by unfold PatKeysNodup; decide) st s' 4 nt ch
    st_wf h { name := "ph", patterns := [pA, pS, pT, pO] } (by simp [cfg]) pT (by simp) rfl
    (blk 4 "t1") (blk 4 "t2") [] rfl (by decide) runT (by rfl) (.inl (by decide))
  refine ⟨k, k1, k2, k3, ?_⟩
  rcases k4 with ⟨_, h5⟩ | ⟨h5, _⟩
  · exact h5
  · have : fate 4 runT = .completed := by decide
    rw [this] at h5; cases h5

end Bobo.Decider.C01Example
