import BoboVerif.Model.Decider
import BoboVerif.Lemmas.Table
import BoboVerif.Props.C12
import BoboVerif.Lemmas.GenDecider
/-!
C13 — A singleton pattern never has two active runs.

Invariant: every bucket (phenomenon, pattern name) all of whose patterns are
declared singleton holds at most one run.  It is established by the empty
table and preserved by every local step (`localStep`) and every remote step
(`remoteStepG`, for arbitrary messages: same or foreign ids, duplicates, any
order, any "ahead" test) — hence it holds after every prefix of every
interleaving of local events and remote updates (`singleton_inv`).
-/
namespace Bobo.Decider
open Bobo.Run
set_option linter.unusedSimpArgs false
variable {ε : Type}

/-- every pattern stored under (ph, pa) is declared singleton. -/
def SingKey (c : Cfg ε) (ph pa : String) : Prop :=
  ∀ P ∈ c.phenomena, P.name = ph → ∀ p ∈ P.patterns, p.name = pa → p.singleton = true

def Bound (t : Table ε) (ph pa : String) : Prop := (t.runsFrom ph pa).length ≤ 1

def SingInv (c : Cfg ε) (t : Table ε) : Prop := ∀ ph pa, SingKey c ph pa → Bound t ph pa

theorem getPattern_mem (c : Cfg ε) (ph pa : String) (p : Pattern ε) (h : c.getPattern ph pa = some p) :
    ∃ P ∈ c.phenomena, P.name = ph ∧ p ∈ P.patterns ∧ p.name = pa := by
  unfold Cfg.getPattern at h
  cases hf : c.phenomena.find? (·.name == ph) with
  | none => simp [hf] at h
  | some P =>
    simp only [hf] at h
    refine ⟨P, List.mem_of_find?_eq_some hf, ?_, List.mem_of_find?_eq_some h, ?_⟩
    · simpa using List.find?_some hf
    · simpa using List.find?_some h

theorem lookup_map_vals {α β} (k : String) (f : String → α → β) (l : List (String × α)) :
    lookup k (l.map (fun kv => (kv.1, f kv.1 kv.2))) = (lookup k l).map (f k) := by
  induction l with
  | nil => rfl
  | cons kv rest ih =>
    obtain ⟨a, v⟩ := kv
    simp only [List.map_cons, lookup_cons]
    by_cases h : a = k
    · subst h; simp
    · simp [h, ih]

/-- after `_check_against_runs` each bucket holds what its own loop kept. -/
theorem runsFrom_checkAgainstRuns (e : ε) (t : Table ε) (ph pa : String) :
    (checkAgainstRuns e t).1.runsFrom ph pa = (procBucket e ph (t.runsFrom ph pa)).keep := by
  unfold checkAgainstRuns bucketAccs
  rw [runsFrom_def, runsFrom_def]
  dsimp only
  have h1 := lookup_map_vals ph
    (fun k (pats : List (String × List (LRun ε))) => (pats.map (fun pe => (pe.1, procBucket e k pe.2))).map (fun pe => (pe.1, pe.2.keep))) t
  simp only [List.map_map, Function.comp_def] at h1 ⊢
  rw [h1]
  cases hl : lookup ph t with
  | none => simp [procBucket]
  | some pats =>
    simp only [Option.map_some, Option.bind_some]
    have h2 := lookup_map_vals pa (fun _ (rs : List (LRun ε)) => (procBucket e ph rs).keep) pats
    simp only [Option.map_some, Option.bind_some, h2]
    cases lookup pa pats <;> simp [procBucket]

theorem foldlM'_inv {α β} (I : β → Prop) (f : β → α → Option β) (l : List α)
    (h : ∀ b a b', a ∈ l → I b → f b a = some b' → I b') :
    ∀ b b', I b → foldlM' f b l = some b' → I b' := by
  induction l with
  | nil => intro b b' hb hf; simp [foldlM'] at hf; subst hf; exact hb
  | cons a rest ih =>
    intro b b' hb hf
    simp only [foldlM'] at hf
    cases hfa : f b a with
    | none => simp [hfa] at hf
    | some b1 =>
      simp only [hfa] at hf
      exact ih (fun b a b' ha => h b a b' (List.mem_cons_of_mem _ ha)) b1 b'
        (h b a b1 (List.mem_cons_self ..) hb hfa) hf

theorem foldl_inv {α β} (I : β → Prop) (f : β → α → β) (l : List α)
    (h : ∀ b a, a ∈ l → I b → I (f b a)) : ∀ b, I b → I (l.foldl f b) := by
  induction l with
  | nil => intro b hb; exact hb
  | cons a rest ih =>
    intro b hb
    exact ih (fun b a ha => h b a (List.mem_cons_of_mem _ ha)) _ (h b a (List.mem_cons_self ..) hb)

/-! ### local steps -/

theorem checkAgainstRuns_inv (c : Cfg ε) (e : ε) (t : Table ε) (h : SingInv c t) :
    SingInv c (checkAgainstRuns e t).1 := by
  intro ph pa hk
  unfold Bound
  rw [runsFrom_checkAgainstRuns]
  have := (kept_ids_sublist e ph (t.runsFrom ph pa)).length_le
  simp only [List.length_map] at this
  exact Nat.le_trans this (h ph pa hk)

theorem checkPattern_inv (c : Cfg ε) (e : ε) (P : Phen ε) (hP : P ∈ c.phenomena) (p : Pattern ε)
    (hp : p ∈ P.patterns) (acc acc' : PatAcc ε) (h : SingInv c acc.table)
    (hs : checkPattern c e P.name acc p = some acc') : SingInv c acc'.table := by
  unfold checkPattern at hs
  cases hb : p.blocks with
  | nil => simp [hb] at hs
  | cons b0 rest =>
    simp only [hb] at hs
    by_cases hm : startMatch b0.preds e = true
    · simp only [hm, if_true] at hs
      split at hs
      · simp only [Option.some.injEq] at hs; subst hs; exact h
      · split at hs
        · rename_i hguard
          cases hadd : acc.table.add P.name p.name { run := newRun (c.idOf acc.nextId) p b0.group e, pat := p } with
          | none => simp [hadd] at hs
          | some t' =>
            simp only [hadd, Option.some.injEq] at hs
            subst hs
            simp only
            intro ph pa hk
            unfold Table.add at hadd
            split at hadd
            · simp at hadd
            · simp only [Option.some.injEq] at hadd
              subst hadd
              unfold Bound
              rw [runsFrom_modify _ _ _ _ _ true _ (.inl rfl)]
              by_cases hkey : ph = P.name ∧ pa = p.name
              · obtain ⟨h1, h2⟩ := hkey
                subst h1 h2
                have hsing : p.singleton = true := hk P hP rfl p hp rfl
                simp only [hsing, Bool.not_true, Bool.false_or, beq_iff_eq] at hguard
                simp only [and_self, if_true, List.length_append, List.length_cons, List.length_nil]
                omega
              · simp only [hkey, if_false]
                exact h ph pa hk
        · simp only [Option.some.injEq] at hs; subst hs; exact h
    · simp only [hm, Bool.false_eq_true, if_false, Option.some.injEq] at hs
      subst hs; exact h

theorem checkAgainstPatterns_inv (c : Cfg ε) (e : ε) (t : Table ε) (n : Nat) (acc : PatAcc ε)
    (h : SingInv c t) (hs : checkAgainstPatterns c e t n = some acc) : SingInv c acc.table := by
  unfold checkAgainstPatterns at hs
  refine foldlM'_inv (fun a => SingInv c a.table) _ c.phenomena ?_ _ _ h hs
  intro b P b' hP hb hf
  exact foldlM'_inv (fun a => SingInv c a.table) _ P.patterns
    (fun b1 p b1' hp hb1 hf1 => checkPattern_inv c e P hP p hp b1 b1' hb1 hf1) _ _ hb hf

/-- one `update()` keeps every singleton bucket at ≤ 1 run. -/
theorem localStep_singleton_inv (c : Cfg ε) (s s' : DState ε) (e : ε) (n : Notif ε) (ch : Bool)
    (h : SingInv c s.table) (hs : localStep c s e = some (s', n, ch)) : SingInv c s'.table := by
  unfold localStep at hs
  simp only at hs
  cases hp : checkAgainstPatterns c e (checkAgainstRuns e s.table).1 s.nextId with
  | none => simp [hp] at hs
  | some acc =>
    simp only [hp, Option.some.injEq, Prod.mk.injEq] at hs
    obtain ⟨hs1, _, _⟩ := hs
    subst hs1
    have := checkAgainstPatterns_inv c e _ _ acc (checkAgainstRuns_inv c e s.table h) hp
    unfold maybeCache
    split <;> exact this

/-! ### remote steps -/

theorem maybeCache_table (c : Cfg ε) (s : DState ε) (a b : List (Rec ε)) :
    (maybeCache c s a b).table = s.table := by
  unfold maybeCache; split <;> rfl

theorem remove_length_le (t : Table ε) (ph pa id ph' pa' : String) :
    ((t.remove ph pa id).runsFrom ph' pa').length ≤ (t.runsFrom ph' pa').length := by
  unfold Table.remove
  rw [runsFrom_modify _ _ _ _ _ false _ (.inr (by simp))]
  split
  · rename_i h; obtain ⟨h1, h2⟩ := h; subst h1 h2; exact List.length_filter_le _ _
  · exact Nat.le_refl _

theorem removeOne_inv (c : Cfg ε) (b : Bool) (st : DState ε × List (Rec ε)) (rr : Rec ε)
    (h : SingInv c st.1.table) : SingInv c (removeOne c b st rr).1.table := by
  obtain ⟨s, out⟩ := st
  unfold removeOne
  simp only
  cases hp : c.getPattern rr.phen rr.pat with
  | none => exact h
  | some p =>
    simp only
    split
    · split
      · simp only [maybeCache_table]
        intro ph pa hk
        exact Nat.le_trans (remove_length_le _ _ _ _ _ _) (h ph pa hk)
      · intro ph pa hk
        exact Nat.le_trans (remove_length_le _ _ _ _ _ _) (h ph pa hk)
    · intro ph pa hk
      exact Nat.le_trans (remove_length_le _ _ _ _ _ _) (h ph pa hk)

theorem setBlock_length (t : Table ε) (ph pa id : String) (i : Nat) (hh : Hist ε) (ph' pa' : String) :
    ((t.setBlock ph pa id i hh).runsFrom ph' pa').length = (t.runsFrom ph' pa').length := by
  unfold Table.setBlock
  rw [runsFrom_modify _ _ _ _ _ false _ (.inr (by simp))]
  split
  · rename_i h; obtain ⟨h1, h2⟩ := h; subst h1 h2; simp
  · rfl

theorem updateOne_inv (c : Cfg ε) (f : Rec ε → Run ε → Bool) (st st' : DState ε × List (Rec ε)) (rr : Rec ε)
    (h : SingInv c st.1.table) (hs : updateOne c f st rr = some st') : SingInv c st'.1.table := by
  obtain ⟨s, out⟩ := st
  unfold updateOne at hs
  simp only at hs
  cases hp : c.getPattern rr.phen rr.pat with
  | none => simp only [hp, Option.some.injEq] at hs; subst hs; exact h
  | some p =>
    obtain ⟨P, hP, hPn, hpm, hpn⟩ := getPattern_mem c _ _ p hp
    simp only [hp] at hs
    split at hs
    · -- a local run exists: set_block at most
      rename_i rl hrl
      have key : ∀ t', (t' = s.table ∨ t' = s.table.setBlock rr.phen rr.pat rl.run.id rr.idx rr.hist) → SingInv c t' := by
        intro t' ht ph pa hk
        rcases ht with ht | ht
        · subst ht; exact h ph pa hk
        · subst ht; unfold Bound; rw [setBlock_length]; exact h ph pa hk
      split at hs
      · simp only [Option.some.injEq] at hs; subst hs
        simp only
        split
        · exact key _ (.inr rfl)
        · exact key _ (.inl rfl)
      · simp only [Option.some.injEq] at hs; subst hs
        simp only
        split
        · exact key _ (.inr rfl)
        · exact key _ (.inl rfl)
    · -- no local run: a new one is added
      rename_i hnone
      split at hs
      · simp at hs
      · rename_i t' hadd
        simp only [Option.some.injEq] at hs; subst hs
        simp only
        intro ph pa hk
        unfold Table.add at hadd
        split at hadd
        · simp at hadd
        · simp only [Option.some.injEq] at hadd
          subst hadd
          unfold Bound
          rw [runsFrom_modify _ _ _ _ _ true _ (.inl rfl)]
          by_cases hkey : ph = rr.phen ∧ pa = rr.pat
          · obtain ⟨h1, h2⟩ := hkey
            subst h1 h2
            have hsing : p.singleton = true := hk P hP hPn p hpm hpn
            simp only [hsing, if_true] at hnone
            have : s.table.runsFrom rr.phen rr.pat = [] := by
              cases hr : s.table.runsFrom rr.phen rr.pat with
              | nil => rfl
              | cons a l => simp [hr] at hnone
            simp [this]
          · simp only [hkey, if_false]
            exact h ph pa hk

/-- one `on_distributed_update` — any message, any "ahead" test — keeps every singleton bucket at ≤ 1 run. -/
theorem remoteStep_singleton_inv (c : Cfg ε) (f : Rec ε → Run ε → Bool) (b : Bool) (s s' : DState ε)
    (comp halt upd : List (Rec ε)) (n : Notif ε)
    (h : SingInv c s.table) (hs : remoteStepG f b c s comp halt upd = some (s', n)) : SingInv c s'.table := by
  unfold remoteStepG at hs
  simp only at hs
  generalize hc1 : (checkAgainstCache c s comp halt upd) = cc at hs
  obtain ⟨comp1, halt1, upd1⟩ := cc
  simp only at hs
  have h1 : SingInv c (maybeCache c s comp1 halt1).table := by rw [maybeCache_table]; exact h
  have h2 := foldl_inv (fun st : DState ε × List (Rec ε) => SingInv c st.1.table) (removeOne c true) comp1
    (fun st rr _ hst => removeOne_inv c true st rr hst) (maybeCache c s comp1 halt1, []) h1
  generalize hf2 : comp1.foldl (removeOne c true) (maybeCache c s comp1 halt1, []) = st2 at hs h2
  obtain ⟨s2, compOut⟩ := st2
  simp only at hs
  have h3 := foldl_inv (fun st : DState ε × List (Rec ε) => SingInv c st.1.table) (removeOne c false) halt1
    (fun st rr _ hst => removeOne_inv c false st rr hst) (s2, []) h2
  generalize hf3 : halt1.foldl (removeOne c false) (s2, []) = st3 at hs h3
  obtain ⟨s3, haltOut⟩ := st3
  simp only at hs
  split at hs
  · simp at hs
  · rename_i s4 updOut hfold
    simp only [Option.some.injEq, Prod.mk.injEq] at hs
    obtain ⟨hs1, _⟩ := hs
    subst hs1
    exact foldlM'_inv (fun st : DState ε × List (Rec ε) => SingInv c st.1.table) _ _
      (fun st rr st' _ hst hf => updateOne_inv c f st st' rr hst hf) _ _
      (show SingInv c (s3, ([] : List (Rec ε))).1.table from h3) hfold

/-! ### every interleaving -/

inductive Step (ε : Type) where
  | loc (e : ε)
  | rem (comp halt upd : List (Rec ε))

/-- run a list of steps; `none` as soon as a step lets an exception escape. -/
def runSteps (c : Cfg ε) : DState ε → List (Step ε) → Option (DState ε)
  | s, [] => some s
  | s, .loc e :: rest => match localStep c s e with
    | none => none
    | some (s', _, _) => runSteps c s' rest
  | s, .rem a b u :: rest => match remoteStep c s a b u with
    | none => none
    | some (s', _) => runSteps c s' rest

/-- **C13**: after every prefix of every interleaving of local events and remote updates (arbitrary
messages, duplicates, any order) every singleton pattern has at most one active run. -/
theorem singleton_inv (c : Cfg ε) (steps : List (Step ε)) : ∀ (s s' : DState ε),
    SingInv c s.table → runSteps c s steps = some s' → SingInv c s'.table := by
  induction steps with
  | nil => intro s s' h hs; simp [runSteps] at hs; subst hs; exact h
  | cons st rest ih =>
    intro s s' h hs
    cases st with
    | loc e =>
      simp only [runSteps] at hs
      cases hl : localStep c s e with
      | none => simp [hl] at hs
      | some r =>
        obtain ⟨s1, n, ch⟩ := r
        simp only [hl] at hs
        exact ih s1 s' (localStep_singleton_inv c s s1 e n ch h hl) hs
    | rem a b u =>
      simp only [runSteps] at hs
      cases hl : remoteStep c s a b u with
      | none => simp [hl] at hs
      | some r =>
        obtain ⟨s1, n⟩ := r
        simp only [hl] at hs
        exact ih s1 s' (remoteStep_singleton_inv c ahead true s s1 a b u n h hl) hs

theorem singleton_inv_init (c : Cfg ε) : SingInv c ({} : DState ε).table := by
  intro ph pa _; simp [Bound, Table.runsFrom, lookup]

/-! ### restartability and identifier substitution -/

/-- with the bound, a completed/halted record for a singleton pattern (under either id) leaves the
bucket empty, so the pattern can start again. -/
theorem singleton_finish_empties (c : Cfg ε) (b : Bool) (s : DState ε) (out : List (Rec ε)) (rr : Rec ε)
    (p : Pattern ε) (hp : c.getPattern rr.phen rr.pat = some p) (hsg : p.singleton = true)
    (hb : Bound s.table rr.phen rr.pat) :
    ((removeOne c b (s, out) rr).1.table.runsFrom rr.phen rr.pat) = [] := by
  unfold removeOne
  simp only [hp, hsg, if_true]
  unfold Bound at hb
  cases hr : s.table.runsFrom rr.phen rr.pat with
  | nil =>
    simp only [List.head?_nil]
    unfold Table.remove
    rw [runsFrom_modify _ _ _ _ _ false _ (.inr (by simp))]
    simp [hr]
  | cons rl rest =>
    have hrest : rest = [] := by
      cases rest with
      | nil => rfl
      | cons x y => simp [hr] at hb
    subst hrest
    simp only [List.head?_cons]
    split <;>
    · simp only [maybeCache_table]
      unfold Table.remove
      rw [runsFrom_modify _ _ _ _ _ false _ (.inr (by simp))]
      simp [hr]

/-- an event accepted by the first block of a singleton pattern with an empty bucket starts exactly one run. -/
theorem singleton_restartable (c : Cfg ε) (e : ε) (ph : String) (acc : PatAcc ε) (p : Pattern ε)
    (b0 b1 : Block ε) (rest : List (Block ε)) (hb : p.blocks = b0 :: b1 :: rest)
    (hm : startMatch b0.preds e = true) (hempty : acc.table.runsFrom ph p.name = []) :
    ∃ acc', checkPattern c e ph acc p = some acc' ∧
      (acc'.table.runsFrom ph p.name).map (·.run.id) = [c.idOf acc.nextId] := by
  unfold checkPattern
  simp only [hb, hm, if_true]
  have hnc : ((newRun (c.idOf acc.nextId) p b0.group e).halted &&
      (newRun (c.idOf acc.nextId) p b0.group e).isComplete (b0 :: b1 :: rest).length) = false := by
    simp [newRun, completeAt, hb]
  simp only [hnc, Bool.false_eq_true, if_false, hempty, List.length_nil, beq_self_eq_true, Bool.or_true, if_true]
  unfold Table.add
  have : (acc.table.runAt ph p.name (newRun (c.idOf acc.nextId) p b0.group e).id).isSome = false := by
    simp [runAt_def, hempty]
  simp only [this, Bool.false_eq_true, if_false]
  refine ⟨_, rfl, ?_⟩
  simp only
  rw [runsFrom_modify _ _ _ _ _ true _ (.inl rfl)]
  simp [hempty, newRun]

/-- identifier substitution: a completed/halted record with a foreign id is reported under the local run's id. -/
theorem id_substitution (c : Cfg ε) (b : Bool) (s : DState ε) (out : List (Rec ε)) (rr : Rec ε)
    (p : Pattern ε) (rl : LRun ε) (hp : c.getPattern rr.phen rr.pat = some p) (hsg : p.singleton = true)
    (hl : (s.table.runsFrom rr.phen rr.pat).head? = some rl) (hne : rr.id ≠ rl.run.id) :
    (removeOne c b (s, out) rr).2 = out ++ [rl.ser rr.phen] := by
  unfold removeOne
  have : (rr.id != rl.run.id) = true := by simpa using hne
  simp [hp, hsg, hl, this]

end Bobo.Decider

/-! G-tie (C13): the fragments of decider.py regenerated on this run are the ones the model is built from. -/
namespace Bobo.Decider
/-- the forward-only test, the memory filters and the step order of `on_distributed_update` / `update()` as they
stand in the source now (Gen/DeciderFrag.lean) equal the model's. -/
theorem decider_source_fragments_c13 {ε : Type} (rr : Rec ε) (l : Bobo.Run.Run ε) (c : Cfg ε) (hc : c.caching = true)
    (s : DState ε) (comp halt upd : List (Rec ε)) :
    Bobo.Gen.DeciderFrag.ahead rr.idx rr.hist.size l.idx l.hist.size = ahead rr l ∧
    checkAgainstCache c s comp halt upd =
      (comp.filter (fun r => Bobo.Gen.DeciderFrag.keepCompleted (inCache s.cacheC r.id) (inCache s.cacheH r.id)),
       halt.filter (fun r => Bobo.Gen.DeciderFrag.keepHalted (inCache s.cacheC r.id) (inCache s.cacheH r.id)),
       upd.filter (fun r => Bobo.Gen.DeciderFrag.keepUpdated (inCache s.cacheC r.id) (inCache s.cacheH r.id))) ∧
    Bobo.Gen.DeciderFrag.remoteOrder = remoteOrderModel ∧ Bobo.Gen.DeciderFrag.localOrder = localOrderModel ∧
    Bobo.Gen.DeciderFrag.processEventLists = "r_halt_com+p_halt_com,r_halt_incom,r_upd+p_upd" :=
  ⟨gen_ahead_eq rr l, gen_filters_eq c hc s comp halt upd, gen_remoteOrder_eq, gen_localOrder_eq, gen_processEventLists_eq⟩
end Bobo.Decider

/-! G-tie (C13): the local path of decider.py (`_check_against_runs`, `_check_against_patterns`) as it stands now. -/
namespace Bobo.Decider
/-- per run: `process` alone inside the `try`, then the classification table generated from the source; for a
freshly started run: the decision table generated from the source; and the shapes of the two loops. -/
theorem decider_local_fragments_c13 {ε : Type} (e : ε) (ph : String) (acc : RunsAcc ε) (r : LRun ε)
    (haltedNew completeNew singleton noRuns : Bool) :
    (checkRun e ph acc r =
      match (Bobo.Run.process r.pat r.run e).1 with
      | .ok changed =>
        applyCls ph acc { r with run := (Bobo.Run.process r.pat r.run e).2 }
          (Bobo.Gen.DeciderFrag.classify changed (Bobo.Run.process r.pat r.run e).2.halted
            ((Bobo.Run.process r.pat r.run e).2.isComplete r.pat.blocks.length))
      | _ => { acc with keep := acc.keep ++ [{ r with run := (Bobo.Run.process r.pat r.run e).2 }] }) ∧
    Bobo.Gen.DeciderFrag.startDecision haltedNew completeNew singleton noRuns =
      (if haltedNew && completeNew then .completeAtOnce else if !singleton || noRuns then .store else .skip) ∧
    Bobo.Gen.DeciderFrag.runsShape =
      ["per-run:try-process-only;classify", "remove-finished-after-all-runs", "return:completed,halted,updated"] ∧
    Bobo.Gen.DeciderFrag.patternsShape =
      ["first-block:any-predicate,raise-counts-as-no,empty-history", "new-run:index-1,history-{group0:[event]},fresh-id",
       "return:completed,updated"] :=
  ⟨gen_checkRun_eq e ph acc r, gen_startDecision_eq _ _ _ _, gen_runsShape_eq, gen_patternsShape_eq⟩
end Bobo.Decider
