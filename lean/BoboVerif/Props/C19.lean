import BoboVerif.Model.Run
import BoboVerif.Model.Builder
import BoboVerif.Lemmas.Run
import BoboVerif.Lemmas.Builder
import BoboVerif.Gen.PatternRules
import BoboVerif.Gen.Builder
import BoboVerif.Props.C01
/-!
C19 — Patterns are well-formed by construction.

Model: Model/Builder.lean (`BoboPatternBuilder`, `BoboPredicateCallType.evaluate`) over the blocks,
patterns and walker of Model/Run.lean.  Helper lemmas: Lemmas/Builder.lean.  Generated counterparts
(translate/builder.py, translate/patternrules.py) are proved equal to the model below (tie G).

Parts of the statement and where they are proved:
* each builder method produces exactly the documented flags / group / predicates
  → `builder_table`, `builder_any_one_block`;
* repetition count → `builder_copies`;   call order → `builder_order`, `builder_append`;
* constructors reject exactly the documented illegal combinations, accept everything else
  → `block_ctor_iff`, `pattern_ctor_iff` (⇔ with the documented rule), `builder_rejections`,
    `generate_rejections`;
* every accepted pattern runs against any event stream without an internal error
  → `accepted_runs_safely`, `ctor_accepted_runs_safely`, `accepted_stream_total`;
* typed predicate → `typed_calls_only_typed`, `typed_handed_is_typed`, `typed_cast_fail_false`,
  `typed_preserves_event`, `typed_result_is_users`.
-/
namespace Bobo.Builder
open Bobo.Run
set_option linter.unusedSimpArgs false
set_option linter.unusedVariables false

variable {ε : Type}

/-! ### tie G: the generated fragments equal the model -/

/-- the four flag expressions of every block-adding method, as translated from /repo. -/
theorem gen_flags_eq : Bobo.Gen.Builder.flagsOf = flagsOf := by
  funext m l o; cases m <;> rfl

/-- every block-adding method repeats `max(times, 1)` times. -/
theorem gen_copies_eq (m : Method) (hk : m.kind = .block) (times : Int) :
    Bobo.Gen.Builder.copiesOf m times = copies times := by
  cases m <;> first | rfl | (simp [Method.kind] at hk)

/-- `[predicate]` for the single-predicate methods, the whole list (one block!) for the `_any` ones. -/
theorem gen_usesList_eq : Bobo.Gen.Builder.usesList = Method.usesList := by
  funext m; cases m <;> rfl

/-- precondition / haltcondition append to their own list, everything else to the blocks. -/
theorem gen_kind_eq : Bobo.Gen.Builder.kind = Method.kind := by
  funext m; cases m <;> rfl

/-- `generate` passes the five builder fields to the same-named `BoboPattern` parameters. -/
theorem gen_generateArgs_eq : Bobo.Gen.Builder.generateArgs = generateArgs := by decide

/-- the decision tree of `BoboPredicateCallType.evaluate` (symbolically executed from /repo). -/
theorem gen_typedDecision_eq : Bobo.Gen.Builder.typedDecision = typedDecision := by
  funext a b c d e; cases a <;> cases b <;> cases c <;> cases d <;> cases e <;> rfl

/-- all three event kinds cast by building a NEW event from their own fields (checked syntactically by
the translator; it refuses any other shape). -/
theorem gen_cast_builds_new : Bobo.Gen.Builder.castBuildsNewEvent =
    [("BoboEventSimple", 3), ("BoboEventComplex", 6), ("BoboEventAction", 7)] := by decide

/-! ### the builder table -/

/-- **builder table**: for every call (all option values, all predicates) the constructed block carries
exactly the documented properties — `next`: strict (loop as given); `not_next`: strict + negated;
`followed_by`: relaxed, loop/optional as given; `not_followed_by`: relaxed + negated; the `_any`
variants: same flags with the whole predicate list; always the call's group. -/
theorem builder_table (c : Call ε) :
    (c.method = .next → blockOf c =
      { preds := [c.pred], group := c.group, strict := true, loop := c.loop, negated := false, optional := false }) ∧
    (c.method = .notNext → blockOf c =
      { preds := [c.pred], group := c.group, strict := true, loop := false, negated := true, optional := false }) ∧
    (c.method = .followedBy → blockOf c =
      { preds := [c.pred], group := c.group, strict := false, loop := c.loop, negated := false, optional := c.optional }) ∧
    (c.method = .notFollowedBy → blockOf c =
      { preds := [c.pred], group := c.group, strict := false, loop := false, negated := true, optional := false }) ∧
    (c.method = .followedByAny → blockOf c =
      { preds := c.preds, group := c.group, strict := false, loop := c.loop, negated := false, optional := c.optional }) ∧
    (c.method = .notFollowedByAny → blockOf c =
      { preds := c.preds, group := c.group, strict := false, loop := false, negated := true, optional := false }) := by
  refine ⟨?_, ?_, ?_, ?_, ?_, ?_⟩ <;> intro h <;> simp [blockOf, predsOf, flagsOf, Method.usesList, h]

/-- everything a call contributes to the block list is that one block (identical repetitions), and an
`_any` call with `k` predicates yields blocks with all `k` predicates each — never `k` blocks. -/
theorem builder_any_one_block (c : Call ε) :
    (∀ b ∈ blocksOf c, b = blockOf c) ∧
    (c.method.usesList = true → ∀ b ∈ blocksOf c, b.preds = c.preds) ∧
    (c.method.usesList = false → ∀ b ∈ blocksOf c, b.preds = [c.pred]) := by
  have h1 : ∀ b ∈ blocksOf c, b = blockOf c := fun b hb => mem_blocksOf c b hb
  refine ⟨h1, ?_, ?_⟩ <;> intro hu b hb <;> rw [h1 b hb] <;> simp [blockOf, predsOf, hu]

/-- **repetition count**: a legal block-adding call contributes exactly `max(times, 1)` identical
blocks: `times` of them when `times ≥ 1`, one otherwise. -/
theorem builder_copies (c : Call ε) (hk : c.method.kind = .block) (hl : (blockOf c).legal = true) :
    blocksOf c = List.replicate (copies c.times) (blockOf c) ∧
    (blocksOf c).length = (if 1 ≤ c.times then c.times.toNat else 1) ∧
    1 ≤ (blocksOf c).length := by
  have h : blocksOf c = List.replicate (copies c.times) (blockOf c) := by simp [blocksOf, hk, hl]
  refine ⟨h, ?_, ?_⟩
  · rw [h, List.length_replicate]; unfold copies; split <;> omega
  · rw [h, List.length_replicate]; exact copies_pos _

/-- the code-shaped call (iteration by iteration, constructor raising inside the loop) appends exactly
the declarative contribution of the call; name and singleton flag are never touched. -/
theorem applyCall_spec (s : St ε) (c : Call ε) :
    (applyCall s c).1.blocks = s.blocks ++ blocksOf c ∧
    (applyCall s c).1.pre = s.pre ++ presOf c ∧
    (applyCall s c).1.halt = s.halt ++ haltsOf c ∧
    (applyCall s c).1.name = s.name ∧ (applyCall s c).1.singleton = s.singleton :=
  ⟨applyCall_blocks s c, applyCall_pre s c, applyCall_halt s c, applyCall_name s c, applyCall_singleton s c⟩

/-- **call order**: blocks, preconditions and haltconditions accumulate in call order. -/
theorem builder_order (s : St ε) (cs : List (Call ε)) :
    (build s cs).blocks = s.blocks ++ cs.flatMap blocksOf ∧
    (build s cs).pre = s.pre ++ cs.flatMap presOf ∧
    (build s cs).halt = s.halt ++ cs.flatMap haltsOf ∧
    (build s cs).name = s.name ∧ (build s cs).singleton = s.singleton := by
  induction cs generalizing s with
  | nil => simp [build]
  | cons c cs ih =>
    obtain ⟨h1, h2, h3, h4, h5⟩ := ih (applyCall s c).1
    obtain ⟨a1, a2, a3, a4, a5⟩ := applyCall_spec s c
    simp only [build, List.flatMap_cons]
    refine ⟨?_, ?_, ?_, ?_, ?_⟩
    · rw [h1, a1, List.append_assoc]
    · rw [h2, a2, List.append_assoc]
    · rw [h3, a3, List.append_assoc]
    · rw [h4, a4]
    · rw [h5, a5]

/-- building `cs₁ ++ cs₂` is building `cs₁` and then `cs₂`; the lists are appended. -/
theorem builder_append (s : St ε) (cs₁ cs₂ : List (Call ε)) :
    build s (cs₁ ++ cs₂) = build (build s cs₁) cs₂ ∧
    (build s (cs₁ ++ cs₂)).blocks = (build s cs₁).blocks ++ cs₂.flatMap blocksOf := by
  have h : build s (cs₁ ++ cs₂) = build (build s cs₁) cs₂ := by
    induction cs₁ generalizing s with
    | nil => rfl
    | cons c cs ih => simp [build, ih]
  exact ⟨h, by rw [h]; exact (builder_order _ _).1⟩

/-! ### what is rejected -/

/-- the documented block rule (docs/phenomena.rst): at least one predicate; a strict block cannot be
optional; a looping block can neither be negated nor optional; a negated block cannot be optional. -/
def DocLegalBlock (npreds : Nat) (strict loop negated optional : Bool) : Prop :=
  0 < npreds ∧ ¬(strict = true ∧ optional = true) ∧
  (loop = true → negated = false ∧ optional = false) ∧ ¬(negated = true ∧ optional = true)

/-- **block constructor**: `BoboPatternBlock.__init__` (as translated from /repo) accepts ⇔ the
documented rule holds — all 16 flag vectors, any number of predicates.  (⇐ is "accepts everything else".) -/
theorem block_ctor_iff (npreds : Nat) (strict loop negated optional : Bool) :
    Bobo.Gen.PatternRules.blockRejects npreds strict loop negated optional = false ↔
      DocLegalBlock npreds strict loop negated optional := by
  unfold Bobo.Gen.PatternRules.blockRejects DocLegalBlock
  cases strict <;> cases loop <;> cases negated <;> cases optional <;> simp <;> omega

/-- the same for model blocks (via C01's `gen_blockRejects_eq`). -/
theorem block_legal_iff (b : Block ε) :
    b.legal = true ↔ DocLegalBlock b.preds.length b.strict b.loop b.negated b.optional := by
  rw [← block_ctor_iff, Bobo.Run.gen_blockRejects_eq]; simp

/-- the documented pattern rule: non-empty name, at least one block, first and last block neither
negated nor optional nor looping. -/
def DocLegalPattern (nameLen nblocks : Nat) (fn fo fl ln lo ll : Bool) : Prop :=
  0 < nameLen ∧ 0 < nblocks ∧ (fn = false ∧ fo = false ∧ fl = false) ∧ (ln = false ∧ lo = false ∧ ll = false)

/-- **pattern constructor**: `BoboPattern.__init__` (as translated) accepts ⇔ the documented rule;
the strictness of the first/last block is irrelevant. -/
theorem pattern_ctor_iff (nameLen nblocks : Nat) (fn fo fl fs ln lo ll ls : Bool) :
    Bobo.Gen.PatternRules.patternRejects nameLen nblocks fn fo fl fs ln lo ll ls = false ↔
      DocLegalPattern nameLen nblocks fn fo fl ln lo ll := by
  unfold Bobo.Gen.PatternRules.patternRejects DocLegalPattern
  cases fn <;> cases fo <;> cases fl <;> cases ln <;> cases lo <;> cases ll <;> simp <;> omega

/-- the model's constructor check is the generated check applied to the first and the last block. -/
theorem ctorOk_eq_gen (p : Pattern ε) (f l : Block ε) (hf : p.blocks.head? = some f)
    (hl : p.blocks.getLast? = some l) :
    ctorOk p = !Bobo.Gen.PatternRules.patternRejects p.name.length p.blocks.length
      f.negated f.optional f.loop f.strict l.negated l.optional l.loop l.strict := by
  have hn : p.blocks.length ≠ 0 := by
    intro h; rw [List.length_eq_zero_iff] at h; simp [h] at hf
  have he : p.name.isEmpty = decide (p.name.length = 0) := by
    rw [Bool.eq_iff_iff]; simp [String.isEmpty_iff, String.length_eq_zero_iff]
  unfold ctorOk
  rw [hf, hl, Bobo.Run.gen_patternRejects_eq, he]
  simp [Block.plain, hn, Bool.and_assoc]

/-- with no blocks both reject (the length test comes before any indexing: `gen_guards_first`). -/
theorem ctorOk_empty (p : Pattern ε) (h : p.blocks = []) :
    ctorOk p = false ∧ ∀ n a b c d e f g i, Bobo.Gen.PatternRules.patternRejects n 0 a b c d e f g i = true := by
  refine ⟨by simp [ctorOk, h], ?_⟩
  intro n a b c d e f g i; simp [Bobo.Gen.PatternRules.patternRejects]

/-- **which builder calls raise**: a call raises iff it is a block-adding call whose block is illegal,
the error is `BoboPatternBlockError`, and that happens exactly for `followed_by` / `followed_by_any`
with `loop ∧ optional`, or an `_any` method given an empty list.  A raising call leaves the builder
exactly as it was; a non-raising block-adding call appends at least one block. -/
theorem builder_rejections (s : St ε) (c : Call ε) :
    ((applyCall s c).2 = some .block ↔ (c.method.kind = .block ∧ (blockOf c).legal = false)) ∧
    ((applyCall s c).2 = none ∨ (applyCall s c).2 = some .block) ∧
    (c.method.kind = .block → ((blockOf c).legal = false ↔
        ((c.method.usesList = true ∧ c.preds = []) ∨
         ((c.method = .followedBy ∨ c.method = .followedByAny) ∧ c.loop = true ∧ c.optional = true)))) ∧
    ((applyCall s c).2 ≠ none → (applyCall s c).1 = s) :=
  ⟨applyCall_err_iff s c, applyCall_err_cases s c, fun hk => call_illegal_iff c hk, applyCall_raise_unchanged s c⟩

/-- **when `generate` raises**: iff the name is empty, there is no block, or the first or the last
block is negated, optional or looping; otherwise it returns the pattern with exactly the builder's
five fields. -/
theorem generate_rejections (s : St ε) :
    (generate s = .error .pattern ↔
      (s.name = "" ∨ s.blocks = [] ∨ (∃ f, s.blocks.head? = some f ∧ f.plain = false) ∨
        (∃ l, s.blocks.getLast? = some l ∧ l.plain = false))) ∧
    (generate s = .error .pattern ∨ generate s = .ok (toPattern s)) := by
  constructor
  · unfold generate
    by_cases hc : ctorOk (toPattern s) = true
    · simp only [hc, if_true]
      constructor
      · intro h; cases h
      · intro h
        exfalso
        unfold ctorOk toPattern at hc
        simp only [Bool.and_eq_true, Bool.not_eq_true', ← Bool.not_eq_true, String.isEmpty_iff] at hc
        rcases h with h | h | ⟨f, hf, hp⟩ | ⟨l, hl, hp⟩
        · exact hc.1 h
        · simp [h] at hc
        · rw [hf] at hc
          cases hg : s.blocks.getLast? with
          | none => simp [hg] at hc
          | some l => simp [hg, hp] at hc
        · rw [hl] at hc
          cases hg : s.blocks.head? with
          | none => simp [hg] at hc
          | some f => simp [hg, hp] at hc
    · simp only [hc, if_false]
      refine ⟨fun _ => ?_, fun _ => rfl⟩
      unfold ctorOk toPattern at hc
      by_cases hn : s.name = ""
      · exact .inl hn
      · right
        cases hb : s.blocks with
        | nil => exact .inl rfl
        | cons b rest =>
          right
          have hh : (b :: rest).head? = some b := rfl
          obtain ⟨l, hl⟩ : ∃ l, (b :: rest).getLast? = some l := ⟨_, List.getLast?_eq_some_getLast (by simp)⟩
          have hne : s.name.isEmpty = false := by
            rw [← Bool.not_eq_true, String.isEmpty_iff]; exact hn
          simp only [hb, hh, hl, hne] at hc
          by_cases hp : b.plain = true
          · right; exact ⟨l, hl, by simpa [hp] using hc⟩
          · left; exact ⟨b, rfl, by simpa using hp⟩
  · unfold generate; split
    · exact .inr rfl
    · exact .inl rfl

/-! ### accepted patterns run safely -/

/-- every block a builder holds went through the block constructor. -/
theorem build_all_legal (s : St ε) (hs : s.blocks.all Block.legal = true) (cs : List (Call ε)) :
    (build s cs).blocks.all Block.legal = true := by
  rw [(builder_order s cs).1, List.all_append, hs, Bool.true_and, List.all_eq_true]
  intro b hb
  obtain ⟨c, _, hbc⟩ := List.mem_flatMap.mp hb
  exact blocksOf_legal c b hbc

/-- a pattern that `generate` returns from a builder is legal in the sense of C01 (`Pattern.legal`). -/
theorem generate_legal (s : St ε) (hs : s.blocks.all Block.legal = true) (p : Pattern ε)
    (hg : generate s = .ok p) : p.legal = true := by
  unfold generate at hg
  split at hg
  · next hc =>
    injection hg with hg; subst hg
    exact legal_of_ctorOk _ hc hs
  · cases hg

/-- **builder-generated patterns run safely**: whatever the sequence of builder calls (raising ones
included), if `generate` succeeds then no reachable run of the pattern raises an index error on any
event, whatever the predicates do. -/
theorem accepted_runs_safely (name : String) (sg : Bool) (s₀ : St ε) (h₀ : init name sg = .ok s₀)
    (cs : List (Call ε)) (p : Pattern ε) (hg : generate (build s₀ cs) = .ok p)
    (r : Run ε) (hr : RunInv p r) (e : ε) : (process p r e).1 ≠ .indexError := by
  have hs : s₀.blocks.all Block.legal = true := by
    unfold init at h₀; split at h₀
    · cases h₀
    · injection h₀ with h₀; subst h₀; rfl
  exact reachable_runs_total p (generate_legal _ (build_all_legal s₀ hs cs) p hg) r hr e

/-- the same for patterns built through the raw constructors: constructed blocks (each accepted by the
block constructor) accepted by the pattern constructor. -/
theorem ctor_accepted_runs_safely (p : Pattern ε) (hb : p.blocks.all Block.legal = true)
    (hc : ctorOk p = true) (r : Run ε) (hr : RunInv p r) (e : ε) : (process p r e).1 ≠ .indexError :=
  reachable_runs_total p (legal_of_ctorOk p hc hb) r hr e

/-- the outcomes of feeding a whole stream to one run. -/
def outs (p : Pattern ε) : Run ε → List ε → List Out
  | _, [] => []
  | r, e :: es => (process p r e).1 :: outs p (process p r e).2 es

/-- **any event stream**: a run started by the first block (or any reachable run) of an accepted
pattern processes every stream, of any length, without an index error at any step. -/
theorem accepted_stream_total (p : Pattern ε) (hp : p.legal = true) (es : List ε) :
    ∀ (r : Run ε), RunInv p r → ∀ o ∈ outs p r es, o ≠ .indexError := by
  induction es with
  | nil => intro r _ o h; simp [outs] at h
  | cons e es ih =>
    intro r hr o h
    simp only [outs, List.mem_cons] at h
    rcases h with h | h
    · subst h; exact reachable_runs_total p hp r hr e
    · exact ih _ (process_preserves_inv p r e hr) o h

/-- the position rule is necessary: with an optional last block (what `BoboPattern.__init__` forbids)
the walk runs off the end of the block list. -/
theorem optional_last_block_unsafe :
    let b0 : Block Nat := { preds := [fun e _ => some (e == 0)], group := "a", strict := false, loop := false, negated := false, optional := false }
    let b1 : Block Nat := { preds := [fun e _ => some (e == 1)], group := "b", strict := false, loop := false, negated := false, optional := true }
    let p : Pattern Nat := { name := "p", blocks := [b0, b1], pre := [], halt := [], singleton := false }
    p.blocks.all Block.legal = true ∧ ctorOk p = false ∧
    (process p (newRun "r" p "a" 0) 7).1 = .indexError := by decide

/-! ### type-checked predicates -/

section typed
variable {δ μ η : Type}

/-- `evaluate` follows the decision table (tie to the generated tree through `gen_typedDecision_eq`). -/
theorem evalTyped_decision (t : Typed δ) (f : Ev δ μ → η → Option Bool) (e : Ev δ μ) (h : η) :
    match typedDecision t.subtype t.doCast (t.isInst e.data) (t.isExact e.data) (t.cast e.data).isSome with
    | .retFalse => (evalTyped t f e h).handed = none ∧ (evalTyped t f e h).result = some false
    | .callOrig => (evalTyped t f e h).handed = some e
    | .callCast => ∃ d', t.cast e.data = some d' ∧ (evalTyped t f e h).handed = some { data := d', rest := e.rest } := by
  unfold typedDecision evalTyped castEvent
  cases hs : t.subtype <;> cases hc : t.doCast <;> cases hi : t.isInst e.data <;> cases hx : t.isExact e.data <;>
    cases hk : t.cast e.data <;> simp

/-- **only typed data reaches the function**: the user function is called either with the original
event, whose data passed the type test, or — the test having failed and casting being enabled — with a
new event whose data is the result of a successful cast and whose other fields are the original's. -/
theorem typed_calls_only_typed (t : Typed δ) (f : Ev δ μ → η → Option Bool) (e ev : Ev δ μ) (h : η)
    (hh : (evalTyped t f e h).handed = some ev) :
    (ev = e ∧ t.typeOk e.data = true) ∨
    (t.typeOk e.data = false ∧ t.doCast = true ∧ ∃ d', t.cast e.data = some d' ∧ ev = { data := d', rest := e.rest }) := by
  unfold evalTyped castEvent Typed.typeOk at *
  cases hs : t.subtype <;> cases hc : t.doCast <;> cases hi : t.isInst e.data <;> cases hx : t.isExact e.data <;>
    cases hk : t.cast e.data <;> simp_all

/-- if a cast to `dtype` yields a value of exactly `dtype` (true of Python classes whose `__new__`
returns an instance of the class), every event the function sees carries data that passes the type test. -/
theorem typed_handed_is_typed (t : Typed δ)
    (hcast : ∀ d d', t.cast d = some d' → t.isExact d' = true ∧ t.isInst d' = true)
    (f : Ev δ μ → η → Option Bool) (e ev : Ev δ μ) (h : η)
    (hh : (evalTyped t f e h).handed = some ev) : t.typeOk ev.data = true := by
  rcases typed_calls_only_typed t f e ev h hh with ⟨rfl, hk⟩ | ⟨_, _, d', hd, rfl⟩
  · exact hk
  · have := hcast _ _ hd
    unfold Typed.typeOk; split <;> simp [this]

/-- a failed type test with casting disabled, or a failed cast, gives `False` without calling the function. -/
theorem typed_cast_fail_false (t : Typed δ) (f : Ev δ μ → η → Option Bool) (e : Ev δ μ) (h : η)
    (hk : t.typeOk e.data = false) (hc : t.doCast = false ∨ t.cast e.data = none) :
    (evalTyped t f e h).result = some false ∧ (evalTyped t f e h).handed = none := by
  unfold evalTyped castEvent Typed.typeOk at *
  cases hs : t.subtype <;> cases hd : t.doCast <;> cases hi : t.isInst e.data <;> cases hx : t.isExact e.data <;>
    cases hkk : t.cast e.data <;> simp_all

/-- **the original event is never altered**: after `evaluate` the caller's event is what it was, and
whatever event the function saw differs from it at most in `data`. -/
theorem typed_preserves_event (t : Typed δ) (f : Ev δ μ → η → Option Bool) (e : Ev δ μ) (h : η) :
    (evalTyped t f e h).orig = e ∧ ∀ ev, (evalTyped t f e h).handed = some ev → ev.rest = e.rest := by
  constructor
  · unfold evalTyped castEvent
    cases hs : t.subtype <;> cases hd : t.doCast <;> cases hi : t.isInst e.data <;> cases hx : t.isExact e.data <;>
      cases hkk : t.cast e.data <;> simp
  · intro ev hh
    rcases typed_calls_only_typed t f e ev h hh with ⟨rfl, _⟩ | ⟨_, _, d', _, rfl⟩ <;> rfl

/-- when the function is called, its verdict (or its raise) is what `evaluate` returns. -/
theorem typed_result_is_users (t : Typed δ) (f : Ev δ μ → η → Option Bool) (e ev : Ev δ μ) (h : η)
    (hh : (evalTyped t f e h).handed = some ev) : (evalTyped t f e h).result = f ev h := by
  unfold evalTyped castEvent at *
  cases hs : t.subtype <;> cases hd : t.doCast <;> cases hi : t.isInst e.data <;> cases hx : t.isExact e.data <;>
    cases hkk : t.cast e.data <;> simp_all

end typed

/-! ### non-vacuity -/
section examples_
private def q (k : Nat) : Pred Nat := fun e _ => some (e == k)

/-- `b.followed_by(q0).followed_by_any([q1,q2], "g", times=0, optional=True).not_next(q3, times=2)
      .followed_by(q4, loop=True, optional=True)   # raises
      .precondition(e != 9).next(q6, loop=True).haltcondition(q7).followed_by(q8)` -/
private def exCalls : List (Call Nat) :=
  [ { method := .followedBy, pred := q 0 },
    { method := .followedByAny, preds := [q 1, q 2], group := "g", times := 0, optional := true },
    { method := .notNext, pred := q 3, times := 2 },
    { method := .followedBy, pred := q 4, loop := true, optional := true },
    { method := .precondition, pred := fun e _ => some (e != 9) },
    { method := .next, pred := q 6, loop := true },
    { method := .haltcondition, pred := q 7 },
    { method := .followedBy, pred := q 8, times := -1 } ]

private def exSt : St Nat := { name := "p", singleton := true }

example : init "p" true = .ok exSt := rfl
example : (init "" false : Except Err (St Nat)) = .error .builder := rfl
/-- six blocks: 1 + 1 (times=0) + 2 + 0 (raised) + 1 + 1 (times=-1); flags in call order. -/
example : (build exSt exCalls).blocks.map (fun b => (b.group, b.strict, b.loop, b.negated, b.optional, b.preds.length))
    = [("", false, false, false, false, 1), ("g", false, false, false, true, 2),
       ("", true, false, true, false, 1), ("", true, false, true, false, 1),
       ("", true, true, false, false, 1), ("", false, false, false, false, 1)] := by decide
example : (build exSt exCalls).pre.length = 1 ∧ (build exSt exCalls).halt.length = 1 := by decide
example : (applyCall exSt { method := .followedBy, pred := q 4, loop := true, optional := true }).2 = some .block := by decide
example : (applyCall exSt { method := .notFollowedByAny, preds := ([] : List (Pred Nat)) }).2 = some .block := by decide
example : ∃ p, generate (build exSt exCalls) = .ok p ∧ p.legal = true ∧ p.blocks.length = 6 :=
  ⟨_, rfl, by decide, by decide⟩
/-- a builder whose last call is `not_next`: `generate` raises. -/
example : generate (build exSt (exCalls.take 3)) = .error .pattern := rfl
example : generate exSt = .error .pattern := rfl
/-- the hypotheses of `accepted_runs_safely` are satisfiable, and the run really moves. -/
example : RunInv (toPattern (build exSt exCalls)) (newRun "r" (toPattern (build exSt exCalls)) "" 0) :=
  newRun_inv _ _ _ _
example : (process (toPattern (build exSt exCalls)) (newRun "r" (toPattern (build exSt exCalls)) "" 0) 2).2.idx = 2 := by decide

/-- typed predicate over `Int ⊕ String` with `dtype = int`: "5" casts to 5, "x" does not. -/
private def tInt : Typed (Int ⊕ String) :=
  { isInst := fun d => d.isLeft, isExact := fun d => d.isLeft,
    cast := fun d => match d with
      | .inl i => some (.inl i)
      | .inr s => if s = "5" then some (.inl 5) else none,
    subtype := true, doCast := true }
private def fPos : Ev (Int ⊕ String) String → Unit → Option Bool :=
  fun e _ => match e.data with | .inl i => some (decide (i > 0)) | .inr _ => none
example : (evalTyped tInt fPos ⟨.inl 3, "e1"⟩ ()).handed = some ⟨.inl 3, "e1"⟩ := by decide
example : (evalTyped tInt fPos ⟨.inr "5", "e1"⟩ ()).handed = some ⟨.inl 5, "e1"⟩ ∧
          (evalTyped tInt fPos ⟨.inr "5", "e1"⟩ ()).result = some true ∧
          (evalTyped tInt fPos ⟨.inr "5", "e1"⟩ ()).orig = ⟨.inr "5", "e1"⟩ := by decide
example : (evalTyped tInt fPos ⟨.inr "x", "e1"⟩ ()).result = some false ∧
          (evalTyped tInt fPos ⟨.inr "x", "e1"⟩ ()).handed = none := by decide
example : (evalTyped { tInt with doCast := false } fPos ⟨.inr "5", "e1"⟩ ()).result = some false := by decide
example : ∀ d d', tInt.cast d = some d' → tInt.isExact d' = true ∧ tInt.isInst d' = true := by
  intro d d' h
  cases d with
  | inl i => simp [tInt] at h; subst h; simp [tInt]
  | inr s =>
    simp only [tInt] at h
    split at h
    · injection h with h; subst h; simp [tInt]
    · cases h
end examples_

end Bobo.Builder
