/-
C15, fractional configurations.  The constructor of `BoboDistributedTCP` takes its five periods as given; Python compares the
whole-second differences of clock readings with them exactly (an `int` against a `float` is compared as the rationals they
are).  The correspondence harness (harness/props/c15.py, `eff`) hands the MODEL the ceilings of a fractional configuration.
That is sound: for a whole number of elapsed seconds `d` and a period `p = a / b` (`b > 0`; every float is such a fraction),
`d ≥ p` holds exactly when `d ≥ ⌈p⌉`, and `d < p` exactly when `d < ⌈p⌉` — so every decision of the table (which is made of
such comparisons only) is the same for `p` and for `⌈p⌉`.  In particular a sub-second retry interval means "not twice within
one clock second" (`⌈p⌉ = 1`), never "on every pass" — which is what truncation, `int(p) = 0`, gives (`trunc_differs`).
Core Lean only; `d ≥ a / b` is stated without division as `a ≤ d * b`.
-/
namespace Bobo.C15Frac

/-- ceiling of the fraction `a / b` for `b > 0` -/
def ceilDiv (a b : Int) : Int := (a + b - 1) / b

/-- elapsed whole seconds reach the period `a / b` iff they reach its ceiling -/
theorem reach_iff_reach_ceil (d a b : Int) (hb : 0 < b) : a ≤ d * b ↔ ceilDiv a b ≤ d := by
  unfold ceilDiv
  have h1 : (a + b - 1) / b ≤ d ↔ (a + b - 1) / b < d + 1 := Int.lt_add_one_iff.symm
  have h2 : (a + b - 1) / b < d + 1 ↔ a + b - 1 < (d + 1) * b := Int.ediv_lt_iff_lt_mul hb
  have h3 : (d + 1) * b = d * b + b := by rw [Int.add_mul, Int.one_mul]
  omega

/-- … and stay below it iff they stay below its ceiling -/
theorem below_iff_below_ceil (d a b : Int) (hb : 0 < b) : d * b < a ↔ d < ceilDiv a b := by
  have h := reach_iff_reach_ceil d a b hb
  omega

/-- a positive period of at most one second means one second -/
theorem subsecond_is_one (a b : Int) (hb : 0 < b) (h0 : 0 < a) (h1 : a ≤ b) : ceilDiv a b = 1 := by
  have hle : ceilDiv a b ≤ 1 := (reach_iff_reach_ceil 1 a b hb).mp (by omega)
  have hgt : ¬ ceilDiv a b ≤ 0 := fun h => by
    have := (reach_iff_reach_ceil 0 a b hb).mpr h
    omega
  omega

/-- truncation is NOT the same: with p = 1/2 and d = 0 the interval has not elapsed, but `d ≥ ⌊p⌋` says it has -/
theorem trunc_differs : ¬ (((1 : Int) ≤ 0 * 2) ↔ ((1 : Int) / 2 ≤ 0)) := by decide

/-- the harness's fractional family (4.5, 9.5, 0.5, 1.5, 2.5) has the ceilings (5, 10, 1, 2, 3) it hands the model -/
example : (ceilDiv 9 2, ceilDiv 19 2, ceilDiv 1 2, ceilDiv 3 2, ceilDiv 5 2) = (5, 10, 1, 2, 3) := by decide

/-- non-vacuity: 2 elapsed seconds do not reach 2.5 s, 3 do -/
example : ¬ ((5 : Int) ≤ 2 * 2) ∧ ((5 : Int) ≤ 3 * 2) ∧ ceilDiv 5 2 = 3 := by decide

end Bobo.C15Frac
