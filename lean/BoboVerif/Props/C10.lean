import BoboVerif.Model.Frame
import BoboVerif.Lemmas.Frame
import BoboVerif.Gen.Frame
/-!
C10 — Message delivery does not depend on how TCP splits the bytes.

Property theorems only.  The model (`recvLoop`, `recv`, `endTest`) is in Model/Frame.lean, the
inductions are in Lemmas/Frame.lean.  `Bobo.Gen.Frame.*` is re-translated from /repo on every run.

Vocabulary: `Framed cfg m` — the end-of-message test accepts `m` (length ≥ `minLen`, ends in the marker);
`NoEarlyFrame cfg m` — it accepts no proper prefix of `m`.  The clock is the list of `int(time.time())`
readings, one per loop iteration; a script is what successive `recv` calls find.
-/
namespace Bobo.Frame

/-- The full statement of the delivery clause of C10: *every* framed message is delivered under every cut.
It is **false** of this framing (`chunking_irrelevant_full_is_false`, finding F9, open): a marker inside the
ciphertext at a read boundary ends the message early.  What is proved is `chunking_irrelevant_partial`,
which adds exactly the hypothesis `NoEarlyFrame cfg m`. -/
def ChunkingIrrelevantFull (cfg : Cfg) : Prop :=
  ∀ (m : Bytes), m ≠ [] → Framed cfg m →
  ∀ (cs : List Bytes), (∀ c ∈ cs, c ≠ []) → cs.flatten = m →
  ∀ (accepted : Int) (clock : List Int), (∀ t ∈ clock, t - accepted < cfg.timeout) → m.length ≤ clock.length →
    (recvLoop cfg accepted clock (cs.map .chunk) [] 0).out = .frame m

/-- **C10, delivery** (partial: under `NoEarlyFrame`): a complete message is recognised — as exactly `m`,
nothing more, nothing less — for every way of cutting it into non-empty pieces (pieces longer than
`recv_bytes` are read in several calls, a last piece shorter than `minLen` included), for every clock that
stays below the timeout. -/
theorem chunking_irrelevant_partial (cfg : Cfg) (hn : 0 < cfg.recvBytes) (m : Bytes) (hm : m ≠ [])
    (hF : Framed cfg m) (hNE : NoEarlyFrame cfg m)
    (cs : List Bytes) (hcs : ∀ c ∈ cs, c ≠ []) (hjoin : cs.flatten = m)
    (accepted : Int) (clock : List Int)
    (hclk : ∀ t ∈ clock, t - accepted < cfg.timeout) (hlen : m.length ≤ clock.length) :
    (recvLoop cfg accepted clock (cs.map .chunk) [] 0).out = .frame m := by
  apply loop_delivers cfg hn m hF hNE accepted clock (cs.map .chunk) [] 0
  · intro r hr
    obtain ⟨c, hc, rfl⟩ := List.mem_map.mp hr
    exact ⟨c, rfl, hcs c hc⟩
  · rw [flat_map_chunk, hjoin]; exact hm
  · rw [flat_map_chunk, hjoin]; rfl
  · exact hclk
  · rw [flat_map_chunk, hjoin]; exact hlen

/-- **C10 in its "does not depend" form**: two different ways of cutting the same message, read under two different
clocks (each below the timeout), hand on the same thing. -/
theorem cut_independent (cfg : Cfg) (hn : 0 < cfg.recvBytes) (m : Bytes) (hm : m ≠ [])
    (hF : Framed cfg m) (hNE : NoEarlyFrame cfg m)
    (cs₁ cs₂ : List Bytes) (h₁ : ∀ c ∈ cs₁, c ≠ []) (h₂ : ∀ c ∈ cs₂, c ≠ [])
    (hj₁ : cs₁.flatten = m) (hj₂ : cs₂.flatten = m)
    (acc₁ acc₂ : Int) (clk₁ clk₂ : List Int)
    (hc₁ : ∀ t ∈ clk₁, t - acc₁ < cfg.timeout) (hc₂ : ∀ t ∈ clk₂, t - acc₂ < cfg.timeout)
    (hl₁ : m.length ≤ clk₁.length) (hl₂ : m.length ≤ clk₂.length) :
    (recvLoop cfg acc₁ clk₁ (cs₁.map .chunk) [] 0).out = (recvLoop cfg acc₂ clk₂ (cs₂.map .chunk) [] 0).out := by
  rw [chunking_irrelevant_partial cfg hn m hm hF hNE cs₁ h₁ hj₁ acc₁ clk₁ hc₁ hl₁,
      chunking_irrelevant_partial cfg hn m hm hF hNE cs₂ h₂ hj₂ acc₂ clk₂ hc₂ hl₂]

/-- the same with the number of reads: pieces of at most `recv_bytes` bytes take exactly one read each. -/
theorem chunking_reads (cfg : Cfg) (m : Bytes) (hm : m ≠ [])
    (hF : Framed cfg m) (hNE : NoEarlyFrame cfg m)
    (cs : List Bytes) (hcs : ∀ c ∈ cs, c ≠ [] ∧ c.length ≤ cfg.recvBytes) (hjoin : cs.flatten = m)
    (accepted : Int) (clock : List Int)
    (hclk : ∀ t ∈ clock, t - accepted < cfg.timeout) (hlen : cs.length ≤ clock.length) :
    recvLoop cfg accepted clock (cs.map .chunk) [] 0 = ⟨.frame m, cs.length⟩ := by
  have := loop_delivers_small cfg m hF hNE accepted clock cs [] 0 hcs
    (by rw [hjoin]; exact hm) (by simpa using hjoin) hclk hlen
  simpa using this

/-- non-vacuity: a 12-byte message read as 5 + 3 + 4 with `recv_bytes = 4` (so 4 + 1 + 3 + 4: four reads). -/
example :
    let cfg : Cfg := { minLen := 6, marker := [66, 79, 66, 79], timeout := 3, recvBytes := 4 }
    let m : Bytes := [1, 2, 3, 4, 5, 6, 7, 8, 66, 79, 66, 79]
    Framed cfg m ∧ NoEarlyFrame cfg m ∧
    recvLoop cfg 100 [100, 100, 101, 102, 102] [.chunk [1, 2, 3, 4, 5], .chunk [6, 7, 8], .chunk [66, 79, 66, 79]] [] 0
      = ⟨.frame m, 4⟩ := by decide

/-- **C10, truncation**: if the stream carries only a proper prefix of a message — followed by anything:
end of stream, empty reads, silence — nothing is ever handed on, and the handler raises the timeout error
at the first clock reading `t` at or past `accepted + timeout` (or one socket timeout after an earlier
reading, when a read stayed silent). -/
theorem truncation_gives_up (cfg : Cfg) (m : Bytes) (hNE : NoEarlyFrame cfg m)
    (script : List RecvResult) (j : Nat) (hj : j < m.length) (hflat : flat script = m.take j)
    (accepted t : Int) (pre post : List Int)
    (hpre : ∀ u ∈ pre, u - accepted < cfg.timeout) (ht : t - accepted ≥ cfg.timeout) :
    ∃ g, (recvLoop cfg accepted (pre ++ t :: post) script [] 0).out = .timeout g ∧
         (g = t ∨ ∃ u ∈ pre, g = u + cfg.timeout) := by
  have hnd := loop_never_delivers cfg m hNE accepted (pre ++ t :: post) script [] 0
    ⟨m.drop j, by
      intro h; have := congrArg List.length h; simp at this; omega,
     by rw [hflat]; simp⟩
  rcases loop_ends cfg accepted t post ht pre script [] 0 hpre with ⟨all, h⟩ | h
  · exact absurd h (hnd all)
  · exact h

/-- non-vacuity: 7 of 12 bytes, then the peer closes: three empty reads, timeout at the reading 103. -/
example :
    let cfg : Cfg := { minLen := 6, marker := [66, 79, 66, 79], timeout := 3, recvBytes := 4 }
    recvLoop cfg 100 [100, 101, 101, 102, 102, 103, 104] [.chunk [1, 2, 3, 4, 5, 6, 7]] [] 0
      = ⟨.timeout 103, 5⟩ := by decide

/-- **C10, bound**: for every script, if every read returns within the socket timeout (so consecutive clock
readings are at most `timeout` apart — this is what `client_s.settimeout(timeout_receive)` provides), a
handler that gives up has done so less than `2 · timeout` after the accept.  With `loop_ends` this is the
whole delay a connection can cause to later ones. -/
theorem silent_bounded (cfg : Cfg) (hT : 0 < cfg.timeout) (accepted : Int) (clock : List Int)
    (script : List RecvResult) (g : Int)
    (hsteps : StepsBounded cfg.timeout accepted clock)
    (h : (recvLoop cfg accepted clock script [] 0).out = .timeout g) :
    g - accepted < 2 * cfg.timeout :=
  loop_bounded cfg hT accepted clock accepted script [] 0 g (by omega) hsteps h

/-- and it always does give up or deliver: the loop is over at the first reading at or past the timeout. -/
theorem gives_up_or_delivers (cfg : Cfg) (accepted t : Int) (pre post : List Int) (script : List RecvResult)
    (hpre : ∀ u ∈ pre, u - accepted < cfg.timeout) (ht : t - accepted ≥ cfg.timeout) :
    (∃ all, (recvLoop cfg accepted (pre ++ t :: post) script [] 0).out = .frame all) ∨
    (∃ g, (recvLoop cfg accepted (pre ++ t :: post) script [] 0).out = .timeout g) := by
  rcases loop_ends cfg accepted t post ht pre script [] 0 hpre with h | ⟨g, h, _⟩
  · exact Or.inl h
  · exact Or.inr ⟨g, h⟩

/-- non-vacuity: a silent peer after 5 bytes; the read at clock 101 times out: given up by 104 < 100 + 6. -/
example :
    let cfg : Cfg := { minLen := 6, marker := [66, 79, 66, 79], timeout := 3, recvBytes := 4 }
    StepsBounded cfg.timeout 100 [100, 101] ∧
    recvLoop cfg 100 [100, 101] [.chunk [1, 2, 3, 4], .silent] [] 0 = ⟨.timeout 104, 2⟩ := by decide

/-- **C10, every length**: whatever `encrypt` lays out as `ciphertext ++ nonce ++ tag ++ marker` is `Framed`
as soon as it reaches the minimum length — which it does for every non-empty plaintext, because the padded
plaintext has at least one block (`padded_ge_block`) — so the theorems above apply to every message length
residue (`minLen` abstract: `block + |nonce| + |tag| + |marker|`). -/
theorem every_length (cfg : Cfg) (hmk : cfg.marker ≠ []) (ct nonce tag : Bytes)
    (hmin : cfg.minLen ≤ ct.length + nonce.length + tag.length + cfg.marker.length) :
    Framed cfg (ct ++ nonce ++ tag ++ cfg.marker) := by
  unfold Framed endTest
  rw [lastN_append _ _ hmk]
  simp only [List.length_append, ge_iff_le, Bool.and_eq_true, decide_eq_true_eq, beq_self_eq_true, and_true]
  exact hmin

/-- `len + (block - len % block)` when `len % block ≠ 0`: a non-empty text is padded to at least one block. -/
theorem padded_ge_block (block len : Nat) (hb : 0 < block) (hl : 0 < len) :
    block ≤ (if len % block = 0 then len else len + (block - len % block)) := by
  split
  · next h => exact Nat.le_of_dvd hl (Nat.dvd_of_mod_eq_zero h)
  · have := Nat.mod_lt len hb; have := Nat.mod_le len block; omega

/-- `NoEarlyFrame` is decidable; a message that satisfies it, and one that does not. -/
example : NoEarlyFrame { minLen := 6, marker := [66, 79, 66, 79], timeout := 3, recvBytes := 4 }
    [1, 2, 3, 4, 5, 6, 7, 8, 66, 79, 66, 79] := by decide

/-- **`NoEarlyFrame` is forced** (finding F9): a `Framed` message with the marker at byte 6, read as 6 + 6,
is cut short — the first six bytes are handed to `decrypt` (which rejects them: the message is lost).
No framing that recognises the end of a message by length + marker alone can avoid this. -/
theorem noEarlyFrame_forced :
    let cfg : Cfg := { minLen := 6, marker := [66, 79, 66, 79], timeout := 3, recvBytes := 64 }
    let m : Bytes := [1, 2, 66, 79, 66, 79, 7, 8, 66, 79, 66, 79]
    Framed cfg m ∧ ¬ NoEarlyFrame cfg m ∧
    (recvLoop cfg 100 [100, 100, 100] [.chunk (m.take 6), .chunk (m.drop 6)] [] 0).out = .frame (m.take 6) ∧
    (recvLoop cfg 100 [100, 100, 100] [.chunk m] [] 0).out = .frame m := by decide

/-- hence the full statement fails (for the framing itself, not for a coding slip). -/
theorem chunking_irrelevant_full_is_false : ¬ ∀ cfg, 0 < cfg.recvBytes → ChunkingIrrelevantFull cfg := by
  intro h
  have := h { minLen := 6, marker := [66, 79, 66, 79], timeout := 3, recvBytes := 64 } (by decide)
    [1, 2, 66, 79, 66, 79, 7, 8, 66, 79, 66, 79] (by decide) (by decide)
    [[1, 2, 66, 79, 66, 79], [7, 8, 66, 79, 66, 79]] (by decide) (by decide)
    100 (List.replicate 12 100) (by decide) (by decide)
  revert this
  decide

/-- finding F7 (pinned tree): testing the *last chunk* drops a message whose last read is shorter than
`minLen` — 12 bytes read as 8 + 4 run into the timeout, while the repaired loop delivers them. -/
theorem old_drops_short_last_read :
    let cfg : Cfg := { minLen := 6, marker := [66, 79, 66, 79], timeout := 3, recvBytes := 64 }
    let m : Bytes := [1, 2, 3, 4, 5, 6, 7, 8, 66, 79, 66, 79]
    let script := [RecvResult.chunk (m.take 8), .chunk (m.drop 8)]
    (recvLoopOld cfg 100 [100, 100, 101, 102, 103] script [] 0).out = .timeout 103 ∧
    (recvLoop cfg 100 [100, 100, 101, 102, 103] script [] 0).out = .frame m := by decide

/-- finding F8 (pinned tree): without a socket timeout a silent peer blocks the handler for good. -/
theorem old_blocks_on_silence :
    let cfg : Cfg := { minLen := 6, marker := [66, 79, 66, 79], timeout := 3, recvBytes := 64 }
    (recvLoopOld cfg 100 [100, 103] [.silent] [] 0).out = .blocked ∧
    (recvLoop cfg 100 [100, 103] [.silent] [] 0).out = .timeout 103 := by decide

/-! tie G: the expressions translated from /repo equal the model's. -/

theorem gen_endTest_eq : Bobo.Gen.Frame.endTest = endTest := by
  funext cfg a b; unfold Bobo.Gen.Frame.endTest endTest; rfl

theorem gen_elapsedTest_eq : Bobo.Gen.Frame.elapsedTest = elapsedTest := by
  funext cfg now acc; unfold Bobo.Gen.Frame.elapsedTest elapsedTest; rfl

theorem gen_sockTimeout_eq : Bobo.Gen.Frame.sockTimeout = sockTimeout := by decide

end Bobo.Frame
