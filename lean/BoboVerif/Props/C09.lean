import BoboVerif.Model.Json
import BoboVerif.Lemmas.Json
import BoboVerif.Lemmas.JsonWitness
import BoboVerif.Gen.Serial
import Std.Data.String.ToInt
/-!
C09 — Replicated run state survives the wire unchanged.

Property theorems only.  The model is Model/Json.lean; helper lemmas (association
lists, the per-kind factory lemmas, the mutual induction over nesting) are in
Lemmas/Json.lean; `Bobo.Gen.Serial.*` is re-translated from /repo on every run
by translate/serial.py.

Every theorem quantifies over an arbitrary text codec `c : Codec` (Python's
`json.dumps` / `json.loads`, assumed exact on JSON-representable values — a
structure field, not an axiom), over ALL run records accepted by the
constructors (`Run.WF`: any number of groups, any group names incl. `""`, any
events of the three kinds nested to any depth, any JSON-representable data), and
over every decoding fuel above the record's nesting depth.
-/
namespace Bobo.Json

/-! ## Tie G: the generated tables are the model's tables, and they are well-formed -/

/-- tie G: field schemas, type tags, factory order, message keys, header line as translated
from /repo equal the ones the model's encoders / decoders are written against. -/
theorem gen_serial_eq :
    Bobo.Gen.Serial.runSerial = runSchema ∧ Bobo.Gen.Serial.simple = simpleSchema ∧
    Bobo.Gen.Serial.complex = complexSchema ∧ Bobo.Gen.Serial.action = actionSchema ∧
    Bobo.Gen.Serial.history = histSchema ∧ Bobo.Gen.Serial.factory = factory ∧
    Bobo.Gen.Serial.wire = wireSchema := by decide

/-- on the generated schemas: keys pairwise distinct, every constructor argument is read from
the key under which the attribute of that name was written, every attribute written is read
back, `from_json_str` on the decoder side exactly where a BoboJSONable sits on the encoder side;
the factory's tags are pairwise distinct and cover the three kinds. -/
theorem schemas_wf :
    Bobo.Gen.Serial.runSerial.wf = true ∧ Bobo.Gen.Serial.simple.wf = true ∧
    Bobo.Gen.Serial.complex.wf = true ∧ Bobo.Gen.Serial.action.wf = true ∧
    Bobo.Gen.Serial.factory.wf = true ∧ nodupB Bobo.Gen.Serial.wire.keys = true := by decide

/-! ## Generic round trip -/

/-- **generic**: for every well-formed schema and constructor arguments fitting it,
`dumps(to_json_dict(), default=to_json_str)` yields a JSON-representable dict from which
`from_json_dict` rebuilds exactly the constructor arguments. -/
theorem roundtrip_of_wf (c : Codec) (σ : Schema) (hσ : σ.wf = true)
    (kw : List (String × FVal)) (hk : KwOk σ kw) :
    ∃ j, interpEnc c.dumps σ kw = some j ∧ j.wf = true ∧ interpDec c.loads σ j = some kw :=
  ⟨_, roundtrip_of_wf_aux c σ hσ kw hk⟩

/-- the hand-written encoders of the model *are* the schema interpretation. -/
theorem encoders_follow_schemas (c : Codec) :
    (∀ e : Ev, e.WF → interpEnc c.dumps e.schema (e.kwargs c.dumps) = some (encodeEv c.dumps e)) ∧
    (∀ r : Run, r.WF → interpEnc c.dumps runSchema (r.kwargs c.dumps) = some (encodeRun c.dumps r)) := by
  constructor
  · intro e h
    rw [← encodeEv_eq]
    exact (roundtrip_of_wf_aux c e.schema (ev_schema_wf e) _ (ev_kwOk c.dumps e h)).1
  · intro r h
    rw [← encodeRun_eq]
    exact (roundtrip_of_wf_aux c runSchema run_wf _ (run_kwOk c.dumps r h)).1

/-! ## Factory -/

def Ev.cls : Ev → Cls
  | .simple .. => .simple
  | .complex .. => .complex
  | .action .. => .action

/-- the three type tags are pairwise distinct, every event's dict carries its own tag under
`event_type`, the tag dispatches to the decoder of the event's own class, and any other tag is
rejected (Unknown event type). -/
theorem factory_dispatch_total (dumps : JVal → String) :
    nodupB (factory.cases.map (·.1)) = true ∧
    (∀ e : Ev, ∃ kvs, encodeEv dumps e = .obj kvs ∧
        lookup factory.tagKey kvs = some (.str e.tag) ∧ dispatch factory e.tag = some e.cls) ∧
    (∀ tag, tag ∉ ["type_simple", "type_complex", "type_action"] → dispatch factory tag = none) := by
  refine ⟨by decide, ?_, ?_⟩
  · intro e
    cases e <;> exact ⟨_, rfl, rfl, rfl⟩
  · intro tag h
    simp only [List.mem_cons, List.not_mem_nil, or_false, not_or] at h
    obtain ⟨h1, h2, h3⟩ := h
    have e1 : ("type_simple" == tag) = false := beq_eq_false_iff_ne.mpr (Ne.symm h1)
    have e2 : ("type_complex" == tag) = false := beq_eq_false_iff_ne.mpr (Ne.symm h2)
    have e3 : ("type_action" == tag) = false := beq_eq_false_iff_ne.mpr (Ne.symm h3)
    simp [dispatch, factory, List.find?, e1, e2, e3]

/-! ## Run records -/

/-- **C09 (record)**: every run record the constructors accept — any groups, any events of the
three kinds nested to any depth, any JSON-representable data — is rebuilt identically by
`BoboRunSerial.from_json_str(r.to_json_str())`, for every recursion budget above its nesting
depth. -/
theorem run_roundtrip (c : Codec) (r : Run) (hw : r.WF) (n : Nat) (hn : r.depth < n) :
    decodeRun c.loads n (runText c.dumps r) = some r := by
  simp [decodeRun, runText, c.loads_dumps _ (encodeRun_wf c r hw), runD_rt c r hw n hn]

/-- enough fuel always exists (Python: the recursion is finite, depth + 1 frames of the factory). -/
theorem run_roundtrip_exists (c : Codec) (r : Run) (hw : r.WF) :
    ∃ N, ∀ n, N ≤ n → decodeRun c.loads n (runText c.dumps r) = some r :=
  ⟨r.depth + 1, fun n hn => run_roundtrip c r hw n (by omega)⟩

/-- serialising the received record again gives the same text. -/
theorem reencode_stable (c : Codec) (r : Run) (hw : r.WF) (n : Nat) (hn : r.depth < n) :
    (decodeRun c.loads n (runText c.dumps r)).map (runText c.dumps) = some (runText c.dumps r) := by
  rw [run_roundtrip c r hw n hn]; rfl

/-- spelled out: identifiers, position, group order, event order within each group (hence
kinds, ids, timestamps, data of every event at every depth) are those of the sent record. -/
theorem content_preserved (c : Codec) (r r' : Run) (hw : r.WF) (n : Nat) (hn : r.depth < n)
    (h : decodeRun c.loads n (runText c.dumps r) = some r') :
    r'.runId = r.runId ∧ r'.phen = r.phen ∧ r'.pat = r.pat ∧ r'.idx = r.idx ∧
    r'.hist.names = r.hist.names ∧ r'.hist.toList = r.hist.toList := by
  rw [run_roundtrip c r hw n hn] at h
  cases h
  exact ⟨rfl, rfl, rfl, rfl, rfl, rfl⟩

/-- events and histories on their own (`BoboEventFactory.from_json_str(e.to_json_str())`,
`BoboHistory.from_json_str(h.to_json_str())`). -/
theorem event_roundtrip (c : Codec) (e : Ev) (hw : e.WF) (n : Nat) (hn : e.depth < n) :
    fromText c.loads (decodeEvD c.loads n) (.str (evText c.dumps e)) = some e := by
  simp [fromText, evText, c.loads_dumps _ (encodeEv_wf c e hw), ev_rt c e hw n hn]

theorem history_roundtrip (c : Codec) (h : Hist) (hw : Groups.WF h) (n : Nat) (hn : Groups.depth h < n) :
    fromText c.loads (decodeHistD c.loads n) (.str (histText c.dumps h)) = some h := by
  simp [fromText, histText, c.loads_dumps _ (encodeHist_wf c.dumps h hw), hist_rt c h hw n hn]

/-! ## The message: outgoing encoder, incoming decoder with its object hook -/

/-- the object hook fires exactly once on an outgoing message, whatever the records hold:
run records are *strings* at the outer level, so a dict inside user data — also one with a key
`completed` / `halted` / `updated` — is never a dict of the outer parse. -/
theorem hook_fires_once (dumps : JVal → String) (cs hs us : List Run) :
    (encodeMsg dumps cs hs us).dicts = 1 := by
  simp [encodeMsg, JVal.dicts, dictsKV, dictsL_strs]

/-- what `json.loads(…, cls=_IncomingJSONDecoder)` computes on the parsed message: one call of
the hook, on the outer dict, whose three values are lists of untouched strings. -/
theorem hook_sees_only_outer (dumps : JVal → String)
    (hook : List (String × HVal) → Option (List (String × HVal))) (cs hs us : List Run) :
    applyHook hook (encodeMsg dumps cs hs us) =
      (hook [("completed", .arr (cs.map fun r => .atom (.str (runText dumps r)))),
             ("halted",    .arr (hs.map fun r => .atom (.str (runText dumps r)))),
             ("updated",   .arr (us.map fun r => .atom (.str (runText dumps r))))]).map .obj := by
  simp [encodeMsg, applyHook, applyHookKV, applyHookL_strs]

/-- **C09 (message)**: three lists of run records survive `_outgoing_to_json` →
`_incoming_from_json` (with the object hook) unchanged, in order. -/
theorem message_roundtrip (c : Codec) (cs hs us : List Run) (n : Nat)
    (hr : ∀ r, r ∈ cs ∨ r ∈ hs ∨ r ∈ us → r.WF ∧ r.depth < n) :
    decodeMsg c.loads n (msgText c.dumps cs hs us) = some (cs, hs, us) := by
  have hwf : (encodeMsg c.dumps cs hs us).wf = true := by
    simp [encodeMsg, JVal.wf, wfKVs, nodupB, wfList_strs]
  have hc := hookElems_rt (decodeRun c.loads n) (runText c.dumps) cs
    (fun r h => run_roundtrip c r (hr r (.inl h)).1 n (hr r (.inl h)).2)
  have hh := hookElems_rt (decodeRun c.loads n) (runText c.dumps) hs
    (fun r h => run_roundtrip c r (hr r (.inr (.inl h))).1 n (hr r (.inr (.inl h))).2)
  have hu := hookElems_rt (decodeRun c.loads n) (runText c.dumps) us
    (fun r h => run_roundtrip c r (hr r (.inr (.inr h))).1 n (hr r (.inr (.inr h))).2)
  simp [decodeMsg, msgText, c.loads_dumps _ hwf, hook_sees_only_outer, objectHook, msgKeys, List.foldlM,
    hookKey, lookupH, replaceH, hc, hh, hu, extractMsg, getRuns_runs]

/-! ## The plaintext header -/

/-- `_split_plaintext` recovers the five parts of the header line for every JSON text (which may
contain spaces) as long as urn, key and the two number tokens contain no space. -/
theorem header_roundtrip (urn key ty fl json : List Char)
    (h1 : ' ' ∉ urn) (h2 : ' ' ∉ key) (h3 : ' ' ∉ ty) (h4 : ' ' ∉ fl) :
    splitPlain (header urn key ty fl json) = some (urn, key, ty, fl, json) := by
  simp [splitPlain, header, splitSp_append _ _ h1, splitSp_append _ _ h2, splitSp_append _ _ h3,
    splitSp_append _ _ h4]

theorem nat_token_no_space (n : Nat) : ' ' ∉ (toString n).toList := by
  intro h
  have hd := (String.isNat_iff.mp (Nat.isNat_repr n)).2.1 ' ' h
  revert hd; decide

/-- with the message type and flags formatted by `str.format` (decimal), `int()` of the two
tokens gives them back.  (`BoboDevice.__init__` rejects a urn / key containing a space.) -/
theorem header_roundtrip_nat (urn key json : List Char) (ty fl : Nat)
    (h1 : ' ' ∉ urn) (h2 : ' ' ∉ key) :
    ∃ t f, splitPlain (header urn key (toString ty).toList (toString fl).toList json)
        = some (urn, key, t, f, json) ∧
      parseDec t = some (ty : Int) ∧ parseDec f = some (fl : Int) := by
  refine ⟨_, _, header_roundtrip urn key _ _ json h1 h2 (nat_token_no_space ty) (nat_token_no_space fl), ?_, ?_⟩
  · simp [parseDec]; exact Nat.toInt?_repr ty
  · simp [parseDec]; exact Nat.toInt?_repr fl

/-- **C09 (wire plaintext)**: header + message text → split → incoming decoder gives back the
three lists.  (Encryption is C17's `roundtrip`; the plaintext ends in `}` so the NUL padding is
stripped without loss.) -/
theorem wire_roundtrip (c : Codec) (urn key : List Char) (ty fl : Nat) (cs hs us : List Run) (n : Nat)
    (h1 : ' ' ∉ urn) (h2 : ' ' ∉ key)
    (hr : ∀ r, r ∈ cs ∨ r ∈ hs ∨ r ∈ us → r.WF ∧ r.depth < n) :
    ∃ t f j, splitPlain (header urn key (toString ty).toList (toString fl).toList
                (msgText c.dumps cs hs us).toList) = some (urn, key, t, f, j) ∧
      parseDec t = some (ty : Int) ∧ parseDec f = some (fl : Int) ∧
      decodeMsg c.loads n (String.ofList j) = some (cs, hs, us) := by
  obtain ⟨t, f, hs', ht, hf⟩ := header_roundtrip_nat urn key (msgText c.dumps cs hs us).toList ty fl h1 h2
  exact ⟨t, f, _, hs', ht, hf, by rw [String.ofList_toList]; exact message_roundtrip c cs hs us n hr⟩

/-! ## Non-vacuity -/

/-- a record with all three kinds, nesting depth 2, the empty group name, and user data that is a
dict with the keys the object hook looks for. -/
def sampleRun : Run :=
  let s : Ev := .simple "e1" 5 (.obj [("completed", .arr [.str "x"]), ("history", .int 1),
                                      ("event_type", .str "type_action"), ("f", .float "1.0")])
  let a : Ev := .action "a1" 7 .null "ph" "pat" "act" false
  let c1 : Ev := .complex "c1" 6 (.arr [.int 1, .float "1.0", .null, .bool true]) "ph" "pat"
                  (.cons "" (.cons s .nil) (.cons "g" (.cons s (.cons a .nil)) .nil))
  let c2 : Ev := .complex "c2" 8 (.str "BOBO") "ph" "pat" (.cons "k" (.cons c1 .nil) .nil)
  ⟨"run1", "ph", "", 2, .cons "g1" (.cons s (.cons c2 .nil)) (.cons "" (.cons a .nil) .nil)⟩

theorem sampleRun_wf : sampleRun.WF ∧ sampleRun.depth = 2 := by
  refine ⟨?_, by decide⟩
  simp [sampleRun, Run.WF, Groups.WF, Evs.WF, Ev.WF, Groups.names, Groups.size, Evs.length, JVal.wf,
    wfKVs, wfList, nodupB]

example (c : Codec) : decodeRun c.loads 3 (runText c.dumps sampleRun) = some sampleRun :=
  run_roundtrip c sampleRun sampleRun_wf.1 3 (by rw [sampleRun_wf.2]; omega)

example (c : Codec) :
    decodeMsg c.loads 3 (msgText c.dumps [sampleRun] [] [sampleRun, sampleRun])
      = some ([sampleRun], [], [sampleRun, sampleRun]) :=
  message_roundtrip c _ _ _ 3 (by
    intro r h
    have : r = sampleRun := by simpa using h
    subst this
    exact ⟨sampleRun_wf.1, by rw [sampleRun_wf.2]; omega⟩)

example : splitPlain (header "urn:a".toList "k1".toList "0".toList "1".toList "{\"a\": [1, 2]}".toList)
    = some ("urn:a".toList, "k1".toList, "0".toList, "1".toList, "{\"a\": [1, 2]}".toList) := by decide

/-- the codec hypothesis is satisfiable: `Lemmas/JsonWitness.lean` builds a text codec (a prefix
code) and proves its law for every value, so the `∀ c : Codec` of the theorems above is not
vacuous. -/
theorem codec_inhabited : Nonempty Codec := ⟨Witness.codec⟩

example : decodeRun Witness.codec.loads 3 (runText Witness.codec.dumps sampleRun) = some sampleRun :=
  run_roundtrip Witness.codec sampleRun sampleRun_wf.1 3 (by rw [sampleRun_wf.2]; omega)

/-- the fuel hypothesis of `run_roundtrip` is not idle: with no budget for the factory no
record decodes (every record holds at least one event). -/
theorem fuel_zero_fails (c : Codec) (r : Run) (hw : r.WF) :
    decodeRun c.loads 0 (runText c.dumps r) = none := by
  have hd := interpDec_encodeRun c r hw
  have hwf := encodeRun_wf c r hw
  obtain ⟨h1, h2, h3, h4, h5⟩ := hw
  have hh : decodeHistD c.loads 0 (encodeHist c.dumps r.hist) = none := by
    cases hr : r.hist with
    | nil => rw [hr] at h4; simp [Groups.size] at h4
    | cons g es gs =>
      rw [hr] at h5
      simp only [Groups.WF] at h5
      cases es with
      | nil => exact absurd rfl h5.1
      | cons e es' =>
        have he := encodeEv_wf c e (by have := h5.2.1; simp only [Evs.WF] at this; exact this.1)
        simp [decodeHistD, encodeHist, decodeHistWith, encodeGroups, decodeGroupsWith, encodeEvs, decodeEvsWith,
          histSchema, fromText, c.loads_dumps _ he, decodeEvD]
  simp [decodeRun, runText, c.loads_dumps _ hwf, decodeRunD, hd, Run.kwargs, mkRun, hh]

end Bobo.Json
