import BoboVerif.Model.Frame
import BoboVerif.Lemmas.Frame
import BoboVerif.Gen.Frame
/-!
C11 — Only authenticated peers can influence an instance.

Property theorems only.  The model is Model/Frame.lean: `handle` = receive loop + the statement list
`steps` run on the peer table and the incoming queue (`St`), `serve` = the accept loop with its `except`
clauses (`handlers`).  `Bobo.Gen.Frame.steps` / `.handlers` are re-translated from /repo on every run.

`ops.decrypt` (AES-GCM open) and `ops.parse` (payload decoder) are arbitrary functions; what is assumed
about the cipher is a *hypothesis* (`AEAD`), never an axiom.
-/
namespace Bobo.Frame

/-- **C11, rejection is silent**: for every byte stream, chunking and clock, every cipher and payload
decoder: unless the handler's outcome is `accepted`, the peer table (address, last contact, last attempt,
reset request, backlog of every peer) and the incoming queue are *equal* to what they were. -/
theorem reject_changes_nothing (ops : Ops) (cfg : Cfg) (c : Conn) (st : St)
    (h : (handle ops cfg c st).out ≠ .accepted) : (handle ops cfg c st).st = st := by
  unfold handle handleG at *
  cases hl : recvLoop cfg c.accepted c.clock c.script [] 0 with
  | mk out k =>
    simp only [hl] at h ⊢
    cases out with
    | frame all =>
      simp only at h ⊢
      cases hr : runSteps ops cfg all c.addr steps {} st with
      | mk eo st' =>
        simp only [hr] at h ⊢
        cases eo with
        | none => simp at h
        | some e => exact steps_reject_unchanged ops cfg all c.addr st st' e hr
    | timeout g => rfl
    | blocked => rfl
    | clockOut => rfl

/-- the order behind it: in the statement list every check comes before every write … -/
theorem writes_after_checks : steps = steps.filter (fun s => !s.isWrite) ++ steps.filter Step.isWrite := by decide

/-- … which the pinned tree's order did not satisfy (finding F14: the address write preceded the payload
parse and the queue check), with the effect shown on a concrete connection: an authenticated message from
a new address whose payload does not parse is rejected, yet the address is rewritten. -/
theorem old_writes_before_checks :
    stepsOld ≠ stepsOld.filter (fun s => !s.isWrite) ++ stepsOld.filter Step.isWrite := by decide

def f14Ops : Ops := ⟨fun _ => some "b kb 0 0 {x", fun _ => some .valueErr⟩
def f14Cfg : Cfg := { minLen := 6, marker := [66, 79, 66, 79], timeout := 3, recvBytes := 64 }
def f14St : St := ⟨[⟨"a", "ka", "10.0.0.1", 0, 0, true, []⟩, ⟨"b", "kb", "10.0.0.2", 7, 8, false, [1]⟩], []⟩
def f14Conn : Conn := ⟨100, [100, 103], [.chunk [1, 2, 66, 79, 66, 79]], "6.6.6.6"⟩

theorem old_reject_changes_addr :
    (handleOld f14Ops f14Cfg f14Conn f14St).out = .rejected .valueErr ∧
    (handleOld f14Ops f14Cfg f14Conn f14St).st ≠ f14St ∧
    (handle f14Ops f14Cfg f14Conn f14St).out = .rejected .valueErr ∧
    (handle f14Ops f14Cfg f14Conn f14St).st = f14St := by decide

/-- **C11, acceptance is earned**: an accepted connection delivered a frame that the cipher opened, whose
header split, whose urn names a known peer and whose key equals that peer's key (and, for SYNC / RESYNC,
whose payload parsed). -/
theorem accepted_implies_authentic (ops : Ops) (cfg : Cfg) (c : Conn) (st : St)
    (h : (handle ops cfg c st).out = .accepted) :
    ∃ all pt f p, (recvLoop cfg c.accepted c.clock c.script [] 0).out = .frame all ∧
      ops.decrypt all = some pt ∧ splitPlain pt = .ok f ∧
      findPeer f.urn st.peers = some p ∧ f.key = p.key ∧
      (isSync f.type = true → ops.parse f.json = none) := by
  unfold handle handleG at h
  cases hl : recvLoop cfg c.accepted c.clock c.script [] 0 with
  | mk out k =>
    simp only [hl] at h
    cases out with
    | frame all =>
      simp only at h
      cases hr : runSteps ops cfg all c.addr steps {} st with
      | mk eo st' =>
        simp only [hr] at h
        cases eo with
        | some e => simp at h
        | none =>
          obtain ⟨pt, f, p, h1, h2, h3, h4, h5⟩ := steps_accept_authentic ops cfg all c.addr st st' hr
          exact ⟨all, pt, f, p, rfl, h1, h2, h3, h4, fun hs => (h5 hs).1⟩
    | timeout g => simp at h
    | blocked => simp at h
    | clockOut => simp at h

/-- the assumption about AES-GCM, as a structure of hypotheses: `sealed b` — "`b` was produced by `encrypt`
under this instance's AES key"; a byte string opens only if it was sealed. -/
structure AEAD (ops : Ops) where
  sealed : Bytes → Prop
  open_some_only_sealed : ∀ b pt, ops.decrypt b = some pt → sealed b

/-- so only holders of the AES key (who sealed the frame) *and* of a device key get anything accepted. -/
theorem accepted_only_sealed (ops : Ops) (A : AEAD ops) (cfg : Cfg) (c : Conn) (st : St)
    (h : (handle ops cfg c st).out = .accepted) :
    ∃ all, (recvLoop cfg c.accepted c.clock c.script [] 0).out = .frame all ∧ A.sealed all := by
  obtain ⟨all, pt, _, _, hl, hd, _⟩ := accepted_implies_authentic ops cfg c st h
  exact ⟨all, hl, A.open_some_only_sealed all pt hd⟩

/-- bit flips, truncations, extensions, random bytes, texts sealed under another key: whatever is not a
sealed byte string is rejected and changes nothing. -/
theorem forgery_rejected (ops : Ops) (A : AEAD ops) (cfg : Cfg) (c : Conn) (st : St)
    (hforged : ∀ all, (recvLoop cfg c.accepted c.clock c.script [] 0).out = .frame all → ¬ A.sealed all) :
    (handle ops cfg c st).out ≠ .accepted ∧ (handle ops cfg c st).st = st := by
  have hne : (handle ops cfg c st).out ≠ .accepted := by
    intro h
    obtain ⟨all, hl, hs⟩ := accepted_only_sealed ops A cfg c st h
    exact hforged all hl hs
  exact ⟨hne, reject_changes_nothing ops cfg c st hne⟩

/-- a wrong device key for a known urn, or an unknown urn, is rejected even when the frame was sealed. -/
theorem wrong_key_rejected (ops : Ops) (cfg : Cfg) (c : Conn) (st : St)
    (hbad : ∀ all pt f, (recvLoop cfg c.accepted c.clock c.script [] 0).out = .frame all →
      ops.decrypt all = some pt → splitPlain pt = .ok f → keyOf f.urn st.peers ≠ some f.key) :
    (handle ops cfg c st).out ≠ .accepted ∧ (handle ops cfg c st).st = st := by
  have hne : (handle ops cfg c st).out ≠ .accepted := by
    intro h
    obtain ⟨all, pt, f, p, hl, hd, hsp, hp, hk, _⟩ := accepted_implies_authentic ops cfg c st h
    exact hbad all pt f hl hd hsp (by simp [keyOf, hp, hk])
  exact ⟨hne, reject_changes_nothing ops cfg c st hne⟩

/-- the handler never writes what identifies the peers. -/
theorem handle_keys (ops : Ops) (cfg : Cfg) (c : Conn) (st : St) : keys (handle ops cfg c st).st = keys st := by
  unfold handle handleG
  cases hl : recvLoop cfg c.accepted c.clock c.script [] 0 with
  | mk out k =>
    cases out with
    | frame all =>
      simp only
      have := runSteps_keys ops cfg all c.addr steps {} st
      cases hr : runSteps ops cfg all c.addr steps {} st with
      | mk eo st' => rw [hr] at this; cases eo <;> exact this
    | timeout g => rfl
    | blocked => rfl
    | clockOut => rfl

/-- **every exit is caught**: every exception class that can leave the handler is covered by an `except`
clause of the accept loop (given that the payload decoder raises only subclasses of `Exception`). -/
theorem exits_are_caught (ops : Ops) (hparse : ∀ j e, ops.parse j = some e → e ≠ .baseExc)
    (cfg : Cfg) (c : Conn) (st : St) (e : Exc) (h : (handle ops cfg c st).out = .rejected e) :
    caught handlers e = true := by
  have hne : e ≠ .baseExc := by
    unfold handle handleG at h
    cases hl : recvLoop cfg c.accepted c.clock c.script [] 0 with
    | mk out k =>
      simp only [hl] at h
      cases out with
      | frame all =>
        simp only at h
        cases hr : runSteps ops cfg all c.addr steps {} st with
        | mk eo st' =>
          simp only [hr] at h
          cases eo with
          | none => simp at h
          | some e' =>
            simp only [Outcome.rejected.injEq] at h; subst h
            exact runSteps_error_class ops hparse cfg all c.addr steps {} st st' e' hr
      | timeout g => simp at h; subst h; decide
      | blocked => simp at h
      | clockOut => simp at h
  cases e <;> first | rfl | exact absurd rfl hne

/-- the clock of a connection eventually shows a reading at or past `accepted + timeout`. -/
def Reaches (cfg : Cfg) (c : Conn) : Prop := ∃ t ∈ c.clock, t - c.accepted ≥ cfg.timeout

/-- the handler returns (normally or by raising) on every such connection: it never blocks. -/
theorem handle_returns (ops : Ops) (cfg : Cfg) (c : Conn) (st : St) (hr : Reaches cfg c) :
    (handle ops cfg c st).out = .accepted ∨ ∃ e, (handle ops cfg c st).out = .rejected e := by
  obtain ⟨pre, t, post, hclk, hpre, ht⟩ := first_reach cfg.timeout c.accepted c.clock hr
  have := loop_ends cfg c.accepted t post ht pre c.script [] 0 hpre
  rw [← hclk] at this
  unfold handle handleG
  cases hl : recvLoop cfg c.accepted c.clock c.script [] 0 with
  | mk out k =>
    rw [hl] at this
    cases out with
    | frame all =>
      simp only
      cases hr : runSteps ops cfg all c.addr steps {} st with
      | mk eo st' => cases eo <;> simp
    | timeout g => simp
    | blocked => simp at this
    | clockOut => simp at this

/-- a complete valid message for the key table `ks` (whatever its chunking — see C10). -/
def Valid (ops : Ops) (cfg : Cfg) (st : St) (c : Conn) : Prop :=
  ∃ all pt f, (recvLoop cfg c.accepted c.clock c.script [] 0).out = .frame all ∧
    ops.decrypt all = some pt ∧ splitPlain pt = .ok f ∧ keyOf f.urn st.peers = some f.key ∧
    (isSync f.type = true → ops.parse f.json = none)

theorem valid_accepted (ops : Ops) (cfg : Cfg) (hq : cfg.queueCap = 0) (c : Conn) (st : St)
    (hv : Valid ops cfg st c) : (handle ops cfg c st).out = .accepted := by
  obtain ⟨all, pt, f, hl, hd, hsp, hk, hpar⟩ := hv
  unfold keyOf at hk
  cases hp : findPeer f.urn st.peers with
  | none => simp [hp] at hk
  | some p =>
    simp only [hp, Option.map_some, Option.some.injEq] at hk
    have := steps_valid_accepted ops cfg all c.addr st pt f p hd hsp hp hk.symm
      (fun hs => ⟨hpar hs, by simp [queueFull, hq]⟩)
    unfold handle handleG
    cases hl' : recvLoop cfg c.accepted c.clock c.script [] 0 with
    | mk out k =>
      rw [hl'] at hl
      simp only at hl
      subst hl
      simp only
      cases hr : runSteps ops cfg all c.addr steps {} st with
      | mk eo st' => rw [hr] at this; simp only at this; subst this; rfl

/-- **C11, the listener survives**: for every sequence of `accept()` results — timeouts of `accept`, and
connections that send anything at all, stop half-way, close, or stay silent — the accept loop is back at
`accept` afterwards (no exception escapes, no handler blocks), the peers' names and keys are what they
were, and a valid message that follows is accepted (incoming queue unbounded, the default). -/
theorem listener_survives (ops : Ops) (hparse : ∀ j e, ops.parse j = some e → e ≠ .baseExc)
    (cfg : Cfg) (hq : cfg.queueCap = 0) :
    ∀ (conns : List (Option Conn)) (st : St), (∀ c, some c ∈ conns → Reaches cfg c) →
      (serve ops cfg conns st).1 = .alive ∧ keys (serve ops cfg conns st).2 = keys st ∧
      ∀ v, Valid ops cfg st v → (handle ops cfg v (serve ops cfg conns st).2).out = .accepted := by
  intro conns
  induction conns with
  | nil =>
    intro st _
    exact ⟨rfl, rfl, fun v hv => valid_accepted ops cfg hq v st hv⟩
  | cons oc cs ih =>
    intro st hreach
    have hreach' : ∀ c, some c ∈ cs → Reaches cfg c := fun c hc => hreach c (by simp [hc])
    cases oc with
    | none =>
      have : caught handlers .sockTimeout = true := by decide
      simp only [serve, serveG, this, if_true]
      exact ih st hreach'
    | some c =>
      have hk := handle_keys ops cfg c st
      have hvalid : ∀ v, Valid ops cfg st v → Valid ops cfg (handle ops cfg c st).st v := by
        intro v ⟨all, pt, f, h1, h2, h3, h4, h5⟩
        refine ⟨all, pt, f, h1, h2, h3, ?_, h5⟩
        rw [keyOf_of_keys _ _ hk]; exact h4
      have hstep : serve ops cfg (some c :: cs) st = serve ops cfg cs (handle ops cfg c st).st := by
        simp only [serve, serveG]
        rcases handle_returns ops cfg c st (hreach c (by simp)) with h | ⟨e, h⟩
        · cases hh : handle ops cfg c st with
          | mk out k st' => rw [hh] at h; simp only at h; subst h; rfl
        · have hc := exits_are_caught ops hparse cfg c st e h
          cases hh : handle ops cfg c st with
          | mk out k st' => rw [hh] at h; simp only at h; subst h; simp [hc]
      rw [hstep]
      obtain ⟨h1, h2, h3⟩ := ih (handle ops cfg c st).st hreach'
      exact ⟨h1, by rw [h2, hk], fun v hv => h3 v (hvalid v hv)⟩

/-- non-vacuity of `listener_survives` and `Valid`: an `accept` timeout, a silent peer, a truncated frame,
a forged frame; then the valid SYNC from peer `b` at a new address is accepted and queued. -/
def exOps : Ops :=
  ⟨fun b => if b = [1, 2, 66, 79, 66, 79] then some "b kb 0 1 {}" else none, fun _ => none⟩
def exConns : List (Option Conn) :=
  [none,
   some ⟨100, [100, 103], [.silent], "6.6.6.6"⟩,
   some ⟨100, [100, 101, 103], [.chunk [1, 2, 66]], "6.6.6.6"⟩,
   some ⟨100, [100, 103], [.chunk [9, 9, 66, 79, 66, 79]], "6.6.6.6"⟩]

example :
    serve exOps f14Cfg exConns f14St = (.alive, f14St) ∧
    (∀ c, some c ∈ exConns → Reaches f14Cfg c) ∧
    (handle exOps f14Cfg ⟨200, [200, 200, 203], [.chunk [1, 2, 66], .chunk [79, 66, 79]], "10.9.9.9"⟩ f14St).out = .accepted ∧
    (handle exOps f14Cfg ⟨200, [200, 200, 203], [.chunk [1, 2, 66], .chunk [79, 66, 79]], "10.9.9.9"⟩ f14St).st
      = ⟨[⟨"a", "ka", "10.0.0.1", 0, 0, true, []⟩, ⟨"b", "kb", "10.9.9.9", 0, 0, false, [1]⟩], ["{}"]⟩ := by
  refine ⟨by decide, ?_, by decide, by decide⟩
  intro c hc
  simp only [exConns, List.mem_cons, reduceCtorEq, Option.some.injEq, List.not_mem_nil, or_false, false_or] at hc
  rcases hc with rfl | rfl | rfl <;> exact ⟨103, by simp, by decide⟩

/-- finding F8 (pinned tree): one silent connection and the listener is stuck for good. -/
theorem old_listener_stuck :
    (serveOld exOps f14Cfg [some ⟨100, [100, 103], [.silent], "6.6.6.6"⟩] f14St).1 = .stuck := by decide

/-! tie G: the statement order and the `except` clauses translated from /repo equal the model's. -/

theorem gen_steps_eq : Bobo.Gen.Frame.steps = steps := by decide

theorem gen_handlers_eq : Bobo.Gen.Frame.handlers = handlers := by decide

end Bobo.Frame
