import BoboVerif.Model.Engine
import BoboVerif.Lemmas.Engine
import BoboVerif.Gen.Wiring
import BoboVerif.Model.EngineAsync
import BoboVerif.Lemmas.EngineAsync
/-!
C02 — One complex event, one action run, one action event per completed run;
conservation of the stream through the engine's queues.

Property theorems only (helper lemmas: Lemmas/Engine.lean; model:
Model/Engine.lean).  Every theorem quantifies over an arbitrary matcher
`P.decide : σ → Event → σ × Notif` on an arbitrary state type `σ`, an arbitrary
validator, datagen and action functions, id / timestamp sequences, every
configuration `c : Cfg` (all `times_* ∈ ℕ`, `early_stop` on/off) and every
sequence of operations.

Two notions of reachable state:
* `Reach P c s`   — `s` results from `add_data` / `BoboEngine.update` calls (the property's wording);
* `FineReach P s` — `s` results from `add_data` / single task `update()` calls in ANY order
  (covers another thread calling `add_data` between two task updates of one engine update).
  Every `Reach` state is a `FineReach` state (`reach_fine`); the invariants are proved for `FineReach`.

The final section ("the asynchronous handlers") proves the property for the thread-pool / process-pool handlers
(Model/EngineAsync.lean, Lemmas/EngineAsync.lean): every order and moment of the pool's completions.
-/
namespace Bobo.Engine
variable {σ : Type}

/-! ## tie G: the tables regenerated from the source equal the ones the model interprets -/

theorem wiring_eq : Bobo.Gen.Wiring.wiring = wiring := rfl
theorem defaults_eq : Bobo.Gen.Wiring.defaults = ({} : Cfg) := rfl
theorem schedule_eq : Bobo.Gen.Wiring.schedule = schedule := rfl
theorem loopOf_eq : Bobo.Gen.Wiring.loopOf = loopOf := by
  funext n; unfold Bobo.Gen.Wiring.loopOf loopOf; split <;> split <;> simp_all
theorem breakNow_eq : Bobo.Gen.Wiring.breakNow = breakNow := by
  funext r e; cases r <;> cases e <;> rfl
theorem setup_simple_eq : Bobo.Gen.Wiring.setupSimple = setupSimple := rfl

/-! ## reachable states -/

def Reach (P : Params σ) (c : Cfg) (s : St σ) : Prop := ∃ d ops, s = runOps P c (init d) ops

inductive FineReach (P : Params σ) : St σ → Prop
  | init (d : σ) : FineReach P (init d)
  | add {s} (it : Item) : FineReach P s → FineReach P (addData .ext it s)
  | task {s} (t : Task) : FineReach P s → FineReach P (taskUpdate P t s).1
  | clear {s} : FineReach P s → FineReach P { s with err := none }

theorem fine_closed (P : Params σ) : Closed P (FineReach P) :=
  ⟨fun t _ h => .task t h, fun _ h => .clear h⟩

/-- an engine update is a particular sequence of single task updates. -/
theorem reach_fine {P : Params σ} {c : Cfg} {s : St σ} (h : Reach P c s) : FineReach P s := by
  obtain ⟨d, ops, rfl⟩ := h
  exact runOps_closed (fine_closed P) (fun it _ h => .add it h) c ops _ (.init d)

theorem inv_fine {P : Params σ} {s : St σ} (h : FineReach P s) : Inv P s := by
  induction h with
  | init d => exact inv_init P d
  | add it _ ih => exact inv_add P it _ ih
  | task t _ ih => exact inv_task P t _ ih
  | clear _ ih => exact inv_clear P _ ih

/-! ## conservation: entry point → receiver queue → decider queue → matcher -/

/-- **C02 (conservation)**.  In every reachable state, as LIST equalities:
everything that entered the receiver queue = what the receiver took ++ what is still queued;
its valid part = the items for which an event was published ++ the valid part of the queue;
the published stream = what the matcher has been given ++ the decider queue;
and each published event is the item itself (events) or a simple event carrying the datum.
Exactly once, in arrival order, nothing lost, nothing duplicated. -/
theorem conservation {P : Params σ} {s : St σ} (h : FineReach P s) :
    s.entered.map (·.2) = s.popped ++ s.rq ∧
    (s.entered.map (·.2)).filter P.isValid = s.processed.map (·.1) ++ s.rq.filter P.isValid ∧
    s.processed.map (·.2) = s.seen ++ s.dq ∧
    (∀ p ∈ s.processed, Wraps p.1 p.2) := by
  have i := inv_fine h
  refine ⟨i.entered_eq, ?_, i.published_eq, i.wraps⟩
  rw [i.entered_eq, List.filter_append, i.processed_eq]

/-- the items tagged `ext` are exactly the caller's `add_data` arguments, in order
(so `conservation` speaks about every datum accepted at the entry point). -/
def inputs : List Op → List Item
  | [] => []
  | .add it :: ops => it :: inputs ops
  | .update :: ops => inputs ops

def extEntered (s : St σ) : List Item := (s.entered.filter (fun x => x.1 == .ext)).map (·.2)

theorem extEntered_task (P : Params σ) (t : Task) (s : St σ) :
    extEntered (taskUpdate P t s).1 = extEntered s := by
  cases t
  · simp only [taskUpdate, recvUpdate]
    split
    · rfl
    · simp only [processData]
      split
      · rfl
      · rename_i it _ _ _
        cases it <;> simp [extEntered, deliverRecv]
  · simp only [taskUpdate, decUpdate]
    split
    · rfl
    · split <;> simp [extEntered, deliverDec]
  · simp only [taskUpdate, prodUpdate]
    split
    · rfl
    · split
      · rfl
      · simp only [subsOf_producer, List.foldl_cons, List.foldl_nil, deliverProd]
        split <;> simp [extEntered, addData, List.filter_append]
  · simp only [taskUpdate, fwdUpdate, fwdHandle, fwdResponses]
    split <;> split <;> (try split) <;> simp [extEntered, deliverFwd, addData, List.filter_append]

theorem entry_point_is_inputs (P : Params σ) (c : Cfg) (ops : List Op) :
    ∀ s : St σ, extEntered (runOps P c s ops) = extEntered s ++ inputs ops := by
  induction ops with
  | nil => intro s; simp [runOps, inputs]
  | cons o ops ih =>
    intro s
    simp only [runOps, List.foldl_cons] at ih ⊢
    rw [ih]
    cases o with
    | add it => simp [applyOp, inputs, extEntered, addData, List.filter_append]
    | update =>
      have : extEntered (engineUpdate P c s) = extEntered s :=
        engineUpdate_closed (I := fun a => extEntered a = extEntered s)
          ⟨fun t a h => by rw [extEntered_task]; exact h, fun a h => h⟩ c s rfl
      simp [applyOp, inputs, this]

/-- **C02 (conservation), in the property's own terms**: for every matcher, validator, configuration and every
sequence `ops` of `add_data` / `BoboEngine.update` calls on a fresh engine — the data given to `add_data` are exactly
the `ext`-tagged entries of the receiver's intake, and the whole intake (those data interleaved with the fed-back
complex / action events) reaches the matcher once each, in order, minus what the validator rejects and what is still
queued. -/
theorem conservation_ops (P : Params σ) (c : Cfg) (d : σ) (ops : List Op) :
    let s := runOps P c (init d) ops
    extEntered s = inputs ops ∧
    (s.entered.map (·.2)).filter P.isValid = s.processed.map (·.1) ++ s.rq.filter P.isValid ∧
    s.processed.map (·.2) = s.seen ++ s.dq ∧
    (∀ p ∈ s.processed, Wraps p.1 p.2) := by
  have h := conservation (reach_fine (P := P) (c := c) ⟨d, ops, rfl⟩)
  refine ⟨?_, h.2.1, h.2.2.1, h.2.2.2⟩
  rw [entry_point_is_inputs]; simp [extEntered, init]

/-! ## one complex event, one execution, one action event per completed run -/

/-- **C02 (1:1:1, contents)**.  In every reachable state:
completed runs notified = runs the producer took ++ producer queue;
the complex events built are, field by field (phenomenon, pattern, history, datagen value, local flag),
the runs the producer took (those whose phenomenon it knows), in order, and are of kind complex;
those of them the forwarder accepts = complex events it took ++ forwarder queue;
`execute` calls = one per complex event taken whose phenomenon has an action, with that action's name and that event;
responses = one per such event, with the action's name, the event and what `execute` returned;
responses = responses taken ++ handler queue;
action events are, field by field (data, success, action name, phenomenon, pattern), the responses taken. -/
theorem one_one_one {P : Params σ} {s : St σ} (h : FineReach P s) :
    s.completedLog.map (fun r => (r, true)) = s.prodPopped ++ s.pq ∧
    s.complexes.map cxOfEvent = (s.prodPopped.filter (known P)).map (cxOfRun P) ∧
    (∀ x ∈ s.complexes, x.1.kind = .complex) ∧
    (s.complexes.filter (fwdTakes P)).map (·.1) = s.fwdPopped ++ s.fq ∧
    s.execs = s.fwdPopped.filterMap (execOf P) ∧
    s.respLog = s.fwdPopped.filterMap (respOf P) ∧
    s.respLog = s.respPopped ++ s.hq ∧
    s.actions.map acOfEvent = s.respPopped.map acOfResp ∧
    (∀ e ∈ s.actions, e.kind = .action) := by
  have i := inv_fine h
  exact ⟨i.completed_eq, i.complexes_eq, i.complex_kind, by rw [← i.accepted_eq, i.fwd_eq], i.execs_eq,
    i.resp_log, i.resp_eq, i.actions_eq, i.action_kind⟩

/-- the matcher only reports completed runs of phenomena the producer knows
(decider and producer are given the same phenomena list, `setup_simple_eq`). -/
def KnownOut (P : Params σ) : Prop :=
  ∀ ds e, ∀ r ∈ (P.decide ds e).2.completed, (P.datagenOf r.phen).isSome = true

theorem completedLog_known {P : Params σ} (hk : KnownOut P) {s : St σ} (h : FineReach P s) :
    ∀ r ∈ s.completedLog, (P.datagenOf r.phen).isSome = true := by
  induction h with
  | init d => simp [init]
  | add it _ ih => simpa [addData] using ih
  | clear _ ih => simpa using ih
  | @task s t _ ih =>
    cases t
    · simp only [taskUpdate, recvUpdate]
      split
      · exact ih
      · simp only [processData]
        split
        · exact ih
        · rename_i it _ _ _
          cases it <;> simpa [deliverRecv] using ih
    · simp only [taskUpdate, decUpdate]
      split
      · exact ih
      · rename_i e rest _
        split
        · intro r hr
          simp only [deliverDec, subsOf_decider, List.foldl_cons, List.foldl_nil, List.mem_append] at hr
          rcases hr with hr | hr
          · exact ih r hr
          · exact hk _ _ r hr
        · exact ih
    · simp only [taskUpdate, prodUpdate]
      split
      · exact ih
      · split
        · exact ih
        · simp only [subsOf_producer, List.foldl_cons, List.foldl_nil, deliverProd]
          split <;> simpa [addData] using ih
    · simp only [taskUpdate, fwdUpdate, fwdHandle, fwdResponses]
      split <;> split <;> (try split) <;> simpa [deliverFwd, addData] using ih

/-- **C02 (1:1:1, counts)** in a single engine (every notification is local) whose producer knows the phenomena:
`#complex events = #completed runs notified − |producer queue|`,
`#complex events = #taken by the forwarder + |forwarder queue|`,
`#execute calls = #complex events taken whose phenomenon has an action`,
`#action events = #execute calls − |responses pending|`. -/
theorem one_one_one_counts {P : Params σ} (hk : KnownOut P) {s : St σ} (h : FineReach P s) :
    s.complexes.length + s.pq.length = s.completedLog.length ∧
    s.complexes.length = s.fwdPopped.length + s.fq.length ∧
    s.execs.length = (s.fwdPopped.filter (fun e => (P.actionOf e.phen).isSome)).length ∧
    s.actions.length + s.hq.length = s.execs.length := by
  have i := inv_fine h
  have hck := completedLog_known hk h
  -- everything the producer took or holds is local and known
  have hmem : ∀ x ∈ s.prodPopped, x.2 = true ∧ known P x = true := by
    intro x hx
    have : x ∈ s.completedLog.map (fun r => (r, true)) := by rw [i.completed_eq]; exact List.mem_append_left _ hx
    obtain ⟨r, hr, rfl⟩ := List.mem_map.1 this
    exact ⟨rfl, hck r hr⟩
  have hfilt : s.prodPopped.filter (known P) = s.prodPopped :=
    List.filter_eq_self.2 fun x hx => (hmem x hx).2
  have hlen : s.complexes.length = s.prodPopped.length := by
    have := congrArg List.length i.complexes_eq
    simpa [hfilt] using this
  have hloc : ∀ x ∈ s.complexes, x.2 = true := by
    intro x hx
    have h1 : cxOfEvent x ∈ s.complexes.map cxOfEvent := List.mem_map_of_mem hx
    rw [i.complexes_eq] at h1
    obtain ⟨y, hy, hxy⟩ := List.mem_map.1 h1
    have := (hmem y ((List.mem_filter.1 hy).1)).1
    have h2 : (cxOfRun P y).loc = (cxOfEvent x).loc := by rw [hxy]
    simp only [cxOfRun, cxOfEvent] at h2
    rw [← h2]; exact this
  have htake : s.complexes.filter (fwdTakes P) = s.complexes :=
    List.filter_eq_self.2 fun x hx => by simp [fwdTakes, hloc x hx]
  refine ⟨?_, ?_, ?_, ?_⟩
  · have := congrArg List.length i.completed_eq
    simp at this; omega
  · have := congrArg List.length (i.accepted_eq.symm.trans i.fwd_eq)
    simp [htake] at this; omega
  · rw [i.execs_eq]
    clear hmem hfilt hlen hloc htake
    induction s.fwdPopped with
    | nil => rfl
    | cons e l ih =>
      simp only [List.filterMap_cons, List.filter_cons, execOf]
      cases hq : P.actionOf e.phen <;> simp [ih]
  · have h1 : s.execs.length = s.respLog.length := by
      rw [i.execs_eq, i.resp_log]
      induction s.fwdPopped with
      | nil => rfl
      | cons e l ih =>
        simp only [List.filterMap_cons, execOf, respOf]
        cases hq : P.actionOf e.phen <;> simp [ih]
    have h2 := congrArg List.length i.resp_eq
    have h3 := congrArg List.length i.actions_eq
    simp at h2 h3; omega

/-- **halted runs yield nothing (global)**: every complex event ever built carries a run that was notified as
*completed*; no other source of complex events exists. -/
theorem halted_yields_nothing {P : Params σ} {s : St σ} (h : FineReach P s) :
    ∀ x ∈ s.complexes, ∃ r ∈ s.completedLog, cxOfEvent x = cxOfRun P (r, true) := by
  have i := inv_fine h
  intro x hx
  have h1 : cxOfEvent x ∈ s.complexes.map cxOfEvent := List.mem_map_of_mem hx
  rw [i.complexes_eq] at h1
  obtain ⟨y, hy, hxy⟩ := List.mem_map.1 h1
  have : y ∈ s.completedLog.map (fun r => (r, true)) := by
    rw [i.completed_eq]; exact List.mem_append_left _ ((List.mem_filter.1 hy).1)
  obtain ⟨r, hr, rfl⟩ := List.mem_map.1 this
  exact ⟨r, hr, hxy.symm⟩

/-- **halted runs yield nothing (local)**: a decider update whose notification has no completed run — whatever it
reports as halted or updated — changes no queue but its own and produces no complex event, execution or action event. -/
theorem halted_step_yields_nothing (P : Params σ) (s : St σ) (e : Event) (rest : List Event)
    (hq : s.dq = e :: rest) (hc : (P.decide s.ds e).2.completed = []) :
    let s' := (decUpdate P s).1
    s'.dq = rest ∧ s'.rq = s.rq ∧ s'.pq = s.pq ∧ s'.fq = s.fq ∧ s'.hq = s.hq ∧ s'.completedLog = s.completedLog ∧
    s'.complexes = s.complexes ∧ s'.execs = s.execs ∧ s'.actions = s.actions ∧
    (decUpdate P s).2 = (P.decide s.ds e).2.changed := by
  simp only [decUpdate, hq]
  split <;> simp_all [deliverDec]

/-- **feedback, exactly once**: the items the producer / forwarder put into the receiver queue are exactly the complex /
action events built, in order (and by `conservation` each of them is taken once and, if valid, seen once by the matcher). -/
theorem feedback_once {P : Params σ} {s : St σ} (h : FineReach P s) :
    (s.entered.filter (fun x => x.1 == .prod)).map (·.2) = s.complexes.map (fun x => Item.ev x.1) ∧
    (s.entered.filter (fun x => x.1 == .fwd)).map (·.2) = s.actions.map Item.ev ∧
    s.entered.map (·.2) = s.popped ++ s.rq :=
  let i := inv_fine h
  ⟨i.fb_prod, i.fb_fwd, i.entered_eq⟩

/-! ## each `update()` on a non-empty queue takes exactly one item -/

theorem recv_update_consumes_one (P : Params σ) (s : St σ) (it : Item) (rest : List Item) (hq : s.rq = it :: rest) :
    let s' := (recvUpdate P s).1
    s'.rq = rest ∧ s'.popped = s.popped ++ [it] ∧ (recvUpdate P s).2 = !it.isNone ∧
    s'.pq = s.pq ∧ s'.fq = s.fq ∧ s'.hq = s.hq ∧
    (P.isValid it = false → s'.dq = s.dq) ∧
    (P.isValid it = true → ∃ e, Wraps it e ∧ s'.dq = s.dq ++ [e]) := by
  simp only [recvUpdate, hq, processData]
  by_cases hv : P.isValid it = true
  · cases it <;> simp [hv, deliverRecv, Wraps]
  · simp [hv]

theorem dec_update_consumes_one (P : Params σ) (s : St σ) (e : Event) (rest : List Event) (hq : s.dq = e :: rest) :
    let s' := (decUpdate P s).1
    let n := (P.decide s.ds e).2
    s'.dq = rest ∧ s'.seen = s.seen ++ [e] ∧ s'.ds = (P.decide s.ds e).1 ∧
    (decUpdate P s).2 = n.changed ∧
    s'.pq = s.pq ++ n.completed.map (fun r => (r, true)) ∧ s'.rq = s.rq ∧ s'.fq = s.fq ∧ s'.hq = s.hq := by
  simp only [decUpdate, hq]
  split
  · simp_all [deliverDec]
  · rename_i hc
    have : (P.decide s.ds e).2.completed = [] := by
      simp only [Notif.changed, Bool.not_eq_true', Bool.not_eq_false, Bool.and_eq_true, List.isEmpty_iff] at hc
      exact hc.1.1
    simp_all

theorem prod_update_consumes_one (P : Params σ) (s : St σ) (r : RunRec) (loc : Bool) (rest : List (RunRec × Bool))
    (hq : s.pq = (r, loc) :: rest) (dg : Option (Hist → Data)) (hk : P.datagenOf r.phen = some dg) :
    let s' := (prodUpdate P s).1
    ∃ e : Event, e.kind = .complex ∧ cxOfEvent (e, loc) = cxOfRun P (r, loc) ∧
      s'.pq = rest ∧ (prodUpdate P s).2 = true ∧ s'.complexes = s.complexes ++ [(e, loc)] ∧
      s'.rq = s.rq ++ [.ev e] ∧ s'.fq = s.fq ++ (if fwdTakes P (e, loc) then [e] else []) ∧
      s'.dq = s.dq ∧ s'.hq = s.hq ∧ s'.err = s.err := by
  refine ⟨mkComplex P s r dg, rfl, ?_, ?_⟩
  · cases dg <;> simp [cxOfEvent, cxOfRun, mkComplex, hk]
  · simp only [prodUpdate, hq, hk, subsOf_producer, List.foldl_cons, List.foldl_nil, deliverProd, fwdTakes]
    cases loc <;> by_cases hl : P.localOnly = true <;> simp [addData, hl]

/-- forwarder, queue non-empty: the head complex event is taken (and executed iff its phenomenon has an action,
appending one response); then the oldest response — possibly the one just produced — is taken and its action event
is built and fed back to the receiver queue.  Exactly one complex event and at most one response per `update()`. -/
theorem fwd_update_consumes_one (P : Params σ) (s : St σ) (e : Event) (rest : List Event) (hq : s.fq = e :: rest) :
    let s' := (fwdUpdate P s).1
    let hq1 := s.hq ++ (respOf P e).toList
    s'.fq = rest ∧ s'.fwdPopped = s.fwdPopped ++ [e] ∧ s'.execs = s.execs ++ (execOf P e).toList ∧
    s'.hq = hq1.tail ∧
    (∃ evs : List Event, s'.actions = s.actions ++ evs ∧ s'.rq = s.rq ++ evs.map Item.ev ∧
      evs.map acOfEvent = hq1.head?.toList.map acOfResp) ∧
    (fwdUpdate P s).2 = true ∧ s'.dq = s.dq ∧ s'.pq = s.pq := by
  cases s with
  | mk rq dq pq fq hq0 ds nid nts err entered popped processed seen completedLog haltedLog prodPopped complexes
      fwdAccepted fwdPopped execs respLog respPopped actions =>
    simp only at hq
    subst hq
    cases ha : P.actionOf e.phen <;> cases hq0 <;>
      simp [fwdUpdate, fwdHandle, fwdResponses, ha, execOf, respOf, deliverFwd, addData, mkAction, acOfEvent, acOfResp]

/-- forwarder, queue empty: only the oldest response (if any) is taken. -/
theorem fwd_update_response_only (P : Params σ) (s : St σ) (hq : s.fq = []) :
    let s' := (fwdUpdate P s).1
    s'.fq = [] ∧ s'.fwdPopped = s.fwdPopped ∧ s'.execs = s.execs ∧ s'.hq = s.hq.tail ∧
    (∃ evs : List Event, s'.actions = s.actions ++ evs ∧ s'.rq = s.rq ++ evs.map Item.ev ∧
      evs.map acOfEvent = s.hq.head?.toList.map acOfResp) ∧
    (fwdUpdate P s).2 = !s.hq.isEmpty ∧ s'.dq = s.dq ∧ s'.pq = s.pq := by
  cases s with
  | mk rq dq pq fq hq0 ds nid nts err entered popped processed seen completedLog haltedLog prodPopped complexes
      fwdAccepted fwdPopped execs respLog respPopped actions =>
    simp only at hq
    subst hq
    cases hq0 <;>
      simp [fwdUpdate, fwdHandle, fwdResponses, deliverFwd, addData, mkAction, acOfEvent, acOfResp]

/-! ## the `while task.update()` loops terminate -/

/-- every `update()` that returns True strictly decreases the task's own queue size
(forwarder: forwarder queue + handler queue). -/
theorem update_true_decreases_measure (P : Params σ) (t : Task) (s : St σ) (h : (taskUpdate P t s).2 = true) :
    taskMeasure t (taskUpdate P t s).1 < taskMeasure t s :=
  update_true_decreases P t s h

/-- **termination of `times = 0`**: for every task, matcher and state the loop `while task.update(): pass`
stops within `taskMeasure + 1` iterations (the fuel `engineUpdate` supplies is never exhausted), and any larger
fuel gives the same result.  Nothing refills a task's own queue during its own turn; feedback goes to the receiver
queue, which is served in the *next* engine update. -/
theorem while_loops_terminate (P : Params σ) (t : Task) (s : St σ) :
    (whileLoop (taskUpdate P t) (taskMeasure t s + 1) s).2 = false ∧
    ∀ fuel, taskMeasure t s + 1 ≤ fuel →
      whileLoop (taskUpdate P t) fuel s = whileLoop (taskUpdate P t) (taskMeasure t s + 1) s :=
  whileLoop_fuel (taskUpdate P t) (taskMeasure t) (update_true_decreases P t) _ s (Nat.lt_succ_self _)

/-- hence the engine update does not depend on the fuel once it is large enough. -/
theorem engineUpdate_fuel_irrelevant (P : Params σ) (c : Cfg) (s : St σ) (tt : Task × Nat) (fuel : Nat)
    (hf : taskMeasure tt.1 s + 1 ≤ fuel) : runTaskFuel P c fuel s tt = runTask P c s tt := by
  unfold runTask runTaskFuel
  split
  · rfl
  · split
    · rw [(while_loops_terminate P tt.1 s).2 fuel hf]
    · rfl

/-! ## nothing is left stranded -/

/-- **one engine update runs every task at least once**: for each of the five queues, the number of items taken
from it grows by at least one unless everything ever offered to it has already been taken. -/
theorem engine_update_serves {P : Params σ} {Q : σ → Prop} (hs : StableOut P Q) (c : Cfg) (s : St σ)
    (hh : Healthy P Q s) :
    let a := lens s
    let b := lens (engineUpdate P c s)
    min (a.sR + a.rq) (a.sR + 1) ≤ b.sR ∧ min (a.sD + a.dq) (a.sD + 1) ≤ b.sD ∧
    min (a.sP + a.pq) (a.sP + 1) ≤ b.sP ∧ min (a.sF + a.fq) (a.sF + 1) ≤ b.sF ∧
    min (a.sH + a.hq) (a.sH + 1) ≤ b.sH := by
  refine ⟨?_, ?_, ?_, ?_, ?_⟩
  · exact serve_generic c (·.sR) (·.rq) .receiver
      (fun t a b h => by have := eff_mono h; omega) (fun a b h => eff_own_R h) hs s hh
  · exact serve_generic c (·.sD) (·.dq) .decider
      (fun t a b h => by have := eff_mono h; omega) (fun a b h => eff_own_D h) hs s hh
  · exact serve_generic c (·.sP) (·.pq) .producer
      (fun t a b h => by have := eff_mono h; omega) (fun a b h => eff_own_P h) hs s hh
  · exact serve_generic c (·.sF) (·.fq) .forwarder
      (fun t a b h => by have := eff_mono h; omega) (fun a b h => eff_own_F h) hs s hh
  · exact serve_generic c (·.sH) (·.hq) .forwarder
      (fun t a b h => by have := eff_mono h; omega) (fun a b h => eff_own_H h) hs s hh

/-- what was ever offered to a queue (taken + pending) never shrinks. -/
def Offered (a b : Lens) : Prop :=
  a.sR + a.rq ≤ b.sR + b.rq ∧ a.sD + a.dq ≤ b.sD + b.dq ∧ a.sP + a.pq ≤ b.sP + b.pq ∧
  a.sF + a.fq ≤ b.sF + b.fq ∧ a.sH + a.hq ≤ b.sH + b.hq

theorem offered_engine (P : Params σ) (c : Cfg) (s : St σ) : Offered (lens s) (lens (engineUpdate P c s)) := by
  refine engineUpdate_closed (P := P) (I := fun a => Offered (lens s) (lens a)) ⟨?_, fun a ha => ha⟩ c s ?_
  · intro t a ha
    have := eff_mono (eff_task P t a)
    simp only [Offered] at ha ⊢
    omega
  · simp only [Offered]; omega

theorem chain_min {a p b q c k : Nat} (h1 : min (a + p) (a + 1) ≤ b) (h3 : a + p ≤ b + q)
    (h2 : min (b + q) (b + k) ≤ c) : min (a + p) (a + (k + 1)) ≤ c := by omega

def countUpdates : List Op → Nat
  | [] => 0
  | .add _ :: ops => countUpdates ops
  | .update :: ops => countUpdates ops + 1

/-- **no stranding, unconditionally** (any matcher, any feedback, any further input interleaved): an item at
position `i` of a queue has been taken after at most `i + 1` further engine updates — after `k` engine updates every
queue has lost `min(k, what it held)` items (counting from the items ever offered to it). -/
theorem service_bound {P : Params σ} {Q : σ → Prop} (hs : StableOut P Q) (c : Cfg) (ops : List Op) :
    ∀ s : St σ, Healthy P Q s →
    let a := lens s
    let b := lens (runOps P c s ops)
    let k := countUpdates ops
    min (a.sR + a.rq) (a.sR + k) ≤ b.sR ∧ min (a.sD + a.dq) (a.sD + k) ≤ b.sD ∧
    min (a.sP + a.pq) (a.sP + k) ≤ b.sP ∧ min (a.sF + a.fq) (a.sF + k) ≤ b.sF ∧
    min (a.sH + a.hq) (a.sH + k) ≤ b.sH := by
  induction ops with
  | nil => intro s _; simp [runOps, countUpdates]
  | cons o ops ih =>
    intro s hh
    simp only [runOps, List.foldl_cons] at ih ⊢
    cases o with
    | add it =>
      have h := ih (addData .ext it s) (healthy_add it s hh)
      have e : lens (addData .ext it s) = { lens s with rq := (lens s).rq + 1 } := by simp [lens, addData]
      simp only [applyOp, countUpdates]
      rw [e] at h
      dsimp only at h ⊢
      exact ⟨by omega, h.2.1, h.2.2.1, h.2.2.2.1, h.2.2.2.2⟩
    | update =>
      have h1 := engine_update_serves hs c s hh
      have hh' : Healthy P Q (engineUpdate P c s) := engineUpdate_closed (healthy_closed hs) c s hh
      have h2 := ih (engineUpdate P c s) hh'
      have h3 := offered_engine P c s
      simp only [applyOp, countUpdates]
      dsimp only [Offered] at h1 h2 h3 ⊢
      exact ⟨chain_min h1.1 h3.1 h2.1, chain_min h1.2.1 h3.2.1 h2.2.1, chain_min h1.2.2.1 h3.2.2.1 h2.2.2.1,
        chain_min h1.2.2.2.1 h3.2.2.2.1 h2.2.2.2.1, chain_min h1.2.2.2.2 h3.2.2.2.2 h2.2.2.2.2⟩

def iterUpdate (P : Params σ) (c : Cfg) : Nat → St σ → St σ
  | 0, s => s
  | n + 1, s => iterUpdate P c n (engineUpdate P c s)

/-- while the matcher completes nothing, each engine update with something in flight strictly decreases `mu`. -/
theorem engine_update_progress {P : Params σ} {Q : σ → Prop} (hq : Quiet P Q) (c : Cfg) (s : St σ)
    (hh : Healthy P Q s) :
    mu (lens (engineUpdate P c s)) ≤ mu (lens s) ∧
    (mu (lens s) ≠ 0 → mu (lens (engineUpdate P c s)) < mu (lens s)) := by
  have hs := hq.stable
  constructor
  · exact engineUpdate_closed (P := P) (I := fun a => Healthy P Q a ∧ mu (lens a) ≤ mu (lens s))
      ⟨fun t a ha => ⟨healthy_task hs t a ha.1, Nat.le_trans (mu_task hq t a ha.1).1 ha.2⟩,
       fun a ha => ⟨⟨rfl, ha.1.2.1, ha.1.2.2⟩, ha.2⟩⟩ c s ⟨hh, Nat.le_refl _⟩ |>.2
  · intro h0
    have hh0 : Healthy P Q { s with err := none } := ⟨rfl, hh.2.1, hh.2.2⟩
    have := foldl_progress (P := P) c (fun a => mu (lens a)) (Healthy P Q) (healthy_task hs) (fun a h => h.1)
      (fun t a ha => (mu_task hq t a ha).1) (fun t a ha => (mu_task hq t a ha).2) (schedule c) _ hh0 (by
        simp only [schedule, List.mem_cons, List.mem_nil_iff, or_false, exists_eq_or_imp, exists_eq_left]
        simp only [taskMeasure, mu, lens] at h0 ⊢
        omega)
    exact this

/-- **no stranding (draining)**: with no further input and a feedback-quiet suffix (the matcher completes nothing
any more, `Quiet`), `mu` engine updates — `mu` = items in flight, weighted by the hand-overs still ahead of them —
empty every queue, for every configuration.  Continued `update()` calls service every queue. -/
theorem no_stranding {P : Params σ} {Q : σ → Prop} (hq : Quiet P Q) (c : Cfg) :
    ∀ (n : Nat) (s : St σ), Healthy P Q s → mu (lens s) ≤ n →
      let s' := iterUpdate P c n s
      s'.rq = [] ∧ s'.dq = [] ∧ s'.pq = [] ∧ s'.fq = [] ∧ s'.hq = [] := by
  intro n
  induction n with
  | zero =>
    intro s _ h
    simp only [mu, lens, Nat.le_zero_eq] at h
    simp only [iterUpdate]
    refine ⟨?_, ?_, ?_, ?_, ?_⟩ <;> apply List.eq_nil_of_length_eq_zero <;> omega
  | succ n ih =>
    intro s hh h
    simp only [iterUpdate]
    apply ih
    · exact engineUpdate_closed (healthy_closed hq.stable) c s hh
    · have := engine_update_progress hq c s hh
      omega

/-! ## the history variables are only history -/

/-- **ghost_free**: two states that agree on the real fields (five queues, matcher state, generator counters, pending
exception) still agree on them after any operation, whatever their ghost (history) fields hold: the ghost fields the
theorems above speak about are never read by the model. -/
theorem ghost_free (P : Params σ) (c : Cfg) (o : Op) (s s' : St σ) (h : core s = core s') :
    core (applyOp P c s o) = core (applyOp P c s' o) := by
  cases o with
  | update => exact core_engineUpdate P c s s' h
  | add it =>
    have h1 := congrArg Core.rq h; have h2 := congrArg Core.dq h; have h3 := congrArg Core.pq h
    have h4 := congrArg Core.fq h; have h5 := congrArg Core.hq h; have h6 := congrArg Core.ds h
    have h7 := congrArg Core.nid h; have h8 := congrArg Core.nts h; have h9 := congrArg Core.err h
    simp only [core] at h1 h2 h3 h4 h5 h6 h7 h8 h9
    simp [applyOp, addData, core, *]

/-- …and likewise for a single task update (fine-grained interleavings). -/
theorem ghost_free_task (P : Params σ) (t : Task) (s s' : St σ) (h : core s = core s') :
    core (taskUpdate P t s).1 = core (taskUpdate P t s').1 ∧ (taskUpdate P t s).2 = (taskUpdate P t s').2 :=
  core_task P t s s' h

/-! ## the honest negatives: `times = 0` does not drain a queue in one engine update -/

/-- a matcher that never reports a change. -/
def silentP : Params Unit :=
  { decide := fun _ _ => ((), ⟨[], [], []⟩), isValid := fun _ => true, datagenOf := fun _ => some none,
    actionOf := fun _ => none, idOf := fun _ => "", tsOf := fun _ => 0 }

/-- **`times_decider = 0` does not drain the decider queue**: `BoboDecider.update()` returns "state changed",
not "queue non-empty" — two data that match nothing, one engine update with every `times_* = 0`:
the decider loop stops after the first event and one event stays queued.  (The docs define `times = 0` this
way; the property does not claim single-call draining; replayed on the real engine on every run.) -/
theorem times0_does_not_drain :
    ∃ (s : St Unit), Reach silentP {} s ∧ (engineUpdate silentP {} s).dq.length = 1 ∧
      (engineUpdate silentP {} s).rq = [] :=
  ⟨runOps silentP {} (init ()) [.add (.raw (.int 1)), .add (.raw (.int 2))],
   ⟨(), _, rfl⟩, by decide, by decide⟩

/-- the receiver has the same trait: a queued `None` is taken and published, but `update()` returns
`data is not None` = False, so the `times_receiver = 0` loop stops with the next datum still queued. -/
theorem times0_receiver_does_not_drain :
    ∃ (s : St Unit), Reach silentP {} s ∧ (engineUpdate silentP {} s).rq = [.raw (.int 2)] ∧
      (engineUpdate silentP {} s).seen.length = 1 :=
  ⟨runOps silentP {} (init ()) [.add (.raw .none), .add (.raw (.int 2))],
   ⟨(), _, rfl⟩, by decide, by decide⟩

/-- …but they are not stranded: the next engine updates take them (instance of `no_stranding`). -/
example : (iterUpdate silentP {} 3 (runOps silentP {} (init ()) [.add (.raw (.int 1)), .add (.raw (.int 2))])).dq = [] ∧
    (iterUpdate silentP {} 3 (runOps silentP {} (init ()) [.add (.raw (.int 1)), .add (.raw (.int 2))])).seen.length = 2 := by
  decide

/-! ## non-vacuity: a matcher that completes, halts and updates; phenomena with action and datagen -/

/-- data 1 starts a run of `p` (updated), data 2 completes one, data 3 halts one; a complex event of `p` completes `q`. -/
def demoP : Params Nat :=
  { decide := fun n e =>
      let r : RunRec := ⟨"r", "p", "pat", 1, [("g", [e.id])]⟩
      match e.kind, e.data with
      | .simple, .int 1 => (n + 1, ⟨[], [], [r]⟩)
      | .simple, .int 2 => (n + 1, ⟨[r], [], []⟩)
      | .simple, .int 3 => (n + 1, ⟨[], [r], []⟩)
      | .complex, _ => if e.phen = "p" then (n + 1, ⟨[{ r with phen := "q" }], [], []⟩) else (n, ⟨[], [], []⟩)
      | _, _ => (n, ⟨[], [], []⟩)
    isValid := fun it => match it with | .raw (.str _) => false | _ => true
    datagenOf := fun ph => if ph = "p" then some (some fun h => .int h.length) else if ph = "q" then some none else none
    actionOf := fun ph => if ph = "p" then some ("act", fun e => (true, e.data)) else none
    idOf := fun k => toString k
    tsOf := fun k => k }

def demoOps : List Op :=
  [.add (.raw (.int 1)), .add (.raw (.str "x")), .add (.raw (.int 2)), .update, .add (.raw (.int 3)), .update, .update, .update,
   .update, .update, .update]

set_option maxRecDepth 8192 in
/-- after the demo run: 2 completed runs notified (p, then q through feedback), 2 complex events, 1 execution,
1 action event, 1 halted run, everything drained; the invalid datum was dropped; 6 events seen by the matcher. -/
example :
    let s := runOps demoP ⟨1, 2, 0, 1, false⟩ (init 0) demoOps
    s.completedLog.length = 2 ∧ s.complexes.length = 2 ∧ s.execs.length = 1 ∧ s.actions.length = 1 ∧
    s.haltedLog.length = 1 ∧ s.seen.length = 6 ∧ s.popped.length = 7 ∧
    s.rq = [] ∧ s.dq = [] ∧ s.pq = [] ∧ s.fq = [] ∧ s.hq = [] ∧ s.err = none := by
  decide

example : Reach demoP ⟨1, 2, 0, 1, false⟩ (runOps demoP ⟨1, 2, 0, 1, false⟩ (init 0) demoOps) := ⟨0, demoOps, rfl⟩

/-- the hypotheses of `engine_update_serves` / `service_bound` / `one_one_one_counts` are satisfiable. -/
example : StableOut demoP (fun _ => True) := by
  intro ds _ e
  refine ⟨trivial, ?_⟩
  intro r hr
  simp only [demoP] at hr ⊢
  split at hr <;> (try split at hr) <;> simp at hr <;> subst hr <;> simp

example : Healthy demoP (fun _ => True) (init 0) := ⟨rfl, by simp [init], trivial⟩

/-- the hypotheses of `no_stranding` are satisfiable, with work in flight. -/
example : Quiet silentP (fun _ => True) := fun _ _ _ => ⟨trivial, rfl⟩
example : mu (lens (runOps silentP {} (init ()) [.add (.raw (.int 1)), .add (.raw (.int 2))])) = 4 := by decide

/-- an unknown phenomenon raises in the producer and aborts the engine update (forwarder not run). -/
example :
    let P : Params Unit := { silentP with
      decide := fun _ _ => ((), ⟨[⟨"r", "zz", "pat", 1, []⟩], [], []⟩), datagenOf := fun _ => none }
    (runOps P {} (init ()) [.add (.raw (.int 1)), .update]).err = some "BoboProducerError zz" := by
  decide

/-! ## the asynchronous handlers (`BoboActionHandlerMultithreading` / `…Multiprocessing`)

Model: Model/EngineAsync.lean; helper lemmas: Lemmas/EngineAsync.lean.  Same quantification as above (arbitrary
matcher, validator, datagen, actions, generators, `Cfg`), plus: every order and every moment of the pool's completions
— between two calls of the engine (`AOp.complete k`) and inside an engine update (`AOp.update script`, any script).

* `ReachA P c s`   — `s` results from `add_data` / `BoboEngine.update` (under any pool script) / pool completions;
* `FineReachA P s` — `s` results from `add_data`, single `update()` calls of any task (the forwarder's two halves
  separately), pool completions and script changes, in ANY order.  Every `ReachA` state is a `FineReachA` state. -/

def ReachA (P : Params σ) (c : Cfg) (s : ASt σ) : Prop := ∃ d ops, s = runOpsA P c (initA d) ops

inductive FineReachA (P : Params σ) : ASt σ → Prop
  | init (d : σ) : FineReachA P (initA d)
  | add {s} (it : Item) : FineReachA P s → FineReachA P (addDataA .ext it s)
  | recv {s} : FineReachA P s → FineReachA P (liftA (recvUpdate P) s).1
  | dec {s} : FineReachA P s → FineReachA P (liftA (decUpdate P) s).1
  | prod {s} : FineReachA P s → FineReachA P (liftA (prodUpdate P) s).1
  | handle {s} : FineReachA P s → FineReachA P (fwdHandleA P s).1
  | resp {s} : FineReachA P s → FineReachA P (fwdResponsesA P s).1
  | complete {s} (k : Nat) : FineReachA P s → FineReachA P (complete k s)
  | pool {s} (l : List (List Nat)) : FineReachA P s → FineReachA P { s with pool := l }
  | clear {s} : FineReachA P s → FineReachA P { s with toSt := { s.toSt with err := none } }

theorem fineA_closed (P : Params σ) : AClosed P (FineReachA P) :=
  ⟨fun _ h => .recv h, fun _ h => .dec h, fun _ h => .prod h, fun _ h => .handle h, fun _ h => .resp h,
   fun k _ h => .complete k h, fun l _ h => .pool l h, fun _ h => .clear h⟩

/-- an engine update under any pool script is a particular sequence of atomic steps. -/
theorem reachA_fine {P : Params σ} {c : Cfg} {s : ASt σ} (h : ReachA P c s) : FineReachA P s := by
  obtain ⟨d, ops, rfl⟩ := h
  exact runOpsA_closed (fineA_closed P) (fun it _ h => .add it h) c ops _ (.init d)

/-- single `update()` calls of any task, in any order, stay inside `FineReachA`. -/
theorem fineA_task {P : Params σ} {s : ASt σ} (t : Task) (h : FineReachA P s) : FineReachA P (taskUpdateA P t s).1 :=
  taskUpdateA_closed (fineA_closed P) t s h

theorem ainv_fine {P : Params σ} {s : ASt σ} (h : FineReachA P s) : AInv P s := by
  induction h with
  | init d => exact ainv_init P d
  | add it _ ih => exact ainv_add P it _ ih
  | recv _ ih => exact (ainv_closed P).recv _ ih
  | dec _ ih => exact (ainv_closed P).dec _ ih
  | prod _ ih => exact (ainv_closed P).prod _ ih
  | handle _ ih => exact (ainv_closed P).handle _ ih
  | resp _ ih => exact (ainv_closed P).resp _ ih
  | complete k _ ih => exact (ainv_closed P).complete k _ ih
  | pool l _ ih => exact (ainv_closed P).pool l _ ih
  | clear _ ih => exact (ainv_closed P).clear _ ih

/-- **C02 async (conservation of the stream)**: `conservation` and `feedback_once` hold verbatim — the path entry point →
receiver queue → decider queue → matcher, and the feedback of complex / action events, do not depend on the handler. -/
theorem conservation_async {P : Params σ} {s : ASt σ} (h : FineReachA P s) :
    s.entered.map (·.2) = s.popped ++ s.rq ∧
    (s.entered.map (·.2)).filter P.isValid = s.processed.map (·.1) ++ s.rq.filter P.isValid ∧
    s.processed.map (·.2) = s.seen ++ s.dq ∧
    (∀ p ∈ s.processed, Wraps p.1 p.2) ∧
    (s.entered.filter (fun x => x.1 == .prod)).map (·.2) = s.complexes.map (fun x => Item.ev x.1) ∧
    (s.entered.filter (fun x => x.1 == .fwd)).map (·.2) = s.actions.map Item.ev := by
  have i := (ainv_fine h).1
  refine ⟨i.entered_eq, ?_, i.published_eq, i.wraps, i.fb_prod, i.fb_fwd⟩
  rw [i.entered_eq, List.filter_append, i.processed_eq]

/-- the caller's `add_data` arguments, in order. -/
def inputsA : List AOp → List Item
  | [] => []
  | .add it :: ops => it :: inputsA ops
  | .update _ :: ops => inputsA ops
  | .complete _ :: ops => inputsA ops

theorem extEntered_closedA (P : Params σ) (x : List Item) : AClosed P (fun a => extEntered a.toSt = x) := by
  refine ⟨fun a h => ?_, fun a h => ?_, fun a h => ?_, fun a h => ?_, fun a h => ?_, fun k a h => ?_, fun l a h => h,
    fun a h => h⟩
  · exact (extEntered_task P .receiver a.toSt).trans h
  · exact (extEntered_task P .decider a.toSt).trans h
  · exact (extEntered_task P .producer a.toSt).trans h
  · unfold fwdHandleA
    split
    · exact h
    · split <;> exact h
  · simp only [fwdResponsesA, liftA, fwdResponses]
    split
    · exact h
    · simpa [extEntered, deliverFwd, addData, List.filter_append] using h
  · unfold complete
    split <;> exact h

theorem entry_point_is_inputs_async (P : Params σ) (c : Cfg) (ops : List AOp) :
    ∀ s : ASt σ, extEntered (runOpsA P c s ops).toSt = extEntered s.toSt ++ inputsA ops := by
  induction ops with
  | nil => intro s; simp [runOpsA, inputsA]
  | cons o ops ih =>
    intro s
    simp only [runOpsA, List.foldl_cons] at ih ⊢
    rw [ih]
    cases o with
    | add it => simp [applyOpA, inputsA, extEntered, addDataA, addData, List.filter_append]
    | update script =>
      have : extEntered (engineUpdateA P c { s with pool := script }).toSt = extEntered s.toSt :=
        engineUpdateA_closed (extEntered_closedA P _) c _ rfl
      simp [applyOpA, inputsA, this]
    | complete k =>
      have : extEntered (complete k s).toSt = extEntered s.toSt :=
        (extEntered_closedA P _).complete k s rfl
      simp [applyOpA, inputsA, this]

/-- **C02 async (conservation), in the property's own terms**: `conservation_ops` for every sequence of `add_data`,
`BoboEngine.update` (any pool script) and pool completions on a fresh engine. -/
theorem conservation_ops_async (P : Params σ) (c : Cfg) (d : σ) (ops : List AOp) :
    let s := runOpsA P c (initA d) ops
    extEntered s.toSt = inputsA ops ∧
    (s.entered.map (·.2)).filter P.isValid = s.processed.map (·.1) ++ s.rq.filter P.isValid ∧
    s.processed.map (·.2) = s.seen ++ s.dq ∧
    (∀ p ∈ s.processed, Wraps p.1 p.2) := by
  have h := conservation_async (reachA_fine (P := P) (c := c) ⟨d, ops, rfl⟩)
  refine ⟨?_, h.2.1, h.2.2.1, h.2.2.2.1⟩
  rw [entry_point_is_inputs_async]; simp [extEntered, initA, init]

/-- **C02 async (1:1:1, contents)**.  In every reachable state, whatever the pool has done so far:
the producer part is as in `one_one_one`;
`handle` calls = one per complex event the forwarder took whose phenomenon has an action, in order;
every `handle` call is EITHER executed OR in flight (multiset equality: the completion order is arbitrary) — no
execution without a dispatch, none executed twice, none lost;
what is in flight is the phenomenon's own action;
executions and responses are produced together, and each response is THE response of its own complex event
(action name, that event, what `execute` returned on that event);
responses = responses taken ++ response queue (each taken at most once, FIFO);
action events are, field by field, the responses taken. -/
theorem one_one_one_async {P : Params σ} {s : ASt σ} (h : FineReachA P s) :
    s.completedLog.map (fun r => (r, true)) = s.prodPopped ++ s.pq ∧
    s.complexes.map cxOfEvent = (s.prodPopped.filter (known P)).map (cxOfRun P) ∧
    (∀ x ∈ s.complexes, x.1.kind = .complex) ∧
    (s.complexes.filter (fwdTakes P)).map (·.1) = s.fwdPopped ++ s.fq ∧
    s.handed = s.fwdPopped.filterMap (execOf P) ∧
    s.handed.Perm (s.execs ++ s.inflight.map Job.exec) ∧
    (∀ j ∈ s.inflight, P.actionOf j.cev.phen = some (j.actName, j.run)) ∧
    s.execs = s.respLog.map Resp.exec ∧
    (∀ r ∈ s.respLog, respOf P r.cev = some r) ∧
    s.respLog = s.respPopped ++ s.hq ∧
    s.actions.map acOfEvent = s.respPopped.map acOfResp ∧
    (∀ e ∈ s.actions, e.kind = .action) := by
  obtain ⟨i, j⟩ := ainv_fine h
  exact ⟨i.completed_eq, i.complexes_eq, i.complex_kind, by rw [← i.accepted_eq, i.fwd_eq], j.handed_eq,
    j.handed_perm, j.inflight_ok, j.execs_resp, j.resp_ok, i.resp_eq, i.actions_eq, i.action_kind⟩

/-- does the forwarder hand this complex event to the handler? -/
def hasAction (P : Params σ) (e : Event) : Bool := (P.actionOf e.phen).isSome

theorem filterMap_execOf_cev (P : Params σ) (l : List Event) :
    (l.filterMap (execOf P)).map (·.cev) = l.filter (hasAction P) := by
  induction l with
  | nil => rfl
  | cons e l ih =>
    cases hq : P.actionOf e.phen with
    | none =>
      have he : execOf P e = none := by simp [execOf, hq]
      rw [List.filterMap_cons, he]
      simp [hasAction, hq, ih]
    | some a =>
      have he : execOf P e = some { actName := a.1, cev := e } := by simp [execOf, hq]
      rw [List.filterMap_cons, he]
      simp [hasAction, hq, ih]

/-- **C02 async (conservation of the actions)**: every complex event the forwarder accepted whose phenomenon has an
action is, at every moment, in exactly one of four places — forwarder queue, in flight, response queue (as its
response), reported (its response taken, and then its action event built: `one_one_one_async`) — as a multiset
equality, so duplicates (equal events) are counted too. -/
theorem action_location_async {P : Params σ} {s : ASt σ} (h : FineReachA P s) :
    (s.fwdAccepted.filter (hasAction P)).Perm
      (s.fq.filter (hasAction P) ++ s.inflight.map (·.cev) ++ s.hq.map (·.cev) ++ s.respPopped.map (·.cev)) ∧
    s.actions.length = s.respPopped.length := by
  obtain ⟨i, j⟩ := ainv_fine h
  constructor
  · have h1 : s.fwdPopped.filter (hasAction P) = s.handed.map (·.cev) := by
      rw [j.handed_eq, filterMap_execOf_cev]
    have h2 : (s.handed.map (·.cev)).Perm (s.execs.map (·.cev) ++ (s.inflight.map Job.exec).map (·.cev)) := by
      simpa using j.handed_perm.map (·.cev)
    have h3 : s.execs.map (·.cev) = s.respPopped.map (·.cev) ++ s.hq.map (·.cev) := by
      rw [j.execs_resp, i.resp_eq]; simp [Resp.exec, Function.comp_def]
    have h4 : (s.inflight.map Job.exec).map (·.cev) = s.inflight.map (·.cev) := by simp [Job.exec]
    rw [i.fwd_eq, List.filter_append, h1]
    rw [h3, h4] at h2
    -- popped ++ fq  ~  fq ++ popped  ~  fq ++ (resp ++ hq ++ inflight)  ~  fq ++ inflight ++ hq ++ resp
    refine List.perm_append_comm.trans ?_
    simp only [List.append_assoc]
    refine List.Perm.append_left _ (h2.trans ?_)
    refine List.perm_append_comm.trans (List.Perm.append_left _ List.perm_append_comm)
  · have := congrArg List.length i.actions_eq
    simpa using this


/-- **C02 async (matching)**: whatever the completion order, the `i`-th action event published carries the action
name, success and data of the execution of ITS OWN complex event: it is built from the `i`-th response taken, whose
complex event `r.cev` the forwarder took and dispatched, whose execution `⟨name, r.cev⟩` was performed, and whose
name / success / data are the phenomenon's action `(name, f)` and `f r.cev`. -/
theorem matching_async {P : Params σ} {s : ASt σ} (h : FineReachA P s) (i : Nat) (hi : i < s.actions.length) :
    ∃ (r : Resp) (name : String) (f : Event → Bool × Data),
      s.respPopped[i]? = some r ∧ r.cev ∈ s.fwdPopped ∧ P.actionOf r.cev.phen = some (name, f) ∧
      ({ actName := name, cev := r.cev } : Exec) ∈ s.execs ∧
      (s.actions[i]).kind = .action ∧ (s.actions[i]).actName = name ∧
      (s.actions[i]).success = (f r.cev).1 ∧ (s.actions[i]).data = (f r.cev).2 ∧
      (s.actions[i]).phen = r.cev.phen ∧ (s.actions[i]).pat = r.cev.pat := by
  obtain ⟨u, d⟩ := ainv_fine h
  have hlen : s.actions.length = s.respPopped.length := by simpa using congrArg List.length u.actions_eq
  have hi' : i < s.respPopped.length := hlen ▸ hi
  let r := s.respPopped[i]
  have hr : r ∈ s.respPopped := List.getElem_mem hi'
  have hview : acOfEvent (s.actions[i]) = acOfResp r := by
    have h1 : (s.actions.map acOfEvent)[i]? = (s.respPopped.map acOfResp)[i]? := by rw [u.actions_eq]
    simpa [List.getElem?_map, List.getElem?_eq_getElem hi, List.getElem?_eq_getElem hi'] using h1
  have hlog : r ∈ s.respLog := by rw [u.resp_eq]; exact List.mem_append_left _ hr
  have hok := d.resp_ok r hlog
  simp only [respOf, Option.map_eq_some_iff] at hok
  obtain ⟨⟨name, f⟩, ha, hreq⟩ := hok
  have hn : name = r.actName := congrArg Resp.actName hreq
  have hsu : (f r.cev).1 = r.success := congrArg Resp.success hreq
  have hda : (f r.cev).2 = r.data := congrArg Resp.data hreq
  have hex : ({ actName := name, cev := r.cev } : Exec) ∈ s.execs := by
    rw [d.execs_resp]
    exact List.mem_map.2 ⟨r, hlog, by simp [Resp.exec, hn]⟩
  have hhand : ({ actName := name, cev := r.cev } : Exec) ∈ s.handed :=
    d.handed_perm.mem_iff.2 (List.mem_append_left _ hex)
  have hpop : r.cev ∈ s.fwdPopped := by
    rw [d.handed_eq] at hhand
    obtain ⟨e, he, hee⟩ := List.mem_filterMap.1 hhand
    simp only [execOf, Option.map_eq_some_iff] at hee
    obtain ⟨a, _, ha2⟩ := hee
    have : e = r.cev := by simpa using congrArg Exec.cev ha2
    exact this ▸ he
  refine ⟨r, name, f, List.getElem?_eq_getElem hi', hpop, ha, hex, u.action_kind _ (List.getElem_mem hi), ?_⟩
  have h1 := congrArg AcView.actName hview
  have h2 := congrArg AcView.success hview
  have h3 := congrArg AcView.data hview
  have h4 := congrArg AcView.phen hview
  have h5 := congrArg AcView.pat hview
  simp only [acOfEvent, acOfResp] at h1 h2 h3 h4 h5
  exact ⟨h1.trans hn.symm, h2.trans hsu.symm, h3.trans hda.symm, h4, h5⟩

theorem completedLog_known_async {P : Params σ} (hk : KnownOut P) {s : ASt σ} (h : FineReachA P s) :
    ∀ r ∈ s.completedLog, (P.datagenOf r.phen).isSome = true := by
  induction h with
  | init d => simp [initA, init]
  | add it _ ih => simpa [addDataA, addData] using ih
  | clear _ ih => simpa using ih
  | pool l _ ih => simpa using ih
  | @complete s k _ ih =>
    unfold Bobo.Engine.complete
    split
    · exact ih
    · simpa using ih
  | @handle s _ ih =>
    unfold fwdHandleA
    split
    · exact ih
    · split <;> simpa using ih
  | @resp s _ ih =>
    simp only [fwdResponsesA, liftA, fwdResponses]
    split
    · exact ih
    · simpa [deliverFwd, addData] using ih
  | @recv s _ ih =>
    simp only [liftA, recvUpdate]
    split
    · exact ih
    · simp only [processData]
      split
      · exact ih
      · rename_i it _ _ _
        cases it <;> simpa [deliverRecv] using ih
  | @prod s _ ih =>
    simp only [liftA, prodUpdate]
    split
    · exact ih
    · split
      · exact ih
      · simp only [subsOf_producer, List.foldl_cons, List.foldl_nil, deliverProd]
        split <;> simpa [addData] using ih
  | @dec s _ ih =>
    simp only [liftA, decUpdate]
    split
    · exact ih
    · rename_i e rest _
      split
      · intro r hr
        simp only [deliverDec, subsOf_decider, List.foldl_cons, List.foldl_nil, List.mem_append] at hr
        rcases hr with hr | hr
        · exact ih r hr
        · exact hk _ _ r hr
      · exact ih

/-- **C02 async (1:1:1, counts)** in a single engine whose producer knows the phenomena, at every moment:
`#complex events = #completed runs notified − |producer queue| = #taken by the forwarder + |forwarder queue|`,
`#handle calls = #complex events taken whose phenomenon has an action`,
`#handle calls = #executions + |in flight|`, `#executions = #responses produced`,
`#responses produced = #action events + |response queue|`. -/
theorem one_one_one_counts_async {P : Params σ} (hk : KnownOut P) {s : ASt σ} (h : FineReachA P s) :
    s.complexes.length + s.pq.length = s.completedLog.length ∧
    s.complexes.length = s.fwdPopped.length + s.fq.length ∧
    s.handed.length = (s.fwdPopped.filter (hasAction P)).length ∧
    s.handed.length = s.execs.length + s.inflight.length ∧
    s.execs.length = s.respLog.length ∧
    s.respLog.length = s.actions.length + s.hq.length := by
  obtain ⟨i, j⟩ := ainv_fine h
  have hck := completedLog_known_async hk h
  have hmem : ∀ x ∈ s.prodPopped, x.2 = true ∧ known P x = true := by
    intro x hx
    have : x ∈ s.completedLog.map (fun r => (r, true)) := by rw [i.completed_eq]; exact List.mem_append_left _ hx
    obtain ⟨r, hr, rfl⟩ := List.mem_map.1 this
    exact ⟨rfl, hck r hr⟩
  have hfilt : s.prodPopped.filter (known P) = s.prodPopped :=
    List.filter_eq_self.2 fun x hx => (hmem x hx).2
  have hlen : s.complexes.length = s.prodPopped.length := by
    have := congrArg List.length i.complexes_eq
    simpa [hfilt] using this
  have hloc : ∀ x ∈ s.complexes, x.2 = true := by
    intro x hx
    have h1 : cxOfEvent x ∈ s.complexes.map cxOfEvent := List.mem_map_of_mem hx
    rw [i.complexes_eq] at h1
    obtain ⟨y, hy, hxy⟩ := List.mem_map.1 h1
    have := (hmem y ((List.mem_filter.1 hy).1)).1
    have h2 : (cxOfRun P y).loc = (cxOfEvent x).loc := by rw [hxy]
    simp only [cxOfRun, cxOfEvent] at h2
    rw [← h2]; exact this
  have htake : s.complexes.filter (fwdTakes P) = s.complexes :=
    List.filter_eq_self.2 fun x hx => by simp [fwdTakes, hloc x hx]
  refine ⟨?_, ?_, ?_, ?_, ?_, ?_⟩
  · have := congrArg List.length i.completed_eq
    simp at this; omega
  · have := congrArg List.length (i.accepted_eq.symm.trans i.fwd_eq)
    simp [htake] at this; omega
  · rw [← filterMap_execOf_cev, ← j.handed_eq]; simp
  · simpa using j.handed_perm.length_eq
  · rw [j.execs_resp]; simp
  · have h2 := congrArg List.length i.resp_eq
    have h3 := congrArg List.length i.actions_eq
    simp at h2 h3; omega

/-! ### what each asynchronous step does -/

/-- `_update_handler`, queue non-empty: ONE complex event is taken; if its phenomenon has an action the pair is handed to
the pool (appended to `inflight`); NOTHING is executed and no response appears. -/
theorem fwd_handle_async_dispatches (P : Params σ) (s : ASt σ) (e : Event) (rest : List Event) (hq : s.fq = e :: rest) :
    let s' := (fwdHandleA P s).1
    s'.fq = rest ∧ s'.fwdPopped = s.fwdPopped ++ [e] ∧ (fwdHandleA P s).2 = true ∧
    s'.execs = s.execs ∧ s'.hq = s.hq ∧ s'.respLog = s.respLog ∧ s'.actions = s.actions ∧ s'.rq = s.rq ∧
    (∀ name f, P.actionOf e.phen = some (name, f) →
      s'.inflight = s.inflight ++ [{ actName := name, run := f, cev := e }] ∧
      s'.handed = s.handed ++ [{ actName := name, cev := e }]) ∧
    (P.actionOf e.phen = none → s'.inflight = s.inflight ∧ s'.handed = s.handed) := by
  simp only [fwdHandleA, hq]
  rcases ha : P.actionOf e.phen with _ | ⟨name, f⟩
  · simp
  · simp only [Option.some.injEq, Prod.mk.injEq, reduceCtorEq, false_implies, and_true, true_and]
    rintro _ _ ⟨rfl, rfl⟩
    exact ⟨rfl, rfl⟩

/-- `complete k` on an existing in-flight execution: exactly that one leaves `inflight`, `execute` is called once on its
own complex event, and its response goes to the tail of the response queue; no queue of the engine moves. -/
theorem complete_executes_one (s : ASt σ) (k : Nat) (j : Job) (hk : s.inflight[k]? = some j) :
    let s' := complete k s
    s'.inflight = s.inflight.eraseIdx k ∧ s'.execs = s.execs ++ [j.exec] ∧ s'.hq = s.hq ++ [j.resp] ∧
    s'.respLog = s.respLog ++ [j.resp] ∧ j.resp.cev = j.cev ∧ j.resp.actName = j.actName ∧
    j.resp.success = (j.run j.cev).1 ∧ j.resp.data = (j.run j.cev).2 ∧
    s'.rq = s.rq ∧ s'.dq = s.dq ∧ s'.pq = s.pq ∧ s'.fq = s.fq ∧ s'.actions = s.actions ∧ s'.handed = s.handed := by
  simp [complete, hk, Job.resp]

/-- `complete k` with no `k`-th in-flight execution is not a step. -/
theorem complete_out_of_range (s : ASt σ) (k : Nat) (hk : s.inflight.length ≤ k) : complete k s = s := by
  simp [complete, List.getElem?_eq_none hk]

/-- `_update_responses`: AT MOST ONE response is taken per `forwarder.update()`, the oldest; its action event is built
and fed back to the receiver queue. -/
theorem fwd_responses_async_takes_one (P : Params σ) (s : ASt σ) :
    let s' := (fwdResponsesA P s).1
    s'.hq = s.hq.tail ∧ s'.respPopped = s.respPopped ++ s.hq.head?.toList ∧
    (∃ evs : List Event, s'.actions = s.actions ++ evs ∧ s'.rq = s.rq ++ evs.map Item.ev ∧
      evs.map acOfEvent = s.hq.head?.toList.map acOfResp) ∧
    (fwdResponsesA P s).2 = !s.hq.isEmpty ∧ s'.inflight = s.inflight ∧ s'.fq = s.fq ∧ s'.execs = s.execs := by
  simp only [fwdResponsesA, liftA, fwdResponses]
  cases hh : s.hq <;> simp [hh, deliverFwd, addData, mkAction, acOfEvent, acOfResp]


/-! ### the `while task.update()` loops terminate, whatever the pool does meanwhile -/

/-- every `update()` that returns True strictly decreases the task's measure — for the forwarder
`2·|forwarder queue| + |in flight| + |response queue|`, which no completion increases. -/
theorem update_true_decreases_measure_async (P : Params σ) (t : Task) (s : ASt σ) (h : (stepA P t s).2 = true) :
    taskMeasureA t (stepA P t s).1 < taskMeasureA t s :=
  stepA_true_decreases P t s h

/-- **termination of `times = 0`** with a concurrent pool: the loop stops within `taskMeasureA + 1` iterations under
EVERY script of completions, and any larger fuel gives the same result. -/
theorem while_loops_terminate_async (P : Params σ) (t : Task) (s : ASt σ) :
    (whileLoopA (stepA P t) (taskMeasureA t s + 1) s).2 = false ∧
    ∀ fuel, taskMeasureA t s + 1 ≤ fuel →
      whileLoopA (stepA P t) fuel s = whileLoopA (stepA P t) (taskMeasureA t s + 1) s :=
  whileLoopA_fuel (stepA P t) (taskMeasureA t) (stepA_true_decreases P t) _ s (Nat.lt_succ_self _)

/-! ### nothing is left stranded -/

def countUpdatesA : List AOp → Nat
  | [] => 0
  | .add _ :: ops => countUpdatesA ops
  | .update _ :: ops => countUpdatesA ops + 1
  | .complete _ :: ops => countUpdatesA ops

/-- **no stranding in the engine's queues, unconditionally** (any matcher, any feedback, further input and pool
completions interleaved in any way, any script inside the updates): after `k` engine updates every queue — the
response queue included — has lost `min(k, what it was offered)` items. -/
theorem service_bound_async {P : Params σ} {Q : σ → Prop} (hs : StableOut P Q) (c : Cfg) (ops : List AOp) :
    ∀ s : ASt σ, HealthyA P Q s →
    let a := alens s
    let b := alens (runOpsA P c s ops)
    let k := countUpdatesA ops
    min (a.sR + a.rq) (a.sR + k) ≤ b.sR ∧ min (a.sD + a.dq) (a.sD + k) ≤ b.sD ∧
    min (a.sP + a.pq) (a.sP + k) ≤ b.sP ∧ min (a.sF + a.fq) (a.sF + k) ≤ b.sF ∧
    min (a.sH + a.hq) (a.sH + k) ≤ b.sH := by
  induction ops with
  | nil => intro s _; simp [runOpsA, countUpdatesA]
  | cons o ops ih =>
    intro s hh
    simp only [runOpsA, List.foldl_cons] at ih ⊢
    cases o with
    | add it =>
      have h := ih (addDataA .ext it s) (healthyA_add it s hh)
      have e : alens (addDataA .ext it s) = { alens s with rq := (alens s).rq + 1 } := by
        simp [alens, addDataA, addData]
      simp only [applyOpA, countUpdatesA]
      rw [e] at h
      dsimp only at h ⊢
      exact ⟨by omega, h.2.1, h.2.2.1, h.2.2.2.1, h.2.2.2.2⟩
    | complete k =>
      obtain ⟨g1, g2, g3, g4, g5⟩ := ih (complete k s) ((healthyA_closed hs).complete k s hh)
      obtain ⟨n, hc⟩ := eff_complete k s
      simp only [applyOpA, countUpdatesA]
      refine ⟨?_, ?_, ?_, ?_, ?_⟩ <;> omega
    | update script =>
      have hh0 : HealthyA P Q { s with pool := script } := hh
      have h1 := engineUpdateA_serves hs c _ hh0
      have hh' : HealthyA P Q (engineUpdateA P c { s with pool := script }) :=
        engineUpdateA_closed (healthyA_closed hs) c _ hh0
      have h2 := ih _ hh'
      have h3 := offered_engineA P c { s with pool := script }
      simp only [applyOpA, countUpdatesA]
      rw [alens_pool] at h1 h3
      dsimp only [OfferedA] at h1 h2 h3 ⊢
      exact ⟨chain_min h1.1 h3.1 h2.1, chain_min h1.2.1 h3.2.1 h2.2.1, chain_min h1.2.2.1 h3.2.2.1 h2.2.2.1,
        chain_min h1.2.2.2.1 h3.2.2.2.1 h2.2.2.2.1, chain_min h1.2.2.2.2 h3.2.2.2.2 h2.2.2.2.2⟩

/-- items in the five queues, weighted by the hand-overs still ahead of them (`muA` without the in-flight part). -/
def drainA (a : ALens) : Nat := 8 * a.pq + 5 * a.fq + 3 * a.hq + 2 * a.rq + a.dq

/-- `n` engine updates during which the pool finishes nothing. -/
def iterUpdateA (P : Params σ) (c : Cfg) : Nat → ASt σ → ASt σ
  | 0, s => s
  | n + 1, s => iterUpdateA P c n (applyOpA P c s (.update []))

theorem iterUpdateA_runOpsA (P : Params σ) (c : Cfg) : ∀ n (s : ASt σ),
    iterUpdateA P c n s = runOpsA P c s (List.replicate n (.update [])) := by
  intro n
  induction n with
  | zero => intro s; rfl
  | succ n ih => intro s; simp only [iterUpdateA, List.replicate_succ, runOpsA, List.foldl_cons]; exact ih _

/-- **no stranding (draining)**: input has stopped and the matcher completes nothing any more (`Quiet`).  From ANY
state `s` (in particular: after any interleaving of updates and completions), `drainA` further engine updates —
a bound in the queue lengths of `s` only — empty all four task queues and the response queue, for every
configuration; only what the pool has not finished yet (`inflight`, which can only have grown) is still pending.
Fairness is needed for exactly that rest: see `drained_async`. -/
theorem no_stranding_async {P : Params σ} {Q : σ → Prop} (hq : Quiet P Q) (c : Cfg) :
    ∀ (n : Nat) (s : ASt σ), HealthyA P Q s → drainA (alens s) ≤ n →
      let s' := iterUpdateA P c n s
      s'.rq = [] ∧ s'.dq = [] ∧ s'.pq = [] ∧ s'.fq = [] ∧ s'.hq = [] ∧ s.inflight.length ≤ s'.inflight.length := by
  intro n
  induction n with
  | zero =>
    intro s _ h
    simp only [drainA, alens, Nat.le_zero_eq] at h
    simp only [iterUpdateA]
    refine ⟨?_, ?_, ?_, ?_, ?_, Nat.le_refl _⟩ <;> apply List.eq_nil_of_length_eq_zero <;> omega
  | succ n ih =>
    intro s hh h
    simp only [iterUpdateA, applyOpA]
    have hh0 : HealthyA P Q { s with pool := [] } := hh
    have hp : muA (alens (engineUpdateA P c { s with pool := [] })) ≤ muA (alens s) ∧
        ((alens s).rq + (alens s).dq + (alens s).pq + (alens s).fq + (alens s).hq ≠ 0 →
          muA (alens (engineUpdateA P c { s with pool := [] })) < muA (alens s)) :=
      engineUpdateA_progress hq c _ hh0
    have hinf : (alens s).inf ≤ (alens (engineUpdateA P c { s with pool := [] })).inf :=
      (engineUpdateA_silent P c { s with pool := [] } rfl).2
    have hstep := ih (engineUpdateA P c { s with pool := [] })
      (engineUpdateA_closed (healthyA_closed hq.stable) c _ hh0) (by
        simp only [drainA, muA] at h hp ⊢
        omega)
    have hinf' : s.inflight.length ≤ (engineUpdateA P c { s with pool := [] }).inflight.length := hinf
    exact ⟨hstep.1, hstep.2.1, hstep.2.2.1, hstep.2.2.2.1, hstep.2.2.2.2.1, Nat.le_trans hinf' hstep.2.2.2.2.2⟩

/-- under `KnownOut` every complex event built reaches the forwarder. -/
theorem complexes_reach_forwarder_async {P : Params σ} (hk : KnownOut P) {s : ASt σ} (h : FineReachA P s) :
    s.complexes.map (·.1) = s.fwdPopped ++ s.fq := by
  obtain ⟨i, j⟩ := ainv_fine h
  have hck := completedLog_known_async hk h
  have hloc : ∀ x ∈ s.complexes, x.2 = true := by
    intro x hx
    have h1 : cxOfEvent x ∈ s.complexes.map cxOfEvent := List.mem_map_of_mem hx
    rw [i.complexes_eq] at h1
    obtain ⟨y, hy, hxy⟩ := List.mem_map.1 h1
    have hy' : y ∈ s.completedLog.map (fun r => (r, true)) := by
      rw [i.completed_eq]; exact List.mem_append_left _ (List.mem_filter.1 hy).1
    obtain ⟨r, _, rfl⟩ := List.mem_map.1 hy'
    have h2 : (cxOfRun P (r, true)).loc = (cxOfEvent x).loc := by rw [hxy]
    simpa [cxOfRun, cxOfEvent] using h2.symm
  have htake : s.complexes.filter (fwdTakes P) = s.complexes :=
    List.filter_eq_self.2 fun x hx => by simp [fwdTakes, hloc x hx]
  rw [← i.fwd_eq, i.accepted_eq, htake]

/-- **`one_one_one` for the asynchronous handler, once drained**: when the producer queue, the forwarder queue, the
response queue are empty and nothing is in flight,
`#completed runs notified = #complex events`, and
`#complex events whose phenomenon has an action = #handle calls = #executions = #action events`;
moreover the executions are, as a multiset, exactly the `handle` calls. -/
theorem one_one_one_drained_async {P : Params σ} (hk : KnownOut P) {s : ASt σ} (h : FineReachA P s)
    (hp : s.pq = []) (hf : s.fq = []) (hh : s.hq = []) (hi : s.inflight = []) :
    s.completedLog.length = s.complexes.length ∧
    ((s.complexes.map (·.1)).filter (hasAction P)).length = s.handed.length ∧
    s.handed.length = s.execs.length ∧ s.execs.length = s.actions.length ∧
    s.handed.Perm s.execs ∧ s.respPopped = s.respLog := by
  have hc := one_one_one_counts_async hk h
  have hr := complexes_reach_forwarder_async hk h
  obtain ⟨i, j⟩ := ainv_fine h
  rw [hp, hf, hh, hi] at hc
  rw [hf, List.append_nil] at hr
  simp only [List.length_nil, Nat.add_zero] at hc
  refine ⟨by omega, by rw [hr]; omega, by omega, by omega, ?_, ?_⟩
  · simpa [hi] using j.handed_perm
  · simpa [hh] using i.resp_eq.symm

/-- **no stranding, end to end**: a fresh engine, ANY interleaving `ops` of `add_data`, engine updates (any script of
completions inside them) and pool completions; then input stops in a feedback-quiet region (`HealthyA P Q`: no pending
exception, the matcher state satisfies `Q`, and `Quiet P Q`), the engine is updated `n ≥ drainA` more times (bound in the
queue lengths after `ops`), and — FAIRNESS, stated on the run — at the end nothing is in flight.  Then all four task
queues and the response queue are empty and the drained 1:1:1 counts hold. -/
theorem drained_async {P : Params σ} {Q : σ → Prop} (hq : Quiet P Q) (hk : KnownOut P) (c : Cfg) (d : σ)
    (ops : List AOp) (n : Nat) :
    let s1 := runOpsA P c (initA d) ops
    let s2 := iterUpdateA P c n s1
    HealthyA P Q s1 → drainA (alens s1) ≤ n → s2.inflight = [] →
      s2.rq = [] ∧ s2.dq = [] ∧ s2.pq = [] ∧ s2.fq = [] ∧ s2.hq = [] ∧
      s2.completedLog.length = s2.complexes.length ∧
      ((s2.complexes.map (·.1)).filter (hasAction P)).length = s2.execs.length ∧
      s2.execs.length = s2.actions.length := by
  intro s1 s2 hh hn hfair
  have hd := no_stranding_async hq c n s1 hh hn
  have hreach : FineReachA P s2 := by
    apply reachA_fine (c := c)
    refine ⟨d, ops ++ List.replicate n (.update []), ?_⟩
    show iterUpdateA P c n (runOpsA P c (initA d) ops) = _
    rw [iterUpdateA_runOpsA, runOpsA, runOpsA, runOpsA, List.foldl_append]
  have h1 := one_one_one_drained_async hk hreach hd.2.2.1 hd.2.2.2.1 hd.2.2.2.2.1 hfair
  exact ⟨hd.1, hd.2.1, hd.2.2.1, hd.2.2.2.1, hd.2.2.2.2.1, h1.1, by omega, h1.2.2.2.1⟩

/-! ### every interleaving: the total work is bounded (no livelock) -/

/-- does this operation do anything in state `s`?  An engine update with a non-empty queue; a completion of an existing
in-flight execution. -/
def busyA (s : ASt σ) : AOp → Bool
  | .add _ => false
  | .update _ => !(s.rq.isEmpty && s.dq.isEmpty && s.pq.isEmpty && s.fq.isEmpty && s.hq.isEmpty)
  | .complete k => decide (k < s.inflight.length)

def countBusyA (P : Params σ) (c : Cfg) : ASt σ → List AOp → Nat
  | _, [] => 0
  | s, o :: ops => (if busyA s o then 1 else 0) + countBusyA P c (applyOpA P c s o) ops

def noAdds : List AOp → Bool
  | [] => true
  | .add _ :: _ => false
  | _ :: ops => noAdds ops

theorem complete_muA (k : Nat) (s : ASt σ) :
    muA (alens (complete k s)) + (if k < s.inflight.length then 1 else 0) = muA (alens s) := by
  unfold complete
  split
  · rename_i hn
    have : ¬ k < s.inflight.length := by
      intro hk; simp [List.getElem?_eq_getElem hk] at hn
    simp [this]
  · rename_i j hj
    have hk : k < s.inflight.length := by
      rcases Nat.lt_or_ge k s.inflight.length with h | h
      · exact h
      · simp [List.getElem?_eq_none h] at hj
    simp only [alens, muA, List.length_eraseIdx, hk, if_true, List.length_append, List.length_cons, List.length_nil]
    omega

/-- **bounded work**: input has stopped, the matcher is quiet.  In EVERY interleaving of engine updates (any scripts)
and completions, each effective operation (`busyA`) strictly decreases `muA`, and no operation increases it: at most
`muA` (a function of the queue lengths and the number in flight) effective operations can ever happen.  So a pool and
a caller that keep making an effective step while one exists — fairness — reach, within `muA` such steps, a state where
none exists, which is a drained state (`quiescent_is_drained_async`). -/
theorem work_bounded_async {P : Params σ} {Q : σ → Prop} (hq : Quiet P Q) (c : Cfg) (ops : List AOp) :
    ∀ s : ASt σ, HealthyA P Q s → noAdds ops = true →
      countBusyA P c s ops + muA (alens (runOpsA P c s ops)) ≤ muA (alens s) := by
  induction ops with
  | nil => intro s _ _; simp [countBusyA, runOpsA]
  | cons o ops ih =>
    intro s hh hna
    simp only [runOpsA, List.foldl_cons, countBusyA] at ih ⊢
    cases o with
    | add it => simp [noAdds] at hna
    | complete k =>
      have h := ih (complete k s) ((healthyA_closed hq.stable).complete k s hh) (by simpa [noAdds] using hna)
      have hm := complete_muA k s
      simp only [applyOpA, busyA, decide_eq_true_eq] at h ⊢
      omega
    | update script =>
      have hh0 : HealthyA P Q { s with pool := script } := hh
      have hp : muA (alens (engineUpdateA P c { s with pool := script })) ≤ muA (alens s) ∧
          ((alens s).rq + (alens s).dq + (alens s).pq + (alens s).fq + (alens s).hq ≠ 0 →
            muA (alens (engineUpdateA P c { s with pool := script })) < muA (alens s)) :=
        engineUpdateA_progress hq c _ hh0
      have h := ih _ (engineUpdateA_closed (healthyA_closed hq.stable) c _ hh0) (by simpa [noAdds] using hna)
      simp only [applyOpA] at h ⊢
      by_cases hb : busyA s (.update script) = true
      · have hb' : (!(s.rq.isEmpty && s.dq.isEmpty && s.pq.isEmpty && s.fq.isEmpty && s.hq.isEmpty)) = true := hb
        have hne : (alens s).rq + (alens s).dq + (alens s).pq + (alens s).fq + (alens s).hq ≠ 0 := by
          intro h0
          simp only [alens] at h0
          have e1 : s.rq = [] := List.eq_nil_of_length_eq_zero (by omega)
          have e2 : s.dq = [] := List.eq_nil_of_length_eq_zero (by omega)
          have e3 : s.pq = [] := List.eq_nil_of_length_eq_zero (by omega)
          have e4 : s.fq = [] := List.eq_nil_of_length_eq_zero (by omega)
          have e5 : s.hq = [] := List.eq_nil_of_length_eq_zero (by omega)
          simp [e1, e2, e3, e4, e5] at hb'
        have := hp.2 hne
        rw [if_pos hb]
        omega
      · rw [if_neg hb]
        omega

/-- a state in which no operation is effective is drained: all queues empty and nothing in flight. -/
theorem quiescent_is_drained_async (s : ASt σ) (hu : busyA s (.update []) = false) (hc : busyA s (.complete 0) = false) :
    s.rq = [] ∧ s.dq = [] ∧ s.pq = [] ∧ s.fq = [] ∧ s.hq = [] ∧ s.inflight = [] := by
  simp only [busyA, Bool.not_eq_false', Bool.and_eq_true, List.isEmpty_iff, decide_eq_false_iff_not, Nat.not_lt,
    Nat.le_zero_eq, List.length_eq_zero_iff] at hu hc
  exact ⟨hu.1.1.1.1, hu.1.1.1.2, hu.1.1.2, hu.1.2, hu.2, hc⟩


/-! ### tie to the blocking model -/

/-- a pool that finishes each execution at once — between the two halves of the `forwarder.update()` that dispatched
it — IS the blocking handler: `_update_handler` followed by `complete 0` acts on the `St` part exactly as the blocking
`fwdHandle` (same execution, same response queued), and leaves nothing in flight. -/
theorem eager_pool_is_blocking (P : Params σ) (a : ASt σ) (hi : a.inflight = []) :
    (complete 0 (fwdHandleA P a).1).toSt = (fwdHandle P a.toSt).1 ∧
    (complete 0 (fwdHandleA P a).1).inflight = [] ∧
    (fwdHandleA P a).2 = (fwdHandle P a.toSt).2 := by
  unfold fwdHandleA fwdHandle
  cases hf : a.fq with
  | nil => simp [complete, hi]
  | cons e rest =>
    rcases ha : P.actionOf e.phen with _ | ⟨name, f⟩
    · simp [complete, hi, ha]
    · simp [complete, hi, ha, Job.resp, Job.exec]

/-- hence one `forwarder.update()` under the script "nothing, then finish what was just dispatched" is the blocking
model's `fwdUpdate` on the `St` part (queues, generators, every ghost variable of Model/Engine.lean), and leaves
nothing in flight: the blocking handler is one behaviour of the asynchronous one. -/
theorem eager_forwarder_update_is_blocking (P : Params σ) (a : ASt σ) (hi : a.inflight = []) (rest : List (List Nat))
    (hp : a.pool = [] :: [0] :: rest) :
    (stepA P .forwarder a).1.toSt = (fwdUpdate P a.toSt).1 ∧ (stepA P .forwarder a).2 = (fwdUpdate P a.toSt).2 ∧
    (stepA P .forwarder a).1.inflight = [] ∧ (stepA P .forwarder a).1.pool = rest := by
  have h := eager_pool_is_blocking P a hi
  have e1 : poolStep a = { a with pool := [0] :: rest } := by simp [poolStep, hp, completeMany]
  have e2 : poolStep { (fwdHandleA P a).1 with pool := [0] :: rest } =
      { complete 0 (fwdHandleA P a).1 with pool := rest } := by
    simp only [poolStep, completeMany, List.foldl_cons, List.foldl_nil]
    exact complete_pool 0 _ rest
  have e3 : stepA P .forwarder a =
      ((fwdResponsesA P (poolStep (fwdHandleA P (poolStep a)).1)).1,
       (fwdHandleA P (poolStep a)).2 || (fwdResponsesA P (poolStep (fwdHandleA P (poolStep a)).1)).2) := rfl
  rw [e3, e1, fwdHandleA_pool]
  show (fwdResponsesA P (poolStep { (fwdHandleA P a).1 with pool := [0] :: rest })).1.toSt = _ ∧
    ((fwdHandleA P a).2 || (fwdResponsesA P (poolStep { (fwdHandleA P a).1 with pool := [0] :: rest })).2) = _ ∧
    (fwdResponsesA P (poolStep { (fwdHandleA P a).1 with pool := [0] :: rest })).1.inflight = [] ∧
    (fwdResponsesA P (poolStep { (fwdHandleA P a).1 with pool := [0] :: rest })).1.pool = rest
  rw [e2]
  refine ⟨?_, ?_, h.2.1, rfl⟩
  · show (fwdResponses P (complete 0 (fwdHandleA P a).1).toSt).1 = _
    rw [h.1]; rfl
  · show ((fwdHandleA P a).2 || (fwdResponses P (complete 0 (fwdHandleA P a).1).toSt).2) = _
    rw [h.1, h.2.2]; rfl

/-! ### the history variables are only history (asynchronous engine) -/

/-- **ghost_free, asynchronous**: two states that agree on the real fields (the `St` core of `ghost_free`, what is in
flight, the pool script) still agree on them after any operation — `add_data`, an engine update under any script, a
pool completion — whatever their ghost fields (those of `St`, and `handed`) hold. -/
theorem ghost_free_async (P : Params σ) (c : Cfg) (o : AOp) (s s' : ASt σ) (h : CoreEq s s') :
    CoreEq (applyOpA P c s o) (applyOpA P c s' o) := by
  cases o with
  | update script => exact coreEq_engineUpdateA P c _ _ ⟨h.1, h.2.1, rfl⟩
  | complete k => exact coreEq_complete k s s' h
  | add it =>
    obtain ⟨h1, h2, h3, h4, h5, h6, h7, h8, h9⟩ := core_fields h.1
    exact ⟨core_of_fields (by simp [applyOpA, addDataA, addData, *]), h.2.1, h.2.2⟩

/-! ### non-vacuity and the honest negatives for the asynchronous handler -/

/-- the first two data `2` complete a run of `p` each (the `k`-th with a history of `k` groups, so the datagen value
`k` tells the complex events apart); `p`'s action reports its event's data, and success iff that data is `1`. -/
def demoA : Params Nat :=
  { decide := fun n e =>
      match e.kind, e.data with
      | .simple, .int 2 =>
        if n < 2 then (n + 1, ⟨[⟨"r", "p", "pat", 1, List.replicate (n + 1) ("g", [])⟩], [], []⟩)
        else (n, ⟨[], [], []⟩)
      | _, _ => (n, ⟨[], [], []⟩)
    isValid := fun _ => true
    datagenOf := fun ph => if ph = "p" then some (some fun h => .int h.length) else none
    actionOf := fun ph => if ph = "p" then some ("act", fun e => (e.data == .int 1, e.data)) else none
    idOf := fun k => toString k
    tsOf := fun k => k }

/-- two data, one engine update (all `times_* = 0`): both runs complete, both complex events are built and dispatched. -/
def demoAStart : List AOp := [.add (.raw (.int 2)), .add (.raw (.int 2)), .update []]

set_option maxRecDepth 8192 in
/-- after `demoAStart` BOTH actions are in flight at once (complex events with data 1 and 2, in dispatch order),
nothing has been executed, no response, no action event. -/
example :
    let s := runOpsA demoA {} (initA 0) demoAStart
    s.inflight.map (·.cev.data) = [.int 1, .int 2] ∧ s.handed.length = 2 ∧ s.execs = [] ∧ s.hq = [] ∧
    s.actions = [] ∧ s.fq = [] ∧ s.complexes.length = 2 ∧ s.completedLog.length = 2 := by
  decide

/-- the pool finishes them in the REVERSE order; five more engine updates. -/
def demoAOps : List AOp := demoAStart ++ [.complete 1, .complete 0, .update [], .update [], .update [], .update [], .update []]

set_option maxRecDepth 8192 in
/-- **reverse completion order, right pairing**: the action events come out in completion order (data 2 first), each
with the success / data of ITS OWN complex event (`success = (data == 1)`); executions in completion order; everything
drained; 2 completed runs = 2 complex events = 2 executions = 2 action events. -/
example :
    let s := runOpsA demoA {} (initA 0) demoAOps
    s.actions.map acOfEvent = [⟨.int 2, "p", "pat", "act", false⟩, ⟨.int 1, "p", "pat", "act", true⟩] ∧
    s.execs.map (·.cev.data) = [.int 2, .int 1] ∧ s.handed.map (·.cev.data) = [.int 1, .int 2] ∧
    s.respPopped.map (fun r => (r.cev.data, r.success, r.data)) = [(.int 2, false, .int 2), (.int 1, true, .int 1)] ∧
    s.completedLog.length = 2 ∧ s.complexes.length = 2 ∧ s.execs.length = 2 ∧ s.actions.length = 2 ∧
    s.inflight.length = 0 ∧ s.rq = [] ∧ s.dq = [] ∧ s.pq = [] ∧ s.fq = [] ∧ s.hq = [] ∧ s.err = none := by
  decide

example : ReachA demoA {} (runOpsA demoA {} (initA 0) demoAOps) := ⟨0, demoAOps, rfl⟩

set_option maxRecDepth 8192 in
/-- completions INSIDE an engine update (script; 3 + 3 + 3 `update()` calls of receiver, decider, producer come first): with
`times_forwarder = 2`, each execution finishes between the two halves of the `forwarder.update()` call that dispatched
it, so its response is taken by that very call — exactly the blocking handler's behaviour — and both action events come
out of the first engine update, in dispatch order. -/
example :
    let s := runOpsA demoA ⟨0, 0, 0, 2, true⟩ (initA 0)
      [.add (.raw (.int 2)), .add (.raw (.int 2)), .update [[], [], [], [], [], [], [], [], [], [], [0], [], [0]]]
    s.actions.map acOfEvent = [⟨.int 1, "p", "pat", "act", true⟩, ⟨.int 2, "p", "pat", "act", false⟩] ∧
    s.inflight.length = 0 ∧ s.hq = [] ∧ s.fq = [] := by
  decide

/-- the hypotheses of `service_bound_async` / `no_stranding_async` / `drained_async` are satisfiable, with work in flight. -/
example : Quiet demoA (fun n => 2 ≤ n) := by
  intro ds hq e
  simp only [demoA]
  split
  · rw [if_neg (by omega)]; exact ⟨hq, rfl⟩
  · exact ⟨hq, rfl⟩

example : KnownOut demoA := by
  intro ds e r hr
  simp only [demoA] at hr ⊢
  split at hr
  · split at hr
    · simp at hr; subst hr; simp
    · simp at hr
  · simp at hr

set_option maxRecDepth 8192 in
example :
    let s := runOpsA demoA {} (initA 0) demoAStart
    2 ≤ s.ds ∧ s.err = none ∧ s.pq = [] ∧ drainA (alens s) = 4 ∧ muA (alens s) = 12 := by
  decide

set_option maxRecDepth 8192 in
/-- **fairness is necessary**: the pool never finishes — any number of engine updates (here 8 ≥ `drainA` = 4) empties
the queues (`no_stranding_async`) but no action is executed and no action event is ever published. -/
example :
    let s := iterUpdateA demoA {} 8 (runOpsA demoA {} (initA 0) demoAStart)
    s.rq = [] ∧ s.dq = [] ∧ s.pq = [] ∧ s.fq = [] ∧ s.hq = [] ∧
    s.inflight.length = 2 ∧ s.execs = [] ∧ s.actions = [] ∧ s.complexes.length = 2 := by
  decide

set_option maxRecDepth 8192 in
/-- **the updates must come AFTER the completions** (why `drained_async` counts the updates of the final, pool-silent
phase and not all of them): 13 engine updates, THEN both completions — at the end nothing is in flight and the engine
was updated more than `muA` = 12 ≥ `drainA` = 4 times in total, yet two responses are stranded in the response queue and no
action event exists; only further updates publish them. -/
example :
    let s := runOpsA demoA {} (initA 0)
      (demoAStart ++ List.replicate 13 (.update []) ++ [.complete 0, .complete 0])
    s.inflight.length = 0 ∧ s.hq.length = 2 ∧ s.actions = [] ∧ s.execs.length = 2 := by
  decide

set_option maxRecDepth 8192 in
/-- `forwarder.update()` takes AT MOST ONE response per call: with `times_forwarder = 1` two ready responses need two
engine updates (after one, one response is still queued). -/
example :
    let s := runOpsA demoA ⟨0, 0, 0, 1, true⟩ (initA 0)
      [.add (.raw (.int 2)), .add (.raw (.int 2)), .update [], .update [], .complete 1, .complete 0, .update []]
    s.hq.length = 1 ∧ s.actions.length = 1 ∧ s.inflight.length = 0 := by
  decide

end Bobo.Engine
