import BoboVerif.Model.Engine
import BoboVerif.Lemmas.Engine
import BoboVerif.Gen.Wiring
/-!
C02 — One complex event, one action run, one action event per completed run;
conservation of the stream through the engine's queues.

Property theorems only (helper lemmas: Lemmas/Engine.lean; model:
Model/Engine.lean).  Every theorem quantifies over an arbitrary matcher
`P.decide : σ → Event → σ × Notif` on an arbitrary state type `σ`, an arbitrary
validator, datagen and action functions, id / timestamp sequences, every
configuration `c : Cfg` (all `times_* ∈ ℕ`, `early_stop` on/off) and every
sequence of operations.

Two notions of reachable state:
* `Reach P c s`   — `s` results from `add_data` / `BoboEngine.update` calls (the property's wording);
* `FineReach P s` — `s` results from `add_data` / single task `update()` calls in ANY order
  (covers another thread calling `add_data` between two task updates of one engine update).
  Every `Reach` state is a `FineReach` state (`reach_fine`); the invariants are proved for `FineReach`.
-/
namespace Bobo.Engine
variable {σ : Type}

/-! ## tie G: the tables regenerated from the source equal the ones the model interprets -/

theorem wiring_eq : Bobo.Gen.Wiring.wiring = wiring := rfl
theorem defaults_eq : Bobo.Gen.Wiring.defaults = ({} : Cfg) := rfl
theorem schedule_eq : Bobo.Gen.Wiring.schedule = schedule := rfl
theorem loopOf_eq : Bobo.Gen.Wiring.loopOf = loopOf := by
  funext n; unfold Bobo.Gen.Wiring.loopOf loopOf; split <;> split <;> simp_all
theorem breakNow_eq : Bobo.Gen.Wiring.breakNow = breakNow := by
  funext r e; cases r <;> cases e <;> rfl
theorem setup_simple_eq : Bobo.Gen.Wiring.setupSimple = setupSimple := rfl

/-! ## reachable states -/

def Reach (P : Params σ) (c : Cfg) (s : St σ) : Prop := ∃ d ops, s = runOps P c (init d) ops

inductive FineReach (P : Params σ) : St σ → Prop
  | init (d : σ) : FineReach P (init d)
  | add {s} (it : Item) : FineReach P s → FineReach P (addData .ext it s)
  | task {s} (t : Task) : FineReach P s → FineReach P (taskUpdate P t s).1
  | clear {s} : FineReach P s → FineReach P { s with err := none }

theorem fine_closed (P : Params σ) : Closed P (FineReach P) :=
  ⟨fun t _ h => .task t h, fun _ h => .clear h⟩

/-- an engine update is a particular sequence of single task updates. -/
theorem reach_fine {P : Params σ} {c : Cfg} {s : St σ} (h : Reach P c s) : FineReach P s := by
  obtain ⟨d, ops, rfl⟩ := h
  exact runOps_closed (fine_closed P) (fun it _ h => .add it h) c ops _ (.init d)

theorem inv_fine {P : Params σ} {s : St σ} (h : FineReach P s) : Inv P s := by
  induction h with
  | init d => exact inv_init P d
  | add it _ ih => exact inv_add P it _ ih
  | task t _ ih => exact inv_task P t _ ih
  | clear _ ih => exact inv_clear P _ ih

/-! ## conservation: entry point → receiver queue → decider queue → matcher -/

/-- **C02 (conservation)**.  In every reachable state, as LIST equalities:
everything that entered the receiver queue = what the receiver took ++ what is still queued;
its valid part = the items for which an event was published ++ the valid part of the queue;
the published stream = what the matcher has been given ++ the decider queue;
and each published event is the item itself (events) or a simple event carrying the datum.
Exactly once, in arrival order, nothing lost, nothing duplicated. -/
theorem conservation {P : Params σ} {s : St σ} (h : FineReach P s) :
    s.entered.map (·.2) = s.popped ++ s.rq ∧
    (s.entered.map (·.2)).filter P.isValid = s.processed.map (·.1) ++ s.rq.filter P.isValid ∧
    s.processed.map (·.2) = s.seen ++ s.dq ∧
    (∀ p ∈ s.processed, Wraps p.1 p.2) := by
  have i := inv_fine h
  refine ⟨i.entered_eq, ?_, i.published_eq, i.wraps⟩
  rw [i.entered_eq, List.filter_append, i.processed_eq]

/-- the items tagged `ext` are exactly the caller's `add_data` arguments, in order
(so `conservation` speaks about every datum accepted at the entry point). -/
def inputs : List Op → List Item
  | [] => []
  | .add it :: ops => it :: inputs ops
  | .update :: ops => inputs ops

def extEntered (s : St σ) : List Item := (s.entered.filter (fun x => x.1 == .ext)).map (·.2)

theorem extEntered_task (P : Params σ) (t : Task) (s : St σ) :
    extEntered (taskUpdate P t s).1 = extEntered s := by
  cases t
  · simp only [taskUpdate, recvUpdate]
    split
    · rfl
    · simp only [processData]
      split
      · rfl
      · rename_i it _ _ _
        cases it <;> simp [extEntered, deliverRecv]
  · simp only [taskUpdate, decUpdate]
    split
    · rfl
    · split <;> simp [extEntered, deliverDec]
  · simp only [taskUpdate, prodUpdate]
    split
    · rfl
    · split
      · rfl
      · simp only [subsOf_producer, List.foldl_cons, List.foldl_nil, deliverProd]
        split <;> simp [extEntered, addData, List.filter_append]
  · simp only [taskUpdate, fwdUpdate, fwdHandle, fwdResponses]
    split <;> split <;> (try split) <;> simp [extEntered, deliverFwd, addData, List.filter_append]

theorem entry_point_is_inputs (P : Params σ) (c : Cfg) (ops : List Op) :
    ∀ s : St σ, extEntered (runOps P c s ops) = extEntered s ++ inputs ops := by
  induction ops with
  | nil => intro s; simp [runOps, inputs]
  | cons o ops ih =>
    intro s
    simp only [runOps, List.foldl_cons] at ih ⊢
    rw [ih]
    cases o with
    | add it => simp [applyOp, inputs, extEntered, addData, List.filter_append]
    | update =>
      have : extEntered (engineUpdate P c s) = extEntered s :=
        engineUpdate_closed (I := fun a => extEntered a = extEntered s)
          ⟨fun t a h => by rw [extEntered_task]; exact h, fun a h => h⟩ c s rfl
      simp [applyOp, inputs, this]

/-- **C02 (conservation), in the property's own terms**: for every matcher, validator, configuration and every
sequence `ops` of `add_data` / `BoboEngine.update` calls on a fresh engine — the data given to `add_data` are exactly
the `ext`-tagged entries of the receiver's intake, and the whole intake (those data interleaved with the fed-back
complex / action events) reaches the matcher once each, in order, minus what the validator rejects and what is still
queued. -/
theorem conservation_ops (P : Params σ) (c : Cfg) (d : σ) (ops : List Op) :
    let s := runOps P c (init d) ops
    extEntered s = inputs ops ∧
    (s.entered.map (·.2)).filter P.isValid = s.processed.map (·.1) ++ s.rq.filter P.isValid ∧
    s.processed.map (·.2) = s.seen ++ s.dq ∧
    (∀ p ∈ s.processed, Wraps p.1 p.2) := by
  have h := conservation (reach_fine (P := P) (c := c) ⟨d, ops, rfl⟩)
  refine ⟨?_, h.2.1, h.2.2.1, h.2.2.2⟩
  rw [entry_point_is_inputs]; simp [extEntered, init]

/-! ## one complex event, one execution, one action event per completed run -/

/-- **C02 (1:1:1, contents)**.  In every reachable state:
completed runs notified = runs the producer took ++ producer queue;
the complex events built are, field by field (phenomenon, pattern, history, datagen value, local flag),
the runs the producer took (those whose phenomenon it knows), in order, and are of kind complex;
those of them the forwarder accepts = complex events it took ++ forwarder queue;
`execute` calls = one per complex event taken whose phenomenon has an action, with that action's name and that event;
responses = one per such event, with the action's name, the event and what `execute` returned;
responses = responses taken ++ handler queue;
action events are, field by field (data, success, action name, phenomenon, pattern), the responses taken. -/
theorem one_one_one {P : Params σ} {s : St σ} (h : FineReach P s) :
    s.completedLog.map (fun r => (r, true)) = s.prodPopped ++ s.pq ∧
    s.complexes.map cxOfEvent = (s.prodPopped.filter (known P)).map (cxOfRun P) ∧
    (∀ x ∈ s.complexes, x.1.kind = .complex) ∧
    (s.complexes.filter (fwdTakes P)).map (·.1) = s.fwdPopped ++ s.fq ∧
    s.execs = s.fwdPopped.filterMap (execOf P) ∧
    s.respLog = s.fwdPopped.filterMap (respOf P) ∧
    s.respLog = s.respPopped ++ s.hq ∧
    s.actions.map acOfEvent = s.respPopped.map acOfResp ∧
    (∀ e ∈ s.actions, e.kind = .action) := by
  have i := inv_fine h
  exact ⟨i.completed_eq, i.complexes_eq, i.complex_kind, by rw [← i.accepted_eq, i.fwd_eq], i.execs_eq,
    i.resp_log, i.resp_eq, i.actions_eq, i.action_kind⟩

/-- the matcher only reports completed runs of phenomena the producer knows
(decider and producer are given the same phenomena list, `setup_simple_eq`). -/
def KnownOut (P : Params σ) : Prop :=
  ∀ ds e, ∀ r ∈ (P.decide ds e).2.completed, (P.datagenOf r.phen).isSome = true

theorem completedLog_known {P : Params σ} (hk : KnownOut P) {s : St σ} (h : FineReach P s) :
    ∀ r ∈ s.completedLog, (P.datagenOf r.phen).isSome = true := by
  induction h with
  | init d => simp [init]
  | add it _ ih => simpa [addData] using ih
  | clear _ ih => simpa using ih
  | @task s t _ ih =>
    cases t
    · simp only [taskUpdate, recvUpdate]
      split
      · exact ih
      · simp only [processData]
        split
        · exact ih
        · rename_i it _ _ _
          cases it <;> simpa [deliverRecv] using ih
    · simp only [taskUpdate, decUpdate]
      split
      · exact ih
      · rename_i e rest _
        split
        · intro r hr
          simp only [deliverDec, subsOf_decider, List.foldl_cons, List.foldl_nil, List.mem_append] at hr
          rcases hr with hr | hr
          · exact ih r hr
          · exact hk _ _ r hr
        · exact ih
    · simp only [taskUpdate, prodUpdate]
      split
      · exact ih
      · split
        · exact ih
        · simp only [subsOf_producer, List.foldl_cons, List.foldl_nil, deliverProd]
          split <;> simpa [addData] using ih
    · simp only [taskUpdate, fwdUpdate, fwdHandle, fwdResponses]
      split <;> split <;> (try split) <;> simpa [deliverFwd, addData] using ih

/-- **C02 (1:1:1, counts)** in a single engine (every notification is local) whose producer knows the phenomena:
`#complex events = #completed runs notified − |producer queue|`,
`#complex events = #taken by the forwarder + |forwarder queue|`,
`#execute calls = #complex events taken whose phenomenon has an action`,
`#action events = #execute calls − |responses pending|`. -/
theorem one_one_one_counts {P : Params σ} (hk : KnownOut P) {s : St σ} (h : FineReach P s) :
    s.complexes.length + s.pq.length = s.completedLog.length ∧
    s.complexes.length = s.fwdPopped.length + s.fq.length ∧
    s.execs.length = (s.fwdPopped.filter (fun e => (P.actionOf e.phen).isSome)).length ∧
    s.actions.length + s.hq.length = s.execs.length := by
  have i := inv_fine h
  have hck := completedLog_known hk h
  -- everything the producer took or holds is local and known
  have hmem : ∀ x ∈ s.prodPopped, x.2 = true ∧ known P x = true := by
    intro x hx
    have : x ∈ s.completedLog.map (fun r => (r, true)) := by rw [i.completed_eq]; exact List.mem_append_left _ hx
    obtain ⟨r, hr, rfl⟩ := List.mem_map.1 this
    exact ⟨rfl, hck r hr⟩
  have hfilt : s.prodPopped.filter (known P) = s.prodPopped :=
    List.filter_eq_self.2 fun x hx => (hmem x hx).2
  have hlen : s.complexes.length = s.prodPopped.length := by
    have := congrArg List.length i.complexes_eq
    simpa [hfilt] using this
  have hloc : ∀ x ∈ s.complexes, x.2 = true := by
    intro x hx
    have h1 : cxOfEvent x ∈ s.complexes.map cxOfEvent := List.mem_map_of_mem hx
    rw [i.complexes_eq] at h1
    obtain ⟨y, hy, hxy⟩ := List.mem_map.1 h1
    have := (hmem y ((List.mem_filter.1 hy).1)).1
    have h2 : (cxOfRun P y).loc = (cxOfEvent x).loc := by rw [hxy]
    simp only [cxOfRun, cxOfEvent] at h2
    rw [← h2]; exact this
  have htake : s.complexes.filter (fwdTakes P) = s.complexes :=
    List.filter_eq_self.2 fun x hx => by simp [fwdTakes, hloc x hx]
  refine ⟨?_, ?_, ?_, ?_⟩
  · have := congrArg List.length i.completed_eq
    simp at this; omega
  · have := congrArg List.length (i.accepted_eq.symm.trans i.fwd_eq)
    simp [htake] at this; omega
  · rw [i.execs_eq]
    clear hmem hfilt hlen hloc htake
    induction s.fwdPopped with
    | nil => rfl
    | cons e l ih =>
      simp only [List.filterMap_cons, List.filter_cons, execOf]
      cases hq : P.actionOf e.phen <;> simp [ih]
  · have h1 : s.execs.length = s.respLog.length := by
      rw [i.execs_eq, i.resp_log]
      induction s.fwdPopped with
      | nil => rfl
      | cons e l ih =>
        simp only [List.filterMap_cons, execOf, respOf]
        cases hq : P.actionOf e.phen <;> simp [ih]
    have h2 := congrArg List.length i.resp_eq
    have h3 := congrArg List.length i.actions_eq
    simp at h2 h3; omega

/-- **halted runs yield nothing (global)**: every complex event ever built carries a run that was notified as
*completed*; no other source of complex events exists. -/
theorem halted_yields_nothing {P : Params σ} {s : St σ} (h : FineReach P s) :
    ∀ x ∈ s.complexes, ∃ r ∈ s.completedLog, cxOfEvent x = cxOfRun P (r, true) := by
  have i := inv_fine h
  intro x hx
  have h1 : cxOfEvent x ∈ s.complexes.map cxOfEvent := List.mem_map_of_mem hx
  rw [i.complexes_eq] at h1
  obtain ⟨y, hy, hxy⟩ := List.mem_map.1 h1
  have : y ∈ s.completedLog.map (fun r => (r, true)) := by
    rw [i.completed_eq]; exact List.mem_append_left _ ((List.mem_filter.1 hy).1)
  obtain ⟨r, hr, rfl⟩ := List.mem_map.1 this
  exact ⟨r, hr, hxy.symm⟩

/-- **halted runs yield nothing (local)**: a decider update whose notification has no completed run — whatever it
reports as halted or updated — changes no queue but its own and produces no complex event, execution or action event. -/
theorem halted_step_yields_nothing (P : Params σ) (s : St σ) (e : Event) (rest : List Event)
    (hq : s.dq = e :: rest) (hc : (P.decide s.ds e).2.completed = []) :
    let s' := (decUpdate P s).1
    s'.dq = rest ∧ s'.rq = s.rq ∧ s'.pq = s.pq ∧ s'.fq = s.fq ∧ s'.hq = s.hq ∧ s'.completedLog = s.completedLog ∧
    s'.complexes = s.complexes ∧ s'.execs = s.execs ∧ s'.actions = s.actions ∧
    (decUpdate P s).2 = (P.decide s.ds e).2.changed := by
  simp only [decUpdate, hq]
  split <;> simp_all [deliverDec]

/-- **feedback, exactly once**: the items the producer / forwarder put into the receiver queue are exactly the complex /
action events built, in order (and by `conservation` each of them is taken once and, if valid, seen once by the matcher). -/
theorem feedback_once {P : Params σ} {s : St σ} (h : FineReach P s) :
    (s.entered.filter (fun x => x.1 == .prod)).map (·.2) = s.complexes.map (fun x => Item.ev x.1) ∧
    (s.entered.filter (fun x => x.1 == .fwd)).map (·.2) = s.actions.map Item.ev ∧
    s.entered.map (·.2) = s.popped ++ s.rq :=
  let i := inv_fine h
  ⟨i.fb_prod, i.fb_fwd, i.entered_eq⟩

/-! ## each `update()` on a non-empty queue takes exactly one item -/

theorem recv_update_consumes_one (P : Params σ) (s : St σ) (it : Item) (rest : List Item) (hq : s.rq = it :: rest) :
    let s' := (recvUpdate P s).1
    s'.rq = rest ∧ s'.popped = s.popped ++ [it] ∧ (recvUpdate P s).2 = !it.isNone ∧
    s'.pq = s.pq ∧ s'.fq = s.fq ∧ s'.hq = s.hq ∧
    (P.isValid it = false → s'.dq = s.dq) ∧
    (P.isValid it = true → ∃ e, Wraps it e ∧ s'.dq = s.dq ++ [e]) := by
  simp only [recvUpdate, hq, processData]
  by_cases hv : P.isValid it = true
  · cases it <;> simp [hv, deliverRecv, Wraps]
  · simp [hv]

theorem dec_update_consumes_one (P : Params σ) (s : St σ) (e : Event) (rest : List Event) (hq : s.dq = e :: rest) :
    let s' := (decUpdate P s).1
    let n := (P.decide s.ds e).2
    s'.dq = rest ∧ s'.seen = s.seen ++ [e] ∧ s'.ds = (P.decide s.ds e).1 ∧
    (decUpdate P s).2 = n.changed ∧
    s'.pq = s.pq ++ n.completed.map (fun r => (r, true)) ∧ s'.rq = s.rq ∧ s'.fq = s.fq ∧ s'.hq = s.hq := by
  simp only [decUpdate, hq]
  split
  · simp_all [deliverDec]
  · rename_i hc
    have : (P.decide s.ds e).2.completed = [] := by
      simp only [Notif.changed, Bool.not_eq_true', Bool.not_eq_false, Bool.and_eq_true, List.isEmpty_iff] at hc
      exact hc.1.1
    simp_all

theorem prod_update_consumes_one (P : Params σ) (s : St σ) (r : RunRec) (loc : Bool) (rest : List (RunRec × Bool))
    (hq : s.pq = (r, loc) :: rest) (dg : Option (Hist → Data)) (hk : P.datagenOf r.phen = some dg) :
    let s' := (prodUpdate P s).1
    ∃ e : Event, e.kind = .complex ∧ cxOfEvent (e, loc) = cxOfRun P (r, loc) ∧
      s'.pq = rest ∧ (prodUpdate P s).2 = true ∧ s'.complexes = s.complexes ++ [(e, loc)] ∧
      s'.rq = s.rq ++ [.ev e] ∧ s'.fq = s.fq ++ (if fwdTakes P (e, loc) then [e] else []) ∧
      s'.dq = s.dq ∧ s'.hq = s.hq ∧ s'.err = s.err := by
  refine ⟨mkComplex P s r dg, rfl, ?_, ?_⟩
  · cases dg <;> simp [cxOfEvent, cxOfRun, mkComplex, hk]
  · simp only [prodUpdate, hq, hk, subsOf_producer, List.foldl_cons, List.foldl_nil, deliverProd, fwdTakes]
    cases loc <;> by_cases hl : P.localOnly = true <;> simp [addData, hl]

/-- forwarder, queue non-empty: the head complex event is taken (and executed iff its phenomenon has an action,
appending one response); then the oldest response — possibly the one just produced — is taken and its action event
is built and fed back to the receiver queue.  Exactly one complex event and at most one response per `update()`. -/
theorem fwd_update_consumes_one (P : Params σ) (s : St σ) (e : Event) (rest : List Event) (hq : s.fq = e :: rest) :
    let s' := (fwdUpdate P s).1
    let hq1 := s.hq ++ (respOf P e).toList
    s'.fq = rest ∧ s'.fwdPopped = s.fwdPopped ++ [e] ∧ s'.execs = s.execs ++ (execOf P e).toList ∧
    s'.hq = hq1.tail ∧
    (∃ evs : List Event, s'.actions = s.actions ++ evs ∧ s'.rq = s.rq ++ evs.map Item.ev ∧
      evs.map acOfEvent = hq1.head?.toList.map acOfResp) ∧
    (fwdUpdate P s).2 = true ∧ s'.dq = s.dq ∧ s'.pq = s.pq := by
  cases s with
  | mk rq dq pq fq hq0 ds nid nts err entered popped processed seen completedLog haltedLog prodPopped complexes
      fwdAccepted fwdPopped execs respLog respPopped actions =>
    simp only at hq
    subst hq
    cases ha : P.actionOf e.phen <;> cases hq0 <;>
      simp [fwdUpdate, fwdHandle, fwdResponses, ha, execOf, respOf, deliverFwd, addData, mkAction, acOfEvent, acOfResp]

/-- forwarder, queue empty: only the oldest response (if any) is taken. -/
theorem fwd_update_response_only (P : Params σ) (s : St σ) (hq : s.fq = []) :
    let s' := (fwdUpdate P s).1
    s'.fq = [] ∧ s'.fwdPopped = s.fwdPopped ∧ s'.execs = s.execs ∧ s'.hq = s.hq.tail ∧
    (∃ evs : List Event, s'.actions = s.actions ++ evs ∧ s'.rq = s.rq ++ evs.map Item.ev ∧
      evs.map acOfEvent = s.hq.head?.toList.map acOfResp) ∧
    (fwdUpdate P s).2 = !s.hq.isEmpty ∧ s'.dq = s.dq ∧ s'.pq = s.pq := by
  cases s with
  | mk rq dq pq fq hq0 ds nid nts err entered popped processed seen completedLog haltedLog prodPopped complexes
      fwdAccepted fwdPopped execs respLog respPopped actions =>
    simp only at hq
    subst hq
    cases hq0 <;>
      simp [fwdUpdate, fwdHandle, fwdResponses, deliverFwd, addData, mkAction, acOfEvent, acOfResp]

/-! ## the `while task.update()` loops terminate -/

/-- every `update()` that returns True strictly decreases the task's own queue size
(forwarder: forwarder queue + handler queue). -/
theorem update_true_decreases_measure (P : Params σ) (t : Task) (s : St σ) (h : (taskUpdate P t s).2 = true) :
    taskMeasure t (taskUpdate P t s).1 < taskMeasure t s :=
  update_true_decreases P t s h

/-- **termination of `times = 0`**: for every task, matcher and state the loop `while task.update(): pass`
stops within `taskMeasure + 1` iterations (the fuel `engineUpdate` supplies is never exhausted), and any larger
fuel gives the same result.  Nothing refills a task's own queue during its own turn; feedback goes to the receiver
queue, which is served in the *next* engine update. -/
theorem while_loops_terminate (P : Params σ) (t : Task) (s : St σ) :
    (whileLoop (taskUpdate P t) (taskMeasure t s + 1) s).2 = false ∧
    ∀ fuel, taskMeasure t s + 1 ≤ fuel →
      whileLoop (taskUpdate P t) fuel s = whileLoop (taskUpdate P t) (taskMeasure t s + 1) s :=
  whileLoop_fuel (taskUpdate P t) (taskMeasure t) (update_true_decreases P t) _ s (Nat.lt_succ_self _)

/-- hence the engine update does not depend on the fuel once it is large enough. -/
theorem engineUpdate_fuel_irrelevant (P : Params σ) (c : Cfg) (s : St σ) (tt : Task × Nat) (fuel : Nat)
    (hf : taskMeasure tt.1 s + 1 ≤ fuel) : runTaskFuel P c fuel s tt = runTask P c s tt := by
  unfold runTask runTaskFuel
  split
  · rfl
  · split
    · rw [(while_loops_terminate P tt.1 s).2 fuel hf]
    · rfl

/-! ## nothing is left stranded -/

/-- **one engine update runs every task at least once**: for each of the five queues, the number of items taken
from it grows by at least one unless everything ever offered to it has already been taken. -/
theorem engine_update_serves {P : Params σ} {Q : σ → Prop} (hs : StableOut P Q) (c : Cfg) (s : St σ)
    (hh : Healthy P Q s) :
    let a := lens s
    let b := lens (engineUpdate P c s)
    min (a.sR + a.rq) (a.sR + 1) ≤ b.sR ∧ min (a.sD + a.dq) (a.sD + 1) ≤ b.sD ∧
    min (a.sP + a.pq) (a.sP + 1) ≤ b.sP ∧ min (a.sF + a.fq) (a.sF + 1) ≤ b.sF ∧
    min (a.sH + a.hq) (a.sH + 1) ≤ b.sH := by
  refine ⟨?_, ?_, ?_, ?_, ?_⟩
  · exact serve_generic c (·.sR) (·.rq) .receiver
      (fun t a b h => by have := eff_mono h; omega) (fun a b h => eff_own_R h) hs s hh
  · exact serve_generic c (·.sD) (·.dq) .decider
      (fun t a b h => by have := eff_mono h; omega) (fun a b h => eff_own_D h) hs s hh
  · exact serve_generic c (·.sP) (·.pq) .producer
      (fun t a b h => by have := eff_mono h; omega) (fun a b h => eff_own_P h) hs s hh
  · exact serve_generic c (·.sF) (·.fq) .forwarder
      (fun t a b h => by have := eff_mono h; omega) (fun a b h => eff_own_F h) hs s hh
  · exact serve_generic c (·.sH) (·.hq) .forwarder
      (fun t a b h => by have := eff_mono h; omega) (fun a b h => eff_own_H h) hs s hh

/-- what was ever offered to a queue (taken + pending) never shrinks. -/
def Offered (a b : Lens) : Prop :=
  a.sR + a.rq ≤ b.sR + b.rq ∧ a.sD + a.dq ≤ b.sD + b.dq ∧ a.sP + a.pq ≤ b.sP + b.pq ∧
  a.sF + a.fq ≤ b.sF + b.fq ∧ a.sH + a.hq ≤ b.sH + b.hq

theorem offered_engine (P : Params σ) (c : Cfg) (s : St σ) : Offered (lens s) (lens (engineUpdate P c s)) := by
  refine engineUpdate_closed (P := P) (I := fun a => Offered (lens s) (lens a)) ⟨?_, fun a ha => ha⟩ c s ?_
  · intro t a ha
    have := eff_mono (eff_task P t a)
    simp only [Offered] at ha ⊢
    omega
  · simp only [Offered]; omega

theorem chain_min {a p b q c k : Nat} (h1 : min (a + p) (a + 1) ≤ b) (h3 : a + p ≤ b + q)
    (h2 : min (b + q) (b + k) ≤ c) : min (a + p) (a + (k + 1)) ≤ c := by omega

def countUpdates : List Op → Nat
  | [] => 0
  | .add _ :: ops => countUpdates ops
  | .update :: ops => countUpdates ops + 1

/-- **no stranding, unconditionally** (any matcher, any feedback, any further input interleaved): an item at
position `i` of a queue has been taken after at most `i + 1` further engine updates — after `k` engine updates every
queue has lost `min(k, what it held)` items (counting from the items ever offered to it). -/
theorem service_bound {P : Params σ} {Q : σ → Prop} (hs : StableOut P Q) (c : Cfg) (ops : List Op) :
    ∀ s : St σ, Healthy P Q s →
    let a := lens s
    let b := lens (runOps P c s ops)
    let k := countUpdates ops
    min (a.sR + a.rq) (a.sR + k) ≤ b.sR ∧ min (a.sD + a.dq) (a.sD + k) ≤ b.sD ∧
    min (a.sP + a.pq) (a.sP + k) ≤ b.sP ∧ min (a.sF + a.fq) (a.sF + k) ≤ b.sF ∧
    min (a.sH + a.hq) (a.sH + k) ≤ b.sH := by
  induction ops with
  | nil => intro s _; simp [runOps, countUpdates]
  | cons o ops ih =>
    intro s hh
    simp only [runOps, List.foldl_cons] at ih ⊢
    cases o with
    | add it =>
      have h := ih (addData .ext it s) (healthy_add it s hh)
      have e : lens (addData .ext it s) = { lens s with rq := (lens s).rq + 1 } := by simp [lens, addData]
      simp only [applyOp, countUpdates]
      rw [e] at h
      dsimp only at h ⊢
      exact ⟨by omega, h.2.1, h.2.2.1, h.2.2.2.1, h.2.2.2.2⟩
    | update =>
      have h1 := engine_update_serves hs c s hh
      have hh' : Healthy P Q (engineUpdate P c s) := engineUpdate_closed (healthy_closed hs) c s hh
      have h2 := ih (engineUpdate P c s) hh'
      have h3 := offered_engine P c s
      simp only [applyOp, countUpdates]
      dsimp only [Offered] at h1 h2 h3 ⊢
      exact ⟨chain_min h1.1 h3.1 h2.1, chain_min h1.2.1 h3.2.1 h2.2.1, chain_min h1.2.2.1 h3.2.2.1 h2.2.2.1,
        chain_min h1.2.2.2.1 h3.2.2.2.1 h2.2.2.2.1, chain_min h1.2.2.2.2 h3.2.2.2.2 h2.2.2.2.2⟩

def iterUpdate (P : Params σ) (c : Cfg) : Nat → St σ → St σ
  | 0, s => s
  | n + 1, s => iterUpdate P c n (engineUpdate P c s)

/-- while the matcher completes nothing, each engine update with something in flight strictly decreases `mu`. -/
theorem engine_update_progress {P : Params σ} {Q : σ → Prop} (hq : Quiet P Q) (c : Cfg) (s : St σ)
    (hh : Healthy P Q s) :
    mu (lens (engineUpdate P c s)) ≤ mu (lens s) ∧
    (mu (lens s) ≠ 0 → mu (lens (engineUpdate P c s)) < mu (lens s)) := by
  have hs := hq.stable
  constructor
  · exact engineUpdate_closed (P := P) (I := fun a => Healthy P Q a ∧ mu (lens a) ≤ mu (lens s))
      ⟨fun t a ha => ⟨healthy_task hs t a ha.1, Nat.le_trans (mu_task hq t a ha.1).1 ha.2⟩,
       fun a ha => ⟨⟨rfl, ha.1.2.1, ha.1.2.2⟩, ha.2⟩⟩ c s ⟨hh, Nat.le_refl _⟩ |>.2
  · intro h0
    have hh0 : Healthy P Q { s with err := none } := ⟨rfl, hh.2.1, hh.2.2⟩
    have := foldl_progress (P := P) c (fun a => mu (lens a)) (Healthy P Q) (healthy_task hs) (fun a h => h.1)
      (fun t a ha => (mu_task hq t a ha).1) (fun t a ha => (mu_task hq t a ha).2) (schedule c) _ hh0 (by
        simp only [schedule, List.mem_cons, List.mem_nil_iff, or_false, exists_eq_or_imp, exists_eq_left]
        simp only [taskMeasure, mu, lens] at h0 ⊢
        omega)
    exact this

/-- **no stranding (draining)**: with no further input and a feedback-quiet suffix (the matcher completes nothing
any more, `Quiet`), `mu` engine updates — `mu` = items in flight, weighted by the hand-overs still ahead of them —
empty every queue, for every configuration.  Continued `update()` calls service every queue. -/
theorem no_stranding {P : Params σ} {Q : σ → Prop} (hq : Quiet P Q) (c : Cfg) :
    ∀ (n : Nat) (s : St σ), Healthy P Q s → mu (lens s) ≤ n →
      let s' := iterUpdate P c n s
      s'.rq = [] ∧ s'.dq = [] ∧ s'.pq = [] ∧ s'.fq = [] ∧ s'.hq = [] := by
  intro n
  induction n with
  | zero =>
    intro s _ h
    simp only [mu, lens, Nat.le_zero_eq] at h
    simp only [iterUpdate]
    refine ⟨?_, ?_, ?_, ?_, ?_⟩ <;> apply List.eq_nil_of_length_eq_zero <;> omega
  | succ n ih =>
    intro s hh h
    simp only [iterUpdate]
    apply ih
    · exact engineUpdate_closed (healthy_closed hq.stable) c s hh
    · have := engine_update_progress hq c s hh
      omega

/-! ## the history variables are only history -/

/-- **ghost_free**: two states that agree on the real fields (five queues, matcher state, generator counters, pending
exception) still agree on them after any operation, whatever their ghost (history) fields hold: the ghost fields the
theorems above speak about are never read by the model. -/
theorem ghost_free (P : Params σ) (c : Cfg) (o : Op) (s s' : St σ) (h : core s = core s') :
    core (applyOp P c s o) = core (applyOp P c s' o) := by
  cases o with
  | update => exact core_engineUpdate P c s s' h
  | add it =>
    have h1 := congrArg Core.rq h; have h2 := congrArg Core.dq h; have h3 := congrArg Core.pq h
    have h4 := congrArg Core.fq h; have h5 := congrArg Core.hq h; have h6 := congrArg Core.ds h
    have h7 := congrArg Core.nid h; have h8 := congrArg Core.nts h; have h9 := congrArg Core.err h
    simp only [core] at h1 h2 h3 h4 h5 h6 h7 h8 h9
    simp [applyOp, addData, core, *]

/-- …and likewise for a single task update (fine-grained interleavings). -/
theorem ghost_free_task (P : Params σ) (t : Task) (s s' : St σ) (h : core s = core s') :
    core (taskUpdate P t s).1 = core (taskUpdate P t s').1 ∧ (taskUpdate P t s).2 = (taskUpdate P t s').2 :=
  core_task P t s s' h

/-! ## the honest negatives: `times = 0` does not drain a queue in one engine update -/

/-- a matcher that never reports a change. -/
def silentP : Params Unit :=
  { decide := fun _ _ => ((), ⟨[], [], []⟩), isValid := fun _ => true, datagenOf := fun _ => some none,
    actionOf := fun _ => none, idOf := fun _ => "", tsOf := fun _ => 0 }

/-- **`times_decider = 0` does not drain the decider queue**: `BoboDecider.update()` returns "state changed",
not "queue non-empty" — two data that match nothing, one engine update with every `times_* = 0`:
the decider loop stops after the first event and one event stays queued.  (The docs define `times = 0` this
way; the property does not claim single-call draining; replayed on the real engine on every run.) -/
theorem times0_does_not_drain :
    ∃ (s : St Unit), Reach silentP {} s ∧ (engineUpdate silentP {} s).dq.length = 1 ∧
      (engineUpdate silentP {} s).rq = [] :=
  ⟨runOps silentP {} (init ()) [.add (.raw (.int 1)), .add (.raw (.int 2))],
   ⟨(), _, rfl⟩, by decide, by decide⟩

/-- the receiver has the same trait: a queued `None` is taken and published, but `update()` returns
`data is not None` = False, so the `times_receiver = 0` loop stops with the next datum still queued. -/
theorem times0_receiver_does_not_drain :
    ∃ (s : St Unit), Reach silentP {} s ∧ (engineUpdate silentP {} s).rq = [.raw (.int 2)] ∧
      (engineUpdate silentP {} s).seen.length = 1 :=
  ⟨runOps silentP {} (init ()) [.add (.raw .none), .add (.raw (.int 2))],
   ⟨(), _, rfl⟩, by decide, by decide⟩

/-- …but they are not stranded: the next engine updates take them (instance of `no_stranding`). -/
example : (iterUpdate silentP {} 3 (runOps silentP {} (init ()) [.add (.raw (.int 1)), .add (.raw (.int 2))])).dq = [] ∧
    (iterUpdate silentP {} 3 (runOps silentP {} (init ()) [.add (.raw (.int 1)), .add (.raw (.int 2))])).seen.length = 2 := by
  decide

/-! ## non-vacuity: a matcher that completes, halts and updates; phenomena with action and datagen -/

/-- data 1 starts a run of `p` (updated), data 2 completes one, data 3 halts one; a complex event of `p` completes `q`. -/
def demoP : Params Nat :=
  { decide := fun n e =>
      let r : RunRec := ⟨"r", "p", "pat", 1, [("g", [e.id])]⟩
      match e.kind, e.data with
      | .simple, .int 1 => (n + 1, ⟨[], [], [r]⟩)
      | .simple, .int 2 => (n + 1, ⟨[r], [], []⟩)
      | .simple, .int 3 => (n + 1, ⟨[], [r], []⟩)
      | .complex, _ => if e.phen = "p" then (n + 1, ⟨[{ r with phen := "q" }], [], []⟩) else (n, ⟨[], [], []⟩)
      | _, _ => (n, ⟨[], [], []⟩)
    isValid := fun it => match it with | .raw (.str _) => false | _ => true
    datagenOf := fun ph => if ph = "p" then some (some fun h => .int h.length) else if ph = "q" then some none else none
    actionOf := fun ph => if ph = "p" then some ("act", fun e => (true, e.data)) else none
    idOf := fun k => toString k
    tsOf := fun k => k }

def demoOps : List Op :=
  [.add (.raw (.int 1)), .add (.raw (.str "x")), .add (.raw (.int 2)), .update, .add (.raw (.int 3)), .update, .update, .update,
   .update, .update, .update]

set_option maxRecDepth 8192 in
/-- after the demo run: 2 completed runs notified (p, then q through feedback), 2 complex events, 1 execution,
1 action event, 1 halted run, everything drained; the invalid datum was dropped; 6 events seen by the matcher. -/
example :
    let s := runOps demoP ⟨1, 2, 0, 1, false⟩ (init 0) demoOps
    s.completedLog.length = 2 ∧ s.complexes.length = 2 ∧ s.execs.length = 1 ∧ s.actions.length = 1 ∧
    s.haltedLog.length = 1 ∧ s.seen.length = 6 ∧ s.popped.length = 7 ∧
    s.rq = [] ∧ s.dq = [] ∧ s.pq = [] ∧ s.fq = [] ∧ s.hq = [] ∧ s.err = none := by
  decide

example : Reach demoP ⟨1, 2, 0, 1, false⟩ (runOps demoP ⟨1, 2, 0, 1, false⟩ (init 0) demoOps) := ⟨0, demoOps, rfl⟩

/-- the hypotheses of `engine_update_serves` / `service_bound` / `one_one_one_counts` are satisfiable. -/
example : StableOut demoP (fun _ => True) := by
  intro ds _ e
  refine ⟨trivial, ?_⟩
  intro r hr
  simp only [demoP] at hr ⊢
  split at hr <;> (try split at hr) <;> simp at hr <;> subst hr <;> simp

example : Healthy demoP (fun _ => True) (init 0) := ⟨rfl, by simp [init], trivial⟩

/-- the hypotheses of `no_stranding` are satisfiable, with work in flight. -/
example : Quiet silentP (fun _ => True) := fun _ _ _ => ⟨trivial, rfl⟩
example : mu (lens (runOps silentP {} (init ()) [.add (.raw (.int 1)), .add (.raw (.int 2))])) = 4 := by decide

/-- an unknown phenomenon raises in the producer and aborts the engine update (forwarder not run). -/
example :
    let P : Params Unit := { silentP with
      decide := fun _ _ => ((), ⟨[⟨"r", "zz", "pat", 1, []⟩], [], []⟩), datagenOf := fun _ => none }
    (runOps P {} (init ()) [.add (.raw (.int 1)), .update]).err = some "BoboProducerError zz" := by
  decide

end Bobo.Engine
