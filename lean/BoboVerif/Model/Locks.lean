/-
M-Locks: re-entrant locks, thread programs, interleaving semantics, and the
executable lock-order checker used by C08.  No Mathlib.

* a lock is a `Nat` id (one id per lock *instance*); a thread is a `Nat` id;
* a thread program is a list of `acq l` / `rel l` actions (what a nest of
  Python `with self._lock:` blocks executes);
* the global state is, per lock, its owner and re-entrancy count
  (`threading.RLock`: `_owner`, `_count`) and, per thread, a program counter;
* `stepThread` is one action of one thread: `acq l` is enabled iff `l` is free
  or already owned by the same thread (count + 1); `rel l` by the owner
  decrements and frees at 0.  (`rel` by a non-owner raises in Python; here it
  is simply never enabled, i.e. counted as blocked — conservative.)
* `Stuck` = some thread is unfinished and no thread is enabled.

The static side: `heldAt p k l` = how many times program `p` holds `l` just
before its `k`-th action.  `Disciplined` is the (gated) rank discipline:

  every acquisition of a lock `x` the thread does not already hold happens
  either (A) while every held lock has smaller rank, or (B) while holding the
  gate lock `g`, provided `x` is a *gated leaf*: whoever acquires a new lock
  while holding `x` also holds `g`.

(B) is what bobocep needs: `BoboProducer.update` (engine thread, under the
engine lock) calls back into `BoboReceiver.on_producer_update`, against the
order receiver → decider → producer; this is harmless because every nested
acquisition under the receiver lock is made by the engine thread only
(data feeders take the receiver lock alone).  With `Leaf := False` (B)
disappears and `Disciplined` is the plain rank discipline.

The checker (`checkAcqs`) decides the discipline on a concrete finite table of
(held classes, acquired class) entries; `relaxRank` computes a ranking.
-/
namespace Bobo.Locks

abbrev Lock := Nat
abbrev Tid := Nat

inductive Act where
  | acq (l : Lock)
  | rel (l : Lock)
deriving Repr, DecidableEq

abbrev Prog := List Act

/-- function update. -/
def upd {β : Type} (f : Nat → β) (a : Nat) (b : β) : Nat → β :=
  fun x => if x = a then b else f x

structure State where
  owner : Lock → Option Tid
  count : Lock → Nat
  pc    : Tid → Nat

def init : State := ⟨fun _ => none, fun _ => 0, fun _ => 0⟩

/-- `n` threads running `prog 0 … prog (n-1)`. -/
structure Sys where
  n    : Nat
  prog : Tid → Prog

/-- one action of thread `t` (`none` = finished or blocked). -/
def stepThread (S : Sys) (s : State) (t : Tid) : Option State :=
  match (S.prog t)[s.pc t]? with
  | none => none
  | some (.acq l) =>
    match s.owner l with
    | none =>
      some { owner := upd s.owner l (some t), count := upd s.count l 1,
             pc := upd s.pc t (s.pc t + 1) }
    | some o =>
      if o = t then
        some { owner := s.owner, count := upd s.count l (s.count l + 1),
               pc := upd s.pc t (s.pc t + 1) }
      else none
  | some (.rel l) =>
    if s.owner l = some t ∧ 0 < s.count l then
      if s.count l = 1 then
        some { owner := upd s.owner l none, count := upd s.count l 0,
               pc := upd s.pc t (s.pc t + 1) }
      else
        some { owner := s.owner, count := upd s.count l (s.count l - 1),
               pc := upd s.pc t (s.pc t + 1) }
    else none

def Step (S : Sys) (s s' : State) : Prop := ∃ t, t < S.n ∧ stepThread S s t = some s'

inductive Reachable (S : Sys) : State → Prop
  | init : Reachable S init
  | step {s s' : State} : Reachable S s → Step S s s' → Reachable S s'

def Unfinished (S : Sys) (s : State) (t : Tid) : Prop := s.pc t < (S.prog t).length

/-- deadlock: somebody still has work to do and nobody can move. -/
def Stuck (S : Sys) (s : State) : Prop :=
  (∃ t, t < S.n ∧ Unfinished S s t) ∧ ∀ t, t < S.n → stepThread S s t = none

/-! ### static view of one program -/

def applyAct (h : Lock → Nat) : Act → Lock → Nat
  | .acq l => upd h l (h l + 1)
  | .rel l => upd h l (h l - 1)

/-- how often `p` holds each lock just before its `k`-th action. -/
def heldAt (p : Prog) (k : Nat) : Lock → Nat := (p.take k).foldl applyAct (fun _ => 0)

/-- releases only what is held, and holds nothing at the end.  This is what a nest of Python
`with lock:` blocks executes (the context manager releases on every exit path); the extractor
refuses explicit `acquire()`/`release()` calls.  It is a hypothesis of the theorems. -/
def Balanced (p : Prog) : Prop :=
  (∀ k l, p[k]? = some (.rel l) → 0 < heldAt p k l) ∧ (∀ l, heldAt p p.length l = 0)

/-- `p` at `k` acquires a lock it does not hold yet. -/
def NewAcq (p : Prog) (k : Nat) (x : Lock) : Prop :=
  p[k]? = some (.acq x) ∧ heldAt p k x = 0

/-- `x` is a gated leaf: every new acquisition made while holding `x` is made while holding `g`. -/
def Leaf (S : Sys) (g x : Lock) : Prop :=
  ∀ t k y, t < S.n → NewAcq (S.prog t) k y → 0 < heldAt (S.prog t) k x → 0 < heldAt (S.prog t) k g

/-- the gated rank discipline (see the header). -/
def Disciplined (S : Sys) (r : Lock → Nat) (g : Lock) : Prop :=
  ∀ t k x, t < S.n → NewAcq (S.prog t) k x →
    (∀ z, 0 < heldAt (S.prog t) k z → r z < r x) ∨
    (0 < heldAt (S.prog t) k g ∧ Leaf S g x)

/-- the plain rank discipline: new locks are only taken in increasing rank. -/
def RankDisciplined (S : Sys) (r : Lock → Nat) : Prop :=
  ∀ t k x, t < S.n → NewAcq (S.prog t) k x → ∀ z, 0 < heldAt (S.prog t) k z → r z < r x

/-! ### the checker on a finite table

An entry `(H, x)`: lock class `x` is newly acquired while exactly the classes
`H` are held.  `gate` is the class of the gate lock. -/

abbrev Entry := List Nat × Nat

def ascB (r : Nat → Nat) (e : Entry) : Bool := e.1.all (fun z => decide (r z < r e.2))

/-- class `x` is a gated leaf of the table. -/
def leafB (gate : Nat) (es : List Entry) (x : Nat) : Bool :=
  es.all (fun e => !(e.1.contains x) || e.1.contains gate)

def entryOk (r : Nat → Nat) (gate : Nat) (es : List Entry) (e : Entry) : Bool :=
  !(e.1.contains e.2) && (ascB r e || (e.1.contains gate && leafB gate es e.2))

def checkAcqs (r : Nat → Nat) (gate : Nat) (es : List Entry) : Bool :=
  es.all (entryOk r gate es)

/-- the order constraints a ranking has to satisfy: `(z, x)` for every entry
that is not excused by the gate. -/
def strictEdges (gate : Nat) (es : List Entry) : List (Nat × Nat) :=
  es.flatMap (fun e =>
    if e.1.contains gate && leafB gate es e.2 then [] else e.1.map (fun z => (z, e.2)))

def isRanking (r : Nat → Nat) (edges : List (Nat × Nat)) : Bool :=
  edges.all (fun e => decide (r e.1 < r e.2))

def lookup (tbl : List (Nat × Nat)) (k : Nat) : Nat :=
  match tbl with
  | [] => 0
  | (a, v) :: rest => if a = k then v else lookup rest k

def setKey (tbl : List (Nat × Nat)) (k v : Nat) : List (Nat × Nat) :=
  match tbl with
  | [] => [(k, v)]
  | (a, w) :: rest => if a = k then (a, v) :: rest else (a, w) :: setKey rest k v

/-- one relaxation sweep: push every edge's target above its source. -/
def relaxOnce (edges : List (Nat × Nat)) (tbl : List (Nat × Nat)) : List (Nat × Nat) :=
  edges.foldl (fun t e => if lookup t e.2 ≤ lookup t e.1 then setKey t e.2 (lookup t e.1 + 1) else t) tbl

def relaxN : Nat → List (Nat × Nat) → List (Nat × Nat) → List (Nat × Nat)
  | 0, _, tbl => tbl
  | n + 1, edges, tbl => relaxN n edges (relaxOnce edges tbl)

/-- longest-path layering by `|edges| + 1` sweeps; `none` if the result is not a ranking (a cycle). -/
def topoRank (edges : List (Nat × Nat)) : Option (Nat → Nat) :=
  let tbl := relaxN (edges.length + 1) edges []
  if isRanking (lookup tbl) edges then some (lookup tbl) else none

/-- the rank table computed for a table of entries (all 0 when cyclic: then `checkAcqs` fails). -/
def rankTable (gate : Nat) (es : List Entry) : List (Nat × Nat) :=
  let edges := strictEdges gate es
  relaxN (edges.length + 1) edges []

def rankOf (gate : Nat) (es : List Entry) : Nat → Nat := lookup (rankTable gate es)

/-- the entries that break the discipline under the computed ranking (empty = ranked). -/
def offending (gate : Nat) (es : List Entry) : List Entry :=
  es.filter (fun e => !(entryOk (rankOf gate es) gate es e))

end Bobo.Locks
