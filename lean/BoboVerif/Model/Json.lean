/-
M-Json: model of bobocep's wire representation of run state
(bobocep/cep/engine/decider/runserial.py, bobocep/cep/event/{history,simple,
complex,action,factory}.py, and in bobocep/dist/tcp.py `_OutgoingJSONEncoder`,
`_IncomingJSONDecoder`, `_outgoing_to_json`, `_incoming_from_json`,
`_split_plaintext`, the header line of `_tcp_send`).  No Mathlib.

What is modelled *exactly* is the STRUCTURE of the encoding:

* every `BoboJSONable.to_json_str` is
  `dumps(self.to_json_dict(), default=lambda o: o.to_json_str())`, so a nested
  BoboJSONable (the history inside a run record / complex event, each event
  inside a history list, each run record inside the outgoing message) appears
  as a JSON *string that contains JSON text*; decoding calls `from_json_str`
  at exactly those places, and `BoboEventFactory` dispatches on `event_type`;
* the key order of every `to_json_dict`, the kwargs order of every
  `from_json_dict`, the constructor checks (`__init__` raising on empty ids /
  names, `block_index < 1`, empty history; `BoboHistory.__init__` dropping
  empty groups);
* `json.loads(text, cls=_IncomingJSONDecoder)`: the object hook is applied to
  EVERY dict of the parsed value, bottom-up (`applyHook`).

What is abstract: the text codec `json.dumps` / `json.loads` (`Codec`): a
structure whose law `loads (dumps v) = some v` is a *field* (a hypothesis of
every theorem, never an axiom) and is only demanded for well-formed values
(`JVal.wf`: object keys pairwise distinct — a Python dict cannot hold
anything else).  `none` in a decoder means "Python raises, or builds an object
outside the typed model" (e.g. an `event_id` that is not a `str`).

Decoding recurses through *parsed text*, so with an abstract `loads` there is
no structural measure: decoders take an explicit fuel (= Python recursion
depth available).  Props/C09.lean proves the result for every fuel above the
nesting depth of the record (`run_roundtrip`), so enough fuel always exists
(`run_roundtrip_exists`).
-/
namespace Bobo.Json

/-! ## JSON values -/

/-- a JSON value as Python's `json` sees it.  `float` carries the decimal
token of a finite double (`repr(x)`), opaque to the model. -/
inductive JVal where
  | null
  | bool (b : Bool)
  | int (i : Int)
  | float (repr : String)
  | str (s : String)
  | arr (xs : List JVal)
  | obj (kvs : List (String × JVal))
deriving Repr, Inhabited

/-- `d[k]` on the item list of a dict (`none` = KeyError). -/
def lookup (k : String) : List (String × JVal) → Option JVal
  | [] => none
  | (k', v) :: r => if k' = k then some v else lookup k r

def nodupB : List String → Bool
  | [] => true
  | x :: xs => !(xs.contains x) && nodupB xs

mutual
/-- JSON-representable as a Python object: every dict has pairwise distinct keys. -/
def JVal.wf : JVal → Bool
  | .arr xs => wfList xs
  | .obj kvs => nodupB (kvs.map (·.1)) && wfKVs kvs
  | _ => true
def wfList : List JVal → Bool
  | [] => true
  | x :: xs => x.wf && wfList xs
def wfKVs : List (String × JVal) → Bool
  | [] => true
  | (_, v) :: r => v.wf && wfKVs r
end

/-- the text codec (`json.dumps` with the default separators / `json.loads`):
assumed exact on JSON-representable values.  A hypothesis, not an axiom. -/
structure Codec where
  dumps : JVal → String
  loads : String → Option JVal
  loads_dumps : ∀ v, v.wf = true → loads (dumps v) = some v

/-- `mapM` in `Option`, written out (a list comprehension whose body may raise). -/
def mapMO {α β : Type} (f : α → Option β) : List α → Option (List β)
  | [] => some []
  | x :: xs =>
    match f x with
    | none => none
    | some y =>
      match mapMO f xs with
      | none => none
      | some ys => some (y :: ys)

/-! ## Run state -/

mutual
/-- `BoboEventSimple` / `BoboEventComplex` / `BoboEventAction`. -/
inductive Ev where
  | simple  (id : String) (ts : Int) (data : JVal)
  | complex (id : String) (ts : Int) (data : JVal) (phen pat : String) (hist : Groups)
  | action  (id : String) (ts : Int) (data : JVal) (phen pat act : String) (success : Bool)
/-- the event list of one group. -/
inductive Evs where
  | nil
  | cons (e : Ev) (es : Evs)
/-- `BoboHistory._events`: an insertion-ordered dict group name ↦ event list. -/
inductive Groups where
  | nil
  | cons (name : String) (es : Evs) (gs : Groups)
end

deriving instance Repr for Ev, Evs, Groups
instance : Inhabited Evs := ⟨.nil⟩
instance : Inhabited Groups := ⟨.nil⟩

abbrev Hist := Groups

/-- `BoboRunSerial`. -/
structure Run where
  runId : String
  phen  : String
  pat   : String
  idx   : Int
  hist  : Hist
deriving Repr

def Evs.toList : Evs → List Ev
  | .nil => []
  | .cons e es => e :: es.toList

def Evs.ofList : List Ev → Evs
  | [] => .nil
  | e :: es => .cons e (Evs.ofList es)

def Groups.toList : Groups → List (String × List Ev)
  | .nil => []
  | .cons g es gs => (g, es.toList) :: gs.toList

def Groups.ofList : List (String × List Ev) → Groups
  | [] => .nil
  | (g, es) :: r => .cons g (Evs.ofList es) (Groups.ofList r)

def Groups.names : Groups → List String
  | .nil => []
  | .cons g _ gs => g :: gs.names

def Evs.length : Evs → Nat
  | .nil => 0
  | .cons _ es => es.length + 1

/-- `BoboHistory.size()`. -/
def Groups.size : Groups → Nat
  | .nil => 0
  | .cons _ es gs => es.length + gs.size

mutual
/-- nesting depth: number of complex-event levels. -/
def Ev.depth : Ev → Nat
  | .simple .. => 0
  | .complex _ _ _ _ _ h => h.depth + 1
  | .action .. => 0
def Evs.depth : Evs → Nat
  | .nil => 0
  | .cons e es => max e.depth es.depth
def Groups.depth : Groups → Nat
  | .nil => 0
  | .cons _ es gs => max es.depth gs.depth
end

def Run.depth (r : Run) : Nat := r.hist.depth

mutual
/-- what the constructors guarantee for every object that exists in Python:
non-empty ids / names, data JSON-representable, and for every history:
group names pairwise distinct (dict keys) and no empty group
(`BoboHistory.__init__` creates a group only when it appends an event). -/
def Ev.WF : Ev → Prop
  | .simple id _ d => id ≠ "" ∧ d.wf = true
  | .complex id _ d ph pat h =>
      id ≠ "" ∧ d.wf = true ∧ ph ≠ "" ∧ pat ≠ "" ∧ h.WF
  | .action id _ d ph pat act _ =>
      id ≠ "" ∧ d.wf = true ∧ ph ≠ "" ∧ pat ≠ "" ∧ act ≠ ""
def Evs.WF : Evs → Prop
  | .nil => True
  | .cons e es => e.WF ∧ es.WF
def Groups.WF : Groups → Prop
  | .nil => True
  | .cons g es gs => es ≠ .nil ∧ es.WF ∧ g ∉ gs.names ∧ gs.WF
end

/-- `BoboRunSerial.__init__` accepted it. -/
def Run.WF (r : Run) : Prop :=
  r.runId ≠ "" ∧ r.phen ≠ "" ∧ 1 ≤ r.idx ∧ 1 ≤ r.hist.size ∧ r.hist.WF

/-! ## Field schemas (`to_json_dict` / `from_json_dict`) -/

/-- where the value of one `to_json_dict` entry comes from. -/
inductive Src where
  | attr (a : String)      -- `self.<a>`
  | const (s : String)     -- a class constant (the type tag)
deriving DecidableEq, Repr

/-- one `KEY: value` entry of a `to_json_dict` literal. -/
structure EncF where
  key : String
  src : Src
deriving DecidableEq, Repr

/-- how `from_json_dict` turns `d[KEY]` into a constructor argument. -/
inductive DWrap where
  | plain        -- `d[KEY]`
  | fromStr      -- `<BoboJSONable>.from_json_str(d[KEY])`
deriving DecidableEq, Repr

/-- one `kw=…d[KEY]…` argument of the constructor call in `from_json_dict`. -/
structure DecF where
  kw   : String
  key  : String
  wrap : DWrap
deriving DecidableEq, Repr

structure Schema where
  cls    : String
  enc    : List EncF        -- `to_json_dict`, in literal order
  dec    : List DecF        -- `from_json_dict`, in kwargs order
  nested : List String      -- constructor parameters annotated with a BoboJSONable class
deriving DecidableEq, Repr

/-- `BoboHistory.to_json_dict` / `from_json_dict`. -/
structure HistSchema where
  keyedByGroup : Bool       -- one dict entry per group, in `_events` order, value = list of the group's events
  elemWrap     : DWrap      -- each list element is decoded with `<elemDecoder>.from_json_str`
  elemDecoder  : String
deriving DecidableEq, Repr

inductive Cls where
  | simple | complex | action
deriving DecidableEq, Repr

/-- `BoboEventFactory.from_json_str`: the tag key and the if-chain in source order. -/
structure Factory where
  tagKey : String
  cases  : List (String × Cls)
deriving DecidableEq, Repr

def simpleSchema : Schema where
  cls := "BoboEventSimple"
  enc := [⟨"event_type", .const "type_simple"⟩, ⟨"event_id", .attr "event_id"⟩,
          ⟨"timestamp", .attr "timestamp"⟩, ⟨"data", .attr "data"⟩]
  dec := [⟨"event_id", "event_id", .plain⟩, ⟨"timestamp", "timestamp", .plain⟩, ⟨"data", "data", .plain⟩]
  nested := []

def complexSchema : Schema where
  cls := "BoboEventComplex"
  enc := [⟨"event_type", .const "type_complex"⟩, ⟨"event_id", .attr "event_id"⟩,
          ⟨"timestamp", .attr "timestamp"⟩, ⟨"data", .attr "data"⟩,
          ⟨"phenomenon_name", .attr "phenomenon_name"⟩, ⟨"pattern_name", .attr "pattern_name"⟩,
          ⟨"history", .attr "history"⟩]
  dec := [⟨"event_id", "event_id", .plain⟩, ⟨"timestamp", "timestamp", .plain⟩, ⟨"data", "data", .plain⟩,
          ⟨"phenomenon_name", "phenomenon_name", .plain⟩, ⟨"pattern_name", "pattern_name", .plain⟩,
          ⟨"history", "history", .fromStr⟩]
  nested := ["history"]

def actionSchema : Schema where
  cls := "BoboEventAction"
  enc := [⟨"event_type", .const "type_action"⟩, ⟨"event_id", .attr "event_id"⟩,
          ⟨"timestamp", .attr "timestamp"⟩, ⟨"data", .attr "data"⟩,
          ⟨"phenomenon_name", .attr "phenomenon_name"⟩, ⟨"pattern_name", .attr "pattern_name"⟩,
          ⟨"action_name", .attr "action_name"⟩, ⟨"success", .attr "success"⟩]
  dec := [⟨"event_id", "event_id", .plain⟩, ⟨"timestamp", "timestamp", .plain⟩, ⟨"data", "data", .plain⟩,
          ⟨"phenomenon_name", "phenomenon_name", .plain⟩, ⟨"pattern_name", "pattern_name", .plain⟩,
          ⟨"action_name", "action_name", .plain⟩, ⟨"success", "success", .plain⟩]
  nested := []

def runSchema : Schema where
  cls := "BoboRunSerial"
  enc := [⟨"run_id", .attr "run_id"⟩, ⟨"phenomenon_name", .attr "phenomenon_name"⟩,
          ⟨"pattern_name", .attr "pattern_name"⟩, ⟨"block_index", .attr "block_index"⟩,
          ⟨"history", .attr "history"⟩]
  dec := [⟨"run_id", "run_id", .plain⟩, ⟨"phenomenon_name", "phenomenon_name", .plain⟩,
          ⟨"pattern_name", "pattern_name", .plain⟩, ⟨"block_index", "block_index", .plain⟩,
          ⟨"history", "history", .fromStr⟩]
  nested := ["history"]

def histSchema : HistSchema := ⟨true, .fromStr, "BoboEventFactory"⟩

def factory : Factory :=
  ⟨"event_type", [("type_simple", .simple), ("type_complex", .complex), ("type_action", .action)]⟩

/-- `_KEY_COMPLETED`, `_KEY_HALTED`, `_KEY_UPDATED` in the order the object hook treats them. -/
def msgKeys : List String := ["completed", "halted", "updated"]

/-- the wire layer of tcp.py, as far as C09 depends on it. -/
structure WireSchema where
  keys       : List String   -- the keys the object hook rewrites, in source order
  elemWrap   : DWrap         -- each element goes through `<elemDecoder>.from_json_str`
  elemDecoder : String
  encDefault : String        -- what `_OutgoingJSONEncoder.default` returns for a non-JSON object
  hookOnAllDicts : Bool      -- the hook is installed as `object_hook` (fires on every dict)
  headerFormat : String
  headerArgs : List String
  urnNoSpace : Bool          -- `BoboDevice.__init__` raises when `' ' in urn`
  keyNoSpace : Bool          -- … when `' ' in id_key`
deriving DecidableEq, Repr

def wireSchema : WireSchema where
  keys := msgKeys
  elemWrap := .fromStr
  elemDecoder := "BoboRunSerial"
  encDefault := "obj.to_json_str()"
  hookOnAllDicts := true
  headerFormat := "{} {} {} {} {}"
  headerArgs := ["mydev.urn", "mydev.id_key", "msg_type", "msg_flags", "msg_str"]
  urnNoSpace := true
  keyNoSpace := true

/-- the checks `schemas_wf` decides on the generated tables. -/
def Schema.wf (σ : Schema) : Bool :=
  -- keys of the dict literal pairwise distinct (a repeated key would silently overwrite)
  nodupB (σ.enc.map (·.key)) &&
  nodupB (σ.dec.map (·.kw)) &&
  -- every constructor argument is read from the key under which the attribute of that name was written
  σ.dec.all (fun d => σ.enc.any (fun e => e.key == d.key && e.src == .attr d.kw)) &&
  -- every attribute written is read back (nothing is dropped)
  σ.enc.all (fun e => match e.src with
    | .attr a => σ.dec.any (fun d => d.kw == a && d.key == e.key)
    | .const _ => true) &&
  -- nested (BoboJSONable ↦ text) on the encoder side ⇔ `from_json_str` on the decoder side
  σ.dec.all (fun d => (d.wrap == .fromStr) == σ.nested.contains d.kw)

def Factory.wf (f : Factory) : Bool :=
  nodupB (f.cases.map (·.1)) && (f.cases.map (·.2) == [.simple, .complex, .action])

/-! ## Generic object encoder / decoder driven by a schema -/

/-- an attribute value / constructor argument. -/
inductive FVal where
  | plain (v : JVal)       -- held as a JSON value (str, int, bool, Any)
  | nested (t : JVal)      -- a BoboJSONable, given by its `to_json_dict()` value
deriving Repr

/-- `getattr(self, a)` over the constructor arguments (property `a` returns
constructor parameter `a`: checked by translate/serial.py). -/
def lookupF (a : String) : List (String × FVal) → Option FVal
  | [] => none
  | (a', v) :: r => if a' = a then some v else lookupF a r

/-- one entry of `dumps(self.to_json_dict(), default=lambda o: o.to_json_str())`:
a JSON value goes in as it is, a BoboJSONable goes through `default`, i.e. as
the *string* `o.to_json_str()`. -/
def encField (dumps : JVal → String) (kw : List (String × FVal)) (f : EncF) : Option (String × JVal) :=
  match f.src with
  | .const s => some (f.key, .str s)
  | .attr a =>
    match lookupF a kw with
    | some (.plain v)  => some (f.key, v)
    | some (.nested t) => some (f.key, .str (dumps t))
    | none => none

def interpEnc (dumps : JVal → String) (σ : Schema) (kw : List (String × FVal)) : Option JVal :=
  (mapMO (encField dumps kw) σ.enc).map .obj

/-- one argument of the constructor call in `from_json_dict`. -/
def decField (loads : String → Option JVal) (kvs : List (String × JVal)) (f : DecF) : Option (String × FVal) :=
  match lookup f.key kvs with
  | none => none
  | some v =>
    match f.wrap with
    | .plain => some (f.kw, .plain v)
    | .fromStr =>
      match v with
      | .str s => (loads s).map (fun t => (f.kw, .nested t))
      | _ => none

def interpDec (loads : String → Option JVal) (σ : Schema) : JVal → Option (List (String × FVal))
  | .obj kvs => mapMO (decField loads kvs) σ.dec
  | _ => none

/-! ## The encoders, written as the `to_json_dict` bodies read -/

section enc
variable (dumps : JVal → String)

mutual
/-- `BoboEvent*.to_json_dict` with the `default` hook applied. -/
def encodeEv : Ev → JVal
  | .simple id ts data =>
    .obj [("event_type", .str "type_simple"), ("event_id", .str id), ("timestamp", .int ts), ("data", data)]
  | .complex id ts data ph pat h =>
    .obj [("event_type", .str "type_complex"), ("event_id", .str id), ("timestamp", .int ts), ("data", data),
          ("phenomenon_name", .str ph), ("pattern_name", .str pat),
          ("history", .str (dumps (.obj (encodeGroups h))))]
  | .action id ts data ph pat act ok =>
    .obj [("event_type", .str "type_action"), ("event_id", .str id), ("timestamp", .int ts), ("data", data),
          ("phenomenon_name", .str ph), ("pattern_name", .str pat),
          ("action_name", .str act), ("success", .bool ok)]
/-- `[e for e in self._events[key]]`, each element through `default`. -/
def encodeEvs : Evs → List JVal
  | .nil => []
  | .cons e es => .str (dumps (encodeEv e)) :: encodeEvs es
/-- `BoboHistory.to_json_dict`. -/
def encodeGroups : Groups → List (String × JVal)
  | .nil => []
  | .cons g es gs => (g, .arr (encodeEvs es)) :: encodeGroups gs
end

def encodeHist (h : Hist) : JVal := .obj (encodeGroups dumps h)

/-- `BoboEvent.to_json_str()`. -/
def evText (e : Ev) : String := dumps (encodeEv dumps e)
/-- `BoboHistory.to_json_str()`. -/
def histText (h : Hist) : String := dumps (encodeHist dumps h)

/-- `BoboRunSerial.to_json_dict` with the `default` hook applied. -/
def encodeRun (r : Run) : JVal :=
  .obj [("run_id", .str r.runId), ("phenomenon_name", .str r.phen), ("pattern_name", .str r.pat),
        ("block_index", .int r.idx), ("history", .str (histText dumps r.hist))]

/-- `BoboRunSerial.to_json_str()`. -/
def runText (r : Run) : String := dumps (encodeRun dumps r)

/-- `_outgoing_to_json({completed: […], halted: […], updated: […]})`:
`_OutgoingJSONEncoder.default` returns `obj.to_json_str()`, so every list item is a string. -/
def encodeMsg (c h u : List Run) : JVal :=
  .obj [("completed", .arr (c.map fun r => .str (runText dumps r))),
        ("halted",    .arr (h.map fun r => .str (runText dumps r))),
        ("updated",   .arr (u.map fun r => .str (runText dumps r)))]

def msgText (c h u : List Run) : String := dumps (encodeMsg dumps c h u)

/-- the constructor arguments of an event, in `from_json_dict` order. -/
def Ev.kwargs : Ev → List (String × FVal)
  | .simple id ts data =>
    [("event_id", .plain (.str id)), ("timestamp", .plain (.int ts)), ("data", .plain data)]
  | .complex id ts data ph pat h =>
    [("event_id", .plain (.str id)), ("timestamp", .plain (.int ts)), ("data", .plain data),
     ("phenomenon_name", .plain (.str ph)), ("pattern_name", .plain (.str pat)),
     ("history", .nested (encodeHist dumps h))]
  | .action id ts data ph pat act ok =>
    [("event_id", .plain (.str id)), ("timestamp", .plain (.int ts)), ("data", .plain data),
     ("phenomenon_name", .plain (.str ph)), ("pattern_name", .plain (.str pat)),
     ("action_name", .plain (.str act)), ("success", .plain (.bool ok))]

def Ev.schema : Ev → Schema
  | .simple .. => simpleSchema
  | .complex .. => complexSchema
  | .action .. => actionSchema

def Ev.tag : Ev → String
  | .simple .. => "type_simple"
  | .complex .. => "type_complex"
  | .action .. => "type_action"

def Run.kwargs (r : Run) : List (String × FVal) :=
  [("run_id", .plain (.str r.runId)), ("phenomenon_name", .plain (.str r.phen)),
   ("pattern_name", .plain (.str r.pat)), ("block_index", .plain (.int r.idx)),
   ("history", .nested (encodeHist dumps r.hist))]

end enc

/-! ## The decoders -/

section dec
variable (loads : String → Option JVal)

/-- `BoboHistory.__init__`: a group exists only once an event was appended to it. -/
def mkHist : Groups → Groups
  | .nil => .nil
  | .cons _ .nil gs => mkHist gs
  | .cons g (.cons e es) gs => .cons g (.cons e es) (mkHist gs)

/-- `BoboEventFactory.from_json_str(e)` / `X.from_json_str(e)` for a list element:
`loads` of a `str`, then the dict decoder. -/
def fromText {α : Type} (decD : JVal → Option α) : JVal → Option α
  | .str s => (loads s).bind decD
  | _ => none

/-- `[BoboEventFactory.from_json_str(e) for e in d[key]]`; `histSchema.elemWrap` says
the elements are texts. -/
def decodeEvsWith (decD : JVal → Option Ev) : List JVal → Option Evs
  | [] => some .nil
  | x :: xs =>
    match (match histSchema.elemWrap with
           | .fromStr => fromText loads decD x
           | .plain => decD x) with
    | none => none
    | some e =>
      match decodeEvsWith decD xs with
      | none => none
      | some es => some (.cons e es)

/-- the `for key in d:` loop of `BoboHistory.from_json_dict`. -/
def decodeGroupsWith (decD : JVal → Option Ev) : List (String × JVal) → Option Groups
  | [] => some .nil
  | (g, .arr xs) :: r =>
    match decodeEvsWith loads decD xs with
    | none => none
    | some es =>
      match decodeGroupsWith decD r with
      | none => none
      | some gs => some (.cons g es gs)
  | _ :: _ => none

/-- `BoboHistory.from_json_dict`. -/
def decodeHistWith (decD : JVal → Option Ev) : JVal → Option Hist
  | .obj kvs => (decodeGroupsWith loads decD kvs).map mkHist
  | _ => none

/-- `BoboEventSimple(**kwargs)` incl. `BoboEvent.__init__`'s check. -/
def mkSimple : List (String × FVal) → Option Ev
  | [("event_id", .plain (.str id)), ("timestamp", .plain (.int ts)), ("data", .plain d)] =>
    if id = "" then none else some (.simple id ts d)
  | _ => none

/-- `BoboEventComplex(**kwargs)`; `decH` is `BoboHistory.from_json_dict`. -/
def mkComplex (decH : JVal → Option Hist) : List (String × FVal) → Option Ev
  | [("event_id", .plain (.str id)), ("timestamp", .plain (.int ts)), ("data", .plain d),
     ("phenomenon_name", .plain (.str ph)), ("pattern_name", .plain (.str pat)), ("history", .nested t)] =>
    match decH t with
    | none => none
    | some h =>
      if id = "" then none else if ph = "" then none else if pat = "" then none
      else some (.complex id ts d ph pat h)
  | _ => none

/-- `BoboEventAction(**kwargs)`. -/
def mkAction : List (String × FVal) → Option Ev
  | [("event_id", .plain (.str id)), ("timestamp", .plain (.int ts)), ("data", .plain d),
     ("phenomenon_name", .plain (.str ph)), ("pattern_name", .plain (.str pat)),
     ("action_name", .plain (.str act)), ("success", .plain (.bool ok))] =>
    if id = "" then none else if ph = "" then none else if pat = "" then none else if act = "" then none
    else some (.action id ts d ph pat act ok)
  | _ => none

/-- the if-chain of the factory: first tag equal to `d[event_type]`. -/
def dispatch (f : Factory) (tag : String) : Option Cls :=
  match f.cases.find? (fun c => c.1 == tag) with
  | some c => some c.2
  | none => none

/-- `BoboEventFactory.from_json_str` after its `loads`: dispatch on the tag, then the
class's `from_json_dict`.  Fuel = remaining nesting the recursion may descend. -/
def decodeEvD : Nat → JVal → Option Ev
  | 0, _ => none
  | n + 1, .obj kvs =>
    match lookup factory.tagKey kvs with
    | some (.str tag) =>
      match dispatch factory tag with
      | some .simple  => (interpDec loads simpleSchema (.obj kvs)).bind mkSimple
      | some .complex => (interpDec loads complexSchema (.obj kvs)).bind
                           (mkComplex (decodeHistWith loads (decodeEvD n)))
      | some .action  => (interpDec loads actionSchema (.obj kvs)).bind mkAction
      | none => none          -- Unknown event type
    | _ => none               -- Missing key (or a tag that equals no str)
  | _ + 1, _ => none

/-- `BoboHistory.from_json_dict` with fuel `n` for the events. -/
def decodeHistD (n : Nat) : JVal → Option Hist := decodeHistWith loads (decodeEvD loads n)

/-- `BoboRunSerial(**kwargs)` incl. its four checks. -/
def mkRun (decH : JVal → Option Hist) : List (String × FVal) → Option Run
  | [("run_id", .plain (.str rid)), ("phenomenon_name", .plain (.str ph)), ("pattern_name", .plain (.str pat)),
     ("block_index", .plain (.int idx)), ("history", .nested t)] =>
    match decH t with
    | none => none
    | some h =>
      if rid = "" then none else if ph = "" then none else if idx < 1 then none
      else if h.size < 1 then none
      else some ⟨rid, ph, pat, idx, h⟩
  | _ => none

/-- `BoboRunSerial.from_json_dict`. -/
def decodeRunD (n : Nat) (j : JVal) : Option Run :=
  (interpDec loads runSchema j).bind (mkRun (decodeHistD loads n))

/-- `BoboRunSerial.from_json_str`. -/
def decodeRun (n : Nat) (text : String) : Option Run :=
  (loads text).bind (decodeRunD loads n)

/-! ### The incoming decoder: `json.loads(text, cls=_IncomingJSONDecoder)` -/

/-- a parsed value after the object hook ran: a dict entry may now hold run records. -/
inductive HVal where
  | atom (v : JVal)                       -- null / bool / number / str: the hook never sees them
  | arr (xs : List HVal)
  | obj (kvs : List (String × HVal))
  | run (r : Run)                         -- `BoboRunSerial.from_json_str(rt)`

def lookupH (k : String) : List (String × HVal) → Option HVal
  | [] => none
  | (k', v) :: r => if k' = k then some v else lookupH k r

def replaceH (k : String) (v : HVal) : List (String × HVal) → List (String × HVal)
  | [] => []
  | (k', v') :: r => if k' = k then (k', v) :: r else (k', v') :: replaceH k v r

/-- `BoboRunSerial.from_json_str(rt)` for one element of `d[key]`. -/
def hookElem (fromStr : String → Option Run) : HVal → Option HVal
  | .atom (.str s) => (fromStr s).map .run
  | _ => none

/-- `if key in d: d[key] = [BoboRunSerial.from_json_str(rt) for rt in d[key]]`. -/
def hookKey (fromStr : String → Option Run) (kvs : List (String × HVal)) (k : String) :
    Option (List (String × HVal)) :=
  match lookupH k kvs with
  | none => some kvs
  | some (.arr xs) => (mapMO (hookElem fromStr) xs).map (fun rs => replaceH k (.arr rs) kvs)
  | some _ => none

/-- `_IncomingJSONDecoder.object_hook`: the three keys in order. -/
def objectHook (fromStr : String → Option Run) (kvs : List (String × HVal)) : Option (List (String × HVal)) :=
  msgKeys.foldlM (hookKey fromStr) kvs

mutual
/-- `json.loads(…, object_hook=h)`: `h` is applied to EVERY dict, children first. -/
def applyHook (hook : List (String × HVal) → Option (List (String × HVal))) : JVal → Option HVal
  | .arr xs => (applyHookL hook xs).map .arr
  | .obj kvs => ((applyHookKV hook kvs).bind hook).map .obj
  | v => some (.atom v)
def applyHookL (hook : List (String × HVal) → Option (List (String × HVal))) : List JVal → Option (List HVal)
  | [] => some []
  | x :: xs =>
    match applyHook hook x with
    | none => none
    | some y =>
      match applyHookL hook xs with
      | none => none
      | some ys => some (y :: ys)
def applyHookKV (hook : List (String × HVal) → Option (List (String × HVal))) :
    List (String × JVal) → Option (List (String × HVal))
  | [] => some []
  | (k, x) :: r =>
    match applyHook hook x with
    | none => none
    | some y =>
      match applyHookKV hook r with
      | none => none
      | some ys => some ((k, y) :: ys)
end

mutual
/-- how many times the object hook fires = number of dicts in the parsed value. -/
def JVal.dicts : JVal → Nat
  | .arr xs => dictsL xs
  | .obj kvs => dictsKV kvs + 1
  | _ => 0
def dictsL : List JVal → Nat
  | [] => 0
  | x :: xs => x.dicts + dictsL xs
def dictsKV : List (String × JVal) → Nat
  | [] => 0
  | (_, x) :: r => x.dicts + dictsKV r
end

def getRuns : HVal → Option (List Run)
  | .arr xs => mapMO (fun | .run r => some r | _ => none) xs
  | _ => none

/-- what `on_distributed_update` receives: `incoming[_KEY_COMPLETED]`, `[_KEY_HALTED]`, `[_KEY_UPDATED]`. -/
def extractMsg : HVal → Option (List Run × List Run × List Run)
  | .obj kvs =>
    match lookupH "completed" kvs, lookupH "halted" kvs, lookupH "updated" kvs with
    | some c, some h, some u =>
      match getRuns c, getRuns h, getRuns u with
      | some c, some h, some u => some (c, h, u)
      | _, _, _ => none
    | _, _, _ => none
  | _ => none

/-- `_incoming_from_json` followed by the three reads. -/
def decodeMsg (n : Nat) (text : String) : Option (List Run × List Run × List Run) :=
  ((loads text).bind (applyHook (objectHook (decodeRun loads n)))).bind extractMsg

end dec

/-! ## The plaintext header (`_tcp_send` format line / `_split_plaintext`) -/

/-- `"{} {} {} {} {}".format(urn, id_key, msg_type, msg_flags, msg_str)`; type and flags
are given by their decimal tokens. -/
def header (urn key ty flags json : List Char) : List Char :=
  urn ++ ' ' :: key ++ ' ' :: ty ++ ' ' :: flags ++ ' ' :: json

/-- split at the first space (`none`: no space left). -/
def splitSp : List Char → Option (List Char × List Char)
  | [] => none
  | c :: cs =>
    if c = ' ' then some ([], cs)
    else match splitSp cs with
      | none => none
      | some (a, r) => some (c :: a, r)

/-- `_split_plaintext`: the first four spaces delimit urn, key, type, flags; the rest
(spaces included) is the JSON text.  `none` = `BoboDistributedError`. -/
def splitPlain (p : List Char) : Option (List Char × List Char × List Char × List Char × List Char) :=
  match splitSp p with
  | none => none
  | some (urn, r1) =>
    match splitSp r1 with
    | none => none
    | some (key, r2) =>
      match splitSp r2 with
      | none => none
      | some (ty, r3) =>
        match splitSp r3 with
        | none => none
        | some (fl, json) => some (urn, key, ty, fl, json)

/-- `int(tok)` for the decimal tokens `str.format` produces for ints. -/
def parseDec (tok : List Char) : Option Int := (String.ofList tok).toInt?

end Bobo.Json
