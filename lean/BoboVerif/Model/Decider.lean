import BoboVerif.Model.Run
/-
M-Decider: model of `BoboDecider` (bobocep/cep/engine/decider/decider.py):
the run table (phenomenon → pattern → run id → run, all insertion ordered),
the finished-run memory (two bounded deques), `update()`'s event processing
(`localStep`), `on_distributed_update` (`remoteStep`) and `snapshot`.

No Mathlib.  Run ids come from a counter in the state (`Cfg.idOf`); the real
generator is C16's subject.  The branch and mutation order of the Python is
kept (filter against memory, memorise, completed list, halted list, updated
list, drop unknown patterns, notify).  An exception that would escape the
Python method is `none`.
-/
namespace Bobo.Decider
open Bobo.Run

/-- `BoboRunSerial` -/
structure Rec (ε : Type) where
  id   : String
  phen : String
  pat  : String
  idx  : Nat
  hist : Hist ε

/-- a live run together with the pattern object it holds (`BoboRun.pattern`). -/
structure LRun (ε : Type) where
  run : Run ε
  pat : Pattern ε

/-- `_runs`: phenomenon name → pattern name → runs (keyed by `run.id`), insertion ordered. -/
abbrev Table (ε : Type) := List (String × List (String × List (LRun ε)))

structure Phen (ε : Type) where
  name     : String
  patterns : List (Pattern ε)

structure Cfg (ε : Type) where
  phenomena : List (Phen ε)
  maxCache  : Nat                 -- `max_cache`; 0 (or less) = no memory
  idOf      : Nat → String        -- the n-th id handed out by `gen_run_id`

structure DState (ε : Type) where
  table  : Table ε := []
  cacheC : List (Rec ε) := []
  cacheH : List (Rec ε) := []
  nextId : Nat := 0

/-- what subscribers receive (`on_decider_update`). -/
structure Notif (ε : Type) where
  completed : List (Rec ε)
  halted    : List (Rec ε)
  updated   : List (Rec ε)
  loc       : Bool

def Cfg.caching {ε} (c : Cfg ε) : Bool := decide (0 < c.maxCache)

/-! ### table operations (`runs_from`, `run_at`, `_add_run`, `_remove_run`) -/

def lookup {α} (k : String) : List (String × α) → Option α
  | [] => none
  | (k', v) :: rest => if k' == k then some v else lookup k rest

def Table.runsFrom {ε} (t : Table ε) (ph pa : String) : List (LRun ε) :=
  match lookup ph t with
  | none => []
  | some pats => (lookup pa pats).getD []

def Table.runAt {ε} (t : Table ε) (ph pa id : String) : Option (LRun ε) :=
  (t.runsFrom ph pa).find? (fun r => r.run.id == id)

/-- modify the value under key `k` of an insertion-ordered dict; when the key is absent and
`create`, the key is added at the end with `f dflt`. -/
def amod {α} (k : String) (create : Bool) (f : α → α) (dflt : α) (l : List (String × α)) : List (String × α) :=
  if l.any (·.1 == k) then l.map (fun kv => if kv.1 == k then (kv.1, f kv.2) else kv)
  else if create then l ++ [(k, f dflt)] else l

/-- modify the run list stored under (ph, pa); creates the keys (at the end) when `create`. -/
def Table.modify {ε} (t : Table ε) (ph pa : String) (create : Bool)
    (f : List (LRun ε) → List (LRun ε)) : Table ε :=
  amod ph create (amod pa create f []) [] t

/-- `_remove_run(..., quiet=True)` -/
def Table.remove {ε} (t : Table ε) (ph pa id : String) : Table ε :=
  t.modify ph pa false (fun rs => rs.filter (fun r => !(r.run.id == id)))

/-- `_add_run`; `none` = `BoboDeciderError` (run id already present). -/
def Table.add {ε} (t : Table ε) (ph pa : String) (r : LRun ε) : Option (Table ε) :=
  if (t.runAt ph pa r.run.id).isSome then none
  else some (t.modify ph pa true (fun rs => rs ++ [r]))

/-- `run.set_block(idx, hist)` on the run stored under (ph, pa, id). -/
def Table.setBlock {ε} (t : Table ε) (ph pa id : String) (idx : Nat) (h : Hist ε) : Table ε :=
  t.modify ph pa false (fun rs => rs.map (fun r =>
    if r.run.id == id then { r with run := { r.run with idx := idx, hist := h } } else r))

/-- `all_runs()` with their phenomenon. -/
def Table.all {ε} (t : Table ε) : List (String × LRun ε) :=
  t.flatMap (fun (ph, pats) => pats.flatMap (fun (_, rs) => rs.map (fun r => (ph, r))))

def LRun.ser {ε} (ph : String) (r : LRun ε) : Rec ε :=
  { id := r.run.id, phen := ph, pat := r.pat.name, idx := r.run.idx, hist := r.run.hist }

/-- `_get_pattern`: first pattern of that name in the phenomenon. -/
def Cfg.getPattern {ε} (c : Cfg ε) (ph pa : String) : Option (Pattern ε) :=
  match c.phenomena.find? (·.name == ph) with
  | none => none
  | some p => p.patterns.find? (·.name == pa)

/-! ### finished-run memory -/

/-- `deque(maxlen=m).append(x)` -/
def dqAppend {α} (m : Nat) (q : List α) (x : α) : List α :=
  let q' := q ++ [x]
  q'.drop (q'.length - m)

def dqExtend {α} (m : Nat) (q : List α) (xs : List α) : List α := xs.foldl (dqAppend m) q

/-- `_maybe_cache` -/
def maybeCache {ε} (c : Cfg ε) (s : DState ε) (comp halt : List (Rec ε)) : DState ε :=
  if c.caching then
    { s with cacheC := dqExtend c.maxCache s.cacheC comp, cacheH := dqExtend c.maxCache s.cacheH halt }
  else s

def inCache {ε} (q : List (Rec ε)) (id : String) : Bool := q.any (·.id == id)

/-! ### local processing: `update()` → `_process_event` -/

/-- per-run result of `_check_against_runs`. -/
structure RunsAcc (ε : Type) where
  keep : List (LRun ε) := []       -- runs that stay in the table (in order)
  hc   : List (Rec ε) := []        -- halted and complete
  hi   : List (Rec ε) := []        -- halted, incomplete
  upd  : List (Rec ε) := []

/-- one iteration of the loop body of `_check_against_runs` for run `r` of phenomenon `ph`.
A raise (predicate or index error) is swallowed: `except (Exception,): continue`. -/
def checkRun {ε} (e : ε) (ph : String) (acc : RunsAcc ε) (r : LRun ε) : RunsAcc ε :=
  let (out, run') := process r.pat r.run e
  let r' : LRun ε := { r with run := run' }
  match out with
  | .ok true =>
    if run'.halted then
      if run'.isComplete r.pat.blocks.length then { acc with hc := acc.hc ++ [r'.ser ph] }
      else { acc with hi := acc.hi ++ [r'.ser ph] }
    else { acc with keep := acc.keep ++ [r'], upd := acc.upd ++ [r'.ser ph] }
  | _ => { acc with keep := acc.keep ++ [r'] }

/-- the loop of `_check_against_runs` over one (phenomenon, pattern) bucket. -/
def procBucket {ε} (e : ε) (ph : String) (rs : List (LRun ε)) : RunsAcc ε :=
  rs.foldl (checkRun e ph) {}

/-- per-bucket results, in table order (phenomenon, then pattern). -/
def bucketAccs {ε} (e : ε) (t : Table ε) : List (String × List (String × RunsAcc ε)) :=
  t.map (fun phe => (phe.1, phe.2.map (fun pe => (pe.1, procBucket e phe.1 pe.2))))

/-- `_check_against_runs`: every run present before the event is offered the event once,
in table order; finished runs leave the table (the keys stay).  The three result lists are
filled in iteration order, i.e. they are the concatenation of the per-bucket lists. -/
def checkAgainstRuns {ε} (e : ε) (t : Table ε) : Table ε × List (Rec ε) × List (Rec ε) × List (Rec ε) :=
  let accs := bucketAccs e t
  let flat := accs.flatMap (fun phe => phe.2.map (·.2))
  (accs.map (fun phe => (phe.1, phe.2.map (fun pe => (pe.1, pe.2.keep)))),
   flat.flatMap (·.hc), flat.flatMap (·.hi), flat.flatMap (·.upd))

/-- first-block test of `_check_against_patterns`: predicates see the empty history;
a raising predicate counts as "no" and the next one is tried. -/
def startMatch {ε} (ps : List (Pred ε)) (e : ε) : Bool :=
  ps.any (fun p => p e [] == some true)

structure PatAcc (ε : Type) where
  table  : Table ε
  nextId : Nat
  hc     : List (Rec ε) := []
  upd    : List (Rec ε) := []

/-- loop body of `_check_against_patterns` for one pattern; `none` = exception escapes. -/
def checkPattern {ε} (c : Cfg ε) (e : ε) (ph : String) (acc : PatAcc ε) (p : Pattern ε) : Option (PatAcc ε) :=
  match p.blocks with
  | [] => none    -- `pattern.blocks[0]`: IndexError
  | b0 :: _ =>
    if startMatch b0.preds e then
      let run := newRun (c.idOf acc.nextId) p b0.group e
      let lr : LRun ε := { run := run, pat := p }
      let acc := { acc with nextId := acc.nextId + 1 }
      if run.halted && run.isComplete p.blocks.length then
        some { acc with hc := acc.hc ++ [lr.ser ph] }
      else
        let runs := acc.table.runsFrom ph p.name
        if !p.singleton || runs.length == 0 then
          match acc.table.add ph p.name lr with
          | none => none
          | some t' => some { acc with table := t', upd := acc.upd ++ [lr.ser ph] }
        else some acc
    else some acc

def foldlM' {α β} (f : β → α → Option β) : β → List α → Option β
  | b, [] => some b
  | b, a :: as => match f b a with
    | none => none
    | some b' => foldlM' f b' as

def checkAgainstPatterns {ε} (c : Cfg ε) (e : ε) (t : Table ε) (nextId : Nat) : Option (PatAcc ε) :=
  foldlM' (fun acc (ph : Phen ε) => foldlM' (checkPattern c e ph.name) acc ph.patterns)
    { table := t, nextId := nextId } c.phenomena

/-- `update()` for one queued event: `_process_event`, serialise, memorise, notify.
Returns the new state, the notification (sent iff `changed`) and `changed`. -/
def localStep {ε} (c : Cfg ε) (s : DState ε) (e : ε) : Option (DState ε × Notif ε × Bool) :=
  let (t1, rhc, rhi, rupd) := checkAgainstRuns e s.table
  match checkAgainstPatterns c e t1 s.nextId with
  | none => none
  | some acc =>
    let completed := rhc ++ acc.hc
    let halted := rhi
    let updated := rupd ++ acc.upd
    let s1 : DState ε := { s with table := acc.table, nextId := acc.nextId }
    let s2 := maybeCache c s1 completed halted
    let changed := !(completed.isEmpty && halted.isEmpty && updated.isEmpty)
    some (s2, { completed := completed, halted := halted, updated := updated, loc := true }, changed)

/-! ### remote processing: `on_distributed_update` -/

/-- `_maybe_check_against_cache` (run ids compared — after fix F3). -/
def checkAgainstCache {ε} (c : Cfg ε) (s : DState ε) (comp halt upd : List (Rec ε)) :
    List (Rec ε) × List (Rec ε) × List (Rec ε) :=
  if c.caching then
    (comp.filter (fun r => !inCache s.cacheC r.id),
     halt.filter (fun r => !inCache s.cacheC r.id && !inCache s.cacheH r.id),
     upd.filter (fun r => !inCache s.cacheC r.id && !inCache s.cacheH r.id))
  else (comp, halt, upd)

/-- is the remote record ahead of the local run?  (after fix F1: position = (index, history size)) -/
def ahead {ε} (rr : Rec ε) (loc : Run ε) : Bool :=
  decide (rr.idx > loc.idx) || (rr.idx == loc.idx && decide (rr.hist.size > loc.hist.size))

/-- the pinned-tree comparison (F1): index only. -/
def aheadOld {ε} (rr : Rec ε) (loc : Run ε) : Bool := decide (rr.idx > loc.idx)

/-- (The Python addresses the local run through the run object's own names
`runlocal.phenomenon_name` / `runlocal.pattern.name`; a run is always stored under the name of
the pattern it holds — `_add_run(phenomenon.name, pattern.name, run)` — so these equal the
record's names `rr.phen` / `rr.pat` under which it was just looked up; the model uses the latter.)

State threaded through the completed/halted loops: the decider state and the
(possibly edited) list being walked, rebuilt in order; `none` entries = unknown pattern (dropped). -/
def removeOne {ε} (c : Cfg ε) (isComp : Bool) (st : DState ε × List (Rec ε)) (rr : Rec ε) :
    DState ε × List (Rec ε) :=
  let (s, out) := st
  match c.getPattern rr.phen rr.pat with
  | none => (s, out)                                  -- ignored, index removed from the list
  | some p =>
    let runs := s.table.runsFrom rr.phen rr.pat
    match (if p.singleton then runs.head? else none) with
    | some rl =>
      let s1 := { s with table := s.table.remove rr.phen rr.pat rl.run.id }
      if rr.id != rl.run.id then
        let ser := rl.ser rr.phen
        let s2 := maybeCache c s1 (if isComp then [ser] else []) (if isComp then [] else [ser])
        (s2, out ++ [ser])
      else (s1, out ++ [rr])
    | none =>
      ({ s with table := s.table.remove rr.phen rr.pat rr.id }, out ++ [rr])

/-- loop body over `updated`; `none` = exception escapes (`_add_run` duplicate). -/
def updateOne {ε} (c : Cfg ε) (aheadF : Rec ε → Run ε → Bool) (st : DState ε × List (Rec ε)) (rr : Rec ε) :
    Option (DState ε × List (Rec ε)) :=
  let (s, out) := st
  match c.getPattern rr.phen rr.pat with
  | none => some (s, out)
  | some p =>
    let runlocal : Option (LRun ε) :=
      if p.singleton then (s.table.runsFrom rr.phen rr.pat).head?
      else s.table.runAt rr.phen rr.pat rr.id
    match runlocal with
    | some rl =>
      let t' := if aheadF rr rl.run then s.table.setBlock rr.phen rr.pat rl.run.id rr.idx rr.hist
                else s.table
      let s' := { s with table := t' }
      if p.singleton && rr.id != rl.run.id then
        -- `updated[k] = runlocal.serialize()` (after a possible set_block)
        let rl' : LRun ε := if aheadF rr rl.run then { rl with run := { rl.run with idx := rr.idx, hist := rr.hist } } else rl
        some (s', out ++ [rl'.ser rr.phen])
      else some (s', out ++ [rr])
    | none =>
      let nr : LRun ε := { run := { id := rr.id, idx := rr.idx, hist := rr.hist,
                                     halted := completeAt p.blocks.length rr.idx }, pat := p }
      match s.table.add rr.phen rr.pat nr with
      | none => none
      | some t' => some ({ s with table := t' }, out ++ [rr])

/-- report each completed / halted run once (first occurrence kept): the local run of a singleton pattern may
have replaced more than one remote run in a list (fix F18). -/
def dedupById {ε} : List (Rec ε) → List (Rec ε)
  | [] => []
  | r :: rest => r :: (dedupById rest).filter (fun x => !(x.id == r.id))

/-- `on_distributed_update`, parameterised by the "ahead" test and by whether the
updated list is filtered a second time after the completed/halted lists were applied and memorised (fix F4). -/
def remoteStepG {ε} (aheadF : Rec ε → Run ε → Bool) (refilter : Bool)
    (c : Cfg ε) (s : DState ε) (comp halt upd : List (Rec ε)) : Option (DState ε × Notif ε) :=
  let (comp1, halt1, upd1) := checkAgainstCache c s comp halt upd
  let s1 := maybeCache c s comp1 halt1
  let (s2, compOut) := comp1.foldl (removeOne c true) (s1, [])
  let (s3, haltOut) := halt1.foldl (removeOne c false) (s2, [])
  let upd2 := if refilter then (checkAgainstCache c s3 [] [] upd1).2.2 else upd1
  match foldlM' (updateOne c aheadF) (s3, []) upd2 with
  | none => none
  | some (s4, updOut) =>
    some (s4, { completed := dedupById compOut, halted := dedupById haltOut, updated := updOut, loc := false })

/-- the code as it stands in /repo (fixes F1, F3, F4 applied). -/
def remoteStep {ε} (c : Cfg ε) (s : DState ε) (comp halt upd : List (Rec ε)) : Option (DState ε × Notif ε) :=
  remoteStepG ahead true c s comp halt upd

/-- `snapshot()` -/
def snapshot {ε} (c : Cfg ε) (s : DState ε) : List (Rec ε) × List (Rec ε) × List (Rec ε) :=
  (if c.caching then s.cacheC else [], if c.caching then s.cacheH else [],
   s.table.all.map (fun (ph, r) => r.ser ph))

end Bobo.Decider
