/-
M-Engine: model of one `BoboEngine` (bobocep/cep/engine/engine.py) with its
four tasks (receiver.py, decider.py `update`/`on_receiver_update`, producer.py,
forwarder.py) and `BoboActionHandlerBlocking` (bobocep/cep/action/handler.py).
No Mathlib.

Four FIFO lists + the blocking handler's response list.  What is NOT modelled
and enters as a parameter (`Params`): the pattern-matching core of the decider
(`decide : σ → Event → σ × Notif`, for an arbitrary matcher state type σ), the
validator, each phenomenon's datagen and action, the id / timestamp generators
(`idOf k` / `tsOf k` = what the k-th call returns; one generator object of each
kind shared by receiver, producer and forwarder, as `BoboSetupSimple.generate`
builds them).

The subscribe graph (`wiring`) and the task order / loop shape of
`BoboEngine.update` (`schedule`, `loopOf`, `breakNow`) are *tables interpreted
by the model*; translate/wiring.py regenerates them from the source
(Gen/Wiring.lean) and Props/C02.lean proves the two equal.

Fields below the line "ghost" are history variables: they are only ever
appended to and never read by any function of the model (theorem
`Props/C02: ghost_free` states this as an erasure property for the queues).

Not modelled: `close()` (every `update` of a closed task returns False),
`max_size > 0` (queue-full exceptions), `gen_event` (None), actions / datagen /
validators that raise.  The asynchronous handlers (`BoboActionHandlerMultithreading`
/ `BoboActionHandlerMultiprocessing`) are modelled on top of this file in
Model/EngineAsync.lean (this state + jobs in flight + pool script), tied to the code
by its own driver (Drivers/EngineAsync.lean, `bobodrv engineA`) and the asynchronous
family of harness/props/c02.py.
-/
namespace Bobo.Engine

/-- data carried by events.  `none` is Python `None`. -/
inductive Data where
  | none
  | int (n : Int)
  | str (s : String)
deriving DecidableEq, Repr, Inhabited

inductive Kind where
  | simple | complex | action
deriving DecidableEq, Repr

/-- canonical history: insertion-ordered groups, each a list of event ids. -/
abbrev Hist := List (String × List String)

/-- the three event classes, flattened (unused fields keep their defaults). -/
structure Event where
  kind    : Kind
  id      : String
  ts      : Int
  data    : Data
  phen    : String := ""
  pat     : String := ""
  hist    : Hist := []
  actName : String := ""
  success : Bool := false
deriving DecidableEq, Repr

/-- an item of the receiver queue: anything (`raw`) or an already-built event. -/
inductive Item where
  | raw (d : Data)
  | ev (e : Event)
deriving DecidableEq, Repr

/-- `data is None` for the value popped from the receiver queue. -/
def Item.isNone : Item → Bool
  | .raw .none => true
  | _ => false

/-- `BoboRunSerial`. -/
structure RunRec where
  runId    : String
  phen     : String
  pat      : String
  blockIdx : Nat
  hist     : Hist
deriving DecidableEq, Repr

/-- what one `_process_event` yields (already serialised). -/
structure Notif where
  completed : List RunRec
  halted    : List RunRec
  updated   : List RunRec
deriving DecidableEq, Repr

/-- `any(len(rl) > 0 for rl in [completed, halted, updated])`. -/
def Notif.changed (n : Notif) : Bool :=
  !(n.completed.isEmpty && n.halted.isEmpty && n.updated.isEmpty)

/-- `BoboHandlerResponse`. -/
structure Resp where
  actName : String
  cev     : Event
  success : Bool
  data    : Data
deriving DecidableEq, Repr

/-- one `BoboAction.execute(event)` call. -/
structure Exec where
  actName : String
  cev     : Event
deriving DecidableEq, Repr

inductive Task where
  | receiver | decider | producer | forwarder
deriving DecidableEq, Repr

/-- who put an item into the receiver queue (ghost tag). -/
inductive Src where
  | ext | prod | fwd
deriving DecidableEq, Repr

/-- `(publisher, subscriber)` pairs in `subscribe` call order. -/
abbrev Wiring := List (Task × Task)

/-- the graph `BoboEngine.__init__` builds. -/
def wiring : Wiring :=
  [ (.receiver, .decider), (.decider, .producer),
    (.producer, .forwarder), (.producer, .receiver), (.forwarder, .receiver) ]

/-- `self._subscribers` of task `t`, in subscription order. -/
def subsOf (w : Wiring) (t : Task) : List Task :=
  (w.filter (fun p => p.1 == t)).map (·.2)

structure Cfg where
  tR : Nat := 0
  tD : Nat := 0
  tP : Nat := 0
  tF : Nat := 0
  earlyStop : Bool := true
deriving DecidableEq, Repr

/-- the literal list `BoboEngine.update` iterates over. -/
def schedule (c : Cfg) : List (Task × Nat) :=
  [ (.receiver, c.tR), (.decider, c.tD), (.producer, c.tP), (.forwarder, c.tF) ]

inductive Loop where
  | whileUpdate            -- `while task.update(): pass`
  | forRange (n : Nat)     -- `for i in range(times): …`
deriving DecidableEq, Repr

/-- `if times == 0: while … else: for i in range(times)`. -/
def loopOf (times : Nat) : Loop :=
  if times = 0 then .whileUpdate else .forRange times

/-- `if not task.update() and self._early_stop: break`. -/
def breakNow (ret early : Bool) : Bool := !ret && early

/-- what the model assumes of `BoboSetupSimple.generate`: the engine is built with
the constructor defaults, nothing else is subscribed, receiver / producer /
forwarder share one id and one timestamp generator, decider / producer /
forwarder get the same phenomena list. -/
structure SetupShape where
  cfg : Cfg
  extraSubs : Wiring
  sharedGens : Bool
  samePhenomena : Bool
deriving DecidableEq, Repr

def setupSimple : SetupShape := { cfg := {}, extraSubs := [], sharedGens := true, samePhenomena := true }

/-- the parts of the engine that are user code or modelled elsewhere. -/
structure Params (σ : Type) where
  /-- the matcher: `_process_event` + serialisation, on an abstract state. -/
  decide    : σ → Event → σ × Notif
  /-- `validator.is_valid(data)`. -/
  isValid   : Item → Bool
  /-- producer's phenomena: `none` = name unknown (raises);
      `some none` = no datagen; `some (some f)` = `datagen(phenom, history)`. -/
  datagenOf : String → Option (Option (Hist → Data))
  /-- forwarder's phenomena: `none` = name unknown or `action is None`;
      `some (name, execute)`. -/
  actionOf  : String → Option (String × (Event → Bool × Data))
  localOnly : Bool := true
  idOf      : Nat → String
  tsOf      : Nat → Int

structure St (σ : Type) where
  rq : List Item := []              -- receiver `_queue`
  dq : List Event := []             -- decider `_queue`
  pq : List (RunRec × Bool) := []   -- producer `_queue` : (run, local)
  fq : List Event := []             -- forwarder `_queue`
  hq : List Resp := []              -- blocking handler `_queue`
  ds : σ                            -- matcher state
  nid : Nat := 0                    -- calls of gen_event_id.generate() so far
  nts : Nat := 0                    -- calls of gen_timestamp.generate() so far
  err : Option String := none       -- exception that aborted the current engine update
  -- ghost ------------------------------------------------------------------
  entered      : List (Src × Item) := []     -- every `add_data`, tagged
  popped       : List Item := []             -- items the receiver took
  processed    : List (Item × Event) := []   -- valid items taken, with the event published (`on_receiver_update`) for each
  seen         : List Event := []            -- events the matcher was given
  completedLog : List RunRec := []           -- completed runs notified to subscribers
  haltedLog    : List RunRec := []           -- halted runs notified to subscribers
  prodPopped   : List (RunRec × Bool) := []  -- runs the producer took
  complexes    : List (Event × Bool) := []   -- complex events built (with `local`)
  fwdAccepted  : List Event := []            -- complex events the forwarder enqueued
  fwdPopped    : List Event := []            -- complex events the forwarder took
  execs        : List Exec := []             -- `action.execute` calls
  respLog      : List Resp := []             -- responses the handler enqueued
  respPopped   : List Resp := []             -- responses the forwarder took
  actions      : List Event := []            -- action events built

variable {σ : Type}

def init (d : σ) : St σ := { ds := d }

/-- the stream a `BoboReceiverSubscriber` sees. -/
def St.published (s : St σ) : List Event := s.processed.map (·.2)

/-! ### receiver -/

/-- `BoboReceiver.add_data` (unbounded queue, not closed). -/
def addData (src : Src) (it : Item) (s : St σ) : St σ :=
  { s with rq := s.rq ++ [it], entered := s.entered ++ [(src, it)] }

/-- deliver one `on_receiver_update(event)` to subscriber `t`. -/
def deliverRecv (e : Event) (s : St σ) (t : Task) : St σ :=
  match t with
  | .decider => { s with dq := s.dq ++ [e] }
  | _ => { s with err := some "AttributeError on_receiver_update" }

/-- `_process_data`. -/
def processData (P : Params σ) (s : St σ) (it : Item) : St σ :=
  if !P.isValid it then s
  else
    match it with
    | .ev e =>
      (subsOf wiring .receiver).foldl (deliverRecv e) { s with processed := s.processed ++ [(.ev e, e)] }
    | .raw d =>
      let e : Event := { kind := .simple, id := P.idOf s.nid, ts := P.tsOf s.nts, data := d }
      (subsOf wiring .receiver).foldl (deliverRecv e)
        { s with nid := s.nid + 1, nts := s.nts + 1, processed := s.processed ++ [(.raw d, e)] }

/-- `BoboReceiver.update` with `gen_event = None`: returns `data is not None`. -/
def recvUpdate (P : Params σ) (s : St σ) : St σ × Bool :=
  match s.rq with
  | [] => (s, false)
  | it :: rest =>
    (processData P { s with rq := rest, popped := s.popped ++ [it] } it, !it.isNone)

/-! ### decider (queue handling only) -/

/-- deliver one `on_decider_update(completed, halted, updated, local)`. -/
def deliverDec (n : Notif) (loc : Bool) (s : St σ) (t : Task) : St σ :=
  match t with
  | .producer => { s with pq := s.pq ++ n.completed.map (fun r => (r, loc)) }
  | _ => { s with err := some "AttributeError on_decider_update" }

/-- `BoboDecider.update`: returns "state changed", not "queue was non-empty". -/
def decUpdate (P : Params σ) (s : St σ) : St σ × Bool :=
  match s.dq with
  | [] => (s, false)
  | e :: rest =>
    let r := P.decide s.ds e
    let n := r.2
    let s1 : St σ := { s with dq := rest, ds := r.1, seen := s.seen ++ [e] }
    if n.changed then
      ((subsOf wiring .decider).foldl (deliverDec n true)
        { s1 with completedLog := s1.completedLog ++ n.completed,
                  haltedLog := s1.haltedLog ++ n.halted }, true)
    else (s1, false)

/-! ### producer -/

/-- deliver one `on_producer_update(event, local)`. -/
def deliverProd (P : Params σ) (e : Event) (loc : Bool) (s : St σ) (t : Task) : St σ :=
  match t with
  | .forwarder =>
    if !loc && P.localOnly then s
    else { s with fq := s.fq ++ [e], fwdAccepted := s.fwdAccepted ++ [e] }
  | .receiver => addData .prod (.ev e) s
  | _ => { s with err := some "AttributeError on_producer_update" }

/-- the complex event `_handle_completed_run` builds. -/
def mkComplex (P : Params σ) (s : St σ) (r : RunRec) (dg : Option (Hist → Data)) : Event :=
  { kind := .complex, id := P.idOf s.nid, ts := P.tsOf s.nts,
    data := match dg with | some f => f r.hist | none => .none,
    phen := r.phen, pat := r.pat, hist := r.hist }

/-- `BoboProducer.update`. -/
def prodUpdate (P : Params σ) (s : St σ) : St σ × Bool :=
  match s.pq with
  | [] => (s, false)
  | (r, loc) :: rest =>
    let s1 : St σ := { s with pq := rest, prodPopped := s.prodPopped ++ [(r, loc)] }
    match P.datagenOf r.phen with
    | none => ({ s1 with err := some ("BoboProducerError " ++ r.phen) }, true)
    | some dg =>
      let e := mkComplex P s r dg
      ((subsOf wiring .producer).foldl (deliverProd P e loc)
        { s1 with nid := s1.nid + 1, nts := s1.nts + 1, complexes := s1.complexes ++ [(e, loc)] }, true)

/-! ### forwarder + blocking handler -/

/-- `_update_handler` (+ `BoboActionHandlerBlocking._execute_action`). -/
def fwdHandle (P : Params σ) (s : St σ) : St σ × Bool :=
  match s.fq with
  | [] => (s, false)
  | e :: rest =>
    let s1 : St σ := { s with fq := rest, fwdPopped := s.fwdPopped ++ [e] }
    match P.actionOf e.phen with
    | none => (s1, true)
    | some (name, f) =>
      let r : Resp := { actName := name, cev := e, success := (f e).1, data := (f e).2 }
      ({ s1 with hq := s1.hq ++ [r], execs := s1.execs ++ [{ actName := name, cev := e }],
                 respLog := s1.respLog ++ [r] }, true)

/-- deliver one `on_forwarder_update(event)`. -/
def deliverFwd (e : Event) (s : St σ) (t : Task) : St σ :=
  match t with
  | .receiver => addData .fwd (.ev e) s
  | _ => { s with err := some "AttributeError on_forwarder_update" }

/-- the action event `_update_responses` builds. -/
def mkAction (P : Params σ) (s : St σ) (r : Resp) : Event :=
  { kind := .action, id := P.idOf s.nid, ts := P.tsOf s.nts, data := r.data,
    phen := r.cev.phen, pat := r.cev.pat, actName := r.actName, success := r.success }

/-- `_update_responses`. -/
def fwdResponses (P : Params σ) (s : St σ) : St σ × Bool :=
  match s.hq with
  | [] => (s, false)
  | r :: rest =>
    let e := mkAction P s r
    ((subsOf wiring .forwarder).foldl (deliverFwd e)
      { s with hq := rest, respPopped := s.respPopped ++ [r], nid := s.nid + 1, nts := s.nts + 1,
               actions := s.actions ++ [e] }, true)

/-- `BoboForwarder.update`: both halves always run; returns `handle or response`. -/
def fwdUpdate (P : Params σ) (s : St σ) : St σ × Bool :=
  let h := fwdHandle P s
  let r := fwdResponses P h.1
  (r.1, h.2 || r.2)

/-! ### the engine loop -/

def taskUpdate (P : Params σ) : Task → St σ → St σ × Bool
  | .receiver  => recvUpdate P
  | .decider   => decUpdate P
  | .producer  => prodUpdate P
  | .forwarder => fwdUpdate P

/-- `while task.update(): pass` with explicit fuel; the Boolean says the fuel ran out
(the Python loop would still be running). An exception (`err`) leaves the loop. -/
def whileLoop (upd : St σ → St σ × Bool) : Nat → St σ → St σ × Bool
  | 0, s => (s, true)
  | fuel + 1, s =>
    let r := upd s
    if r.1.err.isSome then (r.1, false)
    else if r.2 then whileLoop upd fuel r.1
    else (r.1, false)

/-- `for i in range(n): if not task.update() and early_stop: break`. -/
def forLoop (upd : St σ → St σ × Bool) (early : Bool) : Nat → St σ → St σ
  | 0, s => s
  | n + 1, s =>
    let r := upd s
    if r.1.err.isSome then r.1
    else if breakNow r.2 early then r.1
    else forLoop upd early n r.1

/-- the quantity each true-returning `update()` of the task strictly decreases
(Props/C02 `update_true_decreases`), hence a sufficient fuel for its `while` loop. -/
def taskMeasure : Task → St σ → Nat
  | .receiver,  s => s.rq.length
  | .decider,   s => s.dq.length
  | .producer,  s => s.pq.length
  | .forwarder, s => s.fq.length + s.hq.length

/-- one iteration of the `for task, times in [...]` loop with explicit `while` fuel. -/
def runTaskFuel (P : Params σ) (c : Cfg) (fuel : Nat) (s : St σ) (tt : Task × Nat) : St σ :=
  if s.err.isSome then s
  else
    match loopOf tt.2 with
    | .whileUpdate => (whileLoop (taskUpdate P tt.1) fuel s).1
    | .forRange n  => forLoop (taskUpdate P tt.1) c.earlyStop n s

/-- the same with the fuel computed from the task's own queue(s). -/
def runTask (P : Params σ) (c : Cfg) (s : St σ) (tt : Task × Nat) : St σ :=
  runTaskFuel P c (taskMeasure tt.1 s + 1) s tt

/-- `BoboEngine.update` (engine not closed). -/
def engineUpdate (P : Params σ) (c : Cfg) (s : St σ) : St σ :=
  (schedule c).foldl (runTask P c) { s with err := none }

/-- operations of a caller of the engine. -/
inductive Op where
  | add (it : Item)
  | update
deriving DecidableEq, Repr

def applyOp (P : Params σ) (c : Cfg) (s : St σ) : Op → St σ
  | .add it => addData .ext it s
  | .update => engineUpdate P c s

def runOps (P : Params σ) (c : Cfg) (s : St σ) (ops : List Op) : St σ :=
  ops.foldl (applyOp P c) s

end Bobo.Engine
