/-
M-Run: model of `BoboRun` (bobocep/cep/engine/decider/run.py), `BoboHistory`
(only the grouped, insertion-ordered event lists), and the data of
`BoboPattern` / `BoboPatternBlock` (bobocep/cep/phenom/pattern/pattern.py).

No Mathlib.  The event type `ε` is a parameter; user predicates are arbitrary
functions `ε → Hist ε → Option Bool` where `none` models "the predicate
raised".  `process` follows `BoboRun.process / _process_loop /
_process_not_loop / _move_forward / _add_event` statement by statement and is
*state passing*: it returns the outcome together with the run as it is after
the call, also when the call raised — so "a raise leaves the run unchanged"
is a theorem about this function (Props/C14.lean), not an artefact of the
encoding.  `blocks[temp_index]` out of range is `Out.indexError`, never
defaulted.
-/
namespace Bobo.Run

/-- grouped history: insertion-ordered (group name, events of that group). -/
abbrev Hist (ε : Type) := List (String × List ε)

/-- a user predicate; `none` = raised. -/
abbrev Pred (ε : Type) := ε → Hist ε → Option Bool

structure Block (ε : Type) where
  preds    : List (Pred ε)
  group    : String
  strict   : Bool
  loop     : Bool
  negated  : Bool
  optional : Bool

structure Pattern (ε : Type) where
  name      : String
  blocks    : List (Block ε)
  pre       : List (Pred ε)
  halt      : List (Pred ε)
  singleton : Bool

structure Run (ε : Type) where
  id     : String
  idx    : Nat
  hist   : Hist ε
  halted : Bool

/-- outcome of `BoboRun.process`. -/
inductive Out where
  | ok (changed : Bool)
  | raised        -- a user predicate raised
  | indexError    -- `self.pattern.blocks[temp_index]` out of range
deriving DecidableEq, Repr

/-- `BoboHistory.size()` -/
def Hist.size {ε} (h : Hist ε) : Nat := (h.map (·.2.length)).sum

/-- `_add_event`: append to the block's group, creating the group at the end if new. -/
def addEvent {ε} (h : Hist ε) (g : String) (e : ε) : Hist ε :=
  if h.any (·.1 == g) then
    h.map (fun kv => if kv.1 == g then (kv.1, kv.2 ++ [e]) else kv)
  else
    h ++ [(g, [e])]

/-- `_is_match`: `any(p.evaluate(e, h) for p in predicates)` — generator: stops at
the first `True`; a raise reached before that propagates. -/
def isMatch {ε} (ps : List (Pred ε)) (e : ε) (h : Hist ε) : Option Bool :=
  match ps with
  | [] => some false
  | p :: ps =>
    match p e h with
    | none => none
    | some true => some true
    | some false => isMatch ps e h

/-- `[p.evaluate(e, h) for p in ps]` — list comprehension: evaluates ALL, raises if any raises. -/
def evalAll {ε} (ps : List (Pred ε)) (e : ε) (h : Hist ε) : Option (List Bool) :=
  match ps with
  | [] => some []
  | p :: ps =>
    match p e h with
    | none => none
    | some b =>
      match evalAll ps e h with
      | none => none
      | some bs => some (b :: bs)

/-- `is_complete` for a given index: `block_index > len(blocks) - 1`. -/
def completeAt (n idx : Nat) : Bool := decide (n ≤ idx)

def Run.isComplete {ε} (n : Nat) (r : Run ε) : Bool := completeAt n r.idx

/-- `_move_forward`: add the event, set the index to `temp_index + 1`, `halted = is_complete()`. -/
def moveForward {ε} (n : Nat) (r : Run ε) (b : Block ε) (e : ε) (i : Nat) : Run ε :=
  { r with hist := addEvent r.hist b.group e, idx := i + 1, halted := completeAt n (i + 1) }

def halt {ε} (r : Run ε) : Run ε := { r with halted := true }

/-- the block walk `_process_loop` / `_process_not_loop`; `bs` is `blocks[i:]`,
`n = len(blocks)`.  The Python mutual recursion on `temp_index` is structural
recursion on the remaining suffix. -/
def walk {ε} (n : Nat) (e : ε) : List (Block ε) → Nat → Run ε → Out × Run ε
  | [], _, r => (.indexError, r)
  | b :: rest, i, r =>
    match isMatch b.preds e r.hist with
    | none => (.raised, r)
    | some m =>
      if b.loop then
        if m then (.ok true, { r with hist := addEvent r.hist b.group e })
        else if b.strict then (.ok true, halt r)
        else walk n e rest (i + 1) r
      else if b.negated then
        if m then (if b.strict then (.ok true, halt r) else (.ok false, r))
        else (.ok true, moveForward n r b e i)
      else if b.optional then
        if m then (.ok true, moveForward n r b e i)
        else walk n e rest (i + 1) r
      else
        if m then (.ok true, moveForward n r b e i)
        else if b.strict then (.ok true, halt r)
        else (.ok false, r)

/-- the precondition and haltcondition gate of `process`: `some true` = go on to the block walk,
`some false` = halt the run, `none` = raised. -/
def gate {ε} (p : Pattern ε) (e : ε) (h : Hist ε) : Option Bool :=
  match (if p.pre.isEmpty then some [] else evalAll p.pre e h) with
  | none => none
  | some pres =>
    if !(pres.all id) then some false
    else
      match (if p.halt.isEmpty then some [] else evalAll p.halt e h) with
      | none => none
      | some hs => if hs.any id then some false else some true

/-- `BoboRun.process(event)`. -/
def process {ε} (p : Pattern ε) (r : Run ε) (e : ε) : Out × Run ε :=
  if r.halted then (.ok false, r)
  else
    match gate p e r.hist with
    | none => (.raised, r)
    | some false => (.ok true, halt r)
    | some true => walk p.blocks.length e (p.blocks.drop r.idx) r.idx r

/-- `BoboRun.__init__` for a run started locally by the first block: index 1,
history `{group₀: [e]}`, `halted = is_complete()`. -/
def newRun {ε} (id : String) (p : Pattern ε) (g0 : String) (e : ε) : Run ε :=
  { id := id, idx := 1, hist := [(g0, [e])], halted := completeAt p.blocks.length 1 }

/-! ### documented legality rules (pattern.py constructors), as Bool functions -/

/-- `BoboPatternBlock.__init__` accepts. -/
def Block.legal {ε} (b : Block ε) : Bool :=
  !b.preds.isEmpty && !(b.strict && b.optional) && !(b.loop && (b.negated || b.optional))
    && !(!b.loop && (b.negated && b.optional))

def Block.plain {ε} (b : Block ε) : Bool := !b.negated && !b.optional && !b.loop

/-- `BoboPattern.__init__` accepts (given legal blocks). -/
def Pattern.legal {ε} (p : Pattern ε) : Bool :=
  !p.name.isEmpty && p.blocks.all Block.legal &&
  match p.blocks.head?, p.blocks.getLast? with
  | some f, some l => f.plain && l.plain
  | _, _ => false

end Bobo.Run
