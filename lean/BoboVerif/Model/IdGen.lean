/-
M-IdGen: model of `BoboGenEventIDUnique.generate` (bobocep/cep/gen/event_id.py).
No Mathlib.  State = (last, count); one call reads the clock exactly once.

`step` mirrors the body of `generate` as it stands in /repo; the generated
counterpart `Bobo.Gen.IdGen.step` (translate/idgen.py) is proved equal to it in
Props/C16.lean.  `stepOld` is the body as it stood at the pinned commit
(counter reset on *any* change of the second); it is kept only for the
counter-lemma that documents finding F10.
-/
namespace Bobo.IdGen

structure St where
  last  : Int
  count : Nat
deriving Repr, DecidableEq

def init : St := ⟨0, 0⟩

/-- what one call returns: the two numbers that are formatted. -/
abbrev Out := Int × Nat

/-- one call of `generate` with clock reading `now`. -/
def step (s : St) (now : Int) : St × Out :=
  if now > s.last then
    (⟨now, 0⟩, (now, 0))
  else
    (⟨s.last, s.count + 1⟩, (s.last, s.count + 1))

/-- the pinned-tree body (F10): reset on any change, format `now`. -/
def stepOld (s : St) (now : Int) : St × Out :=
  if now = s.last then
    (⟨s.last, s.count + 1⟩, (now, s.count + 1))
  else
    (⟨now, 0⟩, (now, 0))

/-- outputs of a sequence of calls under clock readings `ts`. -/
def run (stp : St → Int → St × Out) : St → List Int → List Out
  | _, [] => []
  | s, t :: ts => (stp s t).2 :: run stp (stp s t).1 ts

/-- `'{}_{}_{}'.format(urn, sec, count)` / `'{}_{}'.format(sec, count)`. -/
def fmt (urn : Option String) (o : Out) : String :=
  match urn with
  | some u => u ++ "_" ++ toString o.1 ++ "_" ++ toString o.2
  | none   => toString o.1 ++ "_" ++ toString o.2

end Bobo.IdGen
