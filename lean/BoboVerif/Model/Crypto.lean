/-
M-Crypto: model of `BoboDistributedCryptoAES` (bobocep/dist/crypto/aes.py).
No Mathlib.  Framing only — the cipher (AES-GCM, pycryptodome) and the nonce
source (`get_random_bytes`) are parameters.

* bytes are `List UInt8`; text is Lean's `String` (a sequence of Unicode scalar
  values) and UTF-8 is CONCRETE: `utf8 s = s.toUTF8` as a byte list and
  `decodeUtf8 = String.fromUTF8?` (strict decoder).  Python `str` values that
  contain lone surrogates are outside the model (their `.encode('UTF-8')`
  raises before the cipher is used).
* `len(msg_str)` is the number of *characters*, `String.length`; the pad count
  is computed from it, while the cipher sees the UTF-8 *bytes* — exactly as
  the code does.
* slices are Python slices (`pyslice`: negative bounds count from the end and
  are clamped), so short / malformed inputs are sliced as Python slices them.
* `Cipher` is the pair of functions; `AEAD` adds the assumed laws as FIELDS
  (hypotheses of the theorems, never axioms).
* `decryptOld` is `decrypt` as it stood at the pinned commit (no `mac_len`
  passed to `AES.new`, finding F11); it is kept for the counter-lemma only.

The generated counterparts (`Bobo.Gen.Crypto.*`, translate/crypto.py) are
proved equal to the definitions below in Props/C17.lean.
-/
namespace Bobo.Crypto

abbrev Bytes := List UInt8

/-! ### constants (tie G: `gen_consts_eq`) -/

/-- `_PAD_MODULO` -/
def padModulo : Nat := 16
/-- `_END_BYTES = "BOBO".encode("UTF-8")` -/
def endBytes : Bytes := [66, 79, 66, 79]
/-- `_LEN_END_BYTES` -/
def lenEndBytes : Nat := 4
/-- `_PAD_CHAR = '\0'` -/
def padChar : Char := Char.ofNat 0
/-- pycryptodome's default `mac_len` of `AES.new(..., MODE_GCM)` when the keyword is not passed. -/
def defaultMacLen : Nat := 16

/-! ### UTF-8 (concrete) -/

def utf8 (s : String) : Bytes := s.toUTF8.data.toList

def decodeUtf8 (b : Bytes) : Option String := String.fromUTF8? (ByteArray.mk b.toArray)

/-! ### Python slices -/

/-- a slice bound `i` of a sequence of length `len`, as CPython normalises it (step 1). -/
def normIdx (len : Nat) (i : Int) : Nat :=
  if i < 0 then (i + (len : Int)).toNat else min i.toNat len

/-- `l[start:stop]` with optional bounds. -/
def pyslice {α : Type} (l : List α) (start stop : Option Int) : List α :=
  let lo := match start with | none => 0 | some i => normIdx l.length i
  let hi := match stop with | none => l.length | some j => normIdx l.length j
  (l.drop lo).take (hi - lo)

/-! ### padding / stripping -/

/-- number of pad characters appended for a text of `n` CHARACTERS. -/
def padCount (n : Nat) : Nat :=
  if n % padModulo ≠ 0 then padModulo - n % padModulo else 0

/-- `msg_str + _PAD_CHAR * (…)`  (`len(msg_str)` counts characters). -/
def pad (s : String) : String :=
  s ++ String.ofList (List.replicate (padCount s.length) padChar)

/-- `l` without its trailing `c`s. -/
def rstripList (c : Char) (l : List Char) : List Char :=
  (l.reverse.dropWhile (· == c)).reverse

/-- `str.rstrip(_PAD_CHAR)` -/
def rstripNul (s : String) : String := String.ofList (rstripList padChar s.toList)

/-! ### layout -/

/-- `bytearray(ciphertext); .extend(nonce); .extend(mac); .extend(_END_BYTES)` -/
def layout (ct nonce tag : Bytes) : Bytes := ct ++ nonce ++ tag ++ endBytes

structure Slices where
  ct    : Bytes
  nonce : Bytes
  tag   : Bytes
deriving Repr, DecidableEq

/-- the three slices taken by `decrypt` for nonce length `ν` and MAC length `τ`. -/
def slices (ν τ : Nat) (b : Bytes) : Slices :=
  { ct    := pyslice b none (some (-((ν : Int) + (τ : Int) + (lenEndBytes : Int))))
    nonce := pyslice b (some (-((ν : Int) + (τ : Int) + (lenEndBytes : Int))))
                       (some (-((τ : Int) + (lenEndBytes : Int))))
    tag   := pyslice b (some (-((τ : Int) + (lenEndBytes : Int)))) (some (-(lenEndBytes : Int))) }

/-! ### configuration -/

structure Cfg where
  key      : Bytes
  nonceLen : Nat
  macLen   : Nat
deriving Repr, DecidableEq

/-- the constructor's key check: `len(aes_key)` (CHARACTERS) must be 16, 24 or 32. -/
def keyRejected (n : Nat) : Bool := n != 16 && n != 24 && n != 32

/-- `BoboDistributedCryptoAES(aes_key, nonce_length, mac_length)`; `none` = BoboDistributedCryptoError. -/
def mkCfg (aesKey : String) (ν τ : Nat) : Option Cfg :=
  if keyRejected aesKey.length then none else some ⟨utf8 aesKey, ν, τ⟩

/-- `min_length()` -/
def minLength (c : Cfg) : Nat := padModulo + c.nonceLen + c.macLen + lenEndBytes

/-- the `mac_len=` keyword of `AES.new` in `encrypt` (`none` = keyword not passed). -/
def encMacKw (c : Cfg) : Option Nat := some c.macLen
/-- the `mac_len=` keyword of `AES.new` in `decrypt`. -/
def decMacKw (c : Cfg) : Option Nat := some c.macLen
/-- pinned tree (F11): `decrypt` did not pass `mac_len`. -/
def decMacKwOld (_ : Cfg) : Option Nat := none

/-- the tag length the cipher object works with. -/
def resolveMac : Option Nat → Nat
  | none => defaultMacLen
  | some m => m

/-! ### the cipher and the nonce source -/

/-- AES-GCM as two functions (`seal` is a Lean keyword, hence `sealFn`/`openFn`): `seal key nonce taglen plaintext = (ciphertext, tag)`,
`open key nonce taglen ciphertext tag = some plaintext | none` (`none` = ValueError from
`AES.new` or `decrypt_and_verify`). -/
structure Cipher where
  sealFn : Bytes → Bytes → Nat → Bytes → Bytes × Bytes
  openFn : Bytes → Bytes → Nat → Bytes → Bytes → Option Bytes

/-- parameters the library accepts. -/
def ValidParams (key nonce : Bytes) (τ : Nat) : Prop :=
  (key.length = 16 ∨ key.length = 24 ∨ key.length = 32) ∧ nonce ≠ [] ∧ 4 ≤ τ ∧ τ ≤ 16

/-- an *ideal* AEAD: the assumed laws are fields.
`open_modified_none` is perfect integrity in its only consistent deterministic form: whatever
is not an output of `seal` under this key, nonce and tag length is rejected (a universally
quantified "every triple different from a sealed one is rejected" contradicts `open_seal` as
soon as two sealed triples exist — see `naive_tamper_law_inconsistent` in Props/C17.lean). -/
structure AEAD extends Cipher where
  open_seal : ∀ k n τ pt, ValidParams k n τ →
    openFn k n τ (sealFn k n τ pt).1 (sealFn k n τ pt).2 = some pt
  open_modified_none : ∀ k n τ ct tag, (∀ pt, sealFn k n τ pt ≠ (ct, tag)) → openFn k n τ ct tag = none
  open_taglen_none : ∀ k n τ ct tag, tag.length ≠ τ → openFn k n τ ct tag = none
  seal_ct_len : ∀ k n τ pt, ((sealFn k n τ pt).1).length = pt.length
  seal_tag_len : ∀ k n τ pt, ValidParams k n τ → ((sealFn k n τ pt).2).length = τ

/-- the nonce source: `draw n s` returns `n` bytes and the next state of the source. -/
abbrev Draw (σ : Type) := Nat → σ → Bytes × σ

/-! ### encrypt / decrypt -/

inductive DecErr where
  | cipher   -- ValueError from AES.new / decrypt_and_verify ("MAC check failed", …)
  | utf8     -- UnicodeDecodeError
deriving Repr, DecidableEq

/-- the arguments `encrypt` hands to the cipher: key, nonce, `mac_len` keyword, plaintext bytes. -/
def sealArgs (c : Cfg) (nonce : Bytes) (msg : String) : Bytes × Bytes × Option Nat × Bytes :=
  (c.key, nonce, encMacKw c, utf8 (pad msg))

/-- `encrypt(msg_str)`: one draw of `nonce_length` bytes, pad by character count, seal the UTF-8
bytes, lay out `ct | nonce | mac | BOBO`.  Returns the output and the next nonce-source state. -/
def encrypt {σ : Type} (C : Cipher) (c : Cfg) (draw : Draw σ) (s : σ) (msg : String) : Bytes × σ :=
  let r := draw c.nonceLen s
  let a := sealArgs c r.1 msg
  let ctTag := C.sealFn a.1 a.2.1 (resolveMac a.2.2.1) a.2.2.2
  (layout ctTag.1 r.1 ctTag.2, r.2)

def decryptWith (macKw : Cfg → Option Nat) (C : Cipher) (c : Cfg) (b : Bytes) : Except DecErr String :=
  let sl := slices c.nonceLen c.macLen b
  match C.openFn c.key sl.nonce (resolveMac (macKw c)) sl.ct sl.tag with
  | none => .error .cipher
  | some pt =>
    match decodeUtf8 pt with
    | none => .error .utf8
    | some t => .ok (rstripNul t)

/-- `decrypt(msg_bytes)` -/
def decrypt (C : Cipher) (c : Cfg) (b : Bytes) : Except DecErr String := decryptWith decMacKw C c b

/-- `decrypt` of the pinned tree (F11). -/
def decryptOld (C : Cipher) (c : Cfg) (b : Bytes) : Except DecErr String := decryptWith decMacKwOld C c b

/-- successive encryptions threading the nonce source. -/
def encryptAll {σ : Type} (C : Cipher) (c : Cfg) (draw : Draw σ) : σ → List String → List Bytes
  | _, [] => []
  | s, m :: ms => (encrypt C c draw s m).1 :: encryptAll C c draw (encrypt C c draw s m).2 ms

/-- the values of `k` successive draws of `n` bytes. -/
def drawAll {σ : Type} (draw : Draw σ) (n : Nat) : σ → Nat → List Bytes
  | _, 0 => []
  | s, k + 1 => (draw n s).1 :: drawAll draw n (draw n s).2 k

end Bobo.Crypto
