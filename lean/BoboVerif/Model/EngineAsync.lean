import BoboVerif.Model.Engine
/-
M-EngineAsync: the engine of Model/Engine.lean with an ASYNCHRONOUS action
handler (bobocep/cep/action/handler.py `BoboActionHandlerMultithreading` /
`BoboActionHandlerMultiprocessing`: `_execute_action` = `pool.starmap_async(
_pool_execute_action, [(queue, action, event, max_size)])`).  No Mathlib.

State = the blocking state (`St σ`, reused unchanged: the four task queues, the
handler's response queue `hq`, generators, ghost history) plus
* `inflight` : the (action, complex event) pairs handed to the pool whose
  `_pool_execute_action` has not put its response yet;
* `pool`     : the scheduler script of the current engine update (see below);
* `handed`   : ghost, every `handler.handle(action, event)` call.

Receiver, decider, producer and `_update_responses` are the functions of
Model/Engine.lean applied to the `St` part (`liftA`).  New:
* `fwdHandleA`  : `_update_handler` — pops ONE complex event; if its phenomenon has
  an action, the pair goes to `inflight`; nothing is executed.
* `complete k`  : the pool finishes the k-th in-flight execution:
  `action.execute(event)` is called and the response is put at the tail of the
  handler queue.  Any `k`, any time (an out-of-range `k` is not a step: identity).
* completions INSIDE an engine update: the pool threads run concurrently with
  `BoboEngine.update`.  A completion commutes with everything but the two
  accesses the forwarder makes to the handler (`handle`, `get_handler_response`,
  both under the handler's lock / a thread-safe queue), so its possible
  linearisation points are: before any task `update()` call, and between the two
  halves of `forwarder.update()`.  The adversary's choice is the script
  `pool : List (List Nat)`: at each such point the head of the script is popped
  and the in-flight executions it lists are completed (`poolStep`).  `AOp.update
  script` runs one `BoboEngine.update` under an ARBITRARY script; the theorems
  quantify over all scripts.  (Script exhausted = no completion at that point.)

Not modelled (as in Model/Engine.lean): `close()`, `max_size > 0`, actions that
raise (the pool logs and drops them: no response), `join()`.

Tie to the code (D): Drivers/EngineAsync.lean (`bobodrv engineA`) against the real
engine with real handler objects over a recording pool (harness/props/c02.py,
asynchronous family): `complete k` = the harness runs the k-th recorded
`_pool_execute_action(queue, action, event, max_size)` itself; the script of
`AOp.update` is realised by completing jobs right before each `task.update()` call
of the engine loop and between `_update_handler()` and `_update_responses()`.
-/
namespace Bobo.Engine

/-- one `_pool_execute_action(queue, action, event, max_size)` submitted to the pool. -/
structure Job where
  actName : String
  run     : Event → Bool × Data
  cev     : Event

/-- the `action.execute(event)` call the job makes. -/
def Job.exec (j : Job) : Exec := { actName := j.actName, cev := j.cev }

/-- the `BoboHandlerResponse` the job puts into the handler queue. -/
def Job.resp (j : Job) : Resp :=
  { actName := j.actName, cev := j.cev, success := (j.run j.cev).1, data := (j.run j.cev).2 }

structure ASt (σ : Type) extends St σ where
  inflight : List Job := []          -- submitted to the pool, response not put yet
  pool     : List (List Nat) := []   -- scheduler script of the current engine update
  -- ghost ------------------------------------------------------------------
  handed   : List Exec := []         -- every `handler.handle(action, event)` call

variable {σ : Type}

def initA (d : σ) : ASt σ := { toSt := init d }

/-- run a function of the blocking model on the `St` part. -/
def liftA (f : St σ → St σ × Bool) (a : ASt σ) : ASt σ × Bool :=
  ({ a with toSt := (f a.toSt).1 }, (f a.toSt).2)

/-- `BoboReceiver.add_data`. -/
def addDataA (src : Src) (it : Item) (a : ASt σ) : ASt σ :=
  { a with toSt := addData src it a.toSt }

/-! ### the pool -/

/-- the pool finishes the `k`-th in-flight execution: `action.execute(event)`, response put. -/
def complete (k : Nat) (a : ASt σ) : ASt σ :=
  match a.inflight[k]? with
  | none => a
  | some j =>
    { a with
      toSt := { a.toSt with hq := a.hq ++ [j.resp], execs := a.execs ++ [j.exec], respLog := a.respLog ++ [j.resp] }
      inflight := a.inflight.eraseIdx k }

def completeMany (ks : List Nat) (a : ASt σ) : ASt σ := ks.foldl (fun b k => complete k b) a

/-- one linearisation point inside an engine update: the completions the script schedules here. -/
def poolStep (a : ASt σ) : ASt σ :=
  match a.pool with
  | [] => a
  | ks :: rest => completeMany ks { a with pool := rest }

/-! ### forwarder + asynchronous handler -/

/-- `_update_handler` (+ `BoboActionHandlerMultithreading._execute_action`: submit, do not run). -/
def fwdHandleA (P : Params σ) (a : ASt σ) : ASt σ × Bool :=
  match a.fq with
  | [] => (a, false)
  | e :: rest =>
    let s1 : St σ := { a.toSt with fq := rest, fwdPopped := a.fwdPopped ++ [e] }
    match P.actionOf e.phen with
    | none => ({ a with toSt := s1 }, true)
    | some (name, f) =>
      ({ a with toSt := s1
                inflight := a.inflight ++ [{ actName := name, run := f, cev := e }]
                handed := a.handed ++ [{ actName := name, cev := e }] }, true)

/-- `_update_responses`: exactly the blocking model's (takes AT MOST ONE response). -/
def fwdResponsesA (P : Params σ) (a : ASt σ) : ASt σ × Bool := liftA (fwdResponses P) a

/-- `BoboForwarder.update` with no completion between its two halves. -/
def fwdUpdateA (P : Params σ) (a : ASt σ) : ASt σ × Bool :=
  let h := fwdHandleA P a
  let r := fwdResponsesA P h.1
  (r.1, h.2 || r.2)

/-- one `task.update()` call, the pool silent. -/
def taskUpdateA (P : Params σ) : Task → ASt σ → ASt σ × Bool
  | .receiver  => liftA (recvUpdate P)
  | .decider   => liftA (decUpdate P)
  | .producer  => liftA (prodUpdate P)
  | .forwarder => fwdUpdateA P

/-- one `task.update()` call inside an engine update, with the completions the script
schedules before it and (forwarder) between `_update_handler` and `_update_responses`. -/
def stepA (P : Params σ) : Task → ASt σ → ASt σ × Bool
  | .forwarder => fun a =>
    let h := fwdHandleA P (poolStep a)
    let r := fwdResponsesA P (poolStep h.1)
    (r.1, h.2 || r.2)
  | t => fun a => taskUpdateA P t (poolStep a)

/-! ### the engine loop (same shape as Model/Engine.lean, over `ASt`) -/

def whileLoopA (upd : ASt σ → ASt σ × Bool) : Nat → ASt σ → ASt σ × Bool
  | 0, s => (s, true)
  | fuel + 1, s =>
    let r := upd s
    if r.1.err.isSome then (r.1, false)
    else if r.2 then whileLoopA upd fuel r.1
    else (r.1, false)

def forLoopA (upd : ASt σ → ASt σ × Bool) (early : Bool) : Nat → ASt σ → ASt σ
  | 0, s => s
  | n + 1, s =>
    let r := upd s
    if r.1.err.isSome then r.1
    else if breakNow r.2 early then r.1
    else forLoopA upd early n r.1

/-- what each true-returning `update()` strictly decreases, WHATEVER the pool does meanwhile
(a dispatch moves an item from `fq` to `inflight`, a completion from `inflight` to `hq`). -/
def taskMeasureA : Task → ASt σ → Nat
  | .receiver,  s => s.rq.length
  | .decider,   s => s.dq.length
  | .producer,  s => s.pq.length
  | .forwarder, s => 2 * s.fq.length + s.inflight.length + s.hq.length

def runTaskFuelA (P : Params σ) (c : Cfg) (fuel : Nat) (s : ASt σ) (tt : Task × Nat) : ASt σ :=
  if s.err.isSome then s
  else
    match loopOf tt.2 with
    | .whileUpdate => (whileLoopA (stepA P tt.1) fuel s).1
    | .forRange n  => forLoopA (stepA P tt.1) c.earlyStop n s

def runTaskA (P : Params σ) (c : Cfg) (s : ASt σ) (tt : Task × Nat) : ASt σ :=
  runTaskFuelA P c (taskMeasureA tt.1 s + 1) s tt

/-- `BoboEngine.update` under the scheduler script currently in `pool`. -/
def engineUpdateA (P : Params σ) (c : Cfg) (s : ASt σ) : ASt σ :=
  (schedule c).foldl (runTaskA P c) { s with toSt := { s.toSt with err := none } }

/-- operations: the caller's `add_data` / `BoboEngine.update` (the latter with the pool's
behaviour during it), and the pool finishing an execution between two calls. -/
inductive AOp where
  | add (it : Item)
  | update (script : List (List Nat))
  | complete (k : Nat)
deriving DecidableEq, Repr

def applyOpA (P : Params σ) (c : Cfg) (s : ASt σ) : AOp → ASt σ
  | .add it => addDataA .ext it s
  | .update script => engineUpdateA P c { s with pool := script }
  | .complete k => complete k s

def runOpsA (P : Params σ) (c : Cfg) (s : ASt σ) (ops : List AOp) : ASt σ :=
  ops.foldl (applyOpA P c) s

end Bobo.Engine
