import BoboVerif.Model.Run
/-
M-Builder: model of `BoboPatternBuilder` (bobocep/cep/phenom/pattern/builder.py)
and of `BoboPredicateCallType.evaluate` (predicate.py) with the `cast`
methods of the three event kinds (bobocep/cep/event/{simple,complex,action}.py).

No Mathlib.  Blocks and patterns are those of M-Run (`Bobo.Run.Block`,
`Bobo.Run.Pattern`), so the legality rules (`Block.legal`, `Pattern.legal`)
and the walker (`process`) are shared with C01.

The builder is *state passing*: `applyCall` returns the builder as it is
after the call together with the error raised (if any) — the `for _ in
range(max(times, 1))` loop is modelled iteration by iteration
(`appendCopies`), so "a raising call leaves the builder unchanged" is a
theorem (Props/C19.lean), not an artefact of the encoding.

User predicates are parameters (`Pred ε`); wrapping a callable in
`BoboPredicateCall` is the identity on `Pred ε` (its `evaluate` is
`self._call(event, history)`).  Assumed: the callable takes two parameters
(otherwise `BoboPredicateCall.__init__` raises `BoboPredicateError`).
-/
namespace Bobo.Builder
open Bobo.Run

/-- the eight builder methods. -/
inductive Method where
  | next | notNext | followedBy | notFollowedBy | followedByAny | notFollowedByAny
  | precondition | haltcondition
deriving DecidableEq, Repr

/-- what a method appends to. -/
inductive Kind where
  | block | pre | halt
deriving DecidableEq, Repr

def Method.kind : Method → Kind
  | .precondition => .pre
  | .haltcondition => .halt
  | _ => .block

/-- `true`: the method takes `predicates` (a list) and passes the whole list to ONE block;
`false`: it takes `predicate` and passes `[predicate]`. -/
def Method.usesList : Method → Bool
  | .followedByAny | .notFollowedByAny => true
  | _ => false

/-- does the method have a `loop` / an `optional` parameter at all? (driver: anything else is `bad-op`). -/
def Method.hasLoop : Method → Bool
  | .next | .followedBy | .followedByAny => true
  | _ => false

def Method.hasOptional : Method → Bool
  | .followedBy | .followedByAny => true
  | _ => false

structure Flags where
  strict   : Bool
  loop     : Bool
  negated  : Bool
  optional : Bool
deriving DecidableEq, Repr

/-- the four flags a block-adding method passes to `BoboPatternBlock` (constants or its own parameters). -/
def flagsOf (m : Method) (loop optional : Bool) : Flags :=
  match m with
  | .next             => ⟨true,  loop,  false, false⟩
  | .notNext          => ⟨true,  false, true,  false⟩
  | .followedBy       => ⟨false, loop,  false, optional⟩
  | .notFollowedBy    => ⟨false, false, true,  false⟩
  | .followedByAny    => ⟨false, loop,  false, optional⟩
  | .notFollowedByAny => ⟨false, false, true,  false⟩
  | .precondition     => ⟨false, false, false, false⟩   -- unused (kind ≠ block)
  | .haltcondition    => ⟨false, false, false, false⟩   -- unused

/-- `range(max(times, 1))`: number of blocks one call appends. -/
def copies (times : Int) : Nat := (max times 1).toNat

/-- one builder call with its option values. `pred` is the `predicate` argument of the single-predicate
methods and of precondition/haltcondition; `preds` the `predicates` argument of the `_any` methods. -/
structure Call (ε : Type) where
  method   : Method
  pred     : Pred ε := fun _ _ => some false
  preds    : List (Pred ε) := []
  group    : String := ""
  times    : Int := 1
  loop     : Bool := false
  optional : Bool := false

inductive Err where
  | builder   -- BoboPatternBuilderError (empty name in the builder constructor)
  | block     -- BoboPatternBlockError
  | pattern   -- BoboPatternError
deriving DecidableEq, Repr

/-- the predicates handed to `BoboPatternBlock`: `[predicate]` or the whole list. -/
def predsOf {ε} (c : Call ε) : List (Pred ε) :=
  if c.method.usesList then c.preds else [c.pred]

/-- the block a block-adding call constructs (the same one on every repetition). -/
def blockOf {ε} (c : Call ε) : Block ε :=
  let f := flagsOf c.method c.loop c.optional
  { preds := predsOf c, group := c.group, strict := f.strict, loop := f.loop,
    negated := f.negated, optional := f.optional }

/-- `for _ in range(n): self._blocks.append(BoboPatternBlock(...))`: every iteration runs the block
constructor (which may raise) and then appends.  Returns the list as it is when the loop ends or raises. -/
def appendCopies {ε} (b : Block ε) : Nat → List (Block ε) → List (Block ε) × Option Err
  | 0, bs => (bs, none)
  | n + 1, bs => if b.legal then appendCopies b n (bs ++ [b]) else (bs, some .block)

/-- builder state. -/
structure St (ε : Type) where
  name      : String
  singleton : Bool
  blocks    : List (Block ε) := []
  pre       : List (Pred ε) := []
  halt      : List (Pred ε) := []

/-- `BoboPatternBuilder.__init__`. -/
def init {ε} (name : String) (singleton : Bool) : Except Err (St ε) :=
  if name.isEmpty then .error .builder else .ok { name := name, singleton := singleton }

/-- one builder method call: the builder afterwards and the error raised, if any. -/
def applyCall {ε} (s : St ε) (c : Call ε) : St ε × Option Err :=
  match c.method.kind with
  | .pre   => ({ s with pre := s.pre ++ [c.pred] }, none)
  | .halt  => ({ s with halt := s.halt ++ [c.pred] }, none)
  | .block =>
    let r := appendCopies (blockOf c) (copies c.times) s.blocks
    ({ s with blocks := r.1 }, r.2)

/-- a sequence of calls (an error is reported to the caller, who may go on using the builder). -/
def build {ε} (s : St ε) : List (Call ε) → St ε
  | [] => s
  | c :: cs => build (applyCall s c).1 cs

/-- the blocks a call contributes (what `builder_table`/`builder_copies` are stated about). -/
def blocksOf {ε} (c : Call ε) : List (Block ε) :=
  match c.method.kind with
  | .block => if (blockOf c).legal then List.replicate (copies c.times) (blockOf c) else []
  | _ => []

def presOf {ε} (c : Call ε) : List (Pred ε) := if c.method.kind = .pre then [c.pred] else []
def haltsOf {ε} (c : Call ε) : List (Pred ε) := if c.method.kind = .halt then [c.pred] else []

/-- the pattern `generate` hands to `BoboPattern(...)`: the five fields, each from the same-named attribute. -/
def toPattern {ε} (s : St ε) : Pattern ε :=
  { name := s.name, blocks := s.blocks, pre := s.pre, halt := s.halt, singleton := s.singleton }

/-- the keyword arguments of the `BoboPattern(...)` call in `generate` (parameter, attribute). -/
def generateArgs : List (String × String) :=
  [("name", "_name"), ("blocks", "_blocks"), ("preconditions", "_preconditions"),
   ("haltconditions", "_haltconditions"), ("singleton", "_singleton")]

/-- the checks `BoboPattern.__init__` itself performs (it does not re-check the blocks: they are
constructed `BoboPatternBlock` objects). -/
def ctorOk {ε} (p : Pattern ε) : Bool :=
  !p.name.isEmpty &&
  match p.blocks.head?, p.blocks.getLast? with
  | some f, some l => f.plain && l.plain
  | _, _ => false

/-- `generate()`. -/
def generate {ε} (s : St ε) : Except Err (Pattern ε) :=
  if ctorOk (toPattern s) then .ok (toPattern s) else .error .pattern

/-! ### type-checked predicate (`BoboPredicateCallType.evaluate`) -/

/-- an event: its data and everything else (`μ`: id, timestamp, names, history, …). -/
structure Ev (δ μ : Type) where
  data : δ
  rest : μ
deriving DecidableEq

/-- `BoboPredicateCallType` minus the user function.  `isInst d` = `isinstance(d, dtype)`,
`isExact d` = `type(d) == dtype`, `cast d` = `dtype(d)` (`none` = raised TypeError/ValueError) are
parameters: Python's type semantics for arbitrary user types is not modelled. -/
structure Typed (δ : Type) where
  isInst  : δ → Bool
  isExact : δ → Bool
  cast    : δ → Option δ
  subtype : Bool
  doCast  : Bool

/-- the type test actually applied. -/
def Typed.typeOk {δ} (t : Typed δ) (d : δ) : Bool := if t.subtype then t.isInst d else t.isExact d

/-- `event.cast(dtype)`: a NEW event with `data = dtype(self._data)` and every other field copied;
returns the receiver as it is afterwards as well. -/
def castEvent {δ μ} (t : Typed δ) (e : Ev δ μ) : Ev δ μ × Option (Ev δ μ) :=
  match t.cast e.data with
  | none => (e, none)
  | some d' => (e, some { data := d', rest := e.rest })

structure TypedOut (δ μ : Type) where
  result : Option Bool          -- what `evaluate` returns (`none` = the user function raised)
  handed : Option (Ev δ μ)      -- the event the user function was called with, if it was called
  orig   : Ev δ μ               -- the caller's event object after the call

/-- `BoboPredicateCallType.evaluate(event, history)` with user function `f`. -/
def evalTyped {δ μ η} (t : Typed δ) (f : Ev δ μ → η → Option Bool) (e : Ev δ μ) (h : η) : TypedOut δ μ :=
  let okType := if t.subtype then (if !t.isInst e.data then false else true)
                else (if !t.isExact e.data then false else true)
  if !okType then
    if t.doCast then
      match castEvent t e with
      | (e₀, none) => { result := some false, handed := none, orig := e₀ }
      | (e₀, some e') => { result := f e' h, handed := some e', orig := e₀ }
    else { result := some false, handed := none, orig := e }
  else { result := f e h, handed := some e, orig := e }

/-- the three outcomes of the decision part of `evaluate` (used by tie G). -/
inductive Decision where
  | retFalse | callOrig | callCast
deriving DecidableEq, Repr

/-- decision table of `evaluate` over: the two flags, the two type tests on the data, cast success. -/
def typedDecision (subtype doCast inst exact castOk : Bool) : Decision :=
  if (if subtype then inst else exact) then .callOrig
  else if doCast then (if castOk then .callCast else .retFalse)
  else .retFalse

end Bobo.Builder
