/-
M-Tcp: model of the outgoing side of `BoboDistributedTCP` (bobocep/dist/tcp.py,
`_tcp_outgoing`) and of `BoboDeviceManager` (bobocep/dist/devman.py).
No Mathlib.  `Rec` is the type of a replicated run record (the driver uses the
run id, a `String`).

Shape of the code that is mirrored here (one pass of the `while True` body):

  * decision phase (under `_lock_in_out`): ONE clock reading `now`; for every
    device in dict order, skipping the device whose urn is the instance's own,
    `comms_range`, `attempt_range`, the queue-empty flag (read per peer) and the
    stash size go through the if/elif/else tree (`selectMode`); chosen peers are
    appended to `outlist` (`decidePhase`);
  * send phase, in `outlist` order (`sendOne` / `sendPhase`): flags from
    `flag_reset`; RESYNC drops the stash *before* the send and carries the
    decider snapshot; PING carries nothing; SYNC carries `cache_sync` (resolved
    once per pass: the head of the outgoing queue, popped at most once, or the
    empty message) followed by the peer's stash; after the send the clock is
    read again and the per-branch bookkeeping (`book`) runs;
  * `last_comms` / `last_attempt` setters clamp with `max(0, ·)`;
  * (fix of F5) every device counts the resets it was asked for (`clear_last`
    increments `resets`); the decision phase reads the counter *before* the
    times and stores it in the `outlist` entry; a successful send is recorded
    with `contacted(now, seen)`, which writes `last_comms` only if the counter
    still has the value seen at the decision.  `bookOld` / `sendPeerOld` keep
    the earlier unconditional `last_comms = now` for the counter-lemma.

The generated counterparts (`Bobo.Gen.Modes.*`, translate/modes.py) of
`selectMode`, `book`, `flagsOf`, the constants, the default periods, the
device-manager mutators and the incoming-side reset test are proved equal to
the definitions below in Props/C15.lean.

`outIter` takes, per peer index, the outcome of `_tcp_send` (0 success,
1 timeout, 2 system error — the loop only tests `== 0`) and the clock reading
taken right after that send.  `decidePhase`, `sendOne` and `onIncomingFlags`
are exported separately so that C06/C07 can interleave other steps between
them.  `passSmall` (end of file) is the same pass split into the steps that the
device-manager lock makes atomic, with the listener's steps scheduled at any
boundary between them (C07).
-/
namespace Bobo.Tcp

inductive MsgType where
  | sync | ping | resync
deriving Repr, DecidableEq, Inhabited

/-- `_TYPE_SYNC`, `_TYPE_PING`, `_TYPE_RESYNC`. -/
def TYPE_SYNC : Nat := 0
def TYPE_PING : Nat := 1
def TYPE_RESYNC : Nat := 2
/-- `_FLAG_RESET`. -/
def FLAG_RESET : Nat := 1

def MsgType.code : MsgType → Nat
  | .sync => TYPE_SYNC
  | .ping => TYPE_PING
  | .resync => TYPE_RESYNC

/-- the five constructor parameters that drive the outgoing loop (Python ints: any integer). -/
structure Periods where
  periodPing    : Int
  periodResync  : Int
  attemptStash  : Int
  attemptPing   : Int
  attemptResync : Int
deriving Repr, DecidableEq

/-- constructor defaults of `BoboDistributedTCP`. -/
def Periods.default : Periods := ⟨30, 60, 5, 5, 10⟩

/-- `{completed, halted, updated}`. -/
structure Msg (Rec : Type) where
  c : List Rec
  h : List Rec
  u : List Rec
deriving Repr, DecidableEq

def Msg.empty {Rec : Type} : Msg Rec := ⟨[], [], []⟩

/-- the mutable fields of one `BoboDeviceManager`. -/
structure Peer (Rec : Type) where
  lastComms   : Int
  lastAttempt : Int
  resets      : Nat
  flagReset   : Bool
  stashC : List Rec
  stashH : List Rec
  stashU : List Rec
deriving Repr, DecidableEq

variable {Rec : Type}

/-- `BoboDeviceManager.__init__`. -/
def Peer.init (flag : Bool) : Peer Rec := ⟨0, 0, 0, flag, [], [], []⟩

/-- `last_comms` setter: `max(0, ·)`. -/
def Peer.setLastComms (p : Peer Rec) (v : Int) : Peer Rec := { p with lastComms := max 0 v }
/-- `last_attempt` setter: `max(0, ·)`. -/
def Peer.setLastAttempt (p : Peer Rec) (v : Int) : Peer Rec := { p with lastAttempt := max 0 v }
def Peer.setFlagReset (p : Peer Rec) (b : Bool) : Peer Rec := { p with flagReset := b }
/-- `clear_last`: both times to 0, one more reset counted. -/
def Peer.clearLast (p : Peer Rec) : Peer Rec :=
  { p with lastComms := 0, lastAttempt := 0, resets := p.resets + 1 }
/-- `contacted(now, resets)`: record the contact unless a reset was counted since `seen` was read. -/
def Peer.contacted (p : Peer Rec) (now : Int) (seen : Nat) : Peer Rec :=
  if p.resets = seen then { p with lastComms := max 0 now } else p
/-- `clear_stash`. -/
def Peer.clearStash (p : Peer Rec) : Peer Rec := { p with stashC := [], stashH := [], stashU := [] }
/-- `append_stash`. -/
def Peer.appendStash (p : Peer Rec) (c h u : List Rec) : Peer Rec :=
  { p with stashC := p.stashC ++ c, stashH := p.stashH ++ h, stashU := p.stashU ++ u }
/-- `size_stash`. -/
def Peer.sizeStash (p : Peer Rec) : Nat := p.stashC.length + p.stashH.length + p.stashU.length

/-- the if/elif/else tree of the decision phase.  `c = now - last_comms`,
`a = now - last_attempt`. -/
def selectMode (cfg : Periods) (c a : Int) (qEmpty : Bool) (stash : Nat) : Option MsgType :=
  if c ≥ cfg.periodResync then
    if a ≥ cfg.attemptResync then some .resync else none
  else if c ≥ cfg.periodPing ∧ (qEmpty = true ∧ stash = 0) then
    if a ≥ cfg.attemptPing then some .ping else none
  else
    if qEmpty = false ∨ (stash > 0 ∧ a ≥ cfg.attemptStash) then some .sync else none

/-- the decision for one device. -/
def decideOne (cfg : Periods) (now : Int) (qEmpty : Bool) (p : Peer Rec) : Option MsgType :=
  selectMode cfg (now - p.lastComms) (now - p.lastAttempt) qEmpty p.sizeStash

/-- the decision for one dict entry (`if d.urn == self._urn: continue`): the type and the reset
counter read (before the times) at the decision. -/
def decideEntry (cfg : Periods) (self : String) (now : Int) (qEmpty : Bool) (e : String × Peer Rec) :
    Option (MsgType × Nat) :=
  if e.1 = self then none else (decideOne cfg now qEmpty e.2).map (fun t => (t, e.2.resets))

/-- decision phase: `outlist` as (index into the device dict, (type, resets seen)), in dict order. -/
def decidePhase (cfg : Periods) (self : String) (now : Int) (qEmpty : Bool) :
    List (String × Peer Rec) → List (Nat × MsgType × Nat)
  | [] => []
  | e :: rest =>
    let tl := (decidePhase cfg self now qEmpty rest).map (fun it => (it.1 + 1, it.2))
    match decideEntry cfg self now qEmpty e with
    | some t => (0, t) :: tl
    | none => tl

/-- `msg_flags = 0; if d.flag_reset: msg_flags += _FLAG_RESET`. -/
def flagsOf (p : Peer Rec) : Nat := if p.flagReset then 0 + FLAG_RESET else 0

/-- what a branch does to the device *before* the send (RESYNC: `clear_stash`). -/
def prep (t : MsgType) (p : Peer Rec) : Peer Rec :=
  match t with
  | .resync => p.clearStash
  | _ => p

/-- the payload handed to `_tcp_send` (`p` is the device after `prep`). -/
def payload (t : MsgType) (snapshot cache : Msg Rec) (p : Peer Rec) : Msg Rec :=
  match t with
  | .resync => snapshot
  | .ping => Msg.empty
  | .sync => ⟨cache.c ++ p.stashC, cache.h ++ p.stashH, cache.u ++ p.stashU⟩

/-- `if (msg_flags & _FLAG_RESET) == _FLAG_RESET: d.flag_reset = False`. -/
def clearFlagIfSent (flags : Nat) (p : Peer Rec) : Peer Rec :=
  if flags &&& FLAG_RESET = FLAG_RESET then p.setFlagReset false else p

/-- per-branch post-send bookkeeping up to (not including) the final `d.last_attempt = now`;
`now` is the clock read after the send, `seen` the reset counter read at the decision. -/
def bookContact (t : MsgType) (flags err : Nat) (now : Int) (seen : Nat) (cache : Msg Rec) (p : Peer Rec) : Peer Rec :=
  match t with
  | .resync => if err = 0 then clearFlagIfSent flags (p.contacted now seen) else p
  | .ping => if err = 0 then clearFlagIfSent flags (p.contacted now seen) else p
  | .sync =>
    if err = 0 then clearFlagIfSent flags (p.clearStash.contacted now seen)
    else p.appendStash cache.c cache.h cache.u

/-- per-branch post-send bookkeeping. -/
def book (t : MsgType) (flags err : Nat) (now : Int) (seen : Nat) (cache : Msg Rec) (p : Peer Rec) : Peer Rec :=
  (bookContact t flags err now seen cache p).setLastAttempt now

/-- the bookkeeping before the fix of F5: `d.last_comms = now`, whatever happened since the decision. -/
def bookContactOld (t : MsgType) (flags err : Nat) (now : Int) (cache : Msg Rec) (p : Peer Rec) : Peer Rec :=
  match t with
  | .resync => if err = 0 then clearFlagIfSent flags (p.setLastComms now) else p
  | .ping => if err = 0 then clearFlagIfSent flags (p.setLastComms now) else p
  | .sync =>
    if err = 0 then clearFlagIfSent flags (p.clearStash.setLastComms now)
    else p.appendStash cache.c cache.h cache.u

def bookOld (t : MsgType) (flags err : Nat) (now : Int) (cache : Msg Rec) (p : Peer Rec) : Peer Rec :=
  (bookContactOld t flags err now cache p).setLastAttempt now

/-- everything one send-loop body does to its device, and what it hands to the wire. -/
def sendPeer (t : MsgType) (seen : Nat) (snapshot cache : Msg Rec) (err : Nat) (clock : Int) (p : Peer Rec) :
    Peer Rec × Nat × Msg Rec :=
  let flags := flagsOf p
  let p1 := prep t p
  (book t flags err clock seen cache p1, flags, payload t snapshot cache p1)

/-- one call of `_tcp_send` as seen from outside. -/
structure Wire (Rec : Type) where
  peer    : Nat
  typ     : MsgType
  flags   : Nat
  payload : Msg Rec
deriving Repr, DecidableEq

/-- state threaded through the send phase. -/
structure SendSt (Rec : Type) where
  peers : List (String × Peer Rec)
  queue : List (Msg Rec)
  cache : Option (Msg Rec)
  wires : List (Wire Rec)

/-- `if cache_sync is None: (pop the queue head | empty message)`; only on a SYNC branch. -/
def fetch (t : MsgType) (cache : Option (Msg Rec)) (queue : List (Msg Rec)) : Option (Msg Rec) × List (Msg Rec) :=
  match t, cache, queue with
  | .sync, none, m :: q => (some m, q)
  | .sync, none, [] => (some Msg.empty, [])
  | _, c, q => (c, q)

/-- one iteration of `for d, msg_type in outlist`. `outcome i` = (`_tcp_send` result, clock after the send). -/
def sendOne (snapshot : Msg Rec) (outcome : Nat → Nat × Int) (st : SendSt Rec) (it : Nat × MsgType × Nat) : SendSt Rec :=
  match st.peers[it.1]? with
  | none => st
  | some e =>
    let f := fetch it.2.1 st.cache st.queue
    let r := sendPeer it.2.1 it.2.2 snapshot (f.1.getD Msg.empty) (outcome it.1).1 (outcome it.1).2 e.2
    { peers := st.peers.set it.1 (e.1, r.1), queue := f.2, cache := f.1,
      wires := st.wires ++ [⟨it.1, it.2.1, r.2.1, r.2.2⟩] }

def sendPhase (snapshot : Msg Rec) (outcome : Nat → Nat × Int) (st : SendSt Rec) (outlist : List (Nat × MsgType × Nat)) : SendSt Rec :=
  outlist.foldl (sendOne snapshot outcome) st

/-- the instance: own urn, periods, outgoing queue, device dict (insertion order, own entry included). -/
structure TState (Rec : Type) where
  self  : String
  cfg   : Periods
  queue : List (Msg Rec)
  peers : List (String × Peer Rec)

/-- one pass of the `while True` body of `_tcp_outgoing`. -/
def outIter (s : TState Rec) (now : Int) (snapshot : Msg Rec) (outcome : Nat → Nat × Int) :
    TState Rec × List (Wire Rec) :=
  let outlist := decidePhase s.cfg s.self now s.queue.isEmpty s.peers
  let st := sendPhase snapshot outcome ⟨s.peers, s.queue, none, []⟩ outlist
  ({ s with queue := st.queue, peers := st.peers }, st.wires)

/-- `on_decider_update(..., local=True)` on a running instance with an unbounded queue. -/
def push (s : TState Rec) (m : Msg Rec) : TState Rec := { s with queue := s.queue ++ [m] }

/-- incoming side, last step of `_tcp_incoming_handle_client`:
`if (pt_flags & _FLAG_RESET) == _FLAG_RESET: device.clear_last()`. -/
def onIncomingFlags (flags : Nat) (p : Peer Rec) : Peer Rec :=
  if flags &&& FLAG_RESET = FLAG_RESET then p.clearLast else p

/-- the listener's step on the device dict. -/
def incomingPeers (peers : List (String × Peer Rec)) (j : Nat) (flags : Nat) : List (String × Peer Rec) :=
  match peers[j]? with
  | none => peers
  | some e => peers.set j (e.1, onIncomingFlags flags e.2)

/-- a message with flags `flags` from device index `j` has been handled by the listener. -/
def incoming (s : TState Rec) (j : Nat) (flags : Nat) : TState Rec :=
  { s with peers := incomingPeers s.peers j flags }

/-! ### sequences of passes (sequential model: other threads act between passes) -/

inductive Step (Rec : Type) where
  | pass (now : Int) (snapshot : Msg Rec) (outcome : Nat → Nat × Int)
  | push (m : Msg Rec)
  | incoming (j : Nat) (flags : Nat)

/-- what can be observed of one step. -/
inductive Obs (Rec : Type) where
  | pass (now : Int) (qEmpty : Bool) (outcome : Nat → Nat × Int) (wires : List (Wire Rec))
  | push
  | incoming (j : Nat) (flags : Nat)

def step (s : TState Rec) : Step Rec → TState Rec × Obs Rec
  | .pass now snap outcome =>
    let r := outIter s now snap outcome
    (r.1, .pass now s.queue.isEmpty outcome r.2)
  | .push m => (push s m, .push)
  | .incoming j flags => (incoming s j flags, .incoming j flags)

def run (s : TState Rec) : List (Step Rec) → List (Obs Rec)
  | [] => []
  | x :: xs => (step s x).2 :: run (step s x).1 xs

/-- final state of a run. -/
def runState (s : TState Rec) : List (Step Rec) → TState Rec
  | [] => s
  | x :: xs => runState (step s x).1 xs

/-! ### one pass in small steps (C07)

The outgoing thread's pass, split at every access of a `BoboDeviceManager` that can interact with
the listener thread (each access takes the device lock, so it is atomic; the listener's only
writes to the fields modelled here are those of `clear_last`):

  decision phase, per device `i` other than self, in dict order:
      R(i) read `resets` ; C(i) read `last_comms` ; X(i) read `last_attempt`, queue-empty, stash size and decide
  send phase, per `outlist` entry `(i, t, seen)`:
      P(i) read `flag_reset`, pre-send mutation, build the payload ; the send itself (no lock held) ;
      K(i) bookkeeping up to `contacted(now, seen)` / `append_stash` ; T(i) `last_attempt = now`

`sched pt` is the list of messages `(device index, flags)` the listener handles at boundary `pt`. -/

inductive Point where
  | beforeResets (i : Nat)   -- before R(i)  (for the first device: before the pass)
  | beforeComms (i : Nat)    -- between R(i) and C(i)
  | beforeRest (i : Nat)     -- between C(i) and X(i)
  | beforePre (i : Nat)      -- before P(i)  (after the decision phase / the previous entry)
  | duringSend (i : Nat)     -- between P(i) and K(i): while `_tcp_send` runs
  | beforeAttempt (i : Nat)  -- between K(i) and T(i)
  | atEnd                    -- after the last step of the pass
deriving Repr, DecidableEq

def applyInc (peers : List (String × Peer Rec)) (evs : List (Nat × Nat)) : List (String × Peer Rec) :=
  evs.foldl (fun ps ev => incomingPeers ps ev.1 ev.2) peers

/-- R(i), C(i), X(i) for the device at index `i`, with the listener's steps in between. -/
def decideSmall (cfg : Periods) (self : String) (now : Int) (qEmpty : Nat → Bool) (sched : Point → List (Nat × Nat))
    (acc : List (String × Peer Rec) × List (Nat × MsgType × Nat)) (i : Nat) :
    List (String × Peer Rec) × List (Nat × MsgType × Nat) :=
  match acc.1[i]? with
  | none => acc
  | some e =>
    if e.1 = self then acc else
    let ps1 := applyInc acc.1 (sched (.beforeResets i))
    match ps1[i]? with
    | none => (ps1, acc.2)
    | some e1 =>
      let seen := e1.2.resets
      let ps2 := applyInc ps1 (sched (.beforeComms i))
      match ps2[i]? with
      | none => (ps2, acc.2)
      | some e2 =>
        let lc := e2.2.lastComms
        let ps3 := applyInc ps2 (sched (.beforeRest i))
        match ps3[i]? with
        | none => (ps3, acc.2)
        | some e3 =>
          match selectMode cfg (now - lc) (now - e3.2.lastAttempt) (qEmpty i) e3.2.sizeStash with
          | some t => (ps3, acc.2 ++ [(i, t, seen)])
          | none => (ps3, acc.2)

/-- P(i), the send, K(i), T(i) for one `outlist` entry, with the listener's steps in between. -/
def sendSmall (book? : Bool) (snapshot : Msg Rec) (outcome : Nat → Nat × Int) (sched : Point → List (Nat × Nat))
    (st : SendSt Rec) (it : Nat × MsgType × Nat) : SendSt Rec :=
  let ps0 := applyInc st.peers (sched (.beforePre it.1))
  match ps0[it.1]? with
  | none => { st with peers := ps0 }
  | some e0 =>
    let f := fetch it.2.1 st.cache st.queue
    let cache := f.1.getD Msg.empty
    let flags := flagsOf e0.2
    let p1 := prep it.2.1 e0.2
    let w : Wire Rec := ⟨it.1, it.2.1, flags, payload it.2.1 snapshot cache p1⟩
    let ps1 := applyInc (ps0.set it.1 (e0.1, p1)) (sched (.duringSend it.1))
    match ps1[it.1]? with
    | none => { peers := ps1, queue := f.2, cache := f.1, wires := st.wires ++ [w] }
    | some e1 =>
      let pk := if book? then bookContact it.2.1 flags (outcome it.1).1 (outcome it.1).2 it.2.2 cache e1.2
                else bookContactOld it.2.1 flags (outcome it.1).1 (outcome it.1).2 cache e1.2
      let ps2 := applyInc (ps1.set it.1 (e1.1, pk)) (sched (.beforeAttempt it.1))
      match ps2[it.1]? with
      | none => { peers := ps2, queue := f.2, cache := f.1, wires := st.wires ++ [w] }
      | some e2 =>
        { peers := ps2.set it.1 (e2.1, e2.2.setLastAttempt (outcome it.1).2), queue := f.2, cache := f.1,
          wires := st.wires ++ [w] }

/-- one pass in small steps; `fixed = true` is the current code, `false` the bookkeeping before the
fix of F5.  Returns the state, the wire log and the `outlist` of the pass. -/
def passSmallG (fixed : Bool) (s : TState Rec) (now : Int) (qEmpty : Nat → Bool) (snapshot : Msg Rec)
    (outcome : Nat → Nat × Int) (sched : Point → List (Nat × Nat)) :
    TState Rec × List (Wire Rec) × List (Nat × MsgType × Nat) :=
  let d := (List.range s.peers.length).foldl (decideSmall s.cfg s.self now qEmpty sched) (s.peers, [])
  let st := d.2.foldl (sendSmall fixed snapshot outcome sched) ⟨d.1, s.queue, none, []⟩
  ({ s with queue := st.queue, peers := applyInc st.peers (sched .atEnd) }, st.wires, d.2)

def passSmall (s : TState Rec) (now : Int) (qEmpty : Nat → Bool) (snapshot : Msg Rec)
    (outcome : Nat → Nat × Int) (sched : Point → List (Nat × Nat)) :=
  passSmallG true s now qEmpty snapshot outcome sched

end Bobo.Tcp
