/-
M-Tcp: model of the outgoing side of `BoboDistributedTCP` (bobocep/dist/tcp.py,
`_tcp_outgoing`) and of `BoboDeviceManager` (bobocep/dist/devman.py).
No Mathlib.  `Rec` is the type of a replicated run record (the driver uses the
run id, a `String`).

Shape of the code that is mirrored here (one pass of the `while True` body):

  * decision phase (under `_lock_in_out`): ONE clock reading `now`; for every
    device in dict order, skipping the device whose urn is the instance's own,
    `comms_range`, `attempt_range`, the queue-empty flag (read per peer) and the
    stash size go through the if/elif/else tree (`selectMode`); chosen peers are
    appended to `outlist` (`decidePhase`);
  * send phase, in `outlist` order (`sendOne` / `sendPhase`): flags from
    `flag_reset`; RESYNC drops the stash *before* the send and carries the
    decider snapshot; PING carries nothing; SYNC carries `cache_sync` (resolved
    once per pass: the head of the outgoing queue, popped at most once, or the
    empty message) followed by the peer's stash; after the send the clock is
    read again and the per-branch bookkeeping (`book`) runs;
  * `last_comms` / `last_attempt` setters clamp with `max(0, ·)`.

The generated counterparts (`Bobo.Gen.Modes.*`, translate/modes.py) of
`selectMode`, `book`, `flagsOf`, the constants, the default periods, the
device-manager mutators and the incoming-side reset test are proved equal to
the definitions below in Props/C15.lean.

`outIter` takes, per peer index, the outcome of `_tcp_send` (0 success,
1 timeout, 2 system error — the loop only tests `== 0`) and the clock reading
taken right after that send.  `decidePhase`, `sendOne` and `onIncomingFlags`
are exported separately so that C06/C07 can interleave other steps between
them.
-/
namespace Bobo.Tcp

inductive MsgType where
  | sync | ping | resync
deriving Repr, DecidableEq, Inhabited

/-- `_TYPE_SYNC`, `_TYPE_PING`, `_TYPE_RESYNC`. -/
def TYPE_SYNC : Nat := 0
def TYPE_PING : Nat := 1
def TYPE_RESYNC : Nat := 2
/-- `_FLAG_RESET`. -/
def FLAG_RESET : Nat := 1

def MsgType.code : MsgType → Nat
  | .sync => TYPE_SYNC
  | .ping => TYPE_PING
  | .resync => TYPE_RESYNC

/-- the five constructor parameters that drive the outgoing loop (Python ints: any integer). -/
structure Periods where
  periodPing    : Int
  periodResync  : Int
  attemptStash  : Int
  attemptPing   : Int
  attemptResync : Int
deriving Repr, DecidableEq

/-- constructor defaults of `BoboDistributedTCP`. -/
def Periods.default : Periods := ⟨30, 60, 5, 5, 10⟩

/-- `{completed, halted, updated}`. -/
structure Msg (Rec : Type) where
  c : List Rec
  h : List Rec
  u : List Rec
deriving Repr, DecidableEq

def Msg.empty {Rec : Type} : Msg Rec := ⟨[], [], []⟩

/-- the mutable fields of one `BoboDeviceManager`. -/
structure Peer (Rec : Type) where
  lastComms   : Int
  lastAttempt : Int
  flagReset   : Bool
  stashC : List Rec
  stashH : List Rec
  stashU : List Rec
deriving Repr, DecidableEq

variable {Rec : Type}

/-- `BoboDeviceManager.__init__`. -/
def Peer.init (flag : Bool) : Peer Rec := ⟨0, 0, flag, [], [], []⟩

/-- `last_comms` setter: `max(0, ·)`. -/
def Peer.setLastComms (p : Peer Rec) (v : Int) : Peer Rec := { p with lastComms := max 0 v }
/-- `last_attempt` setter: `max(0, ·)`. -/
def Peer.setLastAttempt (p : Peer Rec) (v : Int) : Peer Rec := { p with lastAttempt := max 0 v }
def Peer.setFlagReset (p : Peer Rec) (b : Bool) : Peer Rec := { p with flagReset := b }
/-- `clear_last`. -/
def Peer.clearLast (p : Peer Rec) : Peer Rec := { p with lastComms := 0, lastAttempt := 0 }
/-- `clear_stash`. -/
def Peer.clearStash (p : Peer Rec) : Peer Rec := { p with stashC := [], stashH := [], stashU := [] }
/-- `append_stash`. -/
def Peer.appendStash (p : Peer Rec) (c h u : List Rec) : Peer Rec :=
  { p with stashC := p.stashC ++ c, stashH := p.stashH ++ h, stashU := p.stashU ++ u }
/-- `size_stash`. -/
def Peer.sizeStash (p : Peer Rec) : Nat := p.stashC.length + p.stashH.length + p.stashU.length

/-- the if/elif/else tree of the decision phase.  `c = now - last_comms`,
`a = now - last_attempt`. -/
def selectMode (cfg : Periods) (c a : Int) (qEmpty : Bool) (stash : Nat) : Option MsgType :=
  if c ≥ cfg.periodResync then
    if a ≥ cfg.attemptResync then some .resync else none
  else if c ≥ cfg.periodPing ∧ (qEmpty = true ∧ stash = 0) then
    if a ≥ cfg.attemptPing then some .ping else none
  else
    if qEmpty = false ∨ (stash > 0 ∧ a ≥ cfg.attemptStash) then some .sync else none

/-- the decision for one device. -/
def decideOne (cfg : Periods) (now : Int) (qEmpty : Bool) (p : Peer Rec) : Option MsgType :=
  selectMode cfg (now - p.lastComms) (now - p.lastAttempt) qEmpty p.sizeStash

/-- the decision for one dict entry (`if d.urn == self._urn: continue`). -/
def decideEntry (cfg : Periods) (self : String) (now : Int) (qEmpty : Bool) (e : String × Peer Rec) : Option MsgType :=
  if e.1 = self then none else decideOne cfg now qEmpty e.2

/-- decision phase: `outlist` as (index into the device dict, type), in dict order. -/
def decidePhase (cfg : Periods) (self : String) (now : Int) (qEmpty : Bool) :
    List (String × Peer Rec) → List (Nat × MsgType)
  | [] => []
  | e :: rest =>
    let tl := (decidePhase cfg self now qEmpty rest).map (fun it => (it.1 + 1, it.2))
    match decideEntry cfg self now qEmpty e with
    | some t => (0, t) :: tl
    | none => tl

/-- `msg_flags = 0; if d.flag_reset: msg_flags += _FLAG_RESET`. -/
def flagsOf (p : Peer Rec) : Nat := if p.flagReset then 0 + FLAG_RESET else 0

/-- what a branch does to the device *before* the send (RESYNC: `clear_stash`). -/
def prep (t : MsgType) (p : Peer Rec) : Peer Rec :=
  match t with
  | .resync => p.clearStash
  | _ => p

/-- the payload handed to `_tcp_send` (`p` is the device after `prep`). -/
def payload (t : MsgType) (snapshot cache : Msg Rec) (p : Peer Rec) : Msg Rec :=
  match t with
  | .resync => snapshot
  | .ping => Msg.empty
  | .sync => ⟨cache.c ++ p.stashC, cache.h ++ p.stashH, cache.u ++ p.stashU⟩

/-- `if (msg_flags & _FLAG_RESET) == _FLAG_RESET: d.flag_reset = False`. -/
def clearFlagIfSent (flags : Nat) (p : Peer Rec) : Peer Rec :=
  if flags &&& FLAG_RESET = FLAG_RESET then p.setFlagReset false else p

/-- per-branch post-send bookkeeping; `now` is the clock read after the send. -/
def book (t : MsgType) (flags err : Nat) (now : Int) (cache : Msg Rec) (p : Peer Rec) : Peer Rec :=
  match t with
  | .resync =>
    (if err = 0 then clearFlagIfSent flags (p.setLastComms now) else p).setLastAttempt now
  | .ping =>
    (if err = 0 then clearFlagIfSent flags (p.setLastComms now) else p).setLastAttempt now
  | .sync =>
    (if err = 0 then clearFlagIfSent flags (p.clearStash.setLastComms now)
     else p.appendStash cache.c cache.h cache.u).setLastAttempt now

/-- everything one send-loop body does to its device, and what it hands to the wire. -/
def sendPeer (t : MsgType) (snapshot cache : Msg Rec) (err : Nat) (clock : Int) (p : Peer Rec) :
    Peer Rec × Nat × Msg Rec :=
  let flags := flagsOf p
  let p1 := prep t p
  (book t flags err clock cache p1, flags, payload t snapshot cache p1)

/-- one call of `_tcp_send` as seen from outside. -/
structure Wire (Rec : Type) where
  peer    : Nat
  typ     : MsgType
  flags   : Nat
  payload : Msg Rec
deriving Repr, DecidableEq

/-- state threaded through the send phase. -/
structure SendSt (Rec : Type) where
  peers : List (String × Peer Rec)
  queue : List (Msg Rec)
  cache : Option (Msg Rec)
  wires : List (Wire Rec)

/-- `if cache_sync is None: (pop the queue head | empty message)`; only on a SYNC branch. -/
def fetch (t : MsgType) (cache : Option (Msg Rec)) (queue : List (Msg Rec)) : Option (Msg Rec) × List (Msg Rec) :=
  match t, cache, queue with
  | .sync, none, m :: q => (some m, q)
  | .sync, none, [] => (some Msg.empty, [])
  | _, c, q => (c, q)

/-- one iteration of `for d, msg_type in outlist`. `outcome i` = (`_tcp_send` result, clock after the send). -/
def sendOne (snapshot : Msg Rec) (outcome : Nat → Nat × Int) (st : SendSt Rec) (it : Nat × MsgType) : SendSt Rec :=
  match st.peers[it.1]? with
  | none => st
  | some e =>
    let f := fetch it.2 st.cache st.queue
    let r := sendPeer it.2 snapshot (f.1.getD Msg.empty) (outcome it.1).1 (outcome it.1).2 e.2
    { peers := st.peers.set it.1 (e.1, r.1), queue := f.2, cache := f.1,
      wires := st.wires ++ [⟨it.1, it.2, r.2.1, r.2.2⟩] }

def sendPhase (snapshot : Msg Rec) (outcome : Nat → Nat × Int) (st : SendSt Rec) (outlist : List (Nat × MsgType)) : SendSt Rec :=
  outlist.foldl (sendOne snapshot outcome) st

/-- the instance: own urn, periods, outgoing queue, device dict (insertion order, own entry included). -/
structure TState (Rec : Type) where
  self  : String
  cfg   : Periods
  queue : List (Msg Rec)
  peers : List (String × Peer Rec)

/-- one pass of the `while True` body of `_tcp_outgoing`. -/
def outIter (s : TState Rec) (now : Int) (snapshot : Msg Rec) (outcome : Nat → Nat × Int) :
    TState Rec × List (Wire Rec) :=
  let outlist := decidePhase s.cfg s.self now s.queue.isEmpty s.peers
  let st := sendPhase snapshot outcome ⟨s.peers, s.queue, none, []⟩ outlist
  ({ s with queue := st.queue, peers := st.peers }, st.wires)

/-- `on_decider_update(..., local=True)` on a running instance with an unbounded queue. -/
def push (s : TState Rec) (m : Msg Rec) : TState Rec := { s with queue := s.queue ++ [m] }

/-- incoming side, last step of `_tcp_incoming_handle_client`:
`if (pt_flags & _FLAG_RESET) == _FLAG_RESET: device.clear_last()`. -/
def onIncomingFlags (flags : Nat) (p : Peer Rec) : Peer Rec :=
  if flags &&& FLAG_RESET = FLAG_RESET then p.clearLast else p

/-- a message with flags `flags` from device index `j` has been handled by the listener. -/
def incoming (s : TState Rec) (j : Nat) (flags : Nat) : TState Rec :=
  match s.peers[j]? with
  | none => s
  | some e => { s with peers := s.peers.set j (e.1, onIncomingFlags flags e.2) }

/-! ### sequences of passes (sequential model: other threads act between passes) -/

inductive Step (Rec : Type) where
  | pass (now : Int) (snapshot : Msg Rec) (outcome : Nat → Nat × Int)
  | push (m : Msg Rec)
  | incoming (j : Nat) (flags : Nat)

/-- what can be observed of one step. -/
inductive Obs (Rec : Type) where
  | pass (now : Int) (qEmpty : Bool) (outcome : Nat → Nat × Int) (wires : List (Wire Rec))
  | push
  | incoming (j : Nat) (flags : Nat)

def step (s : TState Rec) : Step Rec → TState Rec × Obs Rec
  | .pass now snap outcome =>
    let r := outIter s now snap outcome
    (r.1, .pass now s.queue.isEmpty outcome r.2)
  | .push m => (push s m, .push)
  | .incoming j flags => (incoming s j flags, .incoming j flags)

def run (s : TState Rec) : List (Step Rec) → List (Obs Rec)
  | [] => []
  | x :: xs => (step s x).2 :: run (step s x).1 xs

/-- final state of a run. -/
def runState (s : TState Rec) : List (Step Rec) → TState Rec
  | [] => s
  | x :: xs => runState (step s x).1 xs

end Bobo.Tcp
