/-
M-Frame: model of the inbound side of `BoboDistributedTCP` (bobocep/dist/tcp.py):
`_tcp_incoming_handle_client` (receive loop + the check/write sequence after a
frame was recognised), `_split_plaintext`, and the exception handling of the
accept loop `_tcp_incoming`.  No Mathlib.

What is abstract (parameters, never axioms):
* `Ops.decrypt` — `BoboDistributedCryptoAES.decrypt` as a verdict on the bytes
  (`none` = `ValueError`, i.e. tag / UTF-8 failure);
* `Ops.parse` — `_incoming_from_json` as a verdict on the JSON text
  (`some e` = it raised an exception of class `e`).

The functions named `…Old` are the bodies as they stood at the pinned commit
(findings F7, F8, F14); they are kept only for the counter-lemmas.
-/
namespace Bobo.Frame

abbrev Bytes := List Nat

/-- what one `client_s.recv(n)` can do. `chunk bs`: `bs` are available (at most `n` of them are returned,
the rest stays at the head of the stream); `eof`: returns `b""`; `silent`: nothing arrives. -/
inductive RecvResult where
  | chunk (bs : Bytes)
  | eof
  | silent
deriving Repr, DecidableEq

/-- exception classes that can leave the handler (and `exception`, the root used by the last `except` clause). -/
inductive Exc where
  | timeoutErr   -- BoboDistributedTimeoutError
  | systemErr    -- BoboDistributedSystemError
  | distErr      -- BoboDistributedError itself and its other subclasses (JSON decode error, device error)
  | valueErr     -- ValueError (int(), json.JSONDecodeError)
  | sockTimeout  -- socket.timeout (from accept)
  | otherExc     -- any other subclass of Exception (NameError, KeyError, RecursionError, OSError, …)
  | exception    -- Exception (only as a handler)
  | baseExc      -- BaseException outside Exception
deriving Repr, DecidableEq

def Exc.name : Exc → String
  | .timeoutErr => "timeout" | .systemErr => "system" | .distErr => "dist" | .valueErr => "value"
  | .sockTimeout => "socktimeout" | .otherExc => "other" | .exception => "exception" | .baseExc => "base"

structure Cfg where
  minLen    : Nat          -- crypto.min_length()
  marker    : Bytes        -- crypto.end_bytes()
  timeout   : Int          -- timeout_receive
  recvBytes : Nat          -- recv_bytes
  queueCap  : Nat := 0     -- max_size_incoming (0 = unbounded)
deriving Repr

/-! ### the receive loop -/

/-- Python `x[-k:]` (`k ≥ 0`): the last `k` elements, the whole list if it is shorter; `x[-0:]` is `x`. -/
def lastN (k : Nat) (l : Bytes) : Bytes := if k = 0 then l else l.drop (l.length - k)

/-- the end-of-message test (after the F7 repair it reads the accumulated bytes). -/
def endTest (cfg : Cfg) (allBytes _bytesMsg : Bytes) : Bool :=
  decide (allBytes.length ≥ cfg.minLen) && (lastN cfg.marker.length allBytes == cfg.marker)

/-- F7: the pinned tree tested the last chunk. -/
def endTestOld (cfg : Cfg) (_allBytes bytesMsg : Bytes) : Bool :=
  decide (bytesMsg.length ≥ cfg.minLen) && (lastN cfg.marker.length bytesMsg == cfg.marker)

/-- `elapse >= self._timeout_receive` with `elapse = now - client_accepted`. -/
def elapsedTest (cfg : Cfg) (now accepted : Int) : Bool := decide (now - accepted ≥ cfg.timeout)

/-- one `recv(n)` on a scripted stream; an exhausted script is a closed connection. -/
def recv (n : Nat) : List RecvResult → RecvResult × List RecvResult
  | [] => (.eof, [])
  | .chunk bs :: rest =>
    if bs.length ≤ n then (.chunk bs, rest) else (.chunk (bs.take n), .chunk (bs.drop n) :: rest)
  | r :: rest => (r, rest)

inductive LoopOut where
  | frame (all : Bytes)     -- end-of-message test passed with `all` accumulated
  | timeout (upTo : Int)    -- BoboDistributedTimeoutError; `upTo`: clock value by which the handler has given up
  | blocked                 -- recv never returns (only without a socket timeout: F8)
  | clockOut                -- model artefact: the list of clock readings ran out
deriving Repr, DecidableEq

structure LoopRes where
  out   : LoopOut
  reads : Nat              -- number of `recv` calls made
deriving Repr, DecidableEq

/-- the `while True` of `_tcp_incoming_handle_client`; one clock reading per iteration, consumed first.
`test` is the end-of-message test, `sockTimeout` says whether the accepted socket has a receive timeout. -/
def recvLoopG (test : Cfg → Bytes → Bytes → Bool) (sockTimeout : Bool) (cfg : Cfg) (accepted : Int) :
    List Int → List RecvResult → Bytes → Nat → LoopRes
  | [], _, _, k => ⟨.clockOut, k⟩
  | now :: clock, script, acc, k =>
    if elapsedTest cfg now accepted then ⟨.timeout now, k⟩
    else
      match recv cfg.recvBytes script with
      | (.silent, _) =>
        if sockTimeout then ⟨.timeout (now + cfg.timeout), k + 1⟩ else ⟨.blocked, k + 1⟩
      | (.eof, script') =>
        if test cfg acc [] then ⟨.frame acc, k + 1⟩
        else recvLoopG test sockTimeout cfg accepted clock script' acc (k + 1)
      | (.chunk bs, script') =>
        if test cfg (acc ++ bs) bs then ⟨.frame (acc ++ bs), k + 1⟩
        else recvLoopG test sockTimeout cfg accepted clock script' (acc ++ bs) (k + 1)

/-- after the F8 repair the accepted socket has `settimeout(timeout_receive)` and `socket.timeout`
from `recv` becomes BoboDistributedTimeoutError. -/
def sockTimeout : Bool := true

def recvLoop := recvLoopG endTest sockTimeout
def recvLoopOld := recvLoopG endTestOld false

/-! ### `_split_plaintext` -/

structure Fields where
  urn   : String
  key   : String
  type  : Int
  flags : Int
  json  : String
deriving Repr, DecidableEq

/-- the text before the first space and the text after it (`none`: no space). -/
def cutSpace : List Char → Option (List Char × List Char)
  | [] => none
  | c :: cs =>
    if c = ' ' then some ([], cs)
    else match cutSpace cs with
      | none => none
      | some (a, b) => some (c :: a, b)

def pyIsSpace (c : Char) : Bool :=
  c = ' ' || c = '\t' || c = '\n' || c = '\r' || c.toNat = 0x0b || c.toNat = 0x0c ||
  (0x1c ≤ c.toNat && c.toNat ≤ 0x1f)

/-- digits with single underscores between them (Python's integer-literal grammar for `int(str)`). -/
def pyDigits : List Char → Option Nat → Bool → Option Nat
  | [], acc, lastUnderscore => if lastUnderscore then none else acc
  | c :: cs, acc, lastUnderscore =>
    if c.isDigit then pyDigits cs (some (acc.getD 0 * 10 + (c.toNat - '0'.toNat))) false
    else if c = '_' then
      (if lastUnderscore || acc.isNone then none else pyDigits cs acc true)
    else none

/-- CPython refuses more than 4300 digits (`sys.get_int_max_str_digits()`). -/
def maxStrDigits : Nat := 4300

/-- Python `int(s)` for an ASCII `str` (`none` = `ValueError`). -/
def pyInt (s : List Char) : Option Int :=
  let t := (s.dropWhile pyIsSpace).reverse.dropWhile pyIsSpace |>.reverse
  let (neg, body) := match t with
    | '-' :: r => (true, r)
    | '+' :: r => (false, r)
    | r => (false, r)
  if (body.filter Char.isDigit).length > maxStrDigits then none
  else match pyDigits body none false with
    | none => none
    | some n => some (if neg then - (n : Int) else (n : Int))

/-- `_split_plaintext`: the first four spaces delimit urn, key, type, flags; the rest is the JSON text. -/
def splitPlain (pt : String) : Except Exc Fields :=
  match cutSpace pt.toList with
  | none => .error .distErr
  | some (urn, r1) =>
    match cutSpace r1 with
    | none => .error .distErr
    | some (key, r2) =>
      match cutSpace r2 with
      | none => .error .distErr
      | some (ty, r3) =>
        match cutSpace r3 with
        | none => .error .distErr
        | some (fl, json) =>
          match pyInt ty with
          | none => .error .valueErr
          | some t =>
            match pyInt fl with
            | none => .error .valueErr
            | some f => .ok ⟨String.ofList urn, String.ofList key, t, f, String.ofList json⟩

/-! ### the peer table and the check / write sequence -/

structure Peer where
  urn         : String
  key         : String
  addr        : String
  lastComms   : Int
  lastAttempt : Int
  flagReset   : Bool
  stash       : List Nat
deriving Repr, DecidableEq

/-- everything the handler can write. -/
structure St where
  peers : List Peer          -- `self._devices` (insertion order)
  queue : List String        -- `self._queue_incoming`: the JSON texts whose parse result was queued
deriving Repr, DecidableEq

def findPeer (urn : String) : List Peer → Option Peer
  | [] => none
  | p :: ps => if p.urn = urn then some p else findPeer urn ps

/-- apply `f` to the (first) peer named `urn`. -/
def updPeer (urn : String) (f : Peer → Peer) : List Peer → List Peer
  | [] => []
  | p :: ps => if p.urn = urn then f p :: ps else p :: updPeer urn f ps

/-- abstract user / library code. -/
structure Ops where
  decrypt : Bytes → Option String     -- decrypt: `none` = ValueError
  parse : String → Option Exc        -- _incoming_from_json: `some e` = raised `e`

/-- the statements of the handler after the end-of-message test, in source order
(the list itself is regenerated from /repo by translate/frame.py). -/
inductive Step where
  | openMsg        -- try: plaintext = decrypt(all_bytes)  except ValueError: raise SystemError
  | split          -- pt_urn, … = self._split_plaintext(plaintext)
  | checkUrn       -- if pt_urn not in self._devices: raise SystemError ; device = self._devices[pt_urn]
  | checkKey       -- if pt_id != device.id_key: raise SystemError
  | writeAddr      -- if client_addr != device.addr: device.addr = client_addr
  | parsePayload   -- (SYNC/RESYNC) incoming = self._incoming_from_json(pt_json)
  | checkQueue     -- (SYNC/RESYNC) if queue full: raise SystemError
  | writeQueue     -- (SYNC/RESYNC) self._queue_incoming.put_nowait(incoming)
  | writeReset     -- if (pt_flags & _FLAG_RESET) == _FLAG_RESET: device.clear_last()
deriving Repr, DecidableEq

def Step.isWrite : Step → Bool
  | .writeAddr | .writeQueue | .writeReset => true
  | _ => false

/-- the source order after the F14 repair. -/
def steps : List Step :=
  [.openMsg, .split, .checkUrn, .checkKey, .parsePayload, .checkQueue, .writeQueue, .writeAddr, .writeReset]

/-- F14: the pinned tree wrote the address before parsing the payload. -/
def stepsOld : List Step :=
  [.openMsg, .split, .checkUrn, .checkKey, .writeAddr, .parsePayload, .checkQueue, .writeQueue, .writeReset]

/-- local variables of the handler (`none` = not bound yet: using it is a `NameError`). -/
structure Locals where
  pt     : Option String := none
  f      : Option Fields := none
  dev    : Option String := none      -- `device` (identified by its urn)
  parsed : Bool := false              -- `incoming` is bound
deriving Repr, DecidableEq

def isSync (t : Int) : Bool := t == 0 || t == 2          -- _TYPE_SYNC, _TYPE_RESYNC
/-- `(flags & 1) == 1`; for Python's two's-complement `&` this is `flags mod 2 = 1` (floor mod). -/
def resetFlag (flags : Int) : Bool := decide (flags % 2 = 1)

def queueFull (cfg : Cfg) (q : List String) : Bool := decide (0 < cfg.queueCap) && decide (cfg.queueCap ≤ q.length)

def clearLast (p : Peer) : Peer := { p with lastComms := 0, lastAttempt := 0 }

/-- one statement. State written before a raise persists (there is none inside one statement). -/
def stepSem (ops : Ops) (cfg : Cfg) (allBytes : Bytes) (addr : String) (s : Step) (l : Locals) (st : St) :
    Except Exc Locals × St :=
  match s with
  | .openMsg =>
    match ops.decrypt allBytes with
    | none => (.error .systemErr, st)
    | some pt => (.ok { l with pt := some pt }, st)
  | .split =>
    match l.pt with
    | none => (.error .otherExc, st)
    | some pt =>
      match splitPlain pt with
      | .error e => (.error e, st)
      | .ok f => (.ok { l with f := some f }, st)
  | .checkUrn =>
    match l.f with
    | none => (.error .otherExc, st)
    | some f =>
      match findPeer f.urn st.peers with
      | none => (.error .systemErr, st)
      | some _ => (.ok { l with dev := some f.urn }, st)
  | .checkKey =>
    match l.f, l.dev with
    | some f, some d =>
      match findPeer d st.peers with
      | none => (.error .otherExc, st)
      | some p => if f.key ≠ p.key then (.error .systemErr, st) else (.ok l, st)
    | _, _ => (.error .otherExc, st)
  | .writeAddr =>
    match l.dev with
    | none => (.error .otherExc, st)
    | some d =>
      match findPeer d st.peers with
      | none => (.error .otherExc, st)
      | some p =>
        if addr ≠ p.addr then (.ok l, { st with peers := updPeer d (fun p => { p with addr := addr }) st.peers })
        else (.ok l, st)
  | .parsePayload =>
    match l.f with
    | none => (.error .otherExc, st)
    | some f =>
      if isSync f.type then
        match ops.parse f.json with
        | some e => (.error e, st)
        | none => (.ok { l with parsed := true }, st)
      else (.ok l, st)
  | .checkQueue =>
    match l.f with
    | none => (.error .otherExc, st)
    | some f =>
      if isSync f.type then
        if queueFull cfg st.queue then (.error .systemErr, st) else (.ok l, st)
      else (.ok l, st)
  | .writeQueue =>
    match l.f with
    | none => (.error .otherExc, st)
    | some f =>
      if isSync f.type then
        if l.parsed then (.ok l, { st with queue := st.queue ++ [f.json] }) else (.error .otherExc, st)
      else (.ok l, st)
  | .writeReset =>
    match l.f, l.dev with
    | some f, some d =>
      if resetFlag f.flags then (.ok l, { st with peers := updPeer d clearLast st.peers }) else (.ok l, st)
    | _, _ => (.error .otherExc, st)

/-- run a statement list; returns the exception (if any) and the state at that point. -/
def runSteps (ops : Ops) (cfg : Cfg) (allBytes : Bytes) (addr : String) :
    List Step → Locals → St → Option Exc × St
  | [], _, st => (none, st)
  | s :: ss, l, st =>
    match stepSem ops cfg allBytes addr s l st with
    | (.error e, st') => (some e, st')
    | (.ok l', st') => runSteps ops cfg allBytes addr ss l' st'

inductive Outcome where
  | accepted
  | rejected (e : Exc)
  | blocked
  | clockOut
deriving Repr, DecidableEq

/-- one connection as the handler sees it. -/
structure Conn where
  accepted : Int                 -- client_accepted
  clock    : List Int            -- int(time.time()) readings, one per loop iteration
  script   : List RecvResult
  addr     : String              -- client_addr
deriving Repr

structure HRes where
  out   : Outcome
  reads : Nat
  st    : St
deriving Repr

/-- `_tcp_incoming_handle_client` (the socket is closed on every path by the `finally`). -/
def handleG (loop : Cfg → Int → List Int → List RecvResult → Bytes → Nat → LoopRes) (sts : List Step)
    (ops : Ops) (cfg : Cfg) (c : Conn) (st : St) : HRes :=
  match loop cfg c.accepted c.clock c.script [] 0 with
  | ⟨.frame all, k⟩ =>
    match runSteps ops cfg all c.addr sts {} st with
    | (none, st') => ⟨.accepted, k, st'⟩
    | (some e, st') => ⟨.rejected e, k, st'⟩
  | ⟨.timeout _, k⟩ => ⟨.rejected .timeoutErr, k, st⟩
  | ⟨.blocked, k⟩ => ⟨.blocked, k, st⟩
  | ⟨.clockOut, k⟩ => ⟨.clockOut, k, st⟩

def handle := handleG recvLoop steps
def handleOld := handleG recvLoopOld stepsOld

/-! ### the accept loop `_tcp_incoming` -/

/-- `issubclass e h` on the classes above. -/
def Exc.sub (e h : Exc) : Bool :=
  e == h ||
  (h == .exception && e != .baseExc) ||
  (h == .distErr && (e == .timeoutErr || e == .systemErr))

/-- the classes named by the `except` clauses around one client, in source order
(regenerated from /repo by translate/frame.py). -/
def handlers : List Exc := [.systemErr, .timeoutErr, .sockTimeout, .exception]

def caught (hs : List Exc) (e : Exc) : Bool := hs.any (Exc.sub e)

inductive Listener where
  | alive      -- back at `accept`
  | dead       -- an exception left the loop: the thread ended
  | stuck      -- inside a handler that never returns
deriving Repr, DecidableEq

/-- the accept loop over a sequence of `accept()` results (`none`: accept timed out). -/
def serveG (h : Conn → St → HRes) (hs : List Exc) : List (Option Conn) → St → Listener × St
  | [], st => (.alive, st)
  | none :: cs, st => if caught hs .sockTimeout then serveG h hs cs st else (.dead, st)
  | some c :: cs, st =>
    match h c st with
    | ⟨.accepted, _, st'⟩ => serveG h hs cs st'
    | ⟨.rejected e, _, st'⟩ => if caught hs e then serveG h hs cs st' else (.dead, st')
    | ⟨.blocked, _, st'⟩ => (.stuck, st')
    | ⟨.clockOut, _, st'⟩ => (.stuck, st')

def serve (ops : Ops) (cfg : Cfg) := serveG (handle ops cfg) handlers
def serveOld (ops : Ops) (cfg : Cfg) := serveG (handleOld ops cfg) handlers

end Bobo.Frame
