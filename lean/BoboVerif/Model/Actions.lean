/-
M-Actions: model of
  * `BoboActionMultiSequential.execute`            (bobocep/cep/action/common/multi.py)
  * `BoboActionHandlerBlocking._execute_action`,
    `_pool_execute_action`, the multithreading / multiprocessing handlers,
    `get_handler_response`                         (bobocep/cep/action/handler.py)
  * `BoboForwarder._update_handler / _update_responses / update`
                                                   (bobocep/cep/engine/forwarder/forwarder.py)
No Mathlib.

User actions are *parameters*: an action is a name and a total function from the
triggering complex event to (success, data) — assumption: `execute` returns
(an action that raises is outside the property: the blocking handler propagates
the exception to the caller, the pools log it and put no response).  The data
type `δ` is abstract.
-/
namespace Bobo.Actions

/-- what the handlers and the forwarder read of a complex event. -/
structure CEv where
  eventId    : String
  phenomenon : String
  pattern    : String
deriving DecidableEq, Repr

/-- `BoboAction`: `.name`, `.execute(event)`. -/
structure Action (δ : Type) where
  name : String
  exec : CEv → Bool × δ

/-! ### BoboActionMultiSequential.execute -/

/-- the `for action in self._actions:` loop, literally: state = (success, data);
`output = action.execute(event)`; `data.append(output)`; `if not output[0]: success = False;
if stop_on_fail: break`. -/
def multiLoop {δ} (stop : Bool) (e : CEv) : List (CEv → Bool × δ) → Bool → List (Bool × δ) → Bool × List (Bool × δ)
  | [], success, data => (success, data)
  | a :: rest, success, data =>
    let output := a e
    let data := data ++ [output]
    if !output.1 then
      if stop then (false, data)            -- break
      else multiLoop stop e rest false data
    else multiLoop stop e rest success data

/-- `execute`: `success = True; data = []; <loop>; return success, data`. -/
def multiExecute {δ} (acts : List (CEv → Bool × δ)) (stop : Bool) (e : CEv) : Bool × List (Bool × δ) :=
  multiLoop stop e acts true []

/-- specification: the sub-actions that are executed — all of them, or with stop-on-fail
everything up to and including the first failure. -/
def executed {δ} (stop : Bool) (e : CEv) : List (CEv → Bool × δ) → List (CEv → Bool × δ)
  | [] => []
  | a :: rest => if !(a e).1 && stop then [a] else a :: executed stop e rest

/-! ### handler responses -/

/-- `BoboHandlerResponse` -/
structure Resp (δ : Type) where
  actionName   : String
  complexEvent : CEv
  success      : Bool
  data         : δ
deriving Repr

/-- the record built next to the execute call, in `_execute_action` and in `_pool_execute_action`:
`action_ret = action.execute(event)`;
`BoboHandlerResponse(action_name=action.name, complex_event=event, success=action_ret[0], data=action_ret[1])`. -/
def respond {δ} (a : Action δ) (e : CEv) : Resp δ :=
  let actionRet := a.exec e
  { actionName := a.name, complexEvent := e, success := actionRet.1, data := actionRet.2 }

/-- `queue.full()` for `Queue(max_size)`; 0 = unbounded. -/
def full (maxSize : Nat) (len : Nat) : Bool := maxSize > 0 && len ≥ maxSize

inductive HErr where
  | queueFull
deriving DecidableEq, Repr

/-! ### blocking handler -/

structure BSt (δ : Type) where
  queue : List (Resp δ) := []

/-- `BoboActionHandlerBlocking._execute_action`: execute, build the response, then
`if not full: put else raise` — on overflow the action HAS run and its response is dropped. -/
def bHandle {δ} (maxSize : Nat) (s : BSt δ) (a : Action δ) (e : CEv) : Except HErr (BSt δ) :=
  let hres := respond a e
  if !full maxSize s.queue.length then .ok { queue := s.queue ++ [hres] }
  else .error .queueFull

/-- `get_handler_response` -/
def bGet {δ} (s : BSt δ) : Option (Resp δ) × BSt δ :=
  match s.queue with
  | [] => (none, s)
  | r :: q => (some r, { queue := q })

inductive BOp (δ : Type) where
  | handle (a : Action δ) (e : CEv)
  | get

/-- trace state for a sequence of calls: handler state, responses obtained so far (in order),
requests handed over without error (ghost). -/
structure BTrace (δ : Type) where
  st      : BSt δ := {}
  got     : List (Resp δ) := []
  handled : List (Action δ × CEv) := []
  dropped : List (Action δ × CEv) := []   -- executed, then "queue is full" raised

def bStep {δ} (maxSize : Nat) (t : BTrace δ) : BOp δ → BTrace δ
  | .handle a e =>
    match bHandle maxSize t.st a e with
    | .ok s' => { t with st := s', handled := t.handled ++ [(a, e)] }
    | .error _ => { t with dropped := t.dropped ++ [(a, e)] }
  | .get =>
    match bGet t.st with
    | (some r, s') => { t with st := s', got := t.got ++ [r] }
    | (none, s') => { t with st := s' }

def bRun {δ} (maxSize : Nat) (t : BTrace δ) (ops : List (BOp δ)) : BTrace δ :=
  ops.foldl (bStep maxSize) t

/-! ### pool handlers (multithreading / multiprocessing), abstractly

`_execute_action` tests the response-queue size, then `starmap_async(_pool_execute_action,
[(queue, action, event, max_size)])`: the (action, event) pair is bound at submission.  The
pool starts tasks in submission order on at most `workers` workers; a running task finishes
at any time, i.e. in ANY order relative to the other running tasks — the schedule (`POp` list)
is universally quantified.  Finishing = `_pool_execute_action` body: execute, build the
response from the *same* pair, put it on the shared queue (unbounded: `Queue()` /
`Manager().Queue()`, so the inner `queue.full()` test never fires).
-/

structure PSt (δ : Type) where
  waiting : List (Action δ × CEv) := []   -- submitted, not started (FIFO)
  running : List (Action δ × CEv) := []   -- on a worker
  queue   : List (Resp δ) := []

inductive POp (δ : Type) where
  | submit (a : Action δ) (e : CEv)
  | start                -- a free worker takes the oldest waiting task
  | finish (i : Nat)     -- the i-th running task completes
  | get

structure PTrace (δ : Type) where
  st        : PSt δ := {}
  got       : List (Resp δ) := []
  submitted : List (Action δ × CEv) := []   -- ghost: accepted by `handle`
  refused   : List (Action δ × CEv) := []   -- ghost: `handle` raised "queue is full" (not executed)

def pStep {δ} (workers maxSize : Nat) (t : PTrace δ) : POp δ → PTrace δ
  | .submit a e =>
    if maxSize > 0 && t.st.queue.length ≥ maxSize then { t with refused := t.refused ++ [(a, e)] }
    else { t with st := { t.st with waiting := t.st.waiting ++ [(a, e)] }, submitted := t.submitted ++ [(a, e)] }
  | .start =>
    match t.st.waiting with
    | [] => t
    | p :: w =>
      if t.st.running.length < workers then { t with st := { t.st with waiting := w, running := t.st.running ++ [p] } }
      else t
  | .finish i =>
    match t.st.running[i]? with
    | none => t
    | some p => { t with st := { t.st with running := t.st.running.eraseIdx i, queue := t.st.queue ++ [respond p.1 p.2] } }
  | .get =>
    match t.st.queue with
    | [] => t
    | r :: q => { t with st := { t.st with queue := q }, got := t.got ++ [r] }

def pRun {δ} (workers maxSize : Nat) (t : PTrace δ) (ops : List (POp δ)) : PTrace δ :=
  ops.foldl (pStep workers maxSize) t

/-! ### forwarder -/

/-- `BoboEventAction` as built by `_update_responses`. -/
structure ActionEvent (δ : Type) where
  eventId    : String
  timestamp  : Int
  data       : δ
  phenomenon : String
  pattern    : String
  actionName : String
  success    : Bool
deriving Repr

/-- `BoboEventAction(event_id=gen_event_id.generate(), timestamp=gen_timestamp.generate(), data=hres.data,
phenomenon_name=hres.complex_event.phenomenon_name, pattern_name=hres.complex_event.pattern_name,
action_name=hres.action_name, success=hres.success)` -/
def actionEvent {δ} (id : String) (ts : Int) (hres : Resp δ) : ActionEvent δ :=
  { eventId := id, timestamp := ts, data := hres.data,
    phenomenon := hres.complexEvent.phenomenon, pattern := hres.complexEvent.pattern,
    actionName := hres.actionName, success := hres.success }

/-- forwarder over the blocking handler.  `phenomena`: name ↦ optional action (first entry wins:
the constructor rejects duplicate names). -/
structure FSt (δ : Type) where
  queue   : List CEv := []
  handler : BSt δ := {}
  calls   : Nat := 0                       -- calls of the id / timestamp generators
  out     : List (ActionEvent δ) := []     -- `on_forwarder_update` notifications, in order

def lookup {δ} (phenomena : List (String × Option (Action δ))) (name : String) : Option (Option (Action δ)) :=
  (phenomena.find? (·.1 == name)).map (·.2)

/-- `_update_handler` (unbounded handler queue) -/
def fUpdateHandler {δ} (phenomena : List (String × Option (Action δ))) (s : FSt δ) : FSt δ × Bool :=
  match s.queue with
  | [] => (s, false)
  | e :: q =>
    match lookup phenomena e.phenomenon with
    | some (some a) =>
      match bHandle 0 s.handler a e with
      | .ok h => ({ s with queue := q, handler := h }, true)
      | .error _ => ({ s with queue := q }, true)
    | _ => ({ s with queue := q }, true)

/-- `_update_responses` -/
def fUpdateResponses {δ} (idOf : Nat → String) (tsOf : Nat → Int) (s : FSt δ) : FSt δ × Bool :=
  match bGet s.handler with
  | (none, _) => (s, false)
  | (some hres, h) =>
    ({ s with handler := h, calls := s.calls + 1, out := s.out ++ [actionEvent (idOf s.calls) (tsOf s.calls) hres] }, true)

/-- `update`: `handle = _update_handler(); response = _update_responses(); return handle or response` -/
def fUpdate {δ} (phenomena : List (String × Option (Action δ))) (idOf : Nat → String) (tsOf : Nat → Int)
    (s : FSt δ) : FSt δ × Bool :=
  let (s1, handle) := fUpdateHandler phenomena s
  let (s2, response) := fUpdateResponses idOf tsOf s1
  (s2, handle || response)

end Bobo.Actions
