/-
M-Validator: model of the validator classes of
bobocep/cep/engine/receiver/validator.py and of the receiver gate
(`BoboReceiver.add_data / update / _process_data`,
bobocep/cep/engine/receiver/receiver.py).  No Mathlib.

Python objects handed to a validator / to the receiver are `Datum α`: either a
bare (non-event) value `d : α`, or an event object of one of the three kinds
carrying a value.  The value carried by an event is a non-event value (one
level of wrapping) — an event whose `data` is itself an event is outside the
model (assumption, see harness/props/c18.py).

Library / user code enters only as the *parameter* `Lib`: whether
`json.dumps(x)` succeeds, the verdict of `jsonschema.validate(x, schema)`,
`isinstance(x, t)` and `type(x) == t`.  All four are functions of the Python
object they are applied to (`Datum α`), so that a validator which forgets to
unwrap is expressible: it hands the *event object* to the library.

`Shape` records, per validator class, whether `is_valid` starts with
`if isinstance(data, BoboEvent): data = data.data`, and whether the schema
validator applies the JSON-serialisable test of its base class before the
schema.  `shape` is the code as it stands in /repo (regenerated from the source
by translate/validator.py into `Bobo.Gen.Validator.shape` and proved equal in
Props/C18.lean); `shapeOld` is the pinned tree (finding F13) and is kept only
for the counter-lemmas.
-/
namespace Bobo.Validator

inductive Kind where
  | simple | complex | action
deriving DecidableEq, Repr

/-- an event object: only what the receiver gate can observe. -/
structure Ev (α : Type) where
  kind : Kind
  id   : String
  ts   : Int
  data : α
deriving DecidableEq, Repr

/-- a Python object handed to `is_valid` / `add_data`. -/
inductive Datum (α : Type) where
  | bare  (d : α)
  | event (e : Ev α)
deriving DecidableEq, Repr

/-- `if isinstance(data, BoboEvent): data = data.data` -/
def strip {α} : Datum α → Datum α
  | .bare d  => .bare d
  | .event e => .bare e.data

/-- the value judged when the validator unwraps. -/
def payload {α} : Datum α → α
  | .bare d  => d
  | .event e => e.data

/-- library and language facts used by the validators (opaque parameters). -/
structure Lib (α τ σ : Type) where
  /-- `json.dumps(x)` raises none of RecursionError / TypeError / ValueError -/
  dumpsOk  : Datum α → Bool
  /-- `jsonschema.validate(instance=x, schema=s)` raises no ValidationError -/
  schemaOk : σ → Datum α → Bool
  /-- `isinstance(x, t)` -/
  isInst   : Datum α → τ → Bool
  /-- `type(x) == t` -/
  typeIs   : Datum α → τ → Bool

/-- what is read off the source of the four `is_valid` bodies. -/
structure Shape where
  jsonableUnwraps : Bool
  typeUnwraps     : Bool
  /-- `True`: `any(...)`; `False`: `all(...)` — in both branches of BoboValidatorType -/
  typeAny         : Bool
  schemaUnwraps   : Bool
  /-- the schema validator first requires `super().is_valid(data)` -/
  schemaBase      : Bool
deriving DecidableEq, Repr

/-- the code as it stands (F13 repaired). -/
def shape : Shape := ⟨true, true, true, true, true⟩

/-- the pinned tree: the schema validator neither unwraps nor applies the base test (F13). -/
def shapeOld : Shape := ⟨true, true, true, false, false⟩

/-- a configured validator instance. -/
inductive V (τ σ : Type) where
  | all
  | jsonable
  | type (types : List τ) (subtype : Bool)
  | schema (s : σ)

def unwrapIf {α} (b : Bool) (x : Datum α) : Datum α := if b then strip x else x

/-- `BoboValidatorJSONable.is_valid` -/
def jsonableValid {α τ σ} (sh : Shape) (L : Lib α τ σ) (x : Datum α) : Bool :=
  L.dumpsOk (unwrapIf sh.jsonableUnwraps x)

/-- `BoboValidatorType.is_valid` -/
def typeValid {α τ σ} (sh : Shape) (L : Lib α τ σ) (types : List τ) (subtype : Bool) (x : Datum α) : Bool :=
  let y := unwrapIf sh.typeUnwraps x
  if subtype then
    (if sh.typeAny then types.any (L.isInst y) else types.all (L.isInst y))
  else
    (if sh.typeAny then types.any (L.typeIs y) else types.all (L.typeIs y))

/-- `BoboValidatorJSONSchema.is_valid` (a valid schema; `SchemaError` is a configuration error). -/
def schemaValid {α τ σ} (sh : Shape) (L : Lib α τ σ) (s : σ) (x : Datum α) : Bool :=
  let y := unwrapIf sh.schemaUnwraps x
  if sh.schemaBase && !(jsonableValid sh L y) then false
  else L.schemaOk s y

def isValidS {α τ σ} (sh : Shape) (L : Lib α τ σ) : V τ σ → Datum α → Bool
  | .all, _ => true
  | .jsonable, x => jsonableValid sh L x
  | .type ts sub, x => typeValid sh L ts sub x
  | .schema s, x => schemaValid sh L s x

/-- the validators of the current tree. -/
def isValid {α τ σ} (L : Lib α τ σ) : V τ σ → Datum α → Bool := isValidS shape L

/-- the validators of the pinned tree (F13). -/
def isValidOld {α τ σ} (L : Lib α τ σ) : V τ σ → Datum α → Bool := isValidS shapeOld L

/-- the two validators whose contract is "what I accept is JSON". -/
def V.isJson {τ σ} : V τ σ → Bool
  | .jsonable => true
  | .schema _ => true
  | _ => false

/-! ### the receiver gate -/

/-- identifier / timestamp generators: the `n`-th call (parameters). -/
structure Fresh where
  idOf : Nat → String
  tsOf : Nat → Int

/-- `_process_data`: the event handed to every subscriber (if any) and the number of
generator calls made so far.  `n` counts calls of `gen_event_id.generate()` (=
calls of `gen_timestamp.generate()`), which only the wrapping branch makes. -/
def processData {α} (valid : Datum α → Bool) (F : Fresh) (n : Nat) (x : Datum α) : Option (Ev α) × Nat :=
  if !valid x then (none, n)
  else
    match x with
    | .event e => (some e, n)
    | .bare d  => (some ⟨.simple, F.idOf n, F.tsOf n, d⟩, n + 1)

/-- outcome per processed item, positionally (position = origin). -/
def outcomes {α} (valid : Datum α → Bool) (F : Fresh) : Nat → List (Datum α) → List (Option (Ev α))
  | _, [] => []
  | n, x :: xs => (processData valid F n x).1 :: outcomes valid F (processData valid F n x).2 xs

/-- generator calls after processing a list. -/
def callsAfter {α} (valid : Datum α → Bool) (F : Fresh) : Nat → List (Datum α) → Nat
  | n, [] => n
  | n, x :: xs => callsAfter valid F (processData valid F n x).2 xs

/-- what a subscriber sees for a processed list: the accepted ones, in order. -/
def published {α} (valid : Datum α → Bool) (F : Fresh) (n : Nat) (xs : List (Datum α)) : List (Ev α) :=
  (outcomes valid F n xs).filterMap id

/-- receiver state.  `added` and `processed` are ghost (history) fields. -/
structure RSt (α : Type) where
  queue     : List (Datum α) := []
  calls     : Nat := 0
  out       : List (Ev α) := []      -- `on_receiver_update` calls seen by a subscriber, in order
  closed    : Bool := false
  added     : List (Datum α) := []   -- ghost: everything `add_data` enqueued
  processed : List (Datum α) := []   -- ghost: everything `update` dequeued

inductive Op (α : Type) where
  | add (x : Datum α)
  | update
  | close

inductive Ret where
  | unit | bool (b : Bool) | queueFull
deriving DecidableEq, Repr

/-- one call on the receiver.  `maxSize = 0`: unbounded.  `isNone d`: the Python value is `None`
(`update` returns `data is not None`). -/
def rstep {α} (valid : Datum α → Bool) (F : Fresh) (maxSize : Nat) (isNone : Datum α → Bool)
    (s : RSt α) : Op α → RSt α × Ret
  | .add x =>
    if s.closed then (s, .unit)
    else if maxSize > 0 && s.queue.length ≥ maxSize then (s, .queueFull)
    else ({ s with queue := s.queue ++ [x], added := s.added ++ [x] }, .unit)
  | .update =>
    if s.closed then (s, .bool false)
    else
      match s.queue with
      | [] => (s, .bool false)
      | x :: q =>
        let r := processData valid F s.calls x
        ({ s with queue := q, calls := r.2, out := s.out ++ r.1.toList, processed := s.processed ++ [x] },
         .bool (!isNone x))
  | .close => ({ s with closed := true }, .unit)

def rrun {α} (valid : Datum α → Bool) (F : Fresh) (maxSize : Nat) (isNone : Datum α → Bool)
    (s : RSt α) (ops : List (Op α)) : RSt α :=
  ops.foldl (fun s o => (rstep valid F maxSize isNone s o).1) s

end Bobo.Validator
