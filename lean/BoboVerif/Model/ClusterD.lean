import BoboVerif.Model.Decider
/-
M-Cluster (decider level): `n` instances, each a decider state, and per ordered
pair the list of replication messages not yet applied by the receiver (queued,
on the wire, or in the sender's backlog — the distinction is C06/C15's).  Steps:
an input event at an instance (its `update()`; a notification, if any, is
enqueued for every peer) and the delivery of ANY pending message, with or
without removal (reordering across and within links, duplication, re-delivery).
A step is undefined (`none`) when an exception would escape the decider or when
the finished-run memory would have to evict (the properties are stated with the
memory "large enough").
-/
namespace Bobo.ClusterD
open Bobo.Run Bobo.Decider

structure Msg (ε : Type) where
  comp : List (Rec ε)
  halt : List (Rec ε)
  upd  : List (Rec ε)

structure CState (n : Nat) (ε : Type) where
  node   : Fin n → DState ε
  flight : Fin n → Fin n → List (Msg ε)

inductive CStep (n : Nat) (ε : Type) where
  | input (i : Fin n) (e : ε)
  | deliver (i j : Fin n) (k : Nat) (remove : Bool)

def setNode {n : Nat} {ε} (f : Fin n → DState ε) (i : Fin n) (s : DState ε) : Fin n → DState ε :=
  fun k => if k = i then s else f k

/-- memory large enough for this step. -/
def roomFor {ε} (c : Cfg ε) (s : DState ε) (a b : List (Rec ε)) : Bool :=
  decide (s.cacheC.length + a.length ≤ c.maxCache) && decide (s.cacheH.length + b.length ≤ c.maxCache)

def cstep {n : Nat} {ε} (c : Cfg ε) (cs : CState n ε) : CStep n ε → Option (CState n ε)
  | .input i e =>
    match localStep c (cs.node i) e with
    | none => none
    | some (s', nt, changed) =>
      if !roomFor c (cs.node i) nt.completed nt.halted then none
      else if changed then
        some { node := setNode cs.node i s',
               flight := fun a b => if a = i ∧ b ≠ i then cs.flight a b ++ [⟨nt.completed, nt.halted, nt.updated⟩]
                                    else cs.flight a b }
      else some { cs with node := setNode cs.node i s' }
  | .deliver i j k remove =>
    match (cs.flight i j)[k]? with
    | none => some cs
    | some m =>
      if !roomFor c (cs.node j) m.comp m.halt then none
      else
        match remoteStep c (cs.node j) m.comp m.halt m.upd with
        | none => none
        | some (s', _) =>
          some { node := setNode cs.node j s',
                 flight := if remove then (fun a b => if a = i ∧ b = j then (cs.flight i j).eraseIdx k else cs.flight a b)
                           else cs.flight }

def crun {n : Nat} {ε} (c : Cfg ε) : CState n ε → List (CStep n ε) → Option (CState n ε)
  | cs, [] => some cs
  | cs, st :: rest => match cstep c cs st with
    | none => none
    | some cs' => crun c cs' rest

def cinit (n : Nat) (ε : Type) : CState n ε := { node := fun _ => {}, flight := fun _ _ => [] }

end Bobo.ClusterD
