import BoboVerif.Model.EngineAsync
import BoboVerif.Drivers.Engine
/-
driver for M-EngineAsync (`bobodrv engineA`): the engine of `bobodrv engine` with the thread-pool / process-pool
action handler.  Same line protocol (the `cfg` / `phen` lines are handed to the blocking driver's `step`, the matcher
is scripted the same way, the observation line is the blocking driver's `report` on the `St` part), plus

  complete <k>                               the pool finishes the k-th in-flight execution (`AOp.complete k`)
  update [pool <script>] [dec …]…            `AOp.update script`          (no `pool` token = empty script)
  step <R|D|P|F> [pool <script>] [dec …]…    one `stepA` of a single task (empty script = `taskUpdateA`)

  script = `-` (empty) or groups separated by `;`, each group `_` (nothing completes at that linearisation
           point) or in-flight indices separated by `,`:  `0,0;_;1` = [[0,0],[],[1]]

answer to add / update / step / complete: the blocking driver's line, then
  | fl <n> <name@cevid;…|->        the in-flight jobs, in dispatch order
and, for update / step,
  | pool <k>                       groups of the script not consumed
-/
namespace Bobo.Drv.EngineAsync
open Bobo.Engine

abbrev Script := Bobo.Drv.Engine.Script

structure DS where
  base : Bobo.Drv.Engine.DS := {}           -- cfg, validator, phenomena (its `st` is not used)
  st   : ASt Script := initA ([], false)

def parsePool (t : String) : Option (List (List Nat)) :=
  if t = "-" then some []
  else (t.splitOn ";").mapM fun g => if g = "_" then some [] else (g.splitOn ",").mapM (·.toNat?)

/-- optional `pool <script>` in front of the `dec …` groups. -/
def splitPool : List String → Option (List (List Nat) × List String)
  | "pool" :: t :: rest => (parsePool t).map (·, rest)
  | ["pool"] => none
  | rest => some ([], rest)

def showJobs (js : List Job) : String :=
  toString js.length ++ " " ++
    (if js.isEmpty then "-" else ";".intercalate (js.map fun j => j.actName ++ "@" ++ j.cev.id))

def reportA (old new : ASt Script) (scriptInfo : String) (ret : String := "-") (withPool : Bool := false) : String :=
  Bobo.Drv.Engine.report old.toSt new.toSt scriptInfo ret ++ " | fl " ++ showJobs new.inflight
    ++ (if withPool then " | pool " ++ toString new.pool.length else "")

def scriptInfo (s : ASt Script) : String :=
  if s.ds.2 then "under" else if s.ds.1.isEmpty then "ok" else s!"left{s.ds.1.length}"

def step (d : DS) (line : String) : DS × String :=
  let P := Bobo.Drv.Engine.params d.base
  match Bobo.Drv.words line with
  | "cfg" :: _ =>
    let r := Bobo.Drv.Engine.step d.base line
    if r.2 = "ok" then ({ base := r.1, st := initA ([], false) }, "ok") else (d, r.2)
  | "phen" :: _ =>
    let r := Bobo.Drv.Engine.step d.base line
    ({ d with base := r.1 }, r.2)
  | ["add", "raw", t] =>
    if !d.base.ready then (d, "bad-op") else
    match Bobo.Drv.Engine.parseData t with
    | some x =>
      let s' := applyOpA P d.base.cfg d.st (.add (.raw x))
      ({ d with st := s' }, reportA d.st s' "ok")
    | none => (d, "bad-op")
  | ["add", "sev", i, ts, t] =>
    if !d.base.ready then (d, "bad-op") else
    match ts.toInt?, Bobo.Drv.Engine.parseData t with
    | some tt, some x =>
      let s' := applyOpA P d.base.cfg d.st (.add (.ev { kind := .simple, id := i, ts := tt, data := x }))
      ({ d with st := s' }, reportA d.st s' "ok")
    | _, _ => (d, "bad-op")
  | ["complete", k] =>
    if !d.base.ready then (d, "bad-op") else
    match k.toNat? with
    | some n =>
      let s' := applyOpA P d.base.cfg d.st (.complete n)
      ({ d with st := s' }, reportA d.st s' "ok")
    | none => (d, "bad-op")
  | "update" :: rest0 =>
    if !d.base.ready then (d, "bad-op") else
    match splitPool rest0 with
    | none => (d, "bad-op")
    | some (script, rest) =>
      match Bobo.Drv.Engine.parseScript (rest.length + 1) rest with
      | some ns =>
        let s0 : ASt Script := { d.st with toSt := { d.st.toSt with ds := (ns, false) } }
        let s' := applyOpA P d.base.cfg s0 (.update script)
        ({ d with st := s' }, reportA d.st s' (scriptInfo s') (if s'.err.isSome then "-" else "1") true)
      | none => (d, "bad-op")
  | "step" :: t :: rest0 =>
    if !d.base.ready then (d, "bad-op") else
    let task? : Option Task := match t with
      | "R" => some .receiver | "D" => some .decider | "P" => some .producer | "F" => some .forwarder
      | _ => none
    match task?, splitPool rest0 with
    | some task, some (script, rest) =>
      match Bobo.Drv.Engine.parseScript (rest.length + 1) rest with
      | some ns =>
        let s0 : ASt Script := { d.st with toSt := { d.st.toSt with ds := (ns, false), err := none }, pool := script }
        let r := stepA P task s0
        let s' := r.1
        ({ d with st := s' }, reportA d.st s' (scriptInfo s') (if s'.err.isSome then "-" else Bobo.Drv.boolStr r.2) true)
      | none => (d, "bad-op")
    | _, _ => (d, "bad-op")
  | _ => (d, "bad-op")

end Bobo.Drv.EngineAsync
