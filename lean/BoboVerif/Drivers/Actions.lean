import BoboVerif.Model.Actions
import BoboVerif.Drivers.Util
/-
driver for M-Actions (`bobodrv actions`).  Data are naturals; the behaviour of a user
action on the event it is given is supplied on the line that hands it over (actions are
parameters of the model).

  multi <stop:0/1> <bits>                 sub-action i returns (bit i, i)   -> <succ> <s:d,s:d,...|->
  bnew <max>                                                                -> ok
  bh <name> <evid> <succ> <data>          blocking handle                   -> ok | full
  bget                                                                      -> none | <name> <evid> <succ> <data>
  pnew <workers> <max>                                                      -> ok
  psub <name> <evid> <succ> <data>        pool handle (then eager starts)   -> ok | full
  pfin <evid>                             that running task finishes (then eager starts) -> ok | not-running
  pget                                                                      -> none | <name> <evid> <succ> <data>
  pstat                                                                     -> <waiting> <running> <queued>
  fnew                                    forwarder over a blocking handler -> ok
  fph <phenomenon> <action|->             register a phenomenon             -> ok
  fev <evid> <phenomenon> <pattern> <succ> <data>   on_producer_update (the outcome its action would give) -> ok
  fupd                                    update()                          -> <ret> - | <ret> <id> <ts> <data> <phen> <pat> <action> <succ>
-/
namespace Bobo.Drv.Actions
open Bobo.Actions

structure DS where
  bmax    : Nat := 0
  b       : BTrace Nat := {}
  workers : Nat := 1
  pmax    : Nat := 0
  p       : PTrace Nat := {}
  phen    : List (String × Option String) := []
  table   : List (String × (Bool × Nat)) := []
  f       : FSt Nat := {}

def bit? : String → Option Bool
  | "0" => some false
  | "1" => some true
  | _ => none

def cev (evid : String) : CEv := ⟨evid, "ph_" ++ evid, "pt_" ++ evid⟩

def constAction (name : String) (s : Bool) (d : Nat) : Action Nat := ⟨name, fun _ => (s, d)⟩

def respStr (r : Resp Nat) : String :=
  r.actionName ++ " " ++ r.complexEvent.eventId ++ " " ++ boolStr r.success ++ " " ++ toString r.data

/-- start tasks while a worker is free and a task is waiting (what a real pool does by itself). -/
def eagerStart (workers maxSize : Nat) (t : PTrace Nat) : Nat → PTrace Nat
  | 0 => t
  | n + 1 =>
    if t.st.waiting.isEmpty || t.st.running.length ≥ workers then t
    else eagerStart workers maxSize (pStep workers maxSize t .start) n

def multiStr (r : Bool × List (Bool × Nat)) : String :=
  boolStr r.1 ++ " " ++ (if r.2.isEmpty then "-" else ",".intercalate (r.2.map (fun o => boolStr o.1 ++ ":" ++ toString o.2)))

def step (d : DS) (line : String) : DS × String :=
  match words line with
  | ["multi", stop, bits] =>
    match bit? stop with
    | some stop =>
      let cs := bits.toList
      if cs.isEmpty || !(cs.all (fun c => c == '0' || c == '1')) then (d, "bad-op")
      else
        let acts : List (CEv → Bool × Nat) := (List.range cs.length).map (fun i => fun _ => (cs.getD i '0' == '1', i))
        (d, multiStr (multiExecute acts stop (cev "m")))
    | none => (d, "bad-op")
  | ["bnew", m] =>
    match parseNat? m with
    | some m => ({ d with bmax := m, b := {} }, "ok")
    | none => (d, "bad-op")
  | ["bh", name, evid, s, dat] =>
    match bit? s, parseNat? dat with
    | some s, some dat =>
      let n0 := d.b.dropped.length
      let b' := bStep d.bmax d.b (.handle (constAction name s dat) (cev evid))
      ({ d with b := b' }, if b'.dropped.length > n0 then "full" else "ok")
    | _, _ => (d, "bad-op")
  | ["bget"] =>
    let n0 := d.b.got.length
    let b' := bStep d.bmax d.b .get
    ({ d with b := b' }, match b'.got.drop n0 with | [] => "none" | r :: _ => respStr r)
  | ["pnew", w, m] =>
    match parseNat? w, parseNat? m with
    | some w, some m => if w = 0 then (d, "bad-op") else ({ d with workers := w, pmax := m, p := {} }, "ok")
    | _, _ => (d, "bad-op")
  | ["psub", name, evid, s, dat] =>
    match bit? s, parseNat? dat with
    | some s, some dat =>
      let n0 := d.p.refused.length
      let p' := pStep d.workers d.pmax d.p (.submit (constAction name s dat) (cev evid))
      let p'' := eagerStart d.workers d.pmax p' (p'.st.waiting.length)
      ({ d with p := p'' }, if p'.refused.length > n0 then "full" else "ok")
    | _, _ => (d, "bad-op")
  | ["pfin", evid] =>
    match d.p.st.running.findIdx? (fun q => q.2.eventId == evid) with
    | some i =>
      let p' := pStep d.workers d.pmax d.p (.finish i)
      ({ d with p := eagerStart d.workers d.pmax p' (p'.st.waiting.length) }, "ok")
    | none => (d, "not-running")
  | ["pget"] =>
    let n0 := d.p.got.length
    let p' := pStep d.workers d.pmax d.p .get
    ({ d with p := p' }, match p'.got.drop n0 with | [] => "none" | r :: _ => respStr r)
  | ["pstat"] =>
    (d, toString d.p.st.waiting.length ++ " " ++ toString d.p.st.running.length ++ " " ++ toString d.p.st.queue.length)
  | ["fnew"] => ({ d with phen := [], table := [], f := {} }, "ok")
  | ["fph", ph, act] =>
    if d.phen.any (·.1 == ph) then (d, "dup")
    else ({ d with phen := d.phen ++ [(ph, if act = "-" then none else some act)] }, "ok")
  | ["fev", evid, ph, pat, s, dat] =>
    match bit? s, parseNat? dat with
    | some s, some dat =>
      ({ d with table := d.table ++ [(evid, (s, dat))], f := { d.f with queue := d.f.queue ++ [⟨evid, ph, pat⟩] } }, "ok")
    | _, _ => (d, "bad-op")
  | ["fupd"] =>
    let tbl := d.table
    let phenomena : List (String × Option (Action Nat)) :=
      d.phen.map (fun p => (p.1, p.2.map (fun name =>
        (⟨name, fun e => ((tbl.find? (·.1 == e.eventId)).map (·.2)).getD (false, 4000000000)⟩ : Action Nat))))
    let n0 := d.f.out.length
    let (f', ret) := fUpdate phenomena (fun n => "id" ++ toString n) (fun n => 1000 + n) d.f
    let pub := match f'.out.drop n0 with
      | [] => "-"
      | [x] => x.eventId ++ " " ++ toString x.timestamp ++ " " ++ toString x.data ++ " " ++ x.phenomenon ++ " " ++
               x.pattern ++ " " ++ x.actionName ++ " " ++ boolStr x.success
      | _ => "more-than-one"
    ({ d with f := f' }, boolStr ret ++ " " ++ pub)
  | _ => (d, "bad-op")

end Bobo.Drv.Actions
