import BoboVerif.Drivers.Util
/- driver stub for the Run model (to be replaced by the real line protocol). -/
namespace Bobo.Drv.Run

structure DS where
  dummy : Unit := ()

def step (d : DS) (_line : String) : DS × String := (d, "unimplemented")

end Bobo.Drv.Run
