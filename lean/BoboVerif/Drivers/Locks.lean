import BoboVerif.Drivers.Util
import BoboVerif.Model.Locks
import BoboVerif.Gen.Locks
/-
driver for M-Locks (C08): checks a lock-acquisition table given as lines with the
same `checkAcqs` / `rankOf` the theorems are about.

  reset                 forget the table                           -> ok
  gen                   load the table generated from /repo        -> ok <entries> gate <id>
  gate <id>             set the gate class                         -> ok
  acq <H> <x>           add entry (H = `-` or `1,2,3`)             -> ok
  member <H> <x>        is (H as a set, x) an entry of the table?  -> yes | no
  check                 run the checker                            -> ranked | unranked <H>x ; <H>x …
  rank <id>             computed rank of a class                   -> <n>
-/
namespace Bobo.Drv.Locks
open Bobo.Locks

structure DS where
  gate : Nat := 0
  es   : List Entry := []

def parseSet (s : String) : Option (List Nat) :=
  if s = "-" then some []
  else (s.splitOn ",").foldr (fun w acc => match acc, parseNat? w with
    | some l, some n => some (n :: l)
    | _, _ => none) (some [])

def sameSet (a b : List Nat) : Bool := a.all (b.contains ·) && b.all (a.contains ·)

def showEntry (e : Entry) : String :=
  (if e.1.isEmpty then "-" else ",".intercalate (e.1.map toString)) ++ ">" ++ toString e.2

def step (d : DS) (line : String) : DS × String :=
  match words line with
  | ["reset"] => ({}, "ok")
  | ["gen"] =>
    ({ gate := Bobo.Gen.Locks.gate, es := Bobo.Gen.Locks.acqs },
     "ok " ++ toString Bobo.Gen.Locks.acqs.length ++ " gate " ++ toString Bobo.Gen.Locks.gate)
  | ["gate", g] =>
    match parseNat? g with
    | some n => ({ d with gate := n }, "ok")
    | none => (d, "bad-op")
  | ["acq", h, x] =>
    match parseSet h, parseNat? x with
    | some hs, some n => ({ d with es := d.es ++ [(hs, n)] }, "ok")
    | _, _ => (d, "bad-op")
  | ["member", h, x] =>
    match parseSet h, parseNat? x with
    | some hs, some n => (d, if d.es.any (fun e => e.2 == n && sameSet e.1 hs) then "yes" else "no")
    | _, _ => (d, "bad-op")
  | ["check"] =>
    if checkAcqs (rankOf d.gate d.es) d.gate d.es then (d, "ranked")
    else (d, "unranked " ++ " ; ".intercalate ((offending d.gate d.es).map showEntry))
  | ["rank", x] =>
    match parseNat? x with
    | some n => (d, toString (rankOf d.gate d.es n))
    | none => (d, "bad-op")
  | _ => (d, "bad-op")

end Bobo.Drv.Locks
