import BoboVerif.Model.Crypto
import BoboVerif.Drivers.Util
/-
driver for M-Crypto (`bobodrv crypto`).  Bytes travel as lower-case hex, `-` = empty.
The cipher and the nonce source are the values RECORDED by the harness around the real
pycryptodome calls; the model contributes the framing only, and prints what it hands to the
cipher so that the harness can compare it with what the real class handed to `AES.new` /
`encrypt_and_digest` / `decrypt_and_verify`.

  cfg <key text, utf8 hex> <nonce_length> <mac_length>
        -> `ok min=<min_length()> end=<end_bytes()>` | `rejected` (BoboDistributedCryptoError)
  enc <text, utf8 hex> <drawn nonce> <recorded ciphertext> <recorded tag>
        -> `draws=<sizes requested> key= nonce= mac_len=<kw|-> pt=<bytes sealed> out=<encrypt result>`
  dec <message> <ok:<recorded plaintext>|err>        (the cipher's recorded verdict)
        -> `key= nonce= mac_len= ct= tag= res=<ok:<text, utf8 hex>|err:cipher|err:utf8>`
  decn <message>                                     (AES.new itself raised: ct/tag never reached the cipher)
        -> `key= nonce= mac_len= res=err:cipher`
-/
namespace Bobo.Drv.Crypto
open Bobo.Crypto

def hexDigit (n : Nat) : Char := if n < 10 then Char.ofNat (48 + n) else Char.ofNat (87 + n)

def toHex (b : Bytes) : String :=
  if b.isEmpty then "-" else String.ofList (b.flatMap fun x => [hexDigit (x.toNat / 16), hexDigit (x.toNat % 16)])

def hexVal (c : Char) : Option Nat :=
  if '0' ≤ c ∧ c ≤ '9' then some (c.toNat - 48)
  else if 'a' ≤ c ∧ c ≤ 'f' then some (c.toNat - 87)
  else none

def fromHexChars : List Char → Option Bytes
  | [] => some []
  | [_] => none
  | a :: b :: r =>
    match hexVal a, hexVal b, fromHexChars r with
    | some x, some y, some t => some (UInt8.ofNat (x * 16 + y) :: t)
    | _, _, _ => none

def fromHex (s : String) : Option Bytes :=
  if s = "-" then some [] else if s = "" then none else fromHexChars s.toList

def fromHexText (s : String) : Option String := (fromHex s).bind decodeUtf8

def kwStr : Option Nat → String
  | none => "-"
  | some n => toString n

structure DS where
  cfg : Option Cfg := none

def step (d : DS) (line : String) : DS × String :=
  match words line with
  | ["cfg", k, n, t] =>
    match fromHexText k, parseNat? n, parseNat? t with
    | some key, some ν, some τ =>
      match mkCfg key ν τ with
      | some c => ({ cfg := some c }, s!"ok min={minLength c} end={toHex endBytes}")
      | none => ({ cfg := none }, "rejected")
    | _, _, _ => (d, "bad-op")
  | ["enc", t, nz, ct, tg] =>
    match d.cfg, fromHexText t, fromHex nz, fromHex ct, fromHex tg with
    | some c, some text, some drawn, some ct, some tag =>
      let cipher : Cipher := { sealFn := fun _ _ _ _ => (ct, tag), openFn := fun _ _ _ _ _ => none }
      let draw : Draw (List Nat) := fun n s => (drawn, s ++ [n])
      let r := encrypt cipher c draw [] text
      let a := sealArgs c (draw c.nonceLen []).1 text
      (d, s!"draws={",".intercalate (r.2.map toString)} key={toHex a.1} nonce={toHex a.2.1} mac_len={kwStr a.2.2.1} pt={toHex a.2.2.2} out={toHex r.1}")
    | _, _, _, _, _ => (d, "bad-op")
  | ["dec", m, res] =>
    let verdict : Option (Option Bytes) :=
      if res = "err" then some none
      else if res.startsWith "ok:" then (fromHex (res.drop 3).toString).map some
      else none
    match d.cfg, fromHex m, verdict with
    | some c, some b, some v =>
      let cipher : Cipher := { sealFn := fun _ _ _ _ => ([], []), openFn := fun _ _ _ _ _ => v }
      let sl := slices c.nonceLen c.macLen b
      let out := match decrypt cipher c b with
        | .ok t => "ok:" ++ toHex (utf8 t)
        | .error .cipher => "err:cipher"
        | .error .utf8 => "err:utf8"
      (d, s!"key={toHex c.key} nonce={toHex sl.nonce} mac_len={kwStr (decMacKw c)} ct={toHex sl.ct} tag={toHex sl.tag} res={out}")
    | _, _, _ => (d, "bad-op")
  | ["decn", m] =>
    match d.cfg, fromHex m with
    | some c, some b =>
      let cipher : Cipher := { sealFn := fun _ _ _ _ => ([], []), openFn := fun _ _ _ _ _ => none }
      let sl := slices c.nonceLen c.macLen b
      let out := match decrypt cipher c b with
        | .ok t => "ok:" ++ toHex (utf8 t)
        | .error .cipher => "err:cipher"
        | .error .utf8 => "err:utf8"
      (d, s!"key={toHex c.key} nonce={toHex sl.nonce} mac_len={kwStr (decMacKw c)} res={out}")
    | _, _ => (d, "bad-op")
  | _ => (d, "bad-op")

end Bobo.Drv.Crypto
