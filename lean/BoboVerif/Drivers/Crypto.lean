import BoboVerif.Drivers.Util
/- driver stub for the Crypto model (to be replaced by the real line protocol). -/
namespace Bobo.Drv.Crypto

structure DS where
  dummy : Unit := ()

def step (d : DS) (_line : String) : DS × String := (d, "unimplemented")

end Bobo.Drv.Crypto
