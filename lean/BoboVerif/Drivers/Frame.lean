import BoboVerif.Model.Frame
import BoboVerif.Drivers.Util
/-
driver for M-Frame (`bobodrv frame`).  Ops (one per line):

  reset                                                  forget everything
  cfg <minLen> <markerhex> <timeout> <recvBytes> <queueCap>
  peer <urn> <key> <addr> <lastComms> <lastAttempt> <0|1 flagReset> <stashLen>   append a peer
  seal <byteshex> <plaintext-utf8-hex>                   ideal AEAD: exactly the sealed byte strings open
  json <json-utf8-hex> <ok|dist|value|system|other>      verdict of _incoming_from_json on that text
  conn <new|old> <accepted> <addr> <clock,csv> <script>  one call of _tcp_incoming_handle_client;
                                                         script = comma separated  c<hex> | e | s   (or `-`)
  accepttimeout                                          accept() raised socket.timeout
  split <plaintext-utf8-hex>                             _split_plaintext alone

`conn` answers  `<outcome> reads=<k> caught=<0|1> peers=<urn:addr:lastComms:lastAttempt:flag:stashLen;…> queue=<n>`.
Unknown / malformed input answers `bad-op`.
-/
namespace Bobo.Drv.Frame
open Bobo.Frame

structure DS where
  cfg    : Cfg := { minLen := 52, marker := [66, 79, 66, 79], timeout := 3, recvBytes := 2048, queueCap := 0 }
  st     : St := ⟨[], []⟩
  sealed : List (Bytes × String) := []
  jsons  : List (String × Option Exc) := []

def hexVal (c : Char) : Option Nat :=
  if '0' ≤ c ∧ c ≤ '9' then some (c.toNat - '0'.toNat)
  else if 'a' ≤ c ∧ c ≤ 'f' then some (c.toNat - 'a'.toNat + 10)
  else none

def hexBytes : List Char → Option Bytes
  | [] => some []
  | [_] => none
  | a :: b :: r =>
    match hexVal a, hexVal b, hexBytes r with
    | some x, some y, some t => some ((x * 16 + y) :: t)
    | _, _, _ => none

/-- `-` is the empty byte string. -/
def parseHex (s : String) : Option Bytes := if s = "-" then some [] else hexBytes s.toList

def parseText (s : String) : Option String :=
  match parseHex s with
  | none => none
  | some bs => String.fromUTF8? (ByteArray.mk (bs.map (fun n => n.toUInt8)).toArray)

def hexDigit (n : Nat) : Char := if n < 10 then Char.ofNat (48 + n) else Char.ofNat (87 + n)
def textHex (s : String) : String :=
  if s.isEmpty then "-"
  else String.ofList (s.toUTF8.toList.flatMap (fun b => [hexDigit (b.toNat / 16), hexDigit (b.toNat % 16)]))

def parseCsvInts (s : String) : Option (List Int) :=
  if s = "-" then some [] else (s.splitOn ",").mapM (fun w => w.toInt?)

def parseScriptTok (w : String) : Option RecvResult :=
  if w = "e" then some .eof
  else if w = "s" then some .silent
  else match w.toList with
    | 'c' :: r => (hexBytes r).map .chunk
    | _ => none

def parseScript (s : String) : Option (List RecvResult) :=
  if s = "-" then some [] else (s.splitOn ",").mapM parseScriptTok

def lookup {α β : Type} [DecidableEq α] (k : α) : List (α × β) → Option β
  | [] => none
  | (a, b) :: r => if a = k then some b else lookup k r

def parseVerdict : String → Option (Option Exc)
  | "ok" => some none
  | "dist" => some (some .distErr)
  | "value" => some (some .valueErr)
  | "system" => some (some .systemErr)
  | "other" => some (some .otherExc)
  | _ => none

/-- the verdict tables as `Ops`; a JSON text nobody registered answers the sentinel `baseExc`. -/
def DS.ops (d : DS) : Ops where
  decrypt := fun bs => lookup bs d.sealed
  parse := fun j => match lookup j d.jsons with
    | some v => v
    | none => some .baseExc

def peerStr (p : Peer) : String :=
  s!"{p.urn}:{p.addr}:{p.lastComms}:{p.lastAttempt}:{boolStr p.flagReset}:{p.stash.length}"

def stStr (st : St) : String :=
  s!"peers={";".intercalate (st.peers.map peerStr)} queue={st.queue.length}"

def outStr : Outcome → String
  | .accepted => "accepted"
  | .rejected e => "rejected-" ++ e.name
  | .blocked => "blocked"
  | .clockOut => "clockout"

def outCaught : Outcome → Bool
  | .accepted => true
  | .rejected e => caught handlers e
  | _ => false

def step (d : DS) (line : String) : DS × String :=
  match words line with
  | ["reset"] => ({}, "ok")
  | ["cfg", ml, mk, to, rb, qc] =>
    match ml.toNat?, parseHex mk, to.toInt?, rb.toNat?, qc.toNat? with
    | some ml, some mk, some to, some rb, some qc =>
      ({ d with cfg := { minLen := ml, marker := mk, timeout := to, recvBytes := rb, queueCap := qc } }, "ok")
    | _, _, _, _, _ => (d, "bad-op")
  | ["peer", urn, key, addr, lc, la, fr, sl] =>
    match lc.toInt?, la.toInt?, sl.toNat? with
    | some lc, some la, some sl =>
      if fr ≠ "0" ∧ fr ≠ "1" then (d, "bad-op")
      else
        let p : Peer := ⟨urn, key, addr, lc, la, fr = "1", List.range sl⟩
        ({ d with st := { d.st with peers := d.st.peers ++ [p] } }, "ok")
    | _, _, _ => (d, "bad-op")
  | ["seal", bs, pt] =>
    match parseHex bs, parseText pt with
    | some bs, some pt => ({ d with sealed := (bs, pt) :: d.sealed }, "ok")
    | _, _ => (d, "bad-op")
  | ["json", j, v] =>
    match parseText j, parseVerdict v with
    | some j, some v => ({ d with jsons := (j, v) :: d.jsons }, "ok")
    | _, _ => (d, "bad-op")
  | ["conn", which, acc, addr, clock, script] =>
    match acc.toInt?, parseCsvInts clock, parseScript script with
    | some acc, some clock, some script =>
      if which ≠ "new" ∧ which ≠ "old" then (d, "bad-op")
      else
        let c : Conn := ⟨acc, clock, script, addr⟩
        let r := if which = "new" then handle d.ops d.cfg c d.st else handleOld d.ops d.cfg c d.st
        if r.out = .rejected .baseExc then (d, "bad-op")
        else ({ d with st := r.st }, s!"{outStr r.out} reads={r.reads} caught={boolStr (outCaught r.out)} {stStr r.st}")
    | _, _, _ => (d, "bad-op")
  | ["accepttimeout"] => (d, s!"rejected-socktimeout reads=0 caught={boolStr (caught handlers .sockTimeout)} {stStr d.st}")
  | ["split", pt] =>
    match parseText pt with
    | none => (d, "bad-op")
    | some pt =>
      match splitPlain pt with
      | .error e => (d, "err " ++ e.name)
      | .ok f => (d, s!"ok urn={textHex f.urn} key={textHex f.key} type={f.type} flags={f.flags} json={textHex f.json}")
  | _ => (d, "bad-op")

end Bobo.Drv.Frame
