import BoboVerif.Model.Tcp
import BoboVerif.Drivers.Util
/-
driver for M-Tcp (`bobodrv modes`).  Records are run ids (`String`); lists are comma separated, `-` = empty.

  new <self> <pping> <presync> <astash> <aping> <aresync> <flag01> <urn> <urn> ...   -> ok
  newdef <self> <flag01> <urn> <urn> ...        (constructor default periods)         -> ok
  set <urn> <last_comms> <last_attempt> <resets> <flag01> <c> <h> <u>                  -> state
  push <c> <h> <u>                              (on_decider_update, local)             -> state
  in <urn> <flags>                              (listener handled a message from urn)  -> state
  pass <now> <snapC> <snapH> <snapU> <urn>:<err>:<clock> ...   (one entry per device other than self)
        -> wires=<urn|type|flags|c|h|u ; ...> # state
        (computed by `outIter`; cross-checked against the small-step `passSmall` with an empty schedule:
         a difference answers `model-mismatch`)
  passmid <now> <snapC> <snapH> <snapU> <urn>:<err>:<clock> ... @ <pt>:<urn>:<from>:<flags> ...
        one pass in small steps (`passSmall`); each `@` entry: while the outgoing thread is at boundary <pt> of
        device <urn> (bs before `resets` is read, bc before `last_comms` is read, br before the rest is read,
        bp before the send-loop body, ds during `_tcp_send`, ba before `last_attempt = now`, end: after the pass)
        the listener handles a message with <flags> from device <from>; entries of one boundary in the order given
        -> same format as pass
  state = <urn|last_comms|last_attempt|resets|flag|c|h|u ; ...> q=<len>
-/
namespace Bobo.Drv.Modes
open Bobo.Tcp

structure DS where
  st : Option (TState String) := none

def parseList (s : String) : List String :=
  if s = "-" then [] else s.splitOn ","

def showList (l : List String) : String :=
  if l.isEmpty then "-" else ",".intercalate l

def parseBool? (s : String) : Option Bool :=
  if s = "0" then some false else if s = "1" then some true else none

def showPeer (e : String × Peer String) : String :=
  "|".intercalate [e.1, toString e.2.lastComms, toString e.2.lastAttempt, toString e.2.resets, boolStr e.2.flagReset,
    showList e.2.stashC, showList e.2.stashH, showList e.2.stashU]

def showState (s : TState String) : String :=
  " ; ".intercalate (s.peers.map showPeer) ++ " q=" ++ toString s.queue.length

def showWire (s : TState String) (w : Wire String) : String :=
  let urn := match s.peers[w.peer]? with
    | some e => e.1
    | none => "?"
  "|".intercalate [urn, toString w.typ.code, toString w.flags,
    showList w.payload.c, showList w.payload.h, showList w.payload.u]

def indexOf? (urn : String) : List (String × Peer String) → Option Nat
  | [] => none
  | e :: rest => if e.1 = urn then some 0 else (indexOf? urn rest).map (· + 1)

def mkState (self : String) (cfg : Periods) (flag : Bool) (urns : List String) : Option (TState String) :=
  -- the constructor rejects duplicate urns, fewer than two devices, and a device list without `self`
  if urns.length < 2 || !(urns.contains self) || !urns.Nodup then none
  else some ⟨self, cfg, [], urns.map (fun u => (u, Peer.init flag))⟩

def parseOutcome (s : TState String) (w : String) : Option (Nat × Nat × Int) :=
  match w.splitOn ":" with
  | [u, e, c] =>
    match indexOf? u s.peers, parseNat? e, parseInt? c with
    | some i, some e, some c => some (i, e, c)
    | _, _, _ => none
  | _ => none

def lookupOutcome (l : List (Nat × Nat × Int)) (i : Nat) : Nat × Int :=
  match l.lookup i with
  | some r => r
  | none => (2, 0)   -- unreachable: `pass` checks that every non-self device has an entry

def others (s : TState String) : List Nat :=
  (List.range s.peers.length).filter (fun i =>
    match s.peers[i]? with
    | some e => e.1 ≠ s.self
    | none => false)

def showPass (s s' : TState String) (wires : List (Wire String)) : String :=
  "wires=" ++ " ; ".intercalate (wires.map (showWire s)) ++ " # " ++ showState s'

def parsePoint (k : String) (i : Nat) : Option Point :=
  match k with
  | "bs" => some (.beforeResets i)
  | "bc" => some (.beforeComms i)
  | "br" => some (.beforeRest i)
  | "bp" => some (.beforePre i)
  | "ds" => some (.duringSend i)
  | "ba" => some (.beforeAttempt i)
  | "end" => some .atEnd
  | _ => none

def parseEvent (s : TState String) (w : String) : Option (Point × Nat × Nat) :=
  match w.splitOn ":" with
  | [k, u, frm, fl] =>
    match indexOf? u s.peers, indexOf? frm s.peers, parseNat? fl with
    | some i, some j, some fl => (parsePoint k i).map (fun pt => (pt, j, fl))
    | _, _, _ => none
  | _ => none

def step (d : DS) (line : String) : DS × String :=
  match words line, d.st with
  | "new" :: self :: pp :: pr :: as :: ap :: ar :: fl :: urns, _ =>
    match parseInt? pp, parseInt? pr, parseInt? as, parseInt? ap, parseInt? ar, parseBool? fl with
    | some pp, some pr, some as, some ap, some ar, some fl =>
      match mkState self ⟨pp, pr, as, ap, ar⟩ fl urns with
      | some s => ({ st := some s }, "ok")
      | none => (d, "bad-op")
    | _, _, _, _, _, _ => (d, "bad-op")
  | "newdef" :: self :: fl :: urns, _ =>
    match parseBool? fl with
    | some fl =>
      match mkState self Periods.default fl urns with
      | some s => ({ st := some s }, "ok")
      | none => (d, "bad-op")
    | none => (d, "bad-op")
  | ["set", urn, lc, la, rs, fl, c, h, u], some s =>
    match indexOf? urn s.peers, parseInt? lc, parseInt? la, parseNat? rs, parseBool? fl with
    | some i, some lc, some la, some rs, some fl =>
      let s' := { s with peers := s.peers.set i (urn, ⟨lc, la, rs, fl, parseList c, parseList h, parseList u⟩) }
      ({ st := some s' }, showState s')
    | _, _, _, _, _ => (d, "bad-op")
  | ["push", c, h, u], some s =>
    let s' := push s ⟨parseList c, parseList h, parseList u⟩
    ({ st := some s' }, showState s')
  | ["in", urn, fl], some s =>
    match indexOf? urn s.peers, parseNat? fl with
    | some i, some fl =>
      let s' := incoming s i fl
      ({ st := some s' }, showState s')
    | _, _ => (d, "bad-op")
  | "pass" :: now :: sc :: sh :: su :: outs, some s =>
    match parseInt? now, outs.mapM (parseOutcome s) with
    | some now, some ol =>
      if (others s).all (fun i => (ol.lookup i).isSome) then
        let snap : Msg String := ⟨parseList sc, parseList sh, parseList su⟩
        let r := outIter s now snap (lookupOutcome ol)
        let r' := passSmall s now (fun _ => s.queue.isEmpty) snap (lookupOutcome ol) (fun _ => [])
        let line := showPass s r.1 r.2
        if line = showPass s r'.1 r'.2.1 then ({ st := some r.1 }, line) else (d, "model-mismatch")
      else (d, "bad-op")
    | _, _ => (d, "bad-op")
  | "passmid" :: now :: sc :: sh :: su :: rest, some s =>
    let outs := rest.takeWhile (· ≠ "@")
    let evs := (rest.dropWhile (· ≠ "@")).drop 1
    match parseInt? now, outs.mapM (parseOutcome s), evs.mapM (parseEvent s) with
    | some now, some ol, some evl =>
      if (others s).all (fun i => (ol.lookup i).isSome) then
        let snap : Msg String := ⟨parseList sc, parseList sh, parseList su⟩
        let sched : Point → List (Nat × Nat) := fun pt => (evl.filter (fun x => x.1 = pt)).map (·.2)
        let r := passSmall s now (fun _ => s.queue.isEmpty) snap (lookupOutcome ol) sched
        ({ st := some r.1 }, showPass s r.1 r.2.1)
      else (d, "bad-op")
    | _, _, _ => (d, "bad-op")
  | _, _ => (d, "bad-op")

end Bobo.Drv.Modes
