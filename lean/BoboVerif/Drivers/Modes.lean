import BoboVerif.Model.Tcp
import BoboVerif.Drivers.Util
/-
driver for M-Tcp (`bobodrv modes`).  Records are run ids (`String`); lists are comma separated, `-` = empty.

  new <self> <pping> <presync> <astash> <aping> <aresync> <flag01> <urn> <urn> ...   -> ok
  newdef <self> <flag01> <urn> <urn> ...        (constructor default periods)         -> ok
  set <urn> <last_comms> <last_attempt> <flag01> <c> <h> <u>                           -> state
  push <c> <h> <u>                              (on_decider_update, local)             -> state
  in <urn> <flags>                              (listener handled a message from urn)  -> state
  pass <now> <snapC> <snapH> <snapU> <urn>:<err>:<clock> ...   (one entry per device other than self)
        -> wires=<urn|type|flags|c|h|u ; ...> # state
  state = <urn|last_comms|last_attempt|flag|c|h|u ; ...> q=<len>
-/
namespace Bobo.Drv.Modes
open Bobo.Tcp

structure DS where
  st : Option (TState String) := none

def parseList (s : String) : List String :=
  if s = "-" then [] else s.splitOn ","

def showList (l : List String) : String :=
  if l.isEmpty then "-" else ",".intercalate l

def parseBool? (s : String) : Option Bool :=
  if s = "0" then some false else if s = "1" then some true else none

def showPeer (e : String × Peer String) : String :=
  "|".intercalate [e.1, toString e.2.lastComms, toString e.2.lastAttempt, boolStr e.2.flagReset,
    showList e.2.stashC, showList e.2.stashH, showList e.2.stashU]

def showState (s : TState String) : String :=
  " ; ".intercalate (s.peers.map showPeer) ++ " q=" ++ toString s.queue.length

def showWire (s : TState String) (w : Wire String) : String :=
  let urn := match s.peers[w.peer]? with
    | some e => e.1
    | none => "?"
  "|".intercalate [urn, toString w.typ.code, toString w.flags,
    showList w.payload.c, showList w.payload.h, showList w.payload.u]

def indexOf? (urn : String) : List (String × Peer String) → Option Nat
  | [] => none
  | e :: rest => if e.1 = urn then some 0 else (indexOf? urn rest).map (· + 1)

def mkState (self : String) (cfg : Periods) (flag : Bool) (urns : List String) : Option (TState String) :=
  -- the constructor rejects duplicate urns, fewer than two devices, and a device list without `self`
  if urns.length < 2 || !(urns.contains self) || !urns.Nodup then none
  else some ⟨self, cfg, [], urns.map (fun u => (u, Peer.init flag))⟩

def parseOutcome (s : TState String) (w : String) : Option (Nat × Nat × Int) :=
  match w.splitOn ":" with
  | [u, e, c] =>
    match indexOf? u s.peers, parseNat? e, parseInt? c with
    | some i, some e, some c => some (i, e, c)
    | _, _, _ => none
  | _ => none

def lookupOutcome (l : List (Nat × Nat × Int)) (i : Nat) : Nat × Int :=
  match l.lookup i with
  | some r => r
  | none => (2, 0)   -- unreachable: `pass` checks that every non-self device has an entry

def step (d : DS) (line : String) : DS × String :=
  match words line, d.st with
  | "new" :: self :: pp :: pr :: as :: ap :: ar :: fl :: urns, _ =>
    match parseInt? pp, parseInt? pr, parseInt? as, parseInt? ap, parseInt? ar, parseBool? fl with
    | some pp, some pr, some as, some ap, some ar, some fl =>
      match mkState self ⟨pp, pr, as, ap, ar⟩ fl urns with
      | some s => ({ st := some s }, "ok")
      | none => (d, "bad-op")
    | _, _, _, _, _, _ => (d, "bad-op")
  | "newdef" :: self :: fl :: urns, _ =>
    match parseBool? fl with
    | some fl =>
      match mkState self Periods.default fl urns with
      | some s => ({ st := some s }, "ok")
      | none => (d, "bad-op")
    | none => (d, "bad-op")
  | ["set", urn, lc, la, fl, c, h, u], some s =>
    match indexOf? urn s.peers, parseInt? lc, parseInt? la, parseBool? fl with
    | some i, some lc, some la, some fl =>
      let s' := { s with peers := s.peers.set i (urn, ⟨lc, la, fl, parseList c, parseList h, parseList u⟩) }
      ({ st := some s' }, showState s')
    | _, _, _, _ => (d, "bad-op")
  | ["push", c, h, u], some s =>
    let s' := push s ⟨parseList c, parseList h, parseList u⟩
    ({ st := some s' }, showState s')
  | ["in", urn, fl], some s =>
    match indexOf? urn s.peers, parseNat? fl with
    | some i, some fl =>
      let s' := incoming s i fl
      ({ st := some s' }, showState s')
    | _, _ => (d, "bad-op")
  | "pass" :: now :: sc :: sh :: su :: outs, some s =>
    match parseInt? now, outs.mapM (parseOutcome s) with
    | some now, some ol =>
      let others := (List.range s.peers.length).filter (fun i =>
        match s.peers[i]? with
        | some e => e.1 ≠ s.self
        | none => false)
      if others.all (fun i => (ol.lookup i).isSome) then
        let r := outIter s now ⟨parseList sc, parseList sh, parseList su⟩ (lookupOutcome ol)
        ({ st := some r.1 }, "wires=" ++ " ; ".intercalate (r.2.map (showWire s)) ++ " # " ++ showState r.1)
      else (d, "bad-op")
    | _, _ => (d, "bad-op")
  | _, _ => (d, "bad-op")

end Bobo.Drv.Modes
