import BoboVerif.Drivers.Util
/- driver stub for the Modes model (to be replaced by the real line protocol). -/
namespace Bobo.Drv.Modes

structure DS where
  dummy : Unit := ()

def step (d : DS) (_line : String) : DS × String := (d, "unimplemented")

end Bobo.Drv.Modes
