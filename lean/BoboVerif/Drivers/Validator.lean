import BoboVerif.Model.Validator
import BoboVerif.Drivers.Util
/-
driver for M-Validator (`bobodrv validator`).

A value is represented by its handle and by the *library facts* about it that the
harness measured directly (json.dumps / jsonschema.validate / isinstance / type ==,
on the bare value `d…` and on the event object wrapping it `e…`): the model decides
the verdict from them through `isValid`, and runs the receiver gate.

  val all | val json | val type <sub:0/1> <n> | val schema      -> ok
  chk <wrap> <facts>                                            -> 1 | 0
  rnew <maxSize>                                                -> ok
  add <wrap> <eid|-> <ts|-> <facts>                             -> ok | full
  upd                                                           -> <ret:0/1> - | <ret> <kind> <id> <ts> <handle>
  close                                                         -> ok
  wrap  ::= b (bare) | s | c | a (simple / complex / action event carrying the value)
  facts ::= <handle> <isNone> <dOk> <dSch> <dInst> <dTy> <eOk> <eSch> <eInst> <eTy>
            (single bits; the Inst/Ty fields are bit strings of length n, `-` when n = 0)
-/
namespace Bobo.Drv.Validator
open Bobo.Validator

structure Facts where
  h      : Nat
  isNone : Bool
  dOk    : Bool
  dSch   : Bool
  dInst  : List Bool
  dTy    : List Bool
  eOk    : Bool
  eSch   : Bool
  eInst  : List Bool
  eTy    : List Bool

def lib : Lib Facts Nat Unit where
  dumpsOk  | .bare d => d.dOk | .event e => e.data.eOk
  schemaOk | _, .bare d => d.dSch | _, .event e => e.data.eSch
  isInst   | .bare d, i => d.dInst.getD i false | .event e, i => e.data.eInst.getD i false
  typeIs   | .bare d, i => d.dTy.getD i false | .event e, i => e.data.eTy.getD i false

def fresh : Fresh := ⟨fun n => "id" ++ toString n, fun n => 1000 + n⟩

structure DS where
  v       : V Nat Unit := .all
  ntypes  : Nat := 0
  maxSize : Nat := 0
  r       : RSt Facts := {}

def bit? : String → Option Bool
  | "0" => some false
  | "1" => some true
  | _ => none

def bits? (n : Nat) (s : String) : Option (List Bool) :=
  if s = "-" then (if n = 0 then some [] else none)
  else
    let cs := s.toList
    if cs.length = n && n > 0 && cs.all (fun c => c == '0' || c == '1') then some (cs.map (· == '1')) else none

def facts? (n : Nat) : List String → Option Facts
  | [h, nn, dOk, dSch, dInst, dTy, eOk, eSch, eInst, eTy] => do
    let h ← parseNat? h
    let nn ← bit? nn
    let dOk ← bit? dOk
    let dSch ← bit? dSch
    let dInst ← bits? n dInst
    let dTy ← bits? n dTy
    let eOk ← bit? eOk
    let eSch ← bit? eSch
    let eInst ← bits? n eInst
    let eTy ← bits? n eTy
    pure ⟨h, nn, dOk, dSch, dInst, dTy, eOk, eSch, eInst, eTy⟩
  | _ => none

def kind? : String → Option Kind
  | "s" => some .simple
  | "c" => some .complex
  | "a" => some .action
  | _ => none

def kindStr : Kind → String
  | .simple => "s" | .complex => "c" | .action => "a"

/-- the Python object: bare value or event of the given kind carrying it. -/
def datum? (wrap eid ts : String) (f : Facts) : Option (Datum Facts) :=
  if wrap = "b" then (if eid = "-" && ts = "-" then some (.bare f) else none)
  else do
    let k ← kind? wrap
    let t ← parseInt? ts
    if eid = "-" then none else pure (.event ⟨k, eid, t, f⟩)

def isNoneD : Datum Facts → Bool
  | .bare d => d.isNone
  | .event _ => false

def step (d : DS) (line : String) : DS × String :=
  match words line with
  | ["val", "all"] => ({ d with v := .all, ntypes := 0 }, "ok")
  | ["val", "json"] => ({ d with v := .jsonable, ntypes := 0 }, "ok")
  | ["val", "schema"] => ({ d with v := .schema (), ntypes := 0 }, "ok")
  | ["val", "type", sub, n] =>
    match bit? sub, parseNat? n with
    | some sub, some n => ({ d with v := .type (List.range n) sub, ntypes := n }, "ok")
    | _, _ => (d, "bad-op")
  | "chk" :: wrap :: fs =>
    match facts? d.ntypes fs with
    | some f =>
      match datum? wrap (if wrap = "b" then "-" else "e") (if wrap = "b" then "-" else "0") f with
      | some x => (d, boolStr (isValid lib d.v x))
      | none => (d, "bad-op")
    | none => (d, "bad-op")
  | ["rnew", m] =>
    match parseNat? m with
    | some m => ({ d with maxSize := m, r := {} }, "ok")
    | none => (d, "bad-op")
  | "add" :: wrap :: eid :: ts :: fs =>
    match facts? d.ntypes fs with
    | some f =>
      match datum? wrap eid ts f with
      | some x =>
        let (r', ret) := rstep (isValid lib d.v) fresh d.maxSize isNoneD d.r (.add x)
        ({ d with r := r' }, match ret with | .queueFull => "full" | _ => "ok")
      | none => (d, "bad-op")
    | none => (d, "bad-op")
  | ["upd"] =>
    let n0 := d.r.out.length
    let (r', ret) := rstep (isValid lib d.v) fresh d.maxSize isNoneD d.r .update
    let rs := match ret with | .bool b => boolStr b | _ => "?"
    let pub := match r'.out.drop n0 with
      | [] => "-"
      | [e] => kindStr e.kind ++ " " ++ e.id ++ " " ++ toString e.ts ++ " " ++ toString e.data.h
      | _ => "more-than-one"
    ({ d with r := r' }, rs ++ " " ++ pub)
  | ["close"] => ({ d with r := (rstep (isValid lib d.v) fresh d.maxSize isNoneD d.r .close).1 }, "ok")
  | _ => (d, "bad-op")

end Bobo.Drv.Validator
